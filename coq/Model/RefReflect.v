(* Model/RefReflect.v — the REFERENCE semantics of the protoreflect API for proto3 messages: what the
   documentation of google.golang.org/protobuf/reflect/protoreflect says and what its two implementations
   (dynamicpb, and the struct-based reflection of protoimpl.MessageInfo) agree on. Independent of any Go
   representation:
     - a message is a finite map  field index -> populated value; an absent entry is an unpopulated field.
       There is no nil-vs-empty: a list / map field is present exactly when it is non-empty, a proto3 scalar
       outside a oneof exactly when it is non-zero (a float: when its bits are non-zero, so -0 is populated),
       a message field or a oneof member exactly when it was set (zero values included); bytes are byte strings;
     - a oneof is not a separate thing: its members are ordinary entries of which at most one is present
       (Set / Mutable of a member removes the others; Clear of a member removes only that member);
     - messages, and the lists / maps under construction that NewField returns, have identity (an index into
       the abstract heap); a list / map view is a reference to the place the container lives in (a field of a
       message, or a NewField variable), so that writes through a view obtained from Mutable are seen by the message;
     - Get of an unpopulated message / list / map field gives the empty READ-ONLY value (AOMsg _ None, view RNil):
       every read of it sees an empty value, every write to it panics;
     - Set of a singular message field, List.Append/Set and Map.Set of an invalid (read-only) message panic
       ("If the composite value is an empty, read-only value, then it panics", protoreflect.Message.Set).
   Where the documentation is silent and the two implementations disagree (aliasing after Set of a composite, use of
   a view after its field was cleared, Clear on a read-only message, Truncate beyond Len, Set of a oneof member /
   Append with an invalid message, Value type mix-ups) this model makes the simplest choice; those corners are excluded
   from the refinement theorem by [well_scopedb] (Model/ReflectAbs.v) and from the validation against protobuf-go by the
   engine (steps on which the two implementations disagree are not compared).
   Operations are Reflect.op (operands are earlier results: message handles, views, scalars); only the TYPES op / pval /
   cref and the neutral helpers in_bounds, val_key_eqb, wt_scalar are shared with the model of the generated code.
   Definitions only. *)
From CP Require Export Schema WF Reflect.
Local Open Scope N_scope.

Inductive aelem := AEScalar (v : val) | AEMsg (q : nat).
Inductive aval :=
| AScalar (v : val)
| AMsg (q : nat)
| AList (l : list aelem)                      (* non-empty *)
| AMap (m : list (val * aelem)).               (* non-empty, keys pairwise different *)

Record aobj := mkAObj { a_mid : nat; a_fields : list (option aval); a_unk : list byte }.
Inductive aent := AObj (o : aobj) | AListVar (l : list aelem) | AMapVar (m : list (val * aelem)).
Definition aheap := list aent.

(* results: as Reflect.pval, without the nil-vs-empty distinction (scalars are normalised) *)
Inductive aout :=
| AOScalar (v : val)
| AOMsg (mid : nat) (p : option nat)           (* None: the empty read-only message *)
| AOList (t : ftype) (r : cref)                (* RNil: the empty read-only list *)
| AOMap (kk : kind) (t : ftype) (r : cref)
| AOField (f : option nat)
| AOUnit
| AOBool (b : bool)
| AOBytes (l : list byte)
| AORange (l : list (nat * aout))
| AOMapRange (l : list (val * aout))
| AOInvalid
| AOPanic.

(* a result used as an operand of a later operation *)
Definition to_operand (o : aout) : pval :=
  match o with
  | AOScalar v => PScalar v
  | AOMsg m p => PMsg m p
  | AOList t r => PList t r
  | AOMap kk t r => PMap kk t r
  | AOBool b => PBool b
  | AOUnit => PUnit
  | AOPanic => PPanic
  | _ => PInvalid
  end.

(* ---- scalars --------------------------------------------------------------------------------- *)
Definition nscalar (v : val) : val := match v with VNil => VBytes [] | _ => v end.
Definition ref_zero (k : kind) : val :=
  match k with
  | KBool => VBool false
  | KFloat | KDouble => VBits 0
  | KString | KBytes => VBytes []
  | _ => VInt 0
  end.
(* implicit presence of a proto3 scalar outside a oneof *)
Definition ref_populated (k : kind) (v : val) : bool :=
  match k, v with
  | KBool, VBool b => b
  | (KFloat | KDouble), VBits n => negb (n =? 0)
  | (KString | KBytes), VBytes l => match l with [] => false | _ => true end
  | (KFloat | KDouble | KBool | KString | KBytes), _ => false
  | _, VInt z => negb (z =? 0)%Z
  | _, _ => false
  end.

Definition isSome {A} (x : option A) : bool := match x with Some _ => true | None => false end.

(* ---- values crossing the API ------------------------------------------------------------------ *)
Definition aelem_out (t : ftype) (e : aelem) : aout :=
  match t, e with
  | TScalar _, AEScalar v => AOScalar v
  | TMsg m, AEMsg q => AOMsg m (Some q)
  | _, _ => AOInvalid
  end.
(* a Value assignable to an element of type t; the read-only message is not *)
Definition aelem_in (t : ftype) (v : pval) : option aelem :=
  match t, v with
  | TScalar k, PScalar s => if wt_scalar k s then Some (AEScalar (nscalar s)) else None
  | TMsg m, PMsg m' (Some q) => if Nat.eqb m m' then Some (AEMsg q) else None
  | _, _ => None
  end.
Definition aval_of_elem (e : aelem) : aval := match e with AEScalar v => AScalar v | AEMsg q => AMsg q end.

Definition norm_list (l : list aelem) : option aval := match l with [] => None | _ => Some (AList l) end.
Definition norm_map (m : list (val * aelem)) : option aval := match m with [] => None | _ => Some (AMap m) end.

(* finite maps as association lists *)
Fixpoint amassoc (m : list (val * aelem)) (k : val) : option aelem :=
  match m with
  | [] => None
  | (k', e) :: t => if val_key_eqb k' k then Some e else amassoc t k
  end.
Fixpoint amput (m : list (val * aelem)) (k : val) (e : aelem) : list (val * aelem) :=
  match m with
  | [] => [(k, e)]
  | (k', e') :: t => if val_key_eqb k' k then (k, e) :: t else (k', e') :: amput t k e
  end.
Fixpoint amdel (m : list (val * aelem)) (k : val) : list (val * aelem) :=
  match m with
  | [] => []
  | (k', e') :: t => if val_key_eqb k' k then t else (k', e') :: amdel t k
  end.

(* ---- messages ------------------------------------------------------------------------------------ *)
Definition afield (o : aobj) (f : nat) : option aval :=
  match nth_error (a_fields o) f with Some x => x | None => None end.
Definition aset (o : aobj) (f : nat) (x : option aval) : aobj :=
  mkAObj (a_mid o) (set_nth (a_fields o) f x) (a_unk o).

Definition is_member (fd : field) (j : nat) : bool :=
  match f_shape fd with Member j' => Nat.eqb j' j | _ => false end.
(* remove every member of oneof j *)
Fixpoint aclear_oneof (fs : list field) (j : nat) (vals : list (option aval)) : list (option aval) :=
  match vals with
  | [] => []
  | x :: xt =>
    match fs with
    | [] => x :: xt
    | fd :: ft => (if is_member fd j then None else x) :: aclear_oneof ft j xt
    end
  end.
(* the member of oneof j that is present *)
Fixpoint awhich (fs : list field) (j : nat) (vals : list (option aval)) (i : nat) : option nat :=
  match fs, vals with
  | fd :: ft, x :: xt => if is_member fd j && isSome x then Some i else awhich ft j xt (S i)
  | _, _ => None
  end.

Definition aget_obj (a : aheap) (id : nat) : option aobj :=
  match nth_error a id with Some (AObj o) => Some o | _ => None end.

Section RefStep.
  Variable sch : schema.

  Definition afields_of (mid : nat) : list field :=
    match get_msg sch mid with Some md => m_fields md | None => [] end.
  Definition afield_of (mid f : nat) : option field := nth_error (afields_of mid) f.

  Definition aempty (mid : nat) : aobj := mkAObj mid (repeat None (length (afields_of mid))) [].

  (* the receiver of a Message method: the read-only message reads as an empty one *)
  Definition arecv (a : aheap) (mid : nat) (p : option nat) : option aobj :=
    match p with
    | None => Some (aempty mid)
    | Some id => match aget_obj a id with
                 | Some o => if Nat.eqb (a_mid o) mid then Some o else None
                 | None => None
                 end
    end.

  Definition ref_default (fd : field) : aout :=
    match f_shape fd with
    | Rep _ => AOList (f_ty fd) RNil
    | MapOf kk => AOMap kk (f_ty fd) RNil
    | _ => match f_ty fd with TScalar k => AOScalar (ref_zero k) | TMsg m => AOMsg m None end
    end.

  (* own = None: the receiver is read-only, so are the composites it gives out *)
  Definition ref_get (o : aobj) (own : option nat) (f : nat) (fd : field) : aout :=
    match afield o f, own with
    | Some (AScalar v), _ => AOScalar v
    | Some (AMsg q), _ => match f_ty fd with TMsg m => AOMsg m (Some q) | _ => AOInvalid end
    | Some (AList _), Some id => AOList (f_ty fd) (RField id f)
    | Some (AMap _), Some id => match f_shape fd with MapOf kk => AOMap kk (f_ty fd) (RField id f) | _ => AOInvalid end
    | _, _ => ref_default fd
    end.

  Fixpoint arange (o : aobj) (own : option nat) (i : nat) (fs : list field) : list (nat * aout) :=
    match fs with
    | [] => []
    | fd :: t => (if isSome (afield o i) then [(i, ref_get o own i fd)] else []) ++ arange o own (S i) t
    end.

  (* the container a view refers to; an unpopulated list / map field is an empty container *)
  Definition aread_list (a : aheap) (r : cref) : option (list aelem) :=
    match r with
    | RNil => None
    | RVar id => match nth_error a id with Some (AListVar l) => Some l | _ => None end
    | RField o f =>
      match aget_obj a o with
      | Some ob => match afield_of (a_mid ob) f with
                   | Some fd => match f_shape fd with
                                | Rep _ => Some (match afield ob f with Some (AList l) => l | _ => [] end)
                                | _ => None
                                end
                   | None => None
                   end
      | None => None
      end
    end.
  Definition awrite_list (a : aheap) (r : cref) (l : list aelem) : aheap :=
    match r with
    | RNil => a
    | RVar id => set_nth a id (AListVar l)
    | RField o f => match aget_obj a o with Some ob => set_nth a o (AObj (aset ob f (norm_list l))) | None => a end
    end.
  Definition aread_map (a : aheap) (r : cref) : option (list (val * aelem)) :=
    match r with
    | RNil => None
    | RVar id => match nth_error a id with Some (AMapVar m) => Some m | _ => None end
    | RField o f =>
      match aget_obj a o with
      | Some ob => match afield_of (a_mid ob) f with
                   | Some fd => match f_shape fd with
                                | MapOf _ => Some (match afield ob f with Some (AMap m) => m | _ => [] end)
                                | _ => None
                                end
                   | None => None
                   end
      | None => None
      end
    end.
  Definition awrite_map (a : aheap) (r : cref) (m : list (val * aelem)) : aheap :=
    match r with
    | RNil => a
    | RVar id => set_nth a id (AMapVar m)
    | RField o f => match aget_obj a o with Some ob => set_nth a o (AObj (aset ob f (norm_map m))) | None => a end
    end.

  Definition aput (a : aheap) (id : nat) (o : aobj) : aheap := set_nth a id (AObj o).

  Definition ref_step (a : aheap) (o : op) : aheap * aout :=
    match o with
    | ONew mid => (a ++ [AObj (aempty mid)], AOMsg mid (Some (length a)))
    | ONil mid => (a, AOMsg mid None)

    | OHas (PMsg mid p) f =>
      match afield_of mid f, arecv a mid p with
      | Some fd, Some ob => (a, AOBool (isSome (afield ob f)))
      | _, _ => (a, AOPanic)
      end
    | OGet (PMsg mid p) f =>
      match afield_of mid f, arecv a mid p with
      | Some fd, Some ob => (a, ref_get ob p f fd)
      | _, _ => (a, AOPanic)
      end
    | OWhichOneof (PMsg mid p) j =>
      match get_msg sch mid, arecv a mid p with
      | Some md, Some ob =>
        if (j <? m_oneofs md)%nat then (a, AOField (awhich (m_fields md) j (a_fields ob) 0)) else (a, AOPanic)
      | _, _ => (a, AOPanic)
      end
    | ORange (PMsg mid p) =>
      match arecv a mid p with
      | Some ob => (a, AORange (arange ob p 0 (afields_of mid)))
      | None => (a, AOPanic)
      end
    | OIsValid (PMsg _ p) => (a, AOBool (isSome p))
    | OGetUnknown (PMsg mid p) =>
      match arecv a mid p with
      | Some ob => (a, AOBytes (a_unk ob))
      | None => (a, AOPanic)
      end
    | ONewField (PMsg mid _) f =>
      match afield_of mid f with
      | None => (a, AOPanic)
      | Some fd =>
        match f_shape fd, f_ty fd with
        | Rep _, t => (a ++ [AListVar []], AOList t (RVar (length a)))
        | MapOf kk, t => (a ++ [AMapVar []], AOMap kk t (RVar (length a)))
        | _, TScalar k => (a, AOScalar (ref_zero k))
        | _, TMsg m => (a ++ [AObj (aempty m)], AOMsg m (Some (length a)))
        end
      end

    (* mutating methods: the read-only message panics (falls to the last case) *)
    | OSetUnknown (PMsg mid (Some id)) u =>
      match arecv a mid (Some id) with
      | Some ob => (aput a id (mkAObj (a_mid ob) (a_fields ob) u), AOUnit)
      | None => (a, AOPanic)
      end
    | OClear (PMsg mid (Some id)) f =>
      match afield_of mid f, arecv a mid (Some id) with
      | Some fd, Some ob => (aput a id (aset ob f None), AOUnit)
      | _, _ => (a, AOPanic)
      end
    | OSet (PMsg mid (Some id)) f v =>
      match afield_of mid f, arecv a mid (Some id) with
      | Some fd, Some ob =>
        match f_shape fd with
        | Singular =>
          match f_ty fd, aelem_in (f_ty fd) v with
          | TScalar k, Some (AEScalar s) => (aput a id (aset ob f (if ref_populated k s then Some (AScalar s) else None)), AOUnit)
          | TMsg _, Some (AEMsg q) => (aput a id (aset ob f (Some (AMsg q))), AOUnit)
          | _, _ => (a, AOPanic)
          end
        | Member j =>
          match aelem_in (f_ty fd) v with
          | Some e => (aput a id (mkAObj (a_mid ob) (set_nth (aclear_oneof (afields_of mid) j (a_fields ob)) f (Some (aval_of_elem e))) (a_unk ob)), AOUnit)
          | None => (a, AOPanic)
          end
        | Rep _ =>
          match v with
          | PList _ r => match aread_list a r with
                         | Some l => (aput a id (aset ob f (norm_list l)), AOUnit)
                         | None => (a, AOPanic)
                         end
          | _ => (a, AOPanic)
          end
        | MapOf _ =>
          match v with
          | PMap _ _ r => match aread_map a r with
                          | Some m => (aput a id (aset ob f (norm_map m)), AOUnit)
                          | None => (a, AOPanic)
                          end
          | _ => (a, AOPanic)
          end
        end
      | _, _ => (a, AOPanic)
      end
    | OMutable (PMsg mid (Some id)) f =>
      match afield_of mid f, arecv a mid (Some id) with
      | Some fd, Some ob =>
        match f_shape fd, f_ty fd with
        | Singular, TMsg m =>
          match afield ob f with
          | Some (AMsg q) => (a, AOMsg m (Some q))
          | _ => (aput (a ++ [AObj (aempty m)]) id (aset ob f (Some (AMsg (length a)))), AOMsg m (Some (length a)))
          end
        | Member j, TMsg m =>
          match afield ob f with
          | Some (AMsg q) => (a, AOMsg m (Some q))
          | _ => (aput (a ++ [AObj (aempty m)]) id
                       (mkAObj (a_mid ob) (set_nth (aclear_oneof (afields_of mid) j (a_fields ob)) f (Some (AMsg (length a)))) (a_unk ob)),
                  AOMsg m (Some (length a)))
          end
        | Rep _, t => (a, AOList t (RField id f))
        | MapOf kk, t => (a, AOMap kk t (RField id f))
        | _, _ => (a, AOPanic)
        end
      | _, _ => (a, AOPanic)
      end

    (* ---- List ---- *)
    | OLLen (PList _ r) => (a, AOScalar (VInt (Z.of_nat (match aread_list a r with Some l => length l | None => 0%nat end))))
    | OLGet (PList t r) i =>
      match aread_list a r with
      | Some l => if in_bounds i (length l) then (a, aelem_out t (nth (Z.to_nat i) l (AEMsg 0))) else (a, AOPanic)
      | None => (a, AOPanic)
      end
    | OLSet (PList t r) i v =>
      match aread_list a r, aelem_in t v with
      | Some l, Some e => if in_bounds i (length l) then (awrite_list a r (set_nth l (Z.to_nat i) e), AOUnit) else (a, AOPanic)
      | _, _ => (a, AOPanic)
      end
    | OLAppend (PList t r) v =>
      match aread_list a r, aelem_in t v with
      | Some l, Some e => (awrite_list a r (l ++ [e]), AOUnit)
      | _, _ => (a, AOPanic)
      end
    | OLAppendMutable (PList t r) =>
      match t, aread_list a r with
      | TMsg m, Some l => (awrite_list (a ++ [AObj (aempty m)]) r (l ++ [AEMsg (length a)]), AOMsg m (Some (length a)))
      | _, _ => (a, AOPanic)
      end
    | OLTruncate (PList _ r) n =>
      match aread_list a r with
      | Some l => if ((0 <=? n) && (n <=? Z.of_nat (length l)))%Z then (awrite_list a r (firstn (Z.to_nat n) l), AOUnit) else (a, AOPanic)
      | None => (a, AOPanic)
      end
    | OLNewElement (PList t _) =>
      match t with
      | TScalar k => (a, AOScalar (ref_zero k))
      | TMsg m => (a ++ [AObj (aempty m)], AOMsg m (Some (length a)))
      end
    | OIsValid (PList _ r) => (a, AOBool (match r with RNil => false | _ => true end))

    (* ---- Map (a key of the wrong type is a type error) ---- *)
    | OMLen (PMap _ _ r) => (a, AOScalar (VInt (Z.of_nat (match aread_map a r with Some m => length m | None => 0%nat end))))
    | OMHas (PMap kk _ r) k =>
      if wt_scalar kk k then (a, AOBool (match aread_map a r with Some m => isSome (amassoc m k) | None => false end)) else (a, AOPanic)
    | OMGet (PMap kk t r) k =>
      if wt_scalar kk k
      then (a, match aread_map a r with
               | Some m => match amassoc m k with Some e => aelem_out t e | None => AOInvalid end
               | None => AOInvalid
               end)
      else (a, AOPanic)
    | OMSet (PMap kk t r) k v =>
      match aread_map a r, aelem_in t v with
      | Some m, Some e => if wt_scalar kk k then (awrite_map a r (amput m k e), AOUnit) else (a, AOPanic)
      | _, _ => (a, AOPanic)
      end
    | OMClear (PMap kk _ r) k =>
      if wt_scalar kk k
      then match aread_map a r with
           | Some m => (awrite_map a r (amdel m k), AOUnit)
           | None => (a, AOUnit)
           end
      else (a, AOPanic)
    | OMMutable (PMap kk t r) k =>
      match t, aread_map a r with
      | TMsg mm, Some m =>
        if wt_scalar kk k then
          match amassoc m k with
          | Some e => (a, aelem_out t e)
          | None => (awrite_map (a ++ [AObj (aempty mm)]) r (amput m k (AEMsg (length a))), AOMsg mm (Some (length a)))
          end
        else (a, AOPanic)
      | _, _ => (a, AOPanic)
      end
    | OMNewValue (PMap _ t _) =>
      match t with
      | TScalar k => (a, AOScalar (ref_zero k))
      | TMsg m => (a ++ [AObj (aempty m)], AOMsg m (Some (length a)))
      end
    | OMRange (PMap _ t r) =>
      (a, AOMapRange (match aread_map a r with Some m => map (fun kv => (fst kv, aelem_out t (snd kv))) m | None => [] end))
    | OIsValid (PMap _ _ r) => (a, AOBool (match r with RNil => false | _ => true end))

    | _ => (a, AOPanic)
    end.

  (* a history given as the operations executed, in order *)
  Definition ref_exec (os : list op) : aheap * list aout :=
    fold_left (fun (st : aheap * list aout) (o : op) =>
                 let (a, outs) := st in
                 let (a', r) := ref_step a o in (a', outs ++ [r]))
              os ([], []).

  (* ---- the message value an abstract object denotes (normalised: what reading the message through the API
     gives), with fuel; used to compare whole message states ------------------------------------------------ *)
  Fixpoint mapi_from {A B} (f : nat -> A -> B) (i : nat) (l : list A) : list B :=
    match l with [] => [] | x :: t => f i x :: mapi_from f (S i) t end.

  Fixpoint arender (fuel : nat) (a : aheap) (mid : nat) (p : option nat) {struct fuel} : val :=
    match fuel with
    | O => VNil
    | S fu =>
      let ob := match p with
                | Some id => match aget_obj a id with Some o => o | None => aempty mid end
                | None => aempty mid
                end in
      let relem (t : ftype) (e : aelem) : val :=
        match e with
        | AEScalar v => v
        | AEMsg q => match t with TMsg m => arender fu a m (Some q) | TScalar _ => VNil end
        end in
      VMsg (mapi_from
              (fun i fd =>
                 match f_shape fd with
                 | Rep _ => VList (match afield ob i with Some (AList l) => map (relem (f_ty fd)) l | _ => [] end)
                 | MapOf _ => VMap (match afield ob i with Some (AMap m) => map (fun kv => (fst kv, relem (f_ty fd) (snd kv))) m | _ => [] end)
                 | Member _ =>
                   match afield ob i with
                   | Some (AScalar v) => VSome v
                   | Some (AMsg q) => VSome (relem (f_ty fd) (AEMsg q))
                   | _ => VNil
                   end
                 | Singular =>
                   match f_ty fd with
                   | TScalar k => match afield ob i with Some (AScalar v) => v | _ => ref_zero k end
                   | TMsg _ => match afield ob i with Some (AMsg q) => relem (f_ty fd) (AEMsg q) | _ => VNil end
                   end
                 end)
              0 (afields_of (a_mid ob)))
           (a_unk ob)
    end.
End RefStep.
