(* Model/RapidProg.v — translator tie for the HAND-WRITTEN Go of /repo/rapidproto/rapidproto.go (task T16, property C18).

   A statement / expression language that is a literal image of what that file is made of, a fuelled interpreter over the
   message VALUES and the draw tape of Model/RapidGen.v, the CANONICAL program (one constant: the current source transcribed
   once; the engine "rapidprog" re-translates the source on every run and the driver compares, declaration by declaration,
   with this constant) and the statement that ties the canonical program to the hand-written model: interpreting the canonical
   `MessageGenerator` = [RapidGen.gen] (Definitions here; proofs in Proofs/RapidProgProofs.v, theorems in Properties/C18.v).

   Reading guide
   * Expressions [rexpr]: literals, locals / package-level constants, the fields of the options struct ([rofield]), `!`, binary
     operators (`&&` and `||` are lazy), ONE CONSTRUCTOR [RxMeth] for a method call whose method is one of the protoreflect /
     rapid / testing methods the file uses ([rmeth]: by NAME, as in the source — `Len`, `Get`, `Set`, `Clear`, `Mutable`,
     `MapKey`, `Message` … are overloaded by the kind of the receiver exactly as in Go), [RxFn] for a call of a package
     function or builtin ([rfn]: rapid.Bool … rapid.SliceOfN, protoreflect.ValueOfInt32 …, fmt.Sprintf, proto.Marshal,
     proto.HasExtension / GetExtension, assert.Assert / NilError, len, panic, conversions), [RxCall] for a call of a function
     of the file (`opts.setFields(…)`, `setSecondsNanosFields(…)`) or of a local of function type (`fm(t, field, name)`),
     `m[k]` in comma-ok form, `e.(T)`.
   * A rapid draw is `g.Draw(t, label)` = [RxMeth RmDraw g [t; label]] where g is built by the rapid.* constructors: its
     meaning is "consume the next draw(s) of the tape, constrained to that generator's range" with EXACTLY the functions
     [draw_z], [draw_bool], [draw_string], [draw_bytes], [draw_path], [draw_many] that RapidGen.gen consumes its tape with.
     Labels are evaluated and ignored.
   * Statements [rstmt]: `:=`, `=`, `var x T`, expression statements, `if init; c {…} else {…}`, `switch tag {case …}` /
     `switch {case cond: …}` (default last), `for i := 0; i < n; i++ {…}` ([RsFor]: n is read when the loop is entered) and
     `for _, x := range e {…}` (the body of a loop assigns no variable declared outside it, nor i or n: checked by the translator), `return`, `continue`, and
     `return rapid.Custom(func(t *rapid.T) T {…})` as one form ([RsReturnCustom]).
   * Values [rval]: Go ints (unbounded Z: nothing here comes near 2^63), bools, floats by their bits, strings with content
     ([RvStr]) and strings the model only knows as "some text" ([RvLabel]: field names, draw labels, messages), full names and
     type URLs of message types SYMBOLICALLY ([RvName tm], [RvUrl tm] = "/" + name: what [gopts] holds), kinds, field
     descriptors ([rfd]: nil, field idx of message mid, the synthetic key / value field of a map field), descriptors, enum
     value lists, message types, HANDLES ([RvH]: a protoreflect.Message / List / Map, or a Value holding one), scalar
     protoreflect.Values ([RvPV v], v a model value), the *rapid.T, the options, errors, generators, the FieldMappers.
   * The store: a list of ROOT values (root 0 = the message a function was handed, or the first one it made; `typ.New()` and
     `msg.NewField(f)` add roots); a handle is (root, path, kind), a path descends through slots, oneof wrappers, list
     elements and map values ([vget] / [vset]). The protoreflect operations are defined on the model's values exactly as
     RapidGen.gen manipulates them: Mutable of a nil message slot stores [fresh], of a oneof member clears the other members
     ([clear_oneof]), Map.Mutable / Set = [map_set], Map.Clear = [map_remove], Truncate = [firstn] …
   * Calls of functions of the file: at most ONE argument is a handle; the callee runs on a store whose root 0 is a copy of
     the message the handle points to and the caller's message is replaced by the callee's root 0 when it returns (the heap
     is a tree and the callee has no other access path: trusted reading of Go, see DESIGN 12.7). Every call consumes one
     unit of fuel; nothing else does (the loops are bounded by their counts).
   * Outcomes: [RErr] = the draw is abandoned (t.Fatalf, a failed assert.Assert / NilError), [RPanic] = Go panics, [RFuel], and [RStuck] =
     what Go's compiler would reject or the model has no answer for (the name of a field of an ordinary message, a regular
     expression other than the FieldMask one …). The interpreter never guesses.
   * Names: extracted into the same OCaml module as the other models: constructors carry prefixes of their own (Rx…, Rs…, Rv…,
     Rm…, Rf…, Rk…, Ro…, Rb…, Rd…, Gs…, Fd…, Hk…, Sg…, functions rp_…).
   Executable definitions only. *)
From CP Require Export RapidGen.
From CP Require Import GoFun.     (* gname (names and string literals: a byte list with a string notation), str_eq *)

(* ==== syntax ========================================================================================================== *)
Inductive rkind := RkScalar (k : kind) | RkMessage | RkGroup.           (* protoreflect.XKind *)
Inductive rbin := RbAdd | RbSub | RbDiv | RbEq | RbNe | RbLt | RbGt | RbAnd | RbOr.
Inductive rofield := RoAnyTypeURLs | RoInterfaceHints | RoResolver | RoNoEmptyLists | RoDisallowNilMessages | RoFieldMaps.

(* methods, by name *)
Inductive rmeth :=
| RmProtoReflect | RmType | RmNew | RmInterface | RmDescriptor | RmFullName | RmFields | RmLen | RmGet | RmByName
| RmName | RmKind | RmIsList | RmIsMap | RmMapKey | RmMapValue | RmEnum | RmValues | RmNumber | RmOptions
| RmMutable | RmSet | RmClear | RmNewField | RmList | RmMap | RmMessage
| RmAppend | RmAppendMutable | RmTruncate | RmDraw | RmFatalf | RmFindMessageByURL.

(* package functions and builtins *)
Inductive rfn :=
| RfRapidBool | RfRapidInt32 | RfRapidUint32 | RfRapidInt64 | RfRapidUint64 | RfRapidFloat32 | RfRapidFloat64
| RfRapidString | RfRapidByte | RfRapidSliceOf | RfRapidSliceOfN | RfRapidStringMatching | RfRapidSampledFrom
| RfRapidIntRange | RfRapidInt32Range | RfRapidInt64Range
| RfValueOfInt32 | RfValueOfUint32 | RfValueOfInt64 | RfValueOfUint64 | RfValueOfBool | RfValueOfBytes
| RfValueOfFloat32 | RfValueOfFloat64 | RfValueOfEnum | RfValueOfString | RfValueOfList
| RfSprintf | RfMarshal | RfHasExtension | RfGetExtension | RfAssert | RfNilError
| RfLen | RfPanic | RfString | RfInt | RfInt64.

Inductive rexpr :=
| RxNil                                                       (* nil *)
| RxBool (b : bool)                                           (* true / false *)
| RxInt (z : Z)                                               (* a numeric literal with an integral value *)
| RxStr (s : gname)                                           (* "…" *)
| RxVar (x : gname)                                           (* a local, a parameter, the receiver, else a constant of the file *)
| RxSel (e : rexpr) (f : rofield)                             (* e.F, e the options *)
| RxKind (k : rkind)                                          (* protoreflect.Int32Kind … *)
| RxMaxInt64                                                  (* math.MaxInt64 *)
| RxAcceptsInterface                                          (* cosmos_proto.E_AcceptsInterface *)
| RxNoValue                                                   (* protoreflect.Value{} *)
| RxNot (e : rexpr)
| RxBin (op : rbin) (a b : rexpr)
| RxFn (f : rfn) (args : list rexpr)                          (* pkg.F(args) / builtin(args) *)
| RxMeth (m : rmeth) (recv : rexpr) (args : list rexpr)       (* recv.M(args) *)
| RxCall (f : gname) (recv : option rexpr) (args : list rexpr) (* f(args) / recv.f(args), f declared in the file or a local *)
| RxIndexOk (m k : rexpr)                                     (* m[k] in `v, ok := m[k]` *)
| RxAssertType (e : rexpr) (ty : gname).                      (* e.(T) *)

Inductive rstmt :=
| RsDefine (xs : list gname) (e : rexpr)                      (* x, y := e *)
| RsAssign (xs : list gname) (e : rexpr)                      (* x, y = e *)
| RsVar (x ty : gname)                                        (* var x T *)
| RsExpr (e : rexpr)
| RsIf (init : list rstmt) (c : rexpr) (a b : list rstmt)     (* if init; c {a} else {b}; `else if` is b = [RsIf …] *)
| RsSwitch (tag : option rexpr) (cases : list (list rexpr * list rstmt)) (dflt : list rstmt)
| RsFor (i n : gname) (body : list rstmt)                     (* for i := 0; i < n; i++ {body} *)
| RsRange (x : gname) (e : rexpr) (body : list rstmt)         (* for _, x := range e {body} *)
| RsReturn (es : list rexpr)
| RsContinue
| RsReturnCustom (t tty rty : gname) (body : list rstmt).     (* return rapid.Custom(func(t tty) rty {body}) *)

(* type parameters, receiver and parameters with the text of their types, the texts of the result types, the body *)
Record rfun := { rf_name : gname; rf_tparams : list (gname * gname); rf_recv : option (gname * gname);
                 rf_params : list (gname * gname); rf_results : list gname; rf_body : list rstmt }.

Inductive rdecl :=
| RdConst (x : gname) (e : rexpr)                             (* const x = e *)
| RdFunc (f : rfun)
| RdOpaque (kind name text : gname).                          (* a type declaration, or a function outside the modelled part
                                                                 (the With… option builders): kind, name and the source text *)

(* ==== decidable equality of programs ================================================================================= *)
Definition kind_code (k : kind) : nat :=
  match k with
  | KDouble => 0 | KFloat => 1 | KInt32 => 2 | KInt64 => 3 | KUint32 => 4 | KUint64 => 5 | KSint32 => 6 | KSint64 => 7
  | KFixed32 => 8 | KFixed64 => 9 | KSfixed32 => 10 | KSfixed64 => 11 | KBool => 12 | KString => 13 | KBytes => 14 | KEnum => 15
  end%nat.
Definition rkind_eqb (a b : rkind) : bool :=
  match a, b with
  | RkScalar x, RkScalar y => kind_eqb x y
  | RkMessage, RkMessage | RkGroup, RkGroup => true
  | _, _ => false
  end.
Definition rbin_code (o : rbin) : nat :=
  match o with RbAdd => 0 | RbSub => 1 | RbDiv => 2 | RbEq => 3 | RbNe => 4 | RbLt => 5 | RbGt => 6 | RbAnd => 7 | RbOr => 8 end%nat.
Definition rofield_code (f : rofield) : nat :=
  match f with RoAnyTypeURLs => 0 | RoInterfaceHints => 1 | RoResolver => 2 | RoNoEmptyLists => 3 | RoDisallowNilMessages => 4 | RoFieldMaps => 5 end%nat.
Definition rmeth_code (m : rmeth) : nat :=
  match m with
  | RmProtoReflect => 0 | RmType => 1 | RmNew => 2 | RmInterface => 3 | RmDescriptor => 4 | RmFullName => 5 | RmFields => 6
  | RmLen => 7 | RmGet => 8 | RmByName => 9 | RmName => 10 | RmKind => 11 | RmIsList => 12 | RmIsMap => 13 | RmMapKey => 14
  | RmMapValue => 15 | RmEnum => 16 | RmValues => 17 | RmNumber => 18 | RmOptions => 19 | RmMutable => 20 | RmSet => 21
  | RmClear => 22 | RmNewField => 23 | RmList => 24 | RmMap => 25 | RmMessage => 26 | RmAppend => 27 | RmAppendMutable => 28
  | RmTruncate => 29 | RmDraw => 30 | RmFatalf => 31 | RmFindMessageByURL => 32
  end%nat.
Definition rfn_code (f : rfn) : nat :=
  match f with
  | RfRapidBool => 0 | RfRapidInt32 => 1 | RfRapidUint32 => 2 | RfRapidInt64 => 3 | RfRapidUint64 => 4 | RfRapidFloat32 => 5
  | RfRapidFloat64 => 6 | RfRapidString => 7 | RfRapidByte => 8 | RfRapidSliceOf => 9 | RfRapidSliceOfN => 10
  | RfRapidStringMatching => 11 | RfRapidSampledFrom => 12 | RfRapidIntRange => 13 | RfRapidInt32Range => 14 | RfRapidInt64Range => 15
  | RfValueOfInt32 => 16 | RfValueOfUint32 => 17 | RfValueOfInt64 => 18 | RfValueOfUint64 => 19 | RfValueOfBool => 20
  | RfValueOfBytes => 21 | RfValueOfFloat32 => 22 | RfValueOfFloat64 => 23 | RfValueOfEnum => 24 | RfValueOfString => 25
  | RfValueOfList => 26 | RfSprintf => 27 | RfMarshal => 28 | RfHasExtension => 29 | RfGetExtension => 30 | RfAssert => 31
  | RfNilError => 32 | RfLen => 33 | RfPanic => 34 | RfString => 35 | RfInt => 36 | RfInt64 => 37
  end%nat.

Fixpoint rp_names_eqb (a b : list gname) : bool :=
  match a, b with
  | [], [] => true
  | x :: a', y :: b' => str_eq x y && rp_names_eqb a' b'
  | _, _ => false
  end.

Section ListEqb.
  Variable A : Type.
  Variable eqb : A -> A -> bool.
  Fixpoint rp_list_eqb (l l' : list A) {struct l} : bool :=
    match l, l' with
    | [], [] => true
    | x :: t, y :: t' => eqb x y && rp_list_eqb t t'
    | _, _ => false
    end.
End ListEqb.
Arguments rp_list_eqb {A} eqb l l'.

Fixpoint rexpr_eqb (a b : rexpr) {struct a} : bool :=
  match a, b with
  | RxNil, RxNil => true
  | RxBool x, RxBool y => Bool.eqb x y
  | RxInt x, RxInt y => Z.eqb x y
  | RxStr x, RxStr y => str_eq x y
  | RxVar x, RxVar y => str_eq x y
  | RxSel e f, RxSel e' f' => rexpr_eqb e e' && Nat.eqb (rofield_code f) (rofield_code f')
  | RxKind k, RxKind k' => rkind_eqb k k'
  | RxMaxInt64, RxMaxInt64 => true
  | RxAcceptsInterface, RxAcceptsInterface => true
  | RxNoValue, RxNoValue => true
  | RxNot e, RxNot e' => rexpr_eqb e e'
  | RxBin o x y, RxBin o' x' y' => Nat.eqb (rbin_code o) (rbin_code o') && rexpr_eqb x x' && rexpr_eqb y y'
  | RxFn f l, RxFn f' l' => Nat.eqb (rfn_code f) (rfn_code f') && rp_list_eqb rexpr_eqb l l'
  | RxMeth m r l, RxMeth m' r' l' => Nat.eqb (rmeth_code m) (rmeth_code m') && rexpr_eqb r r' && rp_list_eqb rexpr_eqb l l'
  | RxCall f r l, RxCall f' r' l' =>
    str_eq f f' && match r, r' with Some x, Some y => rexpr_eqb x y | None, None => true | _, _ => false end
    && rp_list_eqb rexpr_eqb l l'
  | RxIndexOk x y, RxIndexOk x' y' => rexpr_eqb x x' && rexpr_eqb y y'
  | RxAssertType e t, RxAssertType e' t' => rexpr_eqb e e' && str_eq t t'
  | _, _ => false
  end.

Definition rp_opt_expr_eqb (a b : option rexpr) : bool :=
  match a, b with Some x, Some y => rexpr_eqb x y | None, None => true | _, _ => false end.

Fixpoint rstmt_eqb (a b : rstmt) {struct a} : bool :=
  match a, b with
  | RsDefine xs e, RsDefine xs' e' => rp_names_eqb xs xs' && rexpr_eqb e e'
  | RsAssign xs e, RsAssign xs' e' => rp_names_eqb xs xs' && rexpr_eqb e e'
  | RsVar x t, RsVar x' t' => str_eq x x' && str_eq t t'
  | RsExpr e, RsExpr e' => rexpr_eqb e e'
  | RsIf i c x y, RsIf i' c' x' y' =>
    rp_list_eqb rstmt_eqb i i' && rexpr_eqb c c' && rp_list_eqb rstmt_eqb x x' && rp_list_eqb rstmt_eqb y y'
  | RsSwitch t cs d, RsSwitch t' cs' d' =>
    rp_opt_expr_eqb t t'
    && (fix ceq (l l' : list (list rexpr * list rstmt)) {struct l} : bool :=
          match l, l' with
          | [], [] => true
          | (es, body) :: r, (es', body') :: r' => rp_list_eqb rexpr_eqb es es' && rp_list_eqb rstmt_eqb body body' && ceq r r'
          | _, _ => false
          end) cs cs'
    && rp_list_eqb rstmt_eqb d d'
  | RsFor i n body, RsFor i' n' body' => str_eq i i' && str_eq n n' && rp_list_eqb rstmt_eqb body body'
  | RsRange x e body, RsRange x' e' body' => str_eq x x' && rexpr_eqb e e' && rp_list_eqb rstmt_eqb body body'
  | RsReturn l, RsReturn l' => rp_list_eqb rexpr_eqb l l'
  | RsContinue, RsContinue => true
  | RsReturnCustom t a r body, RsReturnCustom t' a' r' body' =>
    str_eq t t' && str_eq a a' && str_eq r r' && rp_list_eqb rstmt_eqb body body'
  | _, _ => false
  end.

Definition rp_pair_eqb (a b : gname * gname) : bool := str_eq (fst a) (fst b) && str_eq (snd a) (snd b).
Definition rfun_eqb (f g : rfun) : bool :=
  str_eq (rf_name f) (rf_name g) && rp_list_eqb rp_pair_eqb (rf_tparams f) (rf_tparams g)
  && match rf_recv f, rf_recv g with Some x, Some y => rp_pair_eqb x y | None, None => true | _, _ => false end
  && rp_list_eqb rp_pair_eqb (rf_params f) (rf_params g) && rp_names_eqb (rf_results f) (rf_results g)
  && rp_list_eqb rstmt_eqb (rf_body f) (rf_body g).
Definition rdecl_eqb (a b : rdecl) : bool :=
  match a, b with
  | RdConst x e, RdConst y e' => str_eq x y && rexpr_eqb e e'
  | RdFunc f, RdFunc g => rfun_eqb f g
  | RdOpaque k n t, RdOpaque k' n' t' => str_eq k k' && str_eq n n' && str_eq t t'
  | _, _ => false
  end.
Definition rdecl_name (d : rdecl) : gname :=
  match d with RdConst x _ => x | RdFunc f => rf_name f | RdOpaque _ n _ => n end.

(* ==== values ========================================================================================================== *)
Inductive rfd := FdNil | FdField (mid idx : nat) | FdKey (mid idx : nat) | FdValue (mid idx : nat).
Inductive hkind := HkMsg (tm : nat) | HkList (mid idx : nat) | HkMap (mid idx : nat).
Inductive pstep := PField (i : nat) | PSome | PElem (i : nat) | PVal (k : val).
Record handle := { h_root : nat; h_path : list pstep; h_kind : hkind }.

(* what a rapid generator draws *)
Inductive gsem :=
| GsBool | GsZ (lo hi : Z) | GsF32 | GsF64 | GsString | GsByte
| GsSliceOf (g : gsem) | GsSliceOfN (g : gsem) (lo hi : Z) | GsMatching (re : list byte) | GsSampled (l : list nat).

Inductive rval :=
| RvNilV                                       (* untyped nil *)
| RvInt (z : Z) | RvBool (b : bool) | RvF32 (n : N) | RvF64 (n : N)
| RvStr (s : list byte)                        (* a string whose content is known *)
| RvLabel                                      (* some text: a field name, a draw label, a message *)
| RvBytes (b : list byte)
| RvStrs (l : list (list byte))                (* []string *)
| RvName (tm : nat)                            (* the full name of message type tm *)
| RvUrl (tm : nat)                             (* "/" + that name *)
| RvUrls (l : list nat)                        (* opts.AnyTypeURLs *)
| RvIfaceAny (ai : nat)                        (* the (accepts_interface) option as interface{} *)
| RvIface (ai : nat)                           (* … as a string: the interface, by index *)
| RvHints | RvResolver | RvMappers | RvMapper  (* opts.InterfaceHints / Resolver / FieldMaps, an element of FieldMaps *)
| RvKindV (k : rkind)
| RvFd (fd : rfd)
| RvFieldOpts (ai : option nat)                (* field.Options() *)
| RvExt                                        (* cosmos_proto.E_AcceptsInterface *)
| RvDesc (mid : nat) | RvFields (mid : nat)
| RvEnum (decl : list Z) | RvEnumVals (decl : list Z) | RvEnumVal (z : Z)
| RvMsgT (mid : nat)                           (* a proto.Message of type mid of which only the type is used (x, x.ProtoReflect()) *)
| RvType (tm : nat)                            (* protoreflect.MessageType *)
| RvH (h : handle)
| RvPV (v : val)                               (* a protoreflect.Value holding a scalar *)
| RvNoVal                                      (* protoreflect.Value{} *)
| RvT | RvOpts
| RvErr (isnil : bool)
| RvGen (g : gsem)
| RvCustom (en : list (gname * rval)) (t : gname) (body : list rstmt).   (* rapid.Custom(func(t …) … {body}) with its captured variables *)

Definition renv := list (gname * rval).
Definition rstore := list val.

Inductive rres (A : Type) :=
| ROk (a : A) (st : rstore) (tp : tape)
| RErr | RPanic | RFuel | RStuck.
Arguments ROk {A} a st tp.
Arguments RErr {A}.
Arguments RPanic {A}.
Arguments RFuel {A}.
Arguments RStuck {A}.

Definition rbind {A B} (r : rres A) (k : A -> rstore -> tape -> rres B) : rres B :=
  match r with ROk a st tp => k a st tp | RErr => RErr | RPanic => RPanic | RFuel => RFuel | RStuck => RStuck end.

Inductive rsig := SgNext (en : renv) | SgRet (vs : list rval) | SgCont (en : renv).

(* ---- environment (flat: the translator refuses a function in which a name is declared twice in nested scopes) ---------- *)
Definition rp_blank (x : gname) : bool := str_eq x (gname_of_bytes [x5f]).        (* _ *)
Fixpoint rp_get (x : gname) (en : renv) : option rval :=
  match en with
  | [] => None
  | (y, v) :: t => if str_eq x y then Some v else rp_get x t
  end.
Fixpoint rp_set (x : gname) (v : rval) (en : renv) : renv :=
  match en with
  | [] => [(x, v)]
  | (y, w) :: t => if str_eq x y then (y, v) :: t else (y, w) :: rp_set x v t
  end.
Fixpoint rp_define (xs : list gname) (vs : list rval) (en : renv) : option renv :=
  match xs, vs with
  | [], [] => Some en
  | x :: xs', v :: vs' => rp_define xs' vs' (if rp_blank x then en else rp_set x v en)
  | _, _ => None
  end.
Fixpoint rp_assign (xs : list gname) (vs : list rval) (en : renv) : option renv :=
  match xs, vs with
  | [], [] => Some en
  | x :: xs', v :: vs' =>
    if rp_blank x then rp_assign xs' vs' en
    else match rp_get x en with Some _ => rp_assign xs' vs' (rp_set x v en) | None => None end
  | _, _ => None
  end.

(* ---- the store ------------------------------------------------------------------------------------------------------- *)
Fixpoint vget (v : val) (p : list pstep) : option val :=
  match p with
  | [] => Some v
  | s :: p' =>
    match s, v with
    | PField i, VMsg slots _ => match nth_error slots i with Some x => vget x p' | None => None end
    | PSome, VSome x => vget x p'
    | PElem i, VList l => match nth_error l i with Some x => vget x p' | None => None end
    | PVal k, VMap kvs => match map_get kvs k with Some x => vget x p' | None => None end
    | _, _ => None
    end
  end.
Fixpoint vset (v : val) (p : list pstep) (x : val) : val :=
  match p with
  | [] => x
  | s :: p' =>
    match s, v with
    | PField i, VMsg slots u => match nth_error slots i with Some y => VMsg (set_nth slots i (vset y p' x)) u | None => v end
    | PSome, VSome y => VSome (vset y p' x)
    | PElem i, VList l => match nth_error l i with Some y => VList (set_nth l i (vset y p' x)) | None => v end
    | PVal k, VMap kvs => match map_get kvs k with Some y => VMap (map_set kvs k (vset y p' x)) | None => v end
    | _, _ => v
    end
  end.
Definition sget (st : rstore) (h : handle) : option val :=
  match nth_error st (h_root h) with Some v => vget v (h_path h) | None => None end.
Definition sset (st : rstore) (h : handle) (x : val) : rstore :=
  match nth_error st (h_root h) with Some v => set_nth st (h_root h) (vset v (h_path h) x) | None => st end.
Definition rp_sub (h : handle) (steps : list pstep) (k : hkind) : handle :=
  {| h_root := h_root h; h_path := h_path h ++ steps; h_kind := k |}.
Definition rp_root0 (k : hkind) : handle := {| h_root := 0; h_path := []; h_kind := k |}.

(* ---- well-known names ------------------------------------------------------------------------------------------------- *)
Local Open Scope gname_scope.
Definition rp_lit (s : gname) : list byte := gname_bytes s.
Definition wkt_of_name (s : list byte) : option wkt :=
  if gf_bytes_eqb s (rp_lit "google.protobuf.Timestamp") then Some WTimestamp
  else if gf_bytes_eqb s (rp_lit "google.protobuf.Duration") then Some WDuration
  else if gf_bytes_eqb s (rp_lit "google.protobuf.Any") then Some WAny
  else if gf_bytes_eqb s (rp_lit "google.protobuf.FieldMask") then Some WFieldMask
  else None.
Definition wkt_eqb (a b : wkt) : bool :=
  match a, b with
  | WNone, WNone | WTimestamp, WTimestamp | WDuration, WDuration | WAny, WAny | WFieldMask, WFieldMask => true
  | _, _ => false
  end.
(* fields.ByName(s) on a well-known type (layout: [wkt_layout]); the field names of other messages are not modelled *)
Definition wkt_field (w : wkt) (s : list byte) : option (option nat) :=
  match w with
  | WNone => None
  | WTimestamp | WDuration =>
    Some (if gf_bytes_eqb s (rp_lit "seconds") then Some 0%nat else if gf_bytes_eqb s (rp_lit "nanos") then Some 1%nat else None)
  | WAny =>
    Some (if gf_bytes_eqb s (rp_lit "type_url") then Some 0%nat else if gf_bytes_eqb s (rp_lit "value") then Some 1%nat else None)
  | WFieldMask => Some (if gf_bytes_eqb s (rp_lit "paths") then Some 0%nat else None)
  end.
Definition rp_path_regexp : list byte := rp_lit "[a-z]+([.][a-z]+){0,2}".
Definition rp_url_format : list byte := rp_lit "/%s".

(* ==== the interpreter ================================================================================================= *)
Section Interp.
  Variable o : gopts.
  Variable sch : schema.
  Variable ann : annots.
  Variable prog : list rdecl.

  (* ---- descriptors ---------------------------------------------------------------------------------------------------- *)
  Definition rp_field (mid idx : nat) : option field :=
    match get_msg sch mid with Some md => nth_error (m_fields md) idx | None => None end.
  Definition rp_fannot (mid idx : nat) : option fannot :=
    match nth_error ann mid with Some ma => nth_error (a_fields ma) idx | None => None end.
  Definition rp_kind_of_ty (t : ftype) : rkind := match t with TScalar k => RkScalar k | TMsg _ => RkMessage end.
  (* fd.Kind(): None = a nil descriptor or one the schema does not have *)
  Definition rp_fd_kind (fd : rfd) : option rkind :=
    match fd with
    | FdNil => None
    | FdField mid idx =>
      match rp_field mid idx with
      | Some f => Some (if msg_kind f then RkMessage else rp_kind_of_ty (f_ty f))
      | None => None
      end
    | FdKey mid idx =>
      match rp_field mid idx with
      | Some f => match f_shape f with MapOf kk => Some (RkScalar kk) | _ => None end
      | None => None
      end
    | FdValue mid idx => match rp_field mid idx with Some f => Some (rp_kind_of_ty (f_ty f)) | None => None end
    end.
  (* kind and declared enum numbers of a scalar field descriptor: what a FieldMapper looks at *)
  Definition rp_fd_scalar (fd : rfd) : option (kind * list Z) :=
    match fd with
    | FdNil => None
    | FdField mid idx | FdValue mid idx =>
      match rp_field mid idx, rp_fannot mid idx with
      | Some f, Some fa => match f_ty f with TScalar k => Some (k, a_enum fa) | TMsg _ => None end
      | _, _ => None
      end
    | FdKey mid idx =>
      match rp_field mid idx with
      | Some f => match f_shape f with MapOf kk => Some (kk, []) | _ => None end
      | None => None
      end
    end.
  Definition rp_fd_enum (fd : rfd) : option (list Z) :=
    match rp_fd_scalar fd with Some (_, decl) => Some decl | None => None end.

  (* ---- constants of the file ------------------------------------------------------------------------------------------ *)
  Fixpoint rp_find_const (p : list rdecl) (x : gname) : option rexpr :=
    match p with
    | [] => None
    | RdConst y e :: t => if str_eq x y then Some e else rp_find_const t x
    | _ :: t => rp_find_const t x
    end.
  Fixpoint rp_const_eval (e : rexpr) : option rval :=
    match e with
    | RxInt z => Some (RvInt z)
    | RxStr s => Some (RvStr (gname_bytes s))
    | RxMaxInt64 => Some (RvInt 9223372036854775807)
    | RxFn RfInt [a] | RxFn RfInt64 [a] => match rp_const_eval a with Some (RvInt z) => Some (RvInt z) | _ => None end
    | RxBin op a b =>
      match rp_const_eval a, rp_const_eval b with
      | Some (RvInt x), Some (RvInt y) =>
        match op with
        | RbAdd => Some (RvInt (x + y))
        | RbSub => Some (RvInt (x - y))
        | RbDiv => if (y =? 0)%Z then None else Some (RvInt (Z.quot x y))
        | _ => None
        end
      | _, _ => None
      end
    | _ => None
    end.

  (* ---- draws ---------------------------------------------------------------------------------------------------------- *)
  Definition rp_draw (g : gsem) (st : rstore) (tp : tape) : rres (list rval) :=
    match g with
    | GsBool => let (b, t) := draw_bool tp in ROk [RvBool b] st t
    | GsZ lo hi => if (hi <? lo)%Z then RPanic else let (z, t) := draw_z lo hi tp in ROk [RvInt z] st t
    | GsF32 => let (x, t) := draw tp in ROk [RvF32 (mk_finite32 x)] st t
    | GsF64 => let (x, t) := draw tp in ROk [RvF64 (mk_finite64 x)] st t
    | GsString => let (s, t) := draw_string tp in ROk [RvStr s] st t
    | GsSliceOf GsByte => let (b, t) := draw_bytes tp in ROk [RvBytes b] st t
    | GsSliceOfN (GsMatching re) lo hi =>
      if gf_bytes_eqb re rp_path_regexp && (0 <=? lo)%Z && (lo <=? hi)%Z then
        let (n, t1) := draw_n (Z.to_N lo) (Z.to_N hi) tp in
        let (paths, t2) := draw_many draw_path (N.to_nat n) t1 in
        ROk [RvStrs paths] st t2
      else RStuck
    | GsSampled l =>
      match l with
      | [] => RPanic
      | _ => let (i, t) := draw_n 0 (N.of_nat (length l) - 1) tp in ROk [RvUrl (nth (N.to_nat i) l 0%nat)] st t
      end
    | _ => RStuck
    end.

  (* fm(t, field, name), fm the FieldMapper the options stand for *)
  Definition rp_mapper (fd : rfd) (st : rstore) (tp : tape) : rres (list rval) :=
    match rp_fd_scalar fd with
    | None => RStuck
    | Some (k, decl) =>
      match o_fmap o k decl with
      | FmNone => ROk [RvNoVal; RvBool false] st tp
      | FmAlways _ g => let (x, t) := draw tp in ROk [RvPV (g x); RvBool true] st t
      | FmMaybe _ g =>
        let (b, t) := draw_bool tp in
        if b then let (x, t') := draw t in ROk [RvPV (g x); RvBool true] st t'
        else ROk [RvNoVal; RvBool false] st t
      end
    end.

  (* ---- operators ------------------------------------------------------------------------------------------------------- *)
  (* ==: a full name against a literal is answered by the annotation (which well-known type a message is) *)
  Definition rp_eq (a b : rval) : option bool :=
    match a, b with
    | RvInt x, RvInt y => Some (x =? y)%Z
    | RvBool x, RvBool y => Some (Bool.eqb x y)
    | RvKindV x, RvKindV y => Some (rkind_eqb x y)
    | RvFd fd, RvNilV | RvNilV, RvFd fd => Some (match fd with FdNil => true | _ => false end)
    | RvNilV, RvNilV => Some true
    | RvName tm, RvStr s | RvStr s, RvName tm =>
      match nth_error ann tm, wkt_of_name s with
      | Some ma, Some w => Some (wkt_eqb (a_wkt ma) w)
      | _, _ => None
      end
    | _, _ => None
    end.
  Definition rp_bin (op : rbin) (a b : rval) (st : rstore) (tp : tape) : rres (list rval) :=
    match op with
    | RbEq => match rp_eq a b with Some r => ROk [RvBool r] st tp | None => RStuck end
    | RbNe => match rp_eq a b with Some r => ROk [RvBool (negb r)] st tp | None => RStuck end
    | _ =>
      match a, b with
      | RvInt x, RvInt y =>
        match op with
        | RbAdd => ROk [RvInt (x + y)] st tp
        | RbSub => ROk [RvInt (x - y)] st tp
        | RbDiv => if (y =? 0)%Z then RPanic else ROk [RvInt (Z.quot x y)] st tp
        | RbLt => ROk [RvBool (x <? y)%Z] st tp
        | RbGt => ROk [RvBool (y <? x)%Z] st tp
        | _ => RStuck
        end
      | _, _ => RStuck
      end
    end.

  (* ---- package functions and builtins ------------------------------------------------------------------------------------ *)
  Definition rp_gen1 (g : gsem) (st : rstore) (tp : tape) : rres (list rval) := ROk [RvGen g] st tp.
  Definition rp_fn (f : rfn) (vs : list rval) (st : rstore) (tp : tape) : rres (list rval) :=
    match f, vs with
    | RfRapidBool, [] => rp_gen1 GsBool st tp
    | RfRapidInt32, [] => rp_gen1 (GsZ (-2147483648) 2147483647) st tp
    | RfRapidUint32, [] => rp_gen1 (GsZ 0 4294967295) st tp
    | RfRapidInt64, [] => rp_gen1 (GsZ (-9223372036854775808) 9223372036854775807) st tp
    | RfRapidUint64, [] => rp_gen1 (GsZ 0 18446744073709551615) st tp
    | RfRapidFloat32, [] => rp_gen1 GsF32 st tp
    | RfRapidFloat64, [] => rp_gen1 GsF64 st tp
    | RfRapidString, [] => rp_gen1 GsString st tp
    | RfRapidByte, [] => rp_gen1 GsByte st tp
    | RfRapidSliceOf, [RvGen g] => rp_gen1 (GsSliceOf g) st tp
    | RfRapidSliceOfN, [RvGen g; RvInt lo; RvInt hi] => rp_gen1 (GsSliceOfN g lo hi) st tp
    | RfRapidStringMatching, [RvStr re] => rp_gen1 (GsMatching re) st tp
    | RfRapidSampledFrom, [RvUrls l] => rp_gen1 (GsSampled l) st tp
    | RfRapidIntRange, [RvInt lo; RvInt hi] | RfRapidInt32Range, [RvInt lo; RvInt hi] | RfRapidInt64Range, [RvInt lo; RvInt hi] =>
      rp_gen1 (GsZ lo hi) st tp
    | RfValueOfInt32, [RvInt z] | RfValueOfUint32, [RvInt z] | RfValueOfInt64, [RvInt z] | RfValueOfUint64, [RvInt z]
    | RfValueOfEnum, [RvInt z] => ROk [RvPV (VInt z)] st tp
    | RfValueOfBool, [RvBool b] => ROk [RvPV (VBool b)] st tp
    | RfValueOfBytes, [RvBytes b] => ROk [RvPV (VBytes b)] st tp
    | RfValueOfFloat32, [RvF32 n] => ROk [RvPV (VBits n)] st tp
    | RfValueOfFloat64, [RvF64 n] => ROk [RvPV (VBits n)] st tp
    | RfValueOfString, [RvStr s] => ROk [RvPV (VBytes s)] st tp
    | RfValueOfString, [RvUrl tm] =>
      match nth_error ann tm with Some ma => ROk [RvPV (VBytes (url_of ma))] st tp | None => RStuck end
    | RfValueOfList, [RvH h] => match h_kind h with HkList _ _ => ROk [RvH h] st tp | _ => RStuck end
    | RfSprintf, RvStr fm :: args =>
      match args with
      | [RvName tm] => if gf_bytes_eqb fm rp_url_format then ROk [RvUrl tm] st tp else ROk [RvLabel] st tp
      | _ => ROk [RvLabel] st tp
      end
    | RfMarshal, [RvH h] =>
      match h_kind h, sget st h with
      | HkMsg tm, Some v =>
        match pulsar_marshal sch false tm v with
        | Ok bs => ROk [RvBytes bs; RvErr true] st tp
        | Err => ROk [RvNilV; RvErr false] st tp
        | Panic => RPanic
        | OutOfFuel => RFuel
        end
      | _, _ => RStuck
      end
    | RfHasExtension, [RvFieldOpts ai; RvExt] => ROk [RvBool (match ai with Some _ => true | None => false end)] st tp
    | RfGetExtension, [RvFieldOpts ai; RvExt] => match ai with Some i => ROk [RvIfaceAny i] st tp | None => RStuck end
    | RfAssert, [RvT; RvBool b] => if b then ROk [] st tp else RErr
    | RfNilError, [RvT; RvErr isnil] => if isnil then ROk [] st tp else RErr
    | RfLen, [RvUrls l] => ROk [RvInt (Z.of_nat (length l))] st tp
    | RfPanic, [_] => RPanic
    | RfString, [RvLabel] => ROk [RvLabel] st tp
    | RfString, [RvStr s] => ROk [RvStr s] st tp
    | RfInt, [RvInt z] | RfInt64, [RvInt z] => ROk [RvInt z] st tp
    | _, _ => RStuck
    end.

  (* ---- methods ------------------------------------------------------------------------------------------------------------ *)
  Definition rp_list_of (s : val) : list val := match s with VList l => l | _ => [] end.
  Definition rp_map_of (s : val) : list (val * val) := match s with VMap kvs => kvs | _ => [] end.

  (* msg.Mutable(field) *)
  Definition rp_msg_mutable (h : handle) (mid idx : nat) (st : rstore) (tp : tape) : rres (list rval) :=
    match sget st h, get_msg sch mid with
    | Some cur, Some md =>
      match nth_error (m_fields md) idx with
      | None => RPanic
      | Some f =>
        let slots := slots_of cur in
        let s := nth idx slots VNil in
        match f_shape f, f_ty f with
        | Singular, TMsg tm =>
          ROk [RvH (rp_sub h [PField idx] (HkMsg tm))] (sset st h (VMsg (set_nth slots idx (or_fresh sch tm s)) (unk_of cur))) tp
        | Rep _, _ =>
          ROk [RvH (rp_sub h [PField idx] (HkList mid idx))] (sset st h (VMsg (set_nth slots idx (VList (rp_list_of s))) (unk_of cur))) tp
        | MapOf _, _ =>
          ROk [RvH (rp_sub h [PField idx] (HkMap mid idx))] (sset st h (VMsg (set_nth slots idx (VMap (rp_map_of s))) (unk_of cur))) tp
        | Member oi, TMsg tm =>
          let target := match s with VSome p => or_fresh sch tm p | _ => fresh sch tm end in
          ROk [RvH (rp_sub h [PField idx; PSome] (HkMsg tm))]
              (sset st h (VMsg (set_nth (clear_oneof (m_fields md) slots oi) idx (VSome target)) (unk_of cur))) tp
        | _, TScalar _ => RPanic
        end
      end
    | Some _, None => RPanic
    | None, _ => RStuck
    end.

  (* msg.Set(field, v): v a scalar, or the contents of a detached list *)
  Definition rp_msg_set (h : handle) (mid idx : nat) (v : val) (st : rstore) (tp : tape) : rres (list rval) :=
    match sget st h, get_msg sch mid with
    | Some cur, Some md =>
      match nth_error (m_fields md) idx with
      | None => RPanic
      | Some f =>
        let slots := slots_of cur in
        match f_shape f with
        | Member oi => ROk [] (sset st h (VMsg (set_nth (clear_oneof (m_fields md) slots oi) idx (VSome v)) (unk_of cur))) tp
        | _ => ROk [] (sset st h (VMsg (set_nth slots idx v) (unk_of cur))) tp
        end
      end
    | Some _, None => RPanic
    | None, _ => RStuck
    end.

  (* msg.Clear(field) *)
  Definition rp_msg_clear (h : handle) (mid idx : nat) (st : rstore) (tp : tape) : rres (list rval) :=
    match sget st h, get_msg sch mid with
    | Some cur, Some md =>
      match nth_error (m_fields md) idx with
      | None => RPanic
      | Some f => ROk [] (sset st h (VMsg (set_nth (slots_of cur) idx (default_slot f)) (unk_of cur))) tp
      end
    | Some _, None => RPanic
    | None, _ => RStuck
    end.

  Definition rp_meth (m : rmeth) (r : rval) (vs : list rval) (st : rstore) (tp : tape) : rres (list rval) :=
    match m, r, vs with
    (* proto.Message / protoreflect.Message / MessageType *)
    | RmProtoReflect, RvMsgT mid, [] => ROk [RvMsgT mid] st tp
    | RmType, RvMsgT mid, [] => ROk [RvType mid] st tp
    | RmNew, RvType tm, [] =>
      ROk [RvH {| h_root := length st; h_path := []; h_kind := HkMsg tm |}] (st ++ [fresh sch tm]) tp
    | RmInterface, RvH h, [] => match h_kind h with HkMsg _ => ROk [RvH h] st tp | _ => RStuck end
    | RmDescriptor, RvH h, [] => match h_kind h with HkMsg tm => ROk [RvDesc tm] st tp | _ => RStuck end
    | RmFullName, RvDesc tm, [] => ROk [RvName tm] st tp
    | RmFields, RvDesc tm, [] => ROk [RvFields tm] st tp
    (* FieldDescriptors *)
    | RmLen, RvFields tm, [] =>
      match get_msg sch tm with Some md => ROk [RvInt (Z.of_nat (length (m_fields md)))] st tp | None => RPanic end
    | RmGet, RvFields tm, [RvInt i] =>
      match get_msg sch tm with
      | Some md => if (0 <=? i)%Z && (i <? Z.of_nat (length (m_fields md)))%Z then ROk [RvFd (FdField tm (Z.to_nat i))] st tp else RPanic
      | None => RPanic
      end
    | RmByName, RvFields tm, [RvStr s] =>
      match nth_error ann tm with
      | Some ma =>
        match wkt_field (a_wkt ma) s with
        | Some (Some i) => ROk [RvFd (FdField tm i)] st tp
        | Some None => ROk [RvFd FdNil] st tp
        | None => RStuck
        end
      | None => RPanic
      end
    (* FieldDescriptor *)
    | RmName, RvFd fd, [] => match fd with FdNil => RPanic | _ => ROk [RvLabel] st tp end
    | RmKind, RvFd fd, [] => match rp_fd_kind fd with Some k => ROk [RvKindV k] st tp | None => RPanic end
    | RmIsList, RvFd fd, [] =>
      match fd with
      | FdNil => RPanic
      | FdField mid idx =>
        match rp_field mid idx with Some f => ROk [RvBool (match f_shape f with Rep _ => true | _ => false end)] st tp | None => RPanic end
      | _ => ROk [RvBool false] st tp
      end
    | RmIsMap, RvFd fd, [] =>
      match fd with
      | FdNil => RPanic
      | FdField mid idx =>
        match rp_field mid idx with Some f => ROk [RvBool (match f_shape f with MapOf _ => true | _ => false end)] st tp | None => RPanic end
      | _ => ROk [RvBool false] st tp
      end
    | RmMapKey, RvFd fd, [] =>
      match fd with
      | FdField mid idx =>
        match rp_field mid idx with
        | Some f => match f_shape f with MapOf _ => ROk [RvFd (FdKey mid idx)] st tp | _ => ROk [RvFd FdNil] st tp end
        | None => RPanic
        end
      | FdNil => RPanic
      | _ => ROk [RvFd FdNil] st tp
      end
    | RmMapValue, RvFd fd, [] =>
      match fd with
      | FdField mid idx =>
        match rp_field mid idx with
        | Some f => match f_shape f with MapOf _ => ROk [RvFd (FdValue mid idx)] st tp | _ => ROk [RvFd FdNil] st tp end
        | None => RPanic
        end
      | FdNil => RPanic
      | _ => ROk [RvFd FdNil] st tp
      end
    | RmEnum, RvFd fd, [] => match rp_fd_enum fd with Some decl => ROk [RvEnum decl] st tp | None => RPanic end
    | RmValues, RvEnum decl, [] => ROk [RvEnumVals decl] st tp
    | RmLen, RvEnumVals decl, [] => ROk [RvInt (Z.of_nat (length decl))] st tp
    | RmGet, RvEnumVals decl, [RvInt i] =>
      if (0 <=? i)%Z && (i <? Z.of_nat (length decl))%Z then ROk [RvEnumVal (nth (Z.to_nat i) decl 0%Z)] st tp else RPanic
    | RmNumber, RvEnumVal z, [] => ROk [RvInt z] st tp
    | RmOptions, RvNilV, [] => RPanic                          (* a method of a nil interface *)
    | RmOptions, RvFd fd, [] =>
      match fd with
      | FdNil => RPanic
      | FdField mid idx => match rp_fannot mid idx with Some fa => ROk [RvFieldOpts (a_iface fa)] st tp | None => RPanic end
      | _ => ROk [RvFieldOpts None] st tp
      end
    (* protoreflect.Message *)
    | RmMutable, RvH h, [RvFd (FdField mid idx)] =>
      match h_kind h with
      | HkMsg _ => rp_msg_mutable h mid idx st tp
      | _ => RStuck
      end
    | RmSet, RvH h, [RvFd (FdField mid idx); RvPV v] =>
      match h_kind h with HkMsg _ => rp_msg_set h mid idx v st tp | _ => RStuck end
    | RmSet, RvH h, [RvFd (FdField mid idx); RvH hl] =>
      match h_kind h, h_kind hl, sget st hl with
      | HkMsg _, HkList _ _, Some (VList l) => rp_msg_set h mid idx (VList l) st tp
      | _, _, _ => RStuck
      end
    | RmClear, RvH h, [RvFd (FdField mid idx)] =>
      match h_kind h with HkMsg _ => rp_msg_clear h mid idx st tp | _ => RStuck end
    | RmNewField, RvH h, [RvFd (FdField mid idx)] =>
      match h_kind h, rp_field mid idx with
      | HkMsg _, Some f =>
        match f_shape f with
        | Rep _ => ROk [RvH {| h_root := length st; h_path := []; h_kind := HkList mid idx |}] (st ++ [VList []]) tp
        | _ => RStuck
        end
      | _, _ => RStuck
      end
    (* protoreflect.Value *)
    | RmList, RvH h, [] => match h_kind h with HkList _ _ => ROk [RvH h] st tp | _ => RPanic end
    | RmMap, RvH h, [] => match h_kind h with HkMap _ _ => ROk [RvH h] st tp | _ => RPanic end
    | RmMessage, RvH h, [] => match h_kind h with HkMsg _ => ROk [RvH h] st tp | _ => RPanic end
    | RmMapKey, RvPV v, [] => ROk [RvPV v] st tp
    (* protoreflect.List *)
    | RmLen, RvH h, [] =>
      match h_kind h, sget st h with
      | HkList _ _, Some (VList l) => ROk [RvInt (Z.of_nat (length l))] st tp
      | _, _ => RStuck
      end
    | RmAppend, RvH h, [RvPV v] =>
      match h_kind h, sget st h with
      | HkList _ _, Some (VList l) => ROk [] (sset st h (VList (l ++ [v]))) tp
      | _, _ => RStuck
      end
    | RmAppendMutable, RvH h, [] =>
      match h_kind h, sget st h with
      | HkList mid idx, Some (VList l) =>
        match rp_field mid idx with
        | Some f =>
          match f_ty f with
          | TMsg tm => ROk [RvH (rp_sub h [PElem (length l)] (HkMsg tm))] (sset st h (VList (l ++ [fresh sch tm]))) tp
          | TScalar _ => RPanic
          end
        | None => RPanic
        end
      | _, _ => RStuck
      end
    | RmTruncate, RvH h, [RvInt n] =>
      match h_kind h, sget st h with
      | HkList _ _, Some (VList l) =>
        if (0 <=? n)%Z && (n <=? Z.of_nat (length l))%Z then ROk [] (sset st h (VList (firstn (Z.to_nat n) l))) tp else RPanic
      | _, _ => RStuck
      end
    (* protoreflect.Map *)
    | RmMutable, RvH h, [RvPV k] =>
      match h_kind h, sget st h with
      | HkMap mid idx, Some (VMap kvs) =>
        match rp_field mid idx with
        | Some f =>
          match f_ty f with
          | TMsg tm =>
            let target := match map_get kvs k with Some v => or_fresh sch tm v | None => fresh sch tm end in
            ROk [RvH (rp_sub h [PVal k] (HkMsg tm))] (sset st h (VMap (map_set kvs k target))) tp
          | TScalar _ => RPanic
          end
        | None => RPanic
        end
      | _, _ => RStuck
      end
    | RmSet, RvH h, [RvPV k; RvPV v] =>
      match h_kind h, sget st h with
      | HkMap _ _, Some (VMap kvs) => ROk [] (sset st h (VMap (map_set kvs k v))) tp
      | _, _ => RStuck
      end
    | RmClear, RvH h, [RvPV k] =>
      match h_kind h, sget st h with
      | HkMap _ _, Some (VMap kvs) => ROk [] (sset st h (VMap (map_remove kvs k))) tp
      | _, _ => RStuck
      end
    (* rapid, testing *)
    | RmDraw, RvGen g, [RvT; _] => rp_draw g st tp
    | RmFatalf, RvT, _ => RErr
    | RmFindMessageByURL, RvResolver, [RvUrl tm] =>
      match nth_error ann tm with
      | Some _ => ROk [RvType tm; RvErr true] st tp
      | None => ROk [RvNilV; RvErr false] st tp
      end
    | _, _, _ => RStuck
    end.

  Definition rp_sel (r : rval) (f : rofield) : option rval :=
    match r with
    | RvOpts =>
      Some (match f with
            | RoAnyTypeURLs => RvUrls (o_any o)
            | RoInterfaceHints => RvHints
            | RoResolver => RvResolver
            | RoNoEmptyLists => RvBool (o_no_empty o)
            | RoDisallowNilMessages => RvBool (o_disallow_nil o)
            | RoFieldMaps => RvMappers
            end)
    | _ => None
    end.

  (* the one handle among the arguments of a call of a function of the file: the arguments with it moved to root 0 *)
  Fixpoint rp_borrow (vs : list rval) : option (option handle * list rval) :=
    match vs with
    | [] => Some (None, [])
    | RvH h :: t =>
      match rp_borrow t with
      | Some (None, t') => Some (Some h, RvH (rp_root0 (h_kind h)) :: t')
      | _ => None
      end
    | v :: t => match rp_borrow t with Some (oh, t') => Some (oh, v :: t') | None => None end
    end.

  Section Exec.
    (* a call of a function of the file on a store of its own *)
    Variable call : gname -> list rval -> rstore -> tape -> rres (list rval).

    Definition rp_call (f : gname) (vs : list rval) (st : rstore) (tp : tape) : rres (list rval) :=
      match rp_borrow vs with
      | None => RStuck
      | Some (None, vs') => match call f vs' [] tp with ROk rs _ tp' => ROk rs st tp' | r => r end
      | Some (Some h, vs') =>
        match sget st h with
        | None => RStuck
        | Some sub =>
          match call f vs' [sub] tp with
          | ROk rs (sub' :: _) tp' => ROk rs (sset st h sub') tp'
          | ROk _ [] _ => RStuck
          | r => r
          end
        end
      end.

    Section Lists.
      Variable ev : rexpr -> renv -> rstore -> tape -> rres (list rval).
      (* single-valued operands, left to right *)
      Fixpoint rp_evals (l : list rexpr) (en : renv) (st : rstore) (tp : tape) {struct l} : rres (list rval) :=
        match l with
        | [] => ROk [] st tp
        | x :: t =>
          rbind (ev x en st tp) (fun vs st1 tp1 =>
            match vs with
            | [v] => rbind (rp_evals t en st1 tp1) (fun ws st2 tp2 => ROk (v :: ws) st2 tp2)
            | _ => RStuck
            end)
        end.
    End Lists.

    Fixpoint rp_eval (e : rexpr) (en : renv) (st : rstore) (tp : tape) {struct e} : rres (list rval) :=
      match e with
      | RxNil => ROk [RvNilV] st tp
      | RxBool b => ROk [RvBool b] st tp
      | RxInt z => ROk [RvInt z] st tp
      | RxStr s => ROk [RvStr (gname_bytes s)] st tp
      | RxVar x =>
        match rp_get x en with
        | Some v => ROk [v] st tp
        | None =>
          match rp_find_const prog x with
          | Some c => match rp_const_eval c with Some v => ROk [v] st tp | None => RStuck end
          | None => RStuck
          end
        end
      | RxSel a f =>
        rbind (rp_eval a en st tp) (fun vs st1 tp1 =>
          match vs with
          | [v] => match rp_sel v f with Some r => ROk [r] st1 tp1 | None => RStuck end
          | _ => RStuck
          end)
      | RxKind k => ROk [RvKindV k] st tp
      | RxMaxInt64 => ROk [RvInt 9223372036854775807] st tp
      | RxAcceptsInterface => ROk [RvExt] st tp
      | RxNoValue => ROk [RvNoVal] st tp
      | RxNot a =>
        rbind (rp_eval a en st tp) (fun vs st1 tp1 => match vs with [RvBool b] => ROk [RvBool (negb b)] st1 tp1 | _ => RStuck end)
      | RxBin op a b =>
        rbind (rp_eval a en st tp) (fun vs st1 tp1 =>
          match vs with
          | [va] =>
            match op, va with
            | RbAnd, RvBool false => ROk [RvBool false] st1 tp1
            | RbOr, RvBool true => ROk [RvBool true] st1 tp1
            | RbAnd, RvBool true | RbOr, RvBool false =>
              rbind (rp_eval b en st1 tp1) (fun ws st2 tp2 => match ws with [RvBool c] => ROk [RvBool c] st2 tp2 | _ => RStuck end)
            | RbAnd, _ | RbOr, _ => RStuck
            | _, _ =>
              rbind (rp_eval b en st1 tp1) (fun ws st2 tp2 => match ws with [vb] => rp_bin op va vb st2 tp2 | _ => RStuck end)
            end
          | _ => RStuck
          end)
      | RxFn f args => rbind (rp_evals rp_eval args en st tp) (fun vs st1 tp1 => rp_fn f vs st1 tp1)
      | RxMeth m r args =>
        rbind (rp_eval r en st tp) (fun rs st1 tp1 =>
          match rs with
          | [rv] => rbind (rp_evals rp_eval args en st1 tp1) (fun vs st2 tp2 => rp_meth m rv vs st2 tp2)
          | _ => RStuck
          end)
      | RxCall f recv args =>
        match recv with
        | Some r =>
          rbind (rp_eval r en st tp) (fun rs st1 tp1 =>
            match rs with
            | [rv] => rbind (rp_evals rp_eval args en st1 tp1) (fun vs st2 tp2 => rp_call f (rv :: vs) st2 tp2)
            | _ => RStuck
            end)
        | None =>
          rbind (rp_evals rp_eval args en st tp) (fun vs st1 tp1 =>
            match rp_get f en with
            | Some RvMapper => match vs with [RvT; RvFd fd; _] => rp_mapper fd st1 tp1 | _ => RStuck end
            | Some _ => RStuck
            | None => rp_call f vs st1 tp1
            end)
        end
      | RxIndexOk m k =>
        rbind (rp_eval m en st tp) (fun ms st1 tp1 =>
          rbind (rp_eval k en st1 tp1) (fun ks st2 tp2 =>
            match ms, ks with
            | [RvHints], [RvIface ai] =>
              match nth_error (o_hints o) ai with
              | Some (Some tm) => ROk [RvName tm; RvBool true] st2 tp2
              | _ => ROk [RvStr []; RvBool false] st2 tp2
              end
            | _, _ => RStuck
            end))
      | RxAssertType a ty =>
        rbind (rp_eval a en st tp) (fun vs st1 tp1 =>
          match vs with
          | [RvIfaceAny ai] => if str_eq ty "string" then ROk [RvIface ai] st1 tp1 else RStuck
          | [RvH h] => ROk [RvH h] st1 tp1                       (* msg.Interface().(T) *)
          | _ => RStuck
          end)
      end.

    Definition rp_eval1 (e : rexpr) (en : renv) (st : rstore) (tp : tape) : rres rval :=
      rbind (rp_eval e en st tp) (fun vs st1 tp1 => match vs with [v] => ROk v st1 tp1 | _ => RStuck end).

    (* ---- statements ------------------------------------------------------------------------------------------------------ *)
    Section Blocks.
      Variable ex : rstmt -> renv -> rstore -> tape -> rres rsig.
      Fixpoint rp_block (l : list rstmt) (en : renv) (st : rstore) (tp : tape) {struct l} : rres rsig :=
        match l with
        | [] => ROk (SgNext en) st tp
        | s :: t =>
          match ex s en st tp with
          | ROk (SgNext en1) st1 tp1 => rp_block t en1 st1 tp1
          | r => r
          end
        end.
    End Blocks.

    Section Loops.
      Variable body : renv -> rstore -> tape -> rres rsig.
      (* for i := 0; i < n; i++: k iterations to go, i = j. The body assigns no variable declared outside the loop (checked by
         the translator): every iteration starts from the environment of the loop, which is also the environment after it *)
      Fixpoint rp_for (i : gname) (k j : nat) (en : renv) (st : rstore) (tp : tape) {struct k} : rres rsig :=
        match k with
        | O => ROk (SgNext en) st tp
        | S k' =>
          match body (rp_set i (RvInt (Z.of_nat j)) en) st tp with
          | ROk (SgNext _) st1 tp1 | ROk (SgCont _) st1 tp1 => rp_for i k' (S j) en st1 tp1
          | r => r
          end
        end.
      Fixpoint rp_range (x : gname) (items : list rval) (en : renv) (st : rstore) (tp : tape) {struct items} : rres rsig :=
        match items with
        | [] => ROk (SgNext en) st tp
        | v :: t =>
          match body (if rp_blank x then en else rp_set x v en) st tp with
          | ROk (SgNext _) st1 tp1 | ROk (SgCont _) st1 tp1 => rp_range x t en st1 tp1
          | r => r
          end
        end.
    End Loops.

    Definition rp_items (v : rval) : option (list rval) :=
      match v with
      | RvStrs l => Some (map RvStr l)
      | RvUrls l => Some (map RvUrl l)
      | RvMappers => Some [RvMapper]
      | _ => None
      end.

    (* does the tag (None: `true`) match one of the case expressions? *)
    Fixpoint rp_case_match (tag : option rval) (es : list rexpr) (en : renv) (st : rstore) (tp : tape) {struct es} : rres bool :=
      match es with
      | [] => ROk false st tp
      | e :: t =>
        rbind (rp_eval1 e en st tp) (fun v st1 tp1 =>
          match tag with
          | None => match v with RvBool true => ROk true st1 tp1 | RvBool false => rp_case_match tag t en st1 tp1 | _ => RStuck end
          | Some tv =>
            match rp_eq tv v with
            | Some true => ROk true st1 tp1
            | Some false => rp_case_match tag t en st1 tp1
            | None => RStuck
            end
          end)
      end.

    Section Cases.
      Variable blk : list rstmt -> renv -> rstore -> tape -> rres rsig.
      Variable tag : option rval.
      Variable dflt : list rstmt.
      Fixpoint rp_cases (cs : list (list rexpr * list rstmt)) (en : renv) (st : rstore) (tp : tape) {struct cs} : rres rsig :=
        match cs with
        | [] => blk dflt en st tp
        | (es, body) :: t =>
          rbind (rp_case_match tag es en st tp) (fun hit st1 tp1 =>
            if hit then blk body en st1 tp1 else rp_cases t en st1 tp1)
        end.
    End Cases.

    Definition rp_zero (ty : gname) : option rval := if str_eq ty "string" then Some (RvStr []) else None.

    Fixpoint rp_exec (s : rstmt) (en : renv) (st : rstore) (tp : tape) {struct s} : rres rsig :=
      match s with
      | RsDefine xs e =>
        rbind (rp_eval e en st tp) (fun vs st1 tp1 =>
          match rp_define xs vs en with Some en' => ROk (SgNext en') st1 tp1 | None => RStuck end)
      | RsAssign xs e =>
        rbind (rp_eval e en st tp) (fun vs st1 tp1 =>
          match rp_assign xs vs en with Some en' => ROk (SgNext en') st1 tp1 | None => RStuck end)
      | RsVar x ty => match rp_zero ty with Some v => ROk (SgNext (rp_set x v en)) st tp | None => RStuck end
      | RsExpr e => rbind (rp_eval e en st tp) (fun _ st1 tp1 => ROk (SgNext en) st1 tp1)
      | RsIf init c a b =>
        match rp_block rp_exec init en st tp with
        | ROk (SgNext en1) st1 tp1 =>
          rbind (rp_eval1 c en1 st1 tp1) (fun v st2 tp2 =>
            match v with
            | RvBool true => rp_block rp_exec a en1 st2 tp2
            | RvBool false => rp_block rp_exec b en1 st2 tp2
            | _ => RStuck
            end)
        | r => r
        end
      | RsSwitch tag cs dflt =>
        match tag with
        | None => rp_cases (rp_block rp_exec) None dflt cs en st tp
        | Some te => rbind (rp_eval1 te en st tp) (fun tv st1 tp1 => rp_cases (rp_block rp_exec) (Some tv) dflt cs en st1 tp1)
        end
      | RsFor i n body =>
        match rp_get n en with
        | Some (RvInt z) => rp_for (rp_block rp_exec body) i (Z.to_nat z) 0 en st tp
        | _ => RStuck
        end
      | RsRange x e body =>
        rbind (rp_eval1 e en st tp) (fun v st1 tp1 =>
          match rp_items v with
          | Some items => rp_range (rp_block rp_exec body) x items en st1 tp1
          | None => RStuck
          end)
      | RsReturn es =>
        match es with
        | [e] => rbind (rp_eval e en st tp) (fun vs st1 tp1 => ROk (SgRet vs) st1 tp1)
        | _ => rbind (rp_evals rp_eval es en st tp) (fun vs st1 tp1 => ROk (SgRet vs) st1 tp1)
        end
      | RsContinue => ROk (SgCont en) st tp
      | RsReturnCustom t _ _ body => ROk (SgRet [RvCustom en t body]) st tp
      end.
  End Exec.

  (* ---- functions ------------------------------------------------------------------------------------------------------------ *)
  Fixpoint rp_find (p : list rdecl) (f : gname) : option rfun :=
    match p with
    | [] => None
    | RdFunc fd :: t => if str_eq f (rf_name fd) then Some fd else rp_find t f
    | _ :: t => rp_find t f
    end.
  Fixpoint rp_bind (ps : list (gname * gname)) (vs : list rval) : option renv :=
    match ps, vs with
    | [], [] => Some []
    | (x, _) :: ps', v :: vs' => match rp_bind ps' vs' with Some en => Some ((x, v) :: en) | None => None end
    | _, _ => None
    end.
  Definition rp_all_params (fd : rfun) : list (gname * gname) :=
    match rf_recv fd with Some r => r :: rf_params fd | None => rf_params fd end.

  (* a call: the receiver, if any, is the first argument; only root 0 of the callee's store survives the return *)
  Fixpoint rp_run (fuel : nat) (f : gname) (args : list rval) (st : rstore) (tp : tape) {struct fuel} : rres (list rval) :=
    match fuel with
    | O => RFuel
    | S fu =>
      match rp_find prog f with
      | None => RStuck
      | Some fd =>
        match rp_bind (rp_all_params fd) args with
        | None => RStuck
        | Some en =>
          match rp_block (rp_exec (rp_run fu)) (rf_body fd) en st tp with
          | ROk (SgRet vs) st1 tp1 => if Nat.eqb (length vs) (length (rf_results fd)) then ROk vs (firstn 1 st1) tp1 else RStuck
          | ROk (SgNext _) st1 tp1 => match rf_results fd with [] => ROk [] (firstn 1 st1) tp1 | _ => RStuck end
          | ROk (SgCont _) _ _ => RStuck
          | RErr => RErr | RPanic => RPanic | RFuel => RFuel | RStuck => RStuck
          end
        end
      end
    end.

  (* MessageGenerator(x, options) and one draw from the generator it returns; None = the interpreter is stuck *)
  Definition rp_generate (fuel : nat) (mid : nat) (tp : tape) : option (outcome val) :=
    match rp_run fuel "MessageGenerator" [RvMsgT mid; RvOpts] [] tp with
    | ROk [RvCustom en t body] _ tp1 =>
      match rp_block (rp_exec (rp_run fuel)) body ((t, RvT) :: en) [] tp1 with
      | ROk (SgRet [RvH h]) st _ => match sget st h with Some v => Some (Ok v) | None => None end
      | ROk _ _ _ => None
      | RErr => Some Err | RPanic => Some Panic | RFuel => Some OutOfFuel | RStuck => None
      end
    | ROk _ _ _ => None
    | RErr => Some Err | RPanic => Some Panic | RFuel => Some OutOfFuel | RStuck => None
    end.
End Interp.

(* three calls per nesting level (setFields -> setFieldValue -> genAny -> setFields), twelve levels, and MessageGenerator itself *)
Definition rp_fuel : nat := 3 * top_fuel + 1.

(* ==== the canonical program: /repo/rapidproto/rapidproto.go transcribed ================================================
   (printed by `_build/bin/runner rapidprog <file> 1 quick coq` from the source it agrees with; one constant per top-level
   declaration, in source order: func MessageGenerator (l.15), type FieldMapper, type GeneratorOptions, const depthLimit, the three
   With… option builders (outside the model: their text), setFields (l.76), the four full names, setFieldValue (l.121),
   genScalarFieldValue (l.184), MaxDurationSeconds / secondsName / nanosName, genTimestamp, genDuration, setSecondsNanosFields,
   typeURLName / valueName, genAny (l.257), pathsName, genFieldMask (l.300)) *)
Definition canon_MessageGenerator : rdecl :=
  RdFunc {| rf_name := "MessageGenerator"; rf_tparams := [("T", "proto.Message")]; rf_recv := None;
     rf_params := [("x", "T"); ("options", "GeneratorOptions")]; rf_results := ["*rapid.Generator[T]"];
     rf_body :=
       [ RsDefine ["msgType"] (RxMeth RmType (RxMeth RmProtoReflect (RxVar "x") []) []);
        RsReturnCustom "t" "*rapid.T" "T"
        [ RsDefine ["msg"] (RxMeth RmNew (RxVar "msgType") []);
         RsExpr (RxMeth RmDraw (RxFn RfRapidBool []) [RxVar "t"; RxStr "message"]);
         RsExpr (RxCall "setFields" (Some (RxVar "options")) [RxVar "t"; RxNil; RxVar "msg"; RxInt 0]);
         RsReturn [RxAssertType (RxMeth RmInterface (RxVar "msg") []) "T"] ] ] |}.

Definition canon_FieldMapper : rdecl :=
  RdOpaque "type" "FieldMapper" "FieldMapper func(*rapid.T, protoreflect.FieldDescriptor, string) (protoreflect.Value, bool)".

Definition canon_GeneratorOptions : rdecl :=
  RdOpaque "type" "GeneratorOptions" "GeneratorOptions struct { AnyTypeURLs []string InterfaceHints map[string]string Resolver protoregistry.MessageTypeResolver NoEmptyLists bool DisallowNilMessages bool FieldMaps []FieldMapper }".

Definition canon_depthLimit : rdecl :=
  RdConst "depthLimit" (RxInt 10).

Definition canon_WithAnyTypes : rdecl :=
  RdOpaque "func" "WithAnyTypes" "func (opts GeneratorOptions) WithAnyTypes(anyTypes ...proto.Message) GeneratorOptions { for _, a := range anyTypes { opts.AnyTypeURLs = append(opts.AnyTypeURLs, fmt.Sprintf(""/%s"", a.ProtoReflect().Descriptor().FullName())) } return opts }".

Definition canon_WithDisallowNil : rdecl :=
  RdOpaque "func" "WithDisallowNil" "func (opts GeneratorOptions) WithDisallowNil() GeneratorOptions { o := &opts o.DisallowNilMessages = true return *o }".

Definition canon_WithInterfaceHint : rdecl :=
  RdOpaque "func" "WithInterfaceHint" "func (opts GeneratorOptions) WithInterfaceHint(i string, impl proto.Message) GeneratorOptions { if opts.InterfaceHints == nil { opts.InterfaceHints = make(map[string]string) } opts.InterfaceHints[i] = string(impl.ProtoReflect().Descriptor().FullName()) return opts }".

Definition canon_setFields : rdecl :=
  RdFunc {| rf_name := "setFields"; rf_tparams := []; rf_recv := (Some ("opts", "GeneratorOptions"));
     rf_params := [("t", "*rapid.T"); ("field", "protoreflect.FieldDescriptor"); ("msg", "protoreflect.Message"); ("depth", "int")]; rf_results := ["bool"];
     rf_body :=
       [ RsIf [] (RxBin RbGt (RxVar "depth") (RxVar "depthLimit"))
        [RsReturn [RxBool false]]
        [];
        RsDefine ["descriptor"] (RxMeth RmDescriptor (RxVar "msg") []);
        RsDefine ["fullName"] (RxMeth RmFullName (RxVar "descriptor") []);
        RsSwitch (Some (RxVar "fullName"))
        [ ([RxVar "timestampFullName"],
          [ RsExpr (RxCall "genTimestamp" (Some (RxVar "opts")) [RxVar "t"; RxVar "msg"]);
           RsReturn [RxBool true] ]);
         ([RxVar "durationFullName"],
          [ RsExpr (RxCall "genDuration" (Some (RxVar "opts")) [RxVar "t"; RxVar "msg"]);
           RsReturn [RxBool true] ]);
         ([RxVar "anyFullName"],
          [RsReturn [RxCall "genAny" (Some (RxVar "opts")) [RxVar "t"; RxVar "field"; RxVar "msg"; RxVar "depth"]]]);
         ([RxVar "fieldMaskFullName"],
          [ RsExpr (RxCall "genFieldMask" (Some (RxVar "opts")) [RxVar "t"; RxVar "msg"]);
           RsReturn [RxBool true] ]) ]
        [ RsDefine ["fields"] (RxMeth RmFields (RxVar "descriptor") []);
         RsDefine ["n"] (RxMeth RmLen (RxVar "fields") []);
         RsFor "i" "n"
         [ RsDefine ["f"] (RxMeth RmGet (RxVar "fields") [RxVar "i"]);
          RsIf [] (RxNot (RxMeth RmDraw (RxFn RfRapidBool []) [RxVar "t"; RxFn RfSprintf [RxStr "gen-%s"; RxMeth RmName (RxVar "f") []]]))
          [RsIf [] (RxBin RbAnd (RxBin RbEq (RxMeth RmKind (RxVar "f") []) (RxKind RkMessage)) (RxNot (RxSel (RxVar "opts") RoDisallowNilMessages)))
           [RsContinue]
           []]
          [];
          RsExpr (RxCall "setFieldValue" (Some (RxVar "opts")) [RxVar "t"; RxVar "msg"; RxVar "f"; RxVar "depth"]) ];
         RsReturn [RxBool true] ] ] |}.

Definition canon_timestampFullName : rdecl :=
  RdConst "timestampFullName" (RxStr "google.protobuf.Timestamp").

Definition canon_durationFullName : rdecl :=
  RdConst "durationFullName" (RxStr "google.protobuf.Duration").

Definition canon_anyFullName : rdecl :=
  RdConst "anyFullName" (RxStr "google.protobuf.Any").

Definition canon_fieldMaskFullName : rdecl :=
  RdConst "fieldMaskFullName" (RxStr "google.protobuf.FieldMask").

Definition canon_setFieldValue : rdecl :=
  RdFunc {| rf_name := "setFieldValue"; rf_tparams := []; rf_recv := (Some ("opts", "GeneratorOptions"));
     rf_params := [("t", "*rapid.T"); ("msg", "protoreflect.Message"); ("field", "protoreflect.FieldDescriptor"); ("depth", "int")]; rf_results := [];
     rf_body :=
       [ RsDefine ["name"] (RxFn RfString [RxMeth RmName (RxVar "field") []]);
        RsDefine ["kind"] (RxMeth RmKind (RxVar "field") []);
        RsSwitch None
        [ ([RxMeth RmIsList (RxVar "field") []],
          [ RsDefine ["list"] (RxMeth RmList (RxMeth RmMutable (RxVar "msg") [RxVar "field"]) []);
           RsDefine ["min"] (RxInt 0);
           RsIf [] (RxSel (RxVar "opts") RoNoEmptyLists)
           [RsAssign ["min"] (RxInt 1)]
           [];
           RsDefine ["n"] (RxMeth RmDraw (RxFn RfRapidIntRange [RxVar "min"; RxInt 10]) [RxVar "t"; RxFn RfSprintf [RxStr "%sN"; RxVar "name"]]);
           RsFor "i" "n"
           [RsIf [] (RxBin RbOr (RxBin RbEq (RxVar "kind") (RxKind RkMessage)) (RxBin RbEq (RxVar "kind") (RxKind RkGroup)))
            [RsIf [] (RxNot (RxCall "setFields" (Some (RxVar "opts")) [RxVar "t"; RxVar "field"; RxMeth RmMessage (RxMeth RmAppendMutable (RxVar "list") []) []; RxBin RbAdd (RxVar "depth") (RxInt 1)]))
             [RsExpr (RxMeth RmTruncate (RxVar "list") [RxBin RbSub (RxMeth RmLen (RxVar "list") []) (RxInt 1)])]
             []]
            [RsExpr (RxMeth RmAppend (RxVar "list") [RxCall "genScalarFieldValue" (Some (RxVar "opts")) [RxVar "t"; RxVar "field"; RxFn RfSprintf [RxStr "%s%d"; RxVar "name"; RxVar "i"]]])]];
           RsIf [] (RxBin RbAnd (RxBin RbGt (RxVar "n") (RxInt 0)) (RxBin RbEq (RxMeth RmLen (RxVar "list") []) (RxInt 0)))
           [RsExpr (RxMeth RmClear (RxVar "msg") [RxVar "field"])]
           [] ]);
         ([RxMeth RmIsMap (RxVar "field") []],
          [ RsDefine ["m"] (RxMeth RmMap (RxMeth RmMutable (RxVar "msg") [RxVar "field"]) []);
           RsDefine ["n"] (RxMeth RmDraw (RxFn RfRapidIntRange [RxInt 0; RxInt 10]) [RxVar "t"; RxFn RfSprintf [RxStr "%sN"; RxVar "name"]]);
           RsFor "i" "n"
           [ RsDefine ["keyField"] (RxMeth RmMapKey (RxVar "field") []);
            RsDefine ["valueField"] (RxMeth RmMapValue (RxVar "field") []);
            RsDefine ["valueKind"] (RxMeth RmKind (RxVar "valueField") []);
            RsDefine ["key"] (RxCall "genScalarFieldValue" (Some (RxVar "opts")) [RxVar "t"; RxVar "keyField"; RxFn RfSprintf [RxStr "%s%d-key"; RxVar "name"; RxVar "i"]]);
            RsIf [] (RxBin RbOr (RxBin RbEq (RxVar "valueKind") (RxKind RkMessage)) (RxBin RbEq (RxVar "valueKind") (RxKind RkGroup)))
            [RsIf [] (RxNot (RxCall "setFields" (Some (RxVar "opts")) [RxVar "t"; RxVar "field"; RxMeth RmMessage (RxMeth RmMutable (RxVar "m") [RxMeth RmMapKey (RxVar "key") []]) []; RxBin RbAdd (RxVar "depth") (RxInt 1)]))
             [RsExpr (RxMeth RmClear (RxVar "m") [RxMeth RmMapKey (RxVar "key") []])]
             []]
            [ RsDefine ["value"] (RxCall "genScalarFieldValue" (Some (RxVar "opts")) [RxVar "t"; RxVar "valueField"; RxFn RfSprintf [RxStr "%s%d-key"; RxVar "name"; RxVar "i"]]);
             RsExpr (RxMeth RmSet (RxVar "m") [RxMeth RmMapKey (RxVar "key") []; RxVar "value"]) ] ] ]);
         ([RxBin RbEq (RxVar "kind") (RxKind RkMessage)],
          [ RsDefine ["mutableField"] (RxMeth RmMutable (RxVar "msg") [RxVar "field"]);
           RsIf [] (RxBin RbEq (RxMeth RmFullName (RxMeth RmDescriptor (RxMeth RmMessage (RxVar "mutableField") []) []) []) (RxVar "anyFullName"))
           [RsIf [] (RxNot (RxCall "genAny" (Some (RxVar "opts")) [RxVar "t"; RxVar "field"; RxMeth RmMessage (RxVar "mutableField") []; RxBin RbAdd (RxVar "depth") (RxInt 1)]))
            [RsExpr (RxMeth RmClear (RxVar "msg") [RxVar "field"])]
            []]
           [RsIf [] (RxNot (RxCall "setFields" (Some (RxVar "opts")) [RxVar "t"; RxVar "field"; RxMeth RmMessage (RxVar "mutableField") []; RxBin RbAdd (RxVar "depth") (RxInt 1)]))
            [RsExpr (RxMeth RmClear (RxVar "msg") [RxVar "field"])]
            []] ]);
         ([RxBin RbEq (RxVar "kind") (RxKind RkGroup)],
          [RsIf [] (RxNot (RxCall "setFields" (Some (RxVar "opts")) [RxVar "t"; RxVar "field"; RxMeth RmMessage (RxMeth RmMutable (RxVar "msg") [RxVar "field"]) []; RxBin RbAdd (RxVar "depth") (RxInt 1)]))
           [RsExpr (RxMeth RmClear (RxVar "msg") [RxVar "field"])]
           []]) ]
        [RsExpr (RxMeth RmSet (RxVar "msg") [RxVar "field"; RxCall "genScalarFieldValue" (Some (RxVar "opts")) [RxVar "t"; RxVar "field"; RxVar "name"]])] ] |}.

Definition canon_genScalarFieldValue : rdecl :=
  RdFunc {| rf_name := "genScalarFieldValue"; rf_tparams := []; rf_recv := (Some ("opts", "GeneratorOptions"));
     rf_params := [("t", "*rapid.T"); ("field", "protoreflect.FieldDescriptor"); ("name", "string")]; rf_results := ["protoreflect.Value"];
     rf_body :=
       [ RsRange "fm" (RxSel (RxVar "opts") RoFieldMaps)
        [RsIf [RsDefine ["v"; "ok"] (RxCall "fm" None [RxVar "t"; RxVar "field"; RxVar "name"])] (RxVar "ok")
         [RsReturn [RxVar "v"]]
         []];
        RsSwitch (Some (RxMeth RmKind (RxVar "field") []))
        [ ([RxKind (RkScalar KInt32); RxKind (RkScalar KSint32); RxKind (RkScalar KSfixed32)],
          [RsReturn [RxFn RfValueOfInt32 [RxMeth RmDraw (RxFn RfRapidInt32 []) [RxVar "t"; RxVar "name"]]]]);
         ([RxKind (RkScalar KUint32); RxKind (RkScalar KFixed32)],
          [RsReturn [RxFn RfValueOfUint32 [RxMeth RmDraw (RxFn RfRapidUint32 []) [RxVar "t"; RxVar "name"]]]]);
         ([RxKind (RkScalar KInt64); RxKind (RkScalar KSint64); RxKind (RkScalar KSfixed64)],
          [RsReturn [RxFn RfValueOfInt64 [RxMeth RmDraw (RxFn RfRapidInt64 []) [RxVar "t"; RxVar "name"]]]]);
         ([RxKind (RkScalar KUint64); RxKind (RkScalar KFixed64)],
          [RsReturn [RxFn RfValueOfUint64 [RxMeth RmDraw (RxFn RfRapidUint64 []) [RxVar "t"; RxVar "name"]]]]);
         ([RxKind (RkScalar KBool)],
          [RsReturn [RxFn RfValueOfBool [RxMeth RmDraw (RxFn RfRapidBool []) [RxVar "t"; RxVar "name"]]]]);
         ([RxKind (RkScalar KBytes)],
          [RsReturn [RxFn RfValueOfBytes [RxMeth RmDraw (RxFn RfRapidSliceOf [RxFn RfRapidByte []]) [RxVar "t"; RxVar "name"]]]]);
         ([RxKind (RkScalar KFloat)],
          [RsReturn [RxFn RfValueOfFloat32 [RxMeth RmDraw (RxFn RfRapidFloat32 []) [RxVar "t"; RxVar "name"]]]]);
         ([RxKind (RkScalar KDouble)],
          [RsReturn [RxFn RfValueOfFloat64 [RxMeth RmDraw (RxFn RfRapidFloat64 []) [RxVar "t"; RxVar "name"]]]]);
         ([RxKind (RkScalar KEnum)],
          [ RsDefine ["enumValues"] (RxMeth RmValues (RxMeth RmEnum (RxVar "field") []) []);
           RsDefine ["idx"] (RxMeth RmDraw (RxFn RfRapidIntRange [RxInt 0; RxBin RbSub (RxMeth RmLen (RxVar "enumValues") []) (RxInt 1)]) [RxVar "t"; RxVar "name"]);
           RsReturn [RxFn RfValueOfEnum [RxMeth RmNumber (RxMeth RmGet (RxVar "enumValues") [RxVar "idx"]) []]] ]);
         ([RxKind (RkScalar KString)],
          [RsReturn [RxFn RfValueOfString [RxMeth RmDraw (RxFn RfRapidString []) [RxVar "t"; RxVar "name"]]]]) ]
        [ RsExpr (RxMeth RmFatalf (RxVar "t") [RxStr "unexpected %v"; RxVar "field"]);
         RsReturn [RxNoValue] ] ] |}.

Definition canon_MaxDurationSeconds : rdecl :=
  RdConst "MaxDurationSeconds" (RxBin RbSub (RxFn RfInt64 [RxBin RbDiv (RxMaxInt64) (RxFn RfInt [RxInt 1000000000])]) (RxInt 1)).

Definition canon_secondsName : rdecl :=
  RdConst "secondsName" (RxStr "seconds").

Definition canon_nanosName : rdecl :=
  RdConst "nanosName" (RxStr "nanos").

Definition canon_genTimestamp : rdecl :=
  RdFunc {| rf_name := "genTimestamp"; rf_tparams := []; rf_recv := (Some ("opts", "GeneratorOptions"));
     rf_params := [("t", "*rapid.T"); ("msg", "protoreflect.Message")]; rf_results := [];
     rf_body :=
       [ RsDefine ["seconds"] (RxMeth RmDraw (RxFn RfRapidInt64Range [RxInt (-9999999999); RxInt 9999999999]) [RxVar "t"; RxStr "seconds"]);
        RsDefine ["nanos"] (RxMeth RmDraw (RxFn RfRapidInt32Range [RxInt 0; RxInt 999999999]) [RxVar "t"; RxStr "nanos"]);
        RsExpr (RxCall "setSecondsNanosFields" None [RxVar "t"; RxVar "msg"; RxVar "seconds"; RxVar "nanos"]) ] |}.

Definition canon_genDuration : rdecl :=
  RdFunc {| rf_name := "genDuration"; rf_tparams := []; rf_recv := (Some ("opts", "GeneratorOptions"));
     rf_params := [("t", "*rapid.T"); ("msg", "protoreflect.Message")]; rf_results := [];
     rf_body :=
       [ RsDefine ["seconds"] (RxMeth RmDraw (RxFn RfRapidInt64Range [RxInt 0; RxFn RfInt64 [RxVar "MaxDurationSeconds"]]) [RxVar "t"; RxStr "seconds"]);
        RsDefine ["nanos"] (RxMeth RmDraw (RxFn RfRapidInt32Range [RxInt 0; RxInt 999999999]) [RxVar "t"; RxStr "nanos"]);
        RsExpr (RxCall "setSecondsNanosFields" None [RxVar "t"; RxVar "msg"; RxVar "seconds"; RxVar "nanos"]) ] |}.

Definition canon_setSecondsNanosFields : rdecl :=
  RdFunc {| rf_name := "setSecondsNanosFields"; rf_tparams := []; rf_recv := None;
     rf_params := [("t", "*rapid.T"); ("message", "protoreflect.Message"); ("seconds", "int64"); ("nanos", "int32")]; rf_results := [];
     rf_body :=
       [ RsDefine ["fields"] (RxMeth RmFields (RxMeth RmDescriptor (RxVar "message") []) []);
        RsDefine ["secondsField"] (RxMeth RmByName (RxVar "fields") [RxVar "secondsName"]);
        RsExpr (RxFn RfAssert [RxVar "t"; RxBin RbNe (RxVar "secondsField") (RxNil)]);
        RsExpr (RxMeth RmSet (RxVar "message") [RxVar "secondsField"; RxFn RfValueOfInt64 [RxVar "seconds"]]);
        RsDefine ["nanosField"] (RxMeth RmByName (RxVar "fields") [RxVar "nanosName"]);
        RsExpr (RxFn RfAssert [RxVar "t"; RxBin RbNe (RxVar "nanosField") (RxNil)]);
        RsExpr (RxMeth RmSet (RxVar "message") [RxVar "nanosField"; RxFn RfValueOfInt32 [RxVar "nanos"]]) ] |}.

Definition canon_typeURLName : rdecl :=
  RdConst "typeURLName" (RxStr "type_url").

Definition canon_valueName : rdecl :=
  RdConst "valueName" (RxStr "value").

Definition canon_genAny : rdecl :=
  RdFunc {| rf_name := "genAny"; rf_tparams := []; rf_recv := (Some ("opts", "GeneratorOptions"));
     rf_params := [("t", "*rapid.T"); ("field", "protoreflect.FieldDescriptor"); ("msg", "protoreflect.Message"); ("depth", "int")]; rf_results := ["bool"];
     rf_body :=
       [ RsIf [] (RxBin RbEq (RxFn RfLen [RxSel (RxVar "opts") RoAnyTypeURLs]) (RxInt 0))
        [RsReturn [RxBool false]]
        [];
        RsVar "typeURL" "string";
        RsIf [] (RxBin RbAnd (RxBin RbNe (RxVar "field") (RxNil)) (RxFn RfHasExtension [RxMeth RmOptions (RxVar "field") []; RxAcceptsInterface]))
        [ RsDefine ["ai"] (RxAssertType (RxFn RfGetExtension [RxMeth RmOptions (RxVar "field") []; RxAcceptsInterface]) "string");
         RsIf [RsDefine ["impl"; "found"] (RxIndexOk (RxSel (RxVar "opts") RoInterfaceHints) (RxVar "ai"))] (RxVar "found")
         [RsAssign ["typeURL"] (RxFn RfSprintf [RxStr "/%s"; RxVar "impl"])]
         [RsExpr (RxFn RfPanic [RxFn RfSprintf [RxStr "no implementation found for interface %s"; RxVar "ai"]])] ]
        [RsAssign ["typeURL"] (RxMeth RmDraw (RxFn RfRapidSampledFrom [RxSel (RxVar "opts") RoAnyTypeURLs]) [RxVar "t"; RxStr "type_url"])];
        RsDefine ["typ"; "err"] (RxMeth RmFindMessageByURL (RxSel (RxVar "opts") RoResolver) [RxVar "typeURL"]);
        RsExpr (RxFn RfNilError [RxVar "t"; RxVar "err"]);
        RsDefine ["fields"] (RxMeth RmFields (RxMeth RmDescriptor (RxVar "msg") []) []);
        RsDefine ["typeURLField"] (RxMeth RmByName (RxVar "fields") [RxVar "typeURLName"]);
        RsExpr (RxFn RfAssert [RxVar "t"; RxBin RbNe (RxVar "typeURLField") (RxNil)]);
        RsExpr (RxMeth RmSet (RxVar "msg") [RxVar "typeURLField"; RxFn RfValueOfString [RxVar "typeURL"]]);
        RsDefine ["valueMsg"] (RxMeth RmNew (RxVar "typ") []);
        RsExpr (RxCall "setFields" (Some (RxVar "opts")) [RxVar "t"; RxNil; RxVar "valueMsg"; RxBin RbAdd (RxVar "depth") (RxInt 1)]);
        RsDefine ["valueBz"; "err"] (RxFn RfMarshal [RxMeth RmInterface (RxVar "valueMsg") []]);
        RsExpr (RxFn RfNilError [RxVar "t"; RxVar "err"]);
        RsDefine ["valueField"] (RxMeth RmByName (RxVar "fields") [RxVar "valueName"]);
        RsExpr (RxFn RfAssert [RxVar "t"; RxBin RbNe (RxVar "valueField") (RxNil)]);
        RsExpr (RxMeth RmSet (RxVar "msg") [RxVar "valueField"; RxFn RfValueOfBytes [RxVar "valueBz"]]);
        RsReturn [RxBool true] ] |}.

Definition canon_pathsName : rdecl :=
  RdConst "pathsName" (RxStr "paths").

Definition canon_genFieldMask : rdecl :=
  RdFunc {| rf_name := "genFieldMask"; rf_tparams := []; rf_recv := (Some ("opts", "GeneratorOptions"));
     rf_params := [("t", "*rapid.T"); ("msg", "protoreflect.Message")]; rf_results := [];
     rf_body :=
       [ RsDefine ["paths"] (RxMeth RmDraw (RxFn RfRapidSliceOfN [RxFn RfRapidStringMatching [RxStr "[a-z]+([.][a-z]+){0,2}"]; RxInt 1; RxInt 5]) [RxVar "t"; RxStr "paths"]);
        RsDefine ["pathsField"] (RxMeth RmByName (RxMeth RmFields (RxMeth RmDescriptor (RxVar "msg") []) []) [RxVar "pathsName"]);
        RsExpr (RxFn RfAssert [RxVar "t"; RxBin RbNe (RxVar "pathsField") (RxNil)]);
        RsDefine ["pathsList"] (RxMeth RmList (RxMeth RmNewField (RxVar "msg") [RxVar "pathsField"]) []);
        RsRange "path" (RxVar "paths")
        [RsExpr (RxMeth RmAppend (RxVar "pathsList") [RxFn RfValueOfString [RxVar "path"]])];
        RsExpr (RxMeth RmSet (RxVar "msg") [RxVar "pathsField"; RxFn RfValueOfList [RxVar "pathsList"]]) ] |}.

Definition canon_rapidproto : list rdecl :=
  [ canon_MessageGenerator; canon_FieldMapper; canon_GeneratorOptions; canon_depthLimit; canon_WithAnyTypes; canon_WithDisallowNil; canon_WithInterfaceHint; canon_setFields; canon_timestampFullName; canon_durationFullName; canon_anyFullName; canon_fieldMaskFullName; canon_setFieldValue; canon_genScalarFieldValue; canon_MaxDurationSeconds; canon_secondsName; canon_nanosName; canon_genTimestamp; canon_genDuration; canon_setSecondsNanosFields; canon_typeURLName; canon_valueName; canon_genAny; canon_pathsName; canon_genFieldMask ].
Definition canon_rapidproto_imports : list gname :=
  [ "cosmos_proto=github.com/cosmos/cosmos-proto";
    "fmt";
    "google.golang.org/protobuf/proto";
    "google.golang.org/protobuf/reflect/protoreflect";
    "google.golang.org/protobuf/reflect/protoregistry";
    "gotest.tools/v3/assert";
    "math";
    "pgregory.net/rapid" ].

(* ==== the statement (proved in Proofs/RapidProgProofs.v, theorem in Properties/C18.v) ====================================== *)
(* every enum a field refers to declares a value (proto3: the zero value): rapid.IntRange(0, -1) panics *)
Definition rp_enums_ok (sch : schema) (ann : annots) : Prop :=
  forall mid md ma i f fa, get_msg sch mid = Some md -> nth_error ann mid = Some ma ->
    nth_error (m_fields md) i = Some f -> nth_error (a_fields ma) i = Some fa -> f_ty f = TScalar KEnum -> a_enum fa <> [].
(* what a FieldMapper answers for a map key is a map key (an integer, a bool or a string): Go's map needs a comparable key *)
Definition rp_keys_ok (o : gopts) : Prop :=
  forall kk decl p g x, legal_key kk = true -> (o_fmap o kk decl = FmAlways p g \/ o_fmap o kk decl = FmMaybe p g) ->
    val_key_eqb (g x) (g x) = true.

(* for every well-formed schema with fitting annotations, options, message type of the schema, draw tape and fuel >= rp_fuel:
   interpreting the canonical MessageGenerator and drawing once from the generator it returns IS RapidGen.gen — the same value,
   or the same Err / Panic outcome; the interpreter is never stuck and never out of fuel *)
Definition rapidprog_stmt : Prop :=
  forall o sch ann, wf sch = true -> ann_ok sch ann = true -> rp_enums_ok sch ann -> rp_keys_ok o ->
  forall mid extra tape, (mid < length sch)%nat ->
    rp_generate o sch ann canon_rapidproto (rp_fuel + extra) mid tape = Some (gen code_variant o sch ann mid tape).

(* a program the decidable equality accepts IS the canonical one *)
Definition rdecl_eqb_sound_stmt : Prop := forall a b : rdecl, rdecl_eqb a b = true -> a = b.
