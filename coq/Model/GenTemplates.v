(* Model/GenTemplates.v — the (kind x shape) dispatch of the size template (features/fastreflection/proto_size.go:
   fastGenerator.field and genSizeMethod) reduced to its brace skeleton: which `{` and `}` lines it prints, in order.
   (The unbalanced `}` of D5 lived here.) Executable definitions only; lemmas in Proofs/GenTemplatesProofs.v. *)
From CP Require Import Bytes Schema.
Local Open Scope N_scope.

Inductive fkind := FK (k : kind) | FMsg | FGroup.
(* cardinality / container of a field as the template distinguishes it *)
Inductive fshape :=
| SSingular                 (* plain proto3 field, or a oneof member *)
| SOptional                 (* proto3 `optional`: synthetic oneof, pointer field ("nullable") *)
| SPacked | SUnpacked       (* repeated *)
| SMap (key : kind).        (* map<key, fkind> *)
Inductive tok := LB | RB.

Definition is_repeated (s : fshape) : bool := match s with SPacked | SUnpacked | SMap _ => true | _ => false end.
Definition is_packed (s : fshape) : bool := match s with SPacked => true | _ => false end.
Definition nullable (fk : fkind) (s : fshape) : bool :=
  match fk, s with FMsg, _ => true | _, SOptional => true | _, _ => false end.

Definition guarded (oneof : bool) (body : list tok) : list tok := if oneof then body else LB :: body ++ [RB].

(* the switch on field.Desc.Kind(); None = panic *)
Definition size_kind_body (fk : fkind) (s : fshape) (oneof : bool) : option (list tok) :=
  let packed := is_packed s in let repeated := is_repeated s in let nul := nullable fk s in
  match fk with
  | FK KFixed64 | FK KSfixed64 | FK KDouble | FK KFixed32 | FK KSfixed32 | FK KFloat | FK KBool =>
    Some (if packed then [] else if repeated then [] else if negb nul then guarded oneof [] else [])
  | FK KInt64 | FK KUint64 | FK KUint32 | FK KEnum | FK KInt32 | FK KSint32 | FK KSint64 =>
    Some (if packed then [LB; RB] else if repeated then [LB; RB] else if nul then [] else guarded oneof [])
  | FK KString =>
    Some (if repeated then [LB; RB] else if nul then [] else guarded oneof [])
  | FK KBytes =>
    Some (if repeated then [LB; RB] else guarded oneof [])
  | FGroup => None
  | FMsg =>
    match s with
    | SMap key =>
      (* SiZeMaP := func(k, v) { ... }  if options.Deterministic { for k := range { } sort  for _, k := range sortme { } } else { for k,v := range { } } *)
      Some ([LB] ++ [] ++ [RB] ++
            [LB; LB; RB] ++ (match key with KString => [] | _ => [LB; RB] end) ++ [LB; RB; RB; LB; LB; RB; RB])
    | SPacked | SUnpacked => Some [LB; RB]
    | _ => Some []
    end
  end.

(* map fields: the value kind decides what SiZeMaP contains; the field kind seen by the switch is MessageKind *)
Definition size_map_value_body (v : fkind) : list tok := match v with FMsg => [LB; RB] | _ => [] end.

(* one field as seen by g.field(true, field, oneof): fk = kind of the field, or of the map value for maps *)
Definition size_field (fk : fkind) (s : fshape) (oneof : bool) : option (list tok) :=
  let pre := if is_repeated s && negb oneof then [LB] else if nullable (match s with SMap _ => FMsg | _ => fk end) s && negb oneof then [LB] else [] in
  let post := if (is_repeated s || nullable (match s with SMap _ => FMsg | _ => fk end) s) && negb oneof then [RB] else [] in
  match s with
  | SMap key =>
    match size_kind_body FMsg s oneof with
    | Some (LB :: rest) => Some (pre ++ LB :: size_map_value_body fk ++ rest ++ post)
    | _ => None
    end
  | _ => match size_kind_body fk s oneof with Some b => Some (pre ++ b ++ post) | None => None end
  end.

Fixpoint balance (depth : N) (l : list tok) : option N :=
  match l with
  | [] => Some depth
  | LB :: t => balance (depth + 1) t
  | RB :: t => if depth =? 0 then None else balance (depth - 1) t
  end.
Definition balanced (l : list tok) : bool := match balance 0 l with Some 0 => true | _ => false end.
Definition opens (l : list tok) : N := N.of_nat (List.length (filter (fun t => match t with LB => true | RB => false end) l)).

(* the combinations protoc admits *)
Definition packable_fk (fk : fkind) : bool := match fk with FK k => packable k | _ => false end.
Definition key_kind (k : kind) : bool :=
  match k with KDouble | KFloat | KBytes | KEnum => false | _ => true end.
Definition valid_combo (fk : fkind) (s : fshape) (oneof : bool) : bool :=
  match fk with FGroup => false | _ =>
    match s with
    | SSingular => true
    | SOptional => negb oneof
    | SPacked => packable_fk fk && negb oneof
    | SUnpacked => negb oneof
    | SMap key => key_kind key && negb oneof
    end
  end.

Definition all_kinds : list kind :=
  [KDouble; KFloat; KInt32; KInt64; KUint32; KUint64; KSint32; KSint64; KFixed32; KFixed64; KSfixed32; KSfixed64; KBool; KString; KBytes; KEnum].
Definition all_fkinds : list fkind := map FK all_kinds ++ [FMsg; FGroup].
Definition all_shapes : list fshape := [SSingular; SOptional; SPacked; SUnpacked] ++ map SMap all_kinds.

(* genSizeMethod: number of lines ending in '{' of the whole size closure of a message
   fields: (kind, shape, index of the real oneof or none) *)
Definition fspec := (fkind * fshape * option N)%type.
Fixpoint distinct_oneofs (l : list fspec) (seen : list N) : N :=
  match l with
  | [] => 0
  | (_, _, Some o) :: t => if existsb (N.eqb o) seen then distinct_oneofs t seen else 1 + distinct_oneofs t (o :: seen)
  | _ :: t => distinct_oneofs t seen
  end.
Fixpoint size_method_opens_fields (l : list fspec) : option N :=
  match l with
  | [] => Some 0
  | (fk, s, o) :: t =>
    match size_field fk s (match o with Some _ => true | None => false end), size_method_opens_fields t with
    | Some b, Some r => Some (opens b + (match o with Some _ => 1 | None => 0 end) + r)   (* + `if x == nil {` per member *)
    | _, _ => None
    end
  end.
(* size := func(..) {   if x == nil {   return SizeOutput{   ...   if x.unknownFields != nil {   return SizeOutput{ *)
Definition size_method_opens (l : list fspec) : option N :=
  match size_method_opens_fields l with Some n => Some (5 + distinct_oneofs l [] + n) | None => None end.
