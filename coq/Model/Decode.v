(* Model/Decode.v — faithful, schema-parametric model of the decode loop printed by
   features/fastreflection/proto_unmarshal.go (+ runtime.Skip, runtime.UnmarshalInputToOptions).
   Index arithmetic is replaced by suffixes of the buffer (dAtA[iNdEx:]); "bounded by l" therefore
   means "bounded by the end of the suffix", which reproduces the packed-run / map-entry quirk of
   reading past postIndex. Definitions only. *)
From CP Require Export Schema Runtime Codec.
Local Open Scope N_scope.

(* ---- zero values and empty messages --------------------------------------------------- *)
Definition zero_scalar (k : kind) : val :=
  match k with
  | KBool => VBool false
  | KFloat | KDouble => VBits 0
  | KString => VBytes []
  | KBytes => VNil                       (* nil []byte *)
  | _ => VInt 0
  end.
Definition default_slot (f : field) : val :=
  match f_shape f, f_ty f with
  | Singular, TScalar k => zero_scalar k
  | _, _ => VNil
  end.
Definition empty_msg (md : msgdesc) : val := VMsg (map default_slot (m_fields md)) [].

(* ---- reading primitives on a suffix ---------------------------------------------------- *)
Definition take_fixed (n : nat) (rest : list byte) : option (N * list byte) :=
  if (length rest <? n)%nat then None else Some (dec_le (firstn n rest), skipn n rest).

(* length header followed by that many bytes: `len < 0`, `postIndex < 0`, `postIndex > l` are errors *)
Definition take_len (rest : list byte) : option (list byte * list byte) :=
  match dec_varint rest with
  | None => None
  | Some (raw, _, rest1) =>
    let len := s64 raw in
    if (len <? 0)%Z then None
    else if (Z.of_nat (length rest1) <? len)%Z then None
    else Some (firstn (Z.to_nat len) rest1, skipn (Z.to_nat len) rest1)
  end.

(* typed value of an accumulated varint (truncation to the Go type of the target) *)
Definition varint_val (k : kind) (raw : N) : val :=
  match k with
  | KInt64 => VInt (s64 raw)
  | KUint64 => VInt (Z.of_N (u64 raw))
  | KInt32 | KEnum => VInt (s32 raw)
  | KUint32 => VInt (Z.of_N (u32 raw))
  | KBool => VBool (negb (u64 raw =? 0))
  | KSint32 => VInt (s32 (unzigzag32 (u32 raw)))
  | KSint64 => VInt (s64 (unzigzag64 (u64 raw)))
  | _ => VInt 0
  end.
Definition fixed_val (k : kind) (n : N) : val :=
  match k with
  | KFloat | KDouble => VBits n
  | KSfixed32 => VInt (s32 n)
  | KSfixed64 => VInt (s64 n)
  | _ => VInt (Z.of_N n)
  end.

(* one scalar item decoded according to its kind (the wire type was checked by the caller, or, in
   map entries, is not checked at all) *)
Definition dec_scalar (k : kind) (rest : list byte) : option (val * list byte) :=
  match k with
  | KDouble | KFixed64 | KSfixed64 =>
    match take_fixed 8 rest with Some (n, r) => Some (fixed_val k n, r) | None => None end
  | KFloat | KFixed32 | KSfixed32 =>
    match take_fixed 4 rest with Some (n, r) => Some (fixed_val k n, r) | None => None end
  | KString | KBytes =>
    match take_len rest with Some (p, r) => Some (VBytes p, r) | None => None end
  | _ =>
    match dec_varint rest with Some (raw, _, r) => Some (varint_val k raw, r) | None => None end
  end.

(* ---- slot updates ----------------------------------------------------------------------- *)
Fixpoint set_nth {A} (l : list A) (i : nat) (x : A) : list A :=
  match l, i with
  | [], _ => []
  | _ :: t, O => x :: t
  | h :: t, S j => h :: set_nth t j x
  end.

Definition list_append (s v : val) : val :=
  match s with VList l => VList (l ++ [v]) | _ => VList [v] end.

Definition val_key_eqb (a b : val) : bool :=
  match a, b with
  | VInt x, VInt y => (x =? y)%Z
  | VBool x, VBool y => Bool.eqb x y
  | VBytes x, VBytes y => if list_eq_dec Byte.byte_eq_dec x y then true else false
  | _, _ => false
  end.
Fixpoint map_set (kvs : list (val * val)) (k v : val) : list (val * val) :=
  match kvs with
  | [] => [(k, v)]
  | (k', v') :: t => if val_key_eqb k' k then (k, v) :: t else (k', v') :: map_set t k v
  end.

(* clear the other members of oneof [oi] (the Go interface field is overwritten) *)
Fixpoint clear_oneof (fs : list field) (ss : list val) (oi : nat) : list val :=
  match fs, ss with
  | f :: fs', s :: ss' =>
    (match f_shape f with Member j => if Nat.eqb j oi then VNil else s | _ => s end) :: clear_oneof fs' ss' oi
  | _, _ => ss
  end.

Fixpoint find_field (fs : list field) (i : nat) (num : Z) : option (nat * field) :=
  match fs with
  | [] => None
  | f :: t => if (Z.of_N (f_num f) =? num)%Z then Some (i, f) else find_field t (S i) num
  end.

Definition slots_of (v : val) : list val := match v with VMsg s _ => s | _ => [] end.
Definition unk_of (v : val) : list byte := match v with VMsg _ u => u | _ => [] end.

Section Decode.
  Variable sch : schema.
  Variable discard : bool.

  (* child decoder: message index, target (existing value or VNil for a fresh one), payload *)
  Definition child_t := nat -> val -> list byte -> outcome val.

  (* packed run: `for iNdEx < postIndex { item }` with items bounded by the end of the buffer.
     [k] = bytes of the run not yet consumed (may go negative on the last item) *)
  Fixpoint packed_loop (fuel : nat) (kd : kind) (k : Z) (acc : val) (rest : list byte) : outcome (val * list byte) :=
    match fuel with
    | O => OutOfFuel
    | S f =>
      if (k <=? 0)%Z then Ok (acc, rest)
      else match dec_scalar kd rest with
           | None => Err
           | Some (v, rest') =>
             packed_loop f kd (k - (Z.of_nat (length rest) - Z.of_nat (length rest')))%Z (list_append acc v) rest'
           end
    end.

  (* one decoded value of type t (message payloads go through the child decoder) *)
  Definition dec_item (child : child_t) (t : ftype) (target : val) (rest : list byte) : outcome (val * list byte) :=
    match t with
    | TScalar k => match dec_scalar k rest with Some (v, r) => Ok (v, r) | None => Err end
    | TMsg m =>
      match take_len rest with
      | None => Err
      | Some (payload, r) =>
        match child m target payload with
        | Ok v => Ok (v, r)
        | Err => Err | Panic => Panic | OutOfFuel => OutOfFuel
        end
      end
    end.

  (* map entry: `for iNdEx < postIndex`; subfields 1 and 2 decoded by kind WITHOUT a wire-type
     check, bounded by the end of the entry; anything else skipped (bounded by postIndex) *)
  Fixpoint entry_loop (child : child_t) (fuel : nat) (kk : kind) (t : ftype) (k : Z)
           (key value : val) (rest : list byte) : outcome (val * val) :=
    match fuel with
    | O => OutOfFuel
    | S f =>
      if (k <=? 0)%Z then Ok (key, value)
      else
        match dec_varint rest with
        | None => Err
        | Some (raw, _, rest1) =>
          let fieldNum := s32 (u64 raw / 8) in
          let used r := (Z.of_nat (length rest) - Z.of_nat (length r))%Z in
          (* a key or value must end inside its entry (`> postIndex` checks, and `if iNdEx > postIndex` after the
             subfield): a message value that would run past the entry is rejected before it is decoded *)
          if (fieldNum =? 1)%Z then
            match dec_scalar kk rest1 with
            | None => Err
            | Some (v, r) => if (k - used r <? 0)%Z then Err else entry_loop child f kk t (k - used r)%Z v value r
            end
          else if (fieldNum =? 2)%Z then
            match t with
            | TScalar kd =>
              match dec_scalar kd rest1 with
              | None => Err
              | Some (v, r) => if (k - used r <? 0)%Z then Err else entry_loop child f kk t (k - used r)%Z key v r
              end
            | TMsg m =>
              match take_len rest1 with
              | None => Err
              | Some (payload, r) =>
                if (k - used r <? 0)%Z then Err
                else match child m value payload with
                     | Ok v => entry_loop child f kk t (k - used r)%Z key v r
                     | Err => Err | Panic => Panic | OutOfFuel => OutOfFuel
                     end
              end
            end
          else
            match Skip rest with
            | Ok skippy =>
              if (k <? skippy)%Z then Err                      (* (iNdEx + skippy) > postIndex *)
              else entry_loop child f kk t (k - skippy)%Z key value (zskipn skippy rest)
            | _ => Err
            end
        end
    end.

  Definition map_value_init (md_of : nat -> option msgdesc) (t : ftype) : val :=
    match t with
    | TScalar k => zero_scalar k
    | TMsg m => match md_of m with Some md => empty_msg md | None => VNil end
    end.

  (* what one record of a known field does to the message *)
  Definition field_item (child : child_t) (md : msgdesc) (idx : nat) (f : field) (wt : N)
             (msg : val) (rest1 : list byte) : outcome (val * list byte) :=
    let slots := slots_of msg in
    let unk := unk_of msg in
    let s := nth idx slots VNil in
    let t := f_ty f in
    let put v := VMsg (set_nth slots idx v) unk in
    match f_shape f with
    | Rep _ =>
      match t with
      | TScalar kd =>
        if negb (kind_wt kd =? WT_BYTES) then
          if wt =? kind_wt kd then
            match dec_scalar kd rest1 with
            | Some (v, r) => Ok (put (list_append s v), r)
            | None => Err
            end
          else if wt =? WT_BYTES then
            match dec_varint rest1 with
            | None => Err
            | Some (raw, _, rest2) =>
              let len := s64 raw in
              if (len <? 0)%Z then Err
              else if (Z.of_nat (length rest2) <? len)%Z then Err
              else match packed_loop (S (length rest2)) kd len s rest2 with
                   | Ok (s', r) => Ok (put s', r)
                   | Err => Err | Panic => Panic | OutOfFuel => OutOfFuel
                   end
            end
          else Err
        else if wt =? WT_BYTES then
          match dec_scalar kd rest1 with
          | Some (v, r) => Ok (put (list_append s v), r)
          | None => Err
          end
        else Err
      | TMsg _ =>
        if wt =? WT_BYTES then
          match dec_item child t VNil rest1 with
          | Ok (v, r) => Ok (put (list_append s v), r)
          | Err => Err | Panic => Panic | OutOfFuel => OutOfFuel
          end
        else Err
      end
    | Singular =>
      if wt =? ftype_wt t then
        match dec_item child t s rest1 with
        | Ok (v, r) => Ok (put v, r)
        | Err => Err | Panic => Panic | OutOfFuel => OutOfFuel
        end
      else Err
    | Member oi =>
      if wt =? ftype_wt t then
        let target := match s with VSome p => p | _ => VNil end in   (* same member set: merge into it *)
        match dec_item child t target rest1 with
        | Ok (v, r) => Ok (VMsg (set_nth (clear_oneof (m_fields md) slots oi) idx (VSome v)) unk, r)
        | Err => Err | Panic => Panic | OutOfFuel => OutOfFuel
        end
      else Err
    | MapOf kk =>
      if wt =? WT_BYTES then
        match dec_varint rest1 with
        | None => Err
        | Some (raw, _, rest2) =>
          let len := s64 raw in
          if (len <? 0)%Z then Err
          else if (Z.of_nat (length rest2) <? len)%Z then Err
          else
            let kvs := match s with VMap kvs => kvs | _ => [] end in
            match entry_loop child (S (length rest2)) kk t len (zero_scalar kk) (map_value_init (get_msg sch) t) rest2 with
            | Ok (k, v) => Ok (put (VMap (map_set kvs k v)), zskipn len rest2)
            | Err => Err | Panic => Panic | OutOfFuel => OutOfFuel
            end
        end
      else Err
    end.

  Fixpoint msg_loop (child : child_t) (md : msgdesc) (fuel : nat) (msg : val) (rest : list byte) : outcome val :=
    match fuel with
    | O => OutOfFuel
    | S fu =>
      match rest with
      | [] => Ok msg
      | _ =>
        match dec_varint rest with
        | None => Err
        | Some (raw, _, rest1) =>
          let wire := u64 raw in
          let fieldNum := s32 (wire / 8) in
          let wt := wire mod 8 in
          if wt =? 4 then Err
          else if (fieldNum <=? 0)%Z then Err
          else
            match find_field (m_fields md) 0 fieldNum with
            | Some (idx, f) =>
              match field_item child md idx f wt msg rest1 with
              | Ok (msg', rest') => msg_loop child md fu msg' rest'
              | Err => Err | Panic => Panic | OutOfFuel => OutOfFuel
              end
            | None =>
              match Skip rest with
              | Ok skippy =>
                if (Z.of_nat (length rest) <? skippy)%Z then Err
                else
                  let rec_bytes := zfirstn skippy rest in
                  let msg' := if discard then msg else VMsg (slots_of msg) (unk_of msg ++ rec_bytes) in
                  msg_loop child md fu msg' (zskipn skippy rest)
              | _ => Err
              end
            end
        end
      end
    end.

  (* the unmarshal_at closure + proto.UnmarshalOptions.pulsar_unmarshal around nested calls; [depth] is
     protoiface.UnmarshalInput.Depth (levels still allowed, this one included) *)
  Fixpoint unmarshal_at (fuel : nat) (depth : Z) (mid : nat) (target : val) (bs : list byte) : outcome val :=
    match fuel with
    | O => OutOfFuel
    | S f =>
      if (depth <=? 0)%Z then Err
      else match get_msg sch mid with
           | None => Panic
           | Some md =>
             let init := match target with VMsg _ _ => target | _ => empty_msg md end in
             msg_loop (unmarshal_at f (depth - 1)%Z) md (S (length bs)) init bs
           end
    end.

  Definition recursion_limit : Z := 10000.
  (* proto.pulsar_unmarshal / UnmarshalOptions{Merge}.pulsar_unmarshal on a message of type mid *)
  Definition pulsar_unmarshal (mid : nat) (init : val) (bs : list byte) : outcome val :=
    unmarshal_at (S (length bs)) recursion_limit mid init bs.
End Decode.
