(* Model/ApiProg.v — "ApiProg": the plain Go API of a generated message type as data — the struct declaration with its
   struct tags, the oneof wrapper types, the getters and Reset, i.e. what the protoc-gen-go part of the plugin
   (features/protoc/main.go: genMessage, genMessageFields / genMessageField, genMessageOneofWrapperTypes,
   genMessageGetterMethods, genMessageBaseMethods) prints for every message; an interpreter of getters and Reset over the
   heap of Go objects of Model/Reflect.v; [canon_prog], the declarations the generator emits for a message type, computed
   from the schema and a naming context; and the statements tying them to Reflect.step (proved in Proofs/ApiProgProofs.v).

   Use (DESIGN 12.7: translator tie). On every run the Go runner (engine "apiprog") parses every generated *.pulsar.go with
   go/parser, finds for every message type T the declarations  type T struct {…},  type isT_O interface {…},  the wrapper
   structs  type T_F struct {…}  with their marker methods, the methods  func (x *T) Get…()  and  func (x *T) Reset(),
   checks each literally (token patterns) and translates it, purely syntactically, into the syntax below (or fails:
   "untranslatable"). The driver compares the translation with [canon_prog] (APIPROG lines) and runs the interpreter on the
   TRANSLATED getters / Reset against the running code (APIRUN lines).

   Conventions
   * One constructor per printed form. Names the schema does not carry (Go field names, proto / JSON names in the tags, wrapper
     and interface type names, Go enum type names, the message-type table variable) are byte strings; the canonical
     declarations take them from a NAMING CONTEXT [amnames] that the engine supplies per message (descriptor: proto / JSON
     names, first enum value; package reflect on the linked struct: the Go names the other translators resolve field indexes
     with; the registry: Go enum types) and that is checked for consistency ([api_names_okb]: right lengths, Go field names
     pairwise distinct, wrapper names distinct, oneof names distinct, first enum value = 0 as proto3 demands).
   * Inside getters names are indexes, as in ReflectProg.v: field i = x.<Go name of field i> / its wrapper type / payload
     field; oneof o = x.<Go name of oneof o> / its getter; message m = the Go type of message m of the schema.
   * An interpreter answers None ("stuck") for a method Go's type checker would reject (a return type that is not the field's Go
     type, a zero literal that is not of the return type, `T{}` of another type assigned to *x, a getter of a oneof that does
     not exist …). The canonical declarations never get stuck.
   * The receiver of a getter / of Reset is a Go pointer: [Some id] (a heap object) or [None] (nil). A pointer that is not an
     object of the type in the heap (impossible in Go) panics on the first dereference, as in Reflect.step.
   * A getter returns a Go VALUE ([apival]): scalars as the codec's [val], message pointers, the slice / map the field holds
     (nil kept distinct from empty), the oneof interface value (nil or a wrapper with its payload). [api_rel] relates it to
     the protoreflect.Value that Get returns: see there for the documented representation differences.
   * In comments a Go pointer type in parentheses is written with a space, `( *T)`.
   Names: this file is extracted into the same OCaml module as the other models; its constructors and functions carry
   prefixes of their own (AT… types, AW… wire words, AL… labels, TG… tags, AZ… zero values, AG… getters, AR… reset, AV… values,
   api_… / canon_api… functions).
   Executable definitions only. *)
From CP Require Export ReflectProg.
From CP Require GenNames GenOrder.
Local Open Scope nat_scope.
(* byte strings (GenNames.v; not imported: its record of fields would shadow Schema.v's) *)
Local Notation name := GenNames.name.
Local Notation name_eqb := GenNames.name_eqb.
Local Notation mtree := GenOrder.mtree.
Local Notation path := GenOrder.path.
Local Notation msg_index := GenOrder.msg_index.

(* ---- Go types, as fieldGoType prints them ----------------------------------------------------------------------- *)
Inductive agotype :=
| ATBool | ATInt32 | ATUint32 | ATInt64 | ATUint64 | ATFloat32 | ATFloat64 | ATString
| ATBytes                        (* []byte *)
| ATEnum (e : name)              (* a named (enum) type, resolved: <import path>.<Name> *)
| ATMsg (m : nat)                (* *T, T = the Go type of message m *)
| ATSlice (e : agotype)          (* []E *)
| ATMap (k v : agotype)          (* map[K]V *)
| ATIface (n : name)             (* isT_O: an interface type declared in the package *)
| ATState | ATSizeCache | ATUnknown.   (* protoimpl.MessageState / SizeCache / UnknownFields *)

(* ---- struct tags --------------------------------------------------------------------------------------------------- *)
(* the first word of a protobuf tag (TagMarshal) *)
Inductive awire := AWVarint | AWZigzag32 | AWZigzag64 | AWFixed32 | AWFixed64 | AWBytes.
Inductive alabel := ALOpt | ALRep | ALReq.
(* protobuf:"<wire>,<num>,<opt|rep|req>[,packed],name=<name>[,json=<json>][,proto3][,enum=<enum>][,oneof]" *)
Record aptag := mkPTag {
  pt_wire : awire; pt_num : N; pt_label : alabel; pt_packed : bool; pt_name : name; pt_json : option name;
  pt_proto3 : bool; pt_enum : option name; pt_oneof : bool }.
Inductive atags :=
| TGNone                                              (* no tag: state, sizeCache, unknownFields *)
| TGField (p : aptag) (json : name)                   (* `protobuf:"<p>" json:"<json>,omitempty"` *)
| TGMapField (p : aptag) (json : name) (k v : aptag)  (* … protobuf_key:"<k>" protobuf_val:"<v>"` *)
| TGOneof (n : name)                                  (* `protobuf_oneof:"<n>"` *)
| TGWrapper (p : aptag).                              (* `protobuf:"<p>"`: the single field of a oneof wrapper struct *)

Record agofield := mkGoField { gf_name : name; gf_type : agotype; gf_tags : atags }.
(* type <W> struct { <F> <K> `…` } *)
Record awrapper := mkWrapper { aw_name : name; aw_field : agofield }.
(* type <I> interface { <I>() };  the wrapper structs of the members, in order;  func ( *<W>) <I>() {}  for each <W> of [ao_impls] *)
Record aoneofdecl := mkOneofDecl { ao_iface : name; ao_wrappers : list awrapper; ao_impls : list name }.
(* type <T> struct { fields }  + one [aoneofdecl] per oneof of the descriptor, in the descriptor's order *)
Record astruct := mkStruct { as_name : name; as_fields : list agofield; as_oneofs : list aoneofdecl }.

(* ---- getters and Reset ------------------------------------------------------------------------------------------------ *)
(* what follows the final `return` of a getter (fieldDefaultValue) *)
Inductive azero :=
| AZFalse                          (* false *)
| AZNum                            (* 0 *)
| AZStr                            (* "" *)
| AZNil                            (* nil *)
| AZEnumConst (e : name) (n : Z)   (* an identifier that the package declares, in a const block, as `<Ident> <e> = <n>` *)
| AZEnumConv (e : name) (n : Z).   (* <e>(<n>): the enum lives in another Go package *)

Inductive agetter :=
| AGField (i : nat) (ty : agotype) (z : azero)
      (* func (x *T) Get<F_i>() <ty> { if x != nil { return x.<F_i> }; return <z> } *)
| AGOneof (o : nat) (iface : name)
      (* func (x *T) Get<O_o>() <iface> { if x != nil { return x.<O_o> }; return nil } *)
| AGMember (o j : nat) (ty : agotype) (z : azero).
      (* func (x *T) Get<F_j>() <ty> { if x, ok := x.Get<O_o>().( *<W_j>); ok { return x.<F_j> }; return <z> } *)

Inductive areset :=
| ARReset (m : nat) (var : name) (idx : option N).
      (* func (x *T) Reset() { *x = <T_m>{}
           if protoimpl.UnsafeEnabled { mi := &<var>[<idx>]; ms := protoimpl.X.MessageStateOf(protoimpl.Pointer(x)); ms.StoreMessageInfo(mi) } } *)

(* [ap_getters]: position i = the method Get<Go name of field i>; [ap_ogetters]: position o = the method Get<Go name of oneof o> *)
Record aprog := mkAProg { ap_struct : astruct; ap_getters : list agetter; ap_ogetters : list agetter; ap_reset : areset }.

(* ---- decidable equality -------------------------------------------------------------------------------------------- *)
Definition api_oname_eqb (a b : option name) : bool :=
  match a, b with Some x, Some y => name_eqb x y | None, None => true | _, _ => false end.
Fixpoint agotype_eqb (a b : agotype) : bool :=
  match a, b with
  | ATBool, ATBool | ATInt32, ATInt32 | ATUint32, ATUint32 | ATInt64, ATInt64 | ATUint64, ATUint64 | ATFloat32, ATFloat32
  | ATFloat64, ATFloat64 | ATString, ATString | ATBytes, ATBytes | ATState, ATState | ATSizeCache, ATSizeCache
  | ATUnknown, ATUnknown => true
  | ATEnum x, ATEnum y | ATIface x, ATIface y => name_eqb x y
  | ATMsg x, ATMsg y => Nat.eqb x y
  | ATSlice x, ATSlice y => agotype_eqb x y
  | ATMap k v, ATMap k' v' => agotype_eqb k k' && agotype_eqb v v'
  | _, _ => false
  end.
Definition awire_eqb (a b : awire) : bool :=
  match a, b with
  | AWVarint, AWVarint | AWZigzag32, AWZigzag32 | AWZigzag64, AWZigzag64 | AWFixed32, AWFixed32 | AWFixed64, AWFixed64
  | AWBytes, AWBytes => true
  | _, _ => false
  end.
Definition alabel_eqb (a b : alabel) : bool :=
  match a, b with ALOpt, ALOpt | ALRep, ALRep | ALReq, ALReq => true | _, _ => false end.
Definition aptag_eqb (a b : aptag) : bool :=
  awire_eqb (pt_wire a) (pt_wire b) && N.eqb (pt_num a) (pt_num b) && alabel_eqb (pt_label a) (pt_label b) &&
  Bool.eqb (pt_packed a) (pt_packed b) && name_eqb (pt_name a) (pt_name b) && api_oname_eqb (pt_json a) (pt_json b) &&
  Bool.eqb (pt_proto3 a) (pt_proto3 b) && api_oname_eqb (pt_enum a) (pt_enum b) && Bool.eqb (pt_oneof a) (pt_oneof b).
Definition atags_eqb (a b : atags) : bool :=
  match a, b with
  | TGNone, TGNone => true
  | TGField p j, TGField p' j' => aptag_eqb p p' && name_eqb j j'
  | TGMapField p j k v, TGMapField p' j' k' v' => aptag_eqb p p' && name_eqb j j' && aptag_eqb k k' && aptag_eqb v v'
  | TGOneof n, TGOneof n' => name_eqb n n'
  | TGWrapper p, TGWrapper p' => aptag_eqb p p'
  | _, _ => false
  end.
Definition agofield_eqb (a b : agofield) : bool :=
  name_eqb (gf_name a) (gf_name b) && agotype_eqb (gf_type a) (gf_type b) && atags_eqb (gf_tags a) (gf_tags b).
Definition awrapper_eqb (a b : awrapper) : bool := name_eqb (aw_name a) (aw_name b) && agofield_eqb (aw_field a) (aw_field b).
Definition aoneofdecl_eqb (a b : aoneofdecl) : bool :=
  name_eqb (ao_iface a) (ao_iface b) && rp_list_eqb awrapper_eqb (ao_wrappers a) (ao_wrappers b) &&
  rp_list_eqb name_eqb (ao_impls a) (ao_impls b).
Definition astruct_eqb (a b : astruct) : bool :=
  name_eqb (as_name a) (as_name b) && rp_list_eqb agofield_eqb (as_fields a) (as_fields b) &&
  rp_list_eqb aoneofdecl_eqb (as_oneofs a) (as_oneofs b).
Definition azero_eqb (a b : azero) : bool :=
  match a, b with
  | AZFalse, AZFalse | AZNum, AZNum | AZStr, AZStr | AZNil, AZNil => true
  | AZEnumConst e n, AZEnumConst e' n' | AZEnumConv e n, AZEnumConv e' n' => name_eqb e e' && Z.eqb n n'
  | _, _ => false
  end.
Definition agetter_eqb (a b : agetter) : bool :=
  match a, b with
  | AGField i t z, AGField i' t' z' => Nat.eqb i i' && agotype_eqb t t' && azero_eqb z z'
  | AGOneof o n, AGOneof o' n' => Nat.eqb o o' && name_eqb n n'
  | AGMember o j t z, AGMember o' j' t' z' => Nat.eqb o o' && Nat.eqb j j' && agotype_eqb t t' && azero_eqb z z'
  | _, _ => false
  end.
Definition areset_eqb (a b : areset) : bool :=
  match a, b with
  | ARReset m v i, ARReset m' v' i' =>
    Nat.eqb m m' && name_eqb v v' && match i, i' with Some x, Some y => N.eqb x y | None, None => true | _, _ => false end
  end.
Definition aprog_eqb (a b : aprog) : bool :=
  astruct_eqb (ap_struct a) (ap_struct b) && rp_list_eqb agetter_eqb (ap_getters a) (ap_getters b) &&
  rp_list_eqb agetter_eqb (ap_ogetters a) (ap_ogetters b) && areset_eqb (ap_reset a) (ap_reset b).

(* ---- the Go values getters return ------------------------------------------------------------------------------------ *)
Inductive apival :=
| AVScalar (v : val)                                            (* bool, intN, uintN, floatN (bits), string, []byte (VNil = nil), enum *)
| AVMsg (m : nat) (p : option nat)                              (* *T of message m: a heap object or nil *)
| AVList (t : ftype) (l : option (list elem))                   (* the slice: nil or its elements *)
| AVMap (kk : kind) (t : ftype) (m : option (list (val * elem))) (* the map: nil or its entries *)
| AVOneof (w : option (nat * elem))                             (* the interface value: nil, or the wrapper of member j with its payload *)
| AVUnit                                                        (* Reset returned *)
| AVPanic.

(* ---- interpreter ---------------------------------------------------------------------------------------------------------- *)
Definition api_scalar_ty_fits (k : kind) (ty : agotype) : bool :=
  match k, ty with
  | KBool, ATBool => true
  | (KInt32 | KSint32 | KSfixed32), ATInt32 => true
  | (KUint32 | KFixed32), ATUint32 => true
  | (KInt64 | KSint64 | KSfixed64), ATInt64 => true
  | (KUint64 | KFixed64), ATUint64 => true
  | KFloat, ATFloat32 => true
  | KDouble, ATFloat64 => true
  | KString, ATString => true
  | KBytes, ATBytes => true
  | KEnum, ATEnum _ => true
  | _, _ => false
  end.
Definition api_elem_ty_fits (t : ftype) (ty : agotype) : bool :=
  match t, ty with
  | TScalar k, _ => api_scalar_ty_fits k ty
  | TMsg m, ATMsg m' => Nat.eqb m m'
  | _, _ => false
  end.
(* ty is the Go type of the struct field (of the wrapper's payload field, for a member) that holds field fd *)
Definition api_field_ty_fits (fd : field) (ty : agotype) : bool :=
  match f_shape fd, ty with
  | Rep _, ATSlice e => api_elem_ty_fits (f_ty fd) e
  | Rep _, _ => false
  | MapOf kk, ATMap k v => api_scalar_ty_fits kk k && api_elem_ty_fits (f_ty fd) v
  | MapOf _, _ => false
  | _, _ => api_elem_ty_fits (f_ty fd) ty
  end.

(* `return <z>` in a method whose result type is ty, the Go type of field fd *)
Definition api_eval_zero (fd : field) (ty : agotype) (z : azero) : option apival :=
  match f_shape fd with
  | Rep _ => match z with AZNil => Some (AVList (f_ty fd) None) | _ => None end
  | MapOf kk => match z with AZNil => Some (AVMap kk (f_ty fd) None) | _ => None end
  | _ =>
    match f_ty fd with
    | TMsg m => match z with AZNil => Some (AVMsg m None) | _ => None end
    | TScalar k =>
      match k, z with
      | KBool, AZFalse => Some (AVScalar (VBool false))
      | KString, AZStr => Some (AVScalar (VBytes []))
      | KBytes, AZNil => Some (AVScalar VNil)
      | KEnum, (AZEnumConst e n | AZEnumConv e n) =>
        match ty with ATEnum e' => if name_eqb e e' then Some (AVScalar (VInt n)) else None | _ => None end
      | (KFloat | KDouble), AZNum => Some (AVScalar (VBits 0%N))
      | (KInt32 | KSint32 | KSfixed32 | KUint32 | KFixed32 | KInt64 | KSint64 | KSfixed64 | KUint64 | KFixed64), AZNum =>
        Some (AVScalar (VInt 0%Z))
      | _, _ => None
      end
    end
  end.

(* the payload of a wrapper / an element, as the Go value of type t *)
Definition api_elem_val (t : ftype) (e : elem) : option apival :=
  match t, e with
  | TScalar _, EScalar v => Some (AVScalar v)
  | TMsg m, EPtr p => Some (AVMsg m p)
  | _, _ => None
  end.

Section ApiInterp.
  Variable sch : schema.

  (* x when the body runs *)
  Definition api_recv (h : heap) (mid : nat) (p : option nat) : xst :=
    match p with
    | None => XNil
    | Some id => match recv_obj sch h mid (Some id) with Some ob => XObj (Some id) ob | None => XBad end
    end.

  (* the oneof getter: if x != nil { return x.O }; return nil *)
  Definition api_eval_ogetter (noneofs : nat) (x : xst) (g : agetter) : option apival :=
    match g with
    | AGOneof o _ =>
      if o <? noneofs then
        match x with
        | XNil => Some (AVOneof None)
        | XObj _ ob => Some (AVOneof (slot_at ob o))
        | XBad => Some AVPanic
        end
      else None
    | _ => None
    end.

  (* [ogs]: the oneof getters of the type (x.Get<O>() is a call of one of them) *)
  Definition api_eval_getter (fs : list field) (noneofs : nat) (ogs : list agetter) (x : xst) (g : agetter) : option apival :=
    match g with
    | AGField i ty z =>
      match nth_error fs i with
      | Some fd =>
        match f_shape fd with
        | Member _ => None                                       (* no struct field of that name *)
        | _ =>
          if api_field_ty_fits fd ty then
            match api_eval_zero fd ty z with
            | Some zv =>
              match x with
              | XNil => Some zv
              | XBad => Some AVPanic
              | XObj _ ob =>
                match nth_error (o_cells ob) i, f_shape fd, f_ty fd with
                | Some (CScalar v), Singular, TScalar _ => Some (AVScalar v)
                | Some (CMsg p), Singular, TMsg m => Some (AVMsg m p)
                | Some (CList l), Rep _, t => Some (AVList t l)
                | Some (CMap m), MapOf kk, t => Some (AVMap kk t m)
                | _, _, _ => None
                end
              end
            | None => None
            end
          else None
        end
      | None => None
      end
    | AGOneof _ _ => api_eval_ogetter noneofs x g
    | AGMember o j ty z =>
      match member_in fs j o, nth_error ogs o with
      | Some fd, Some og =>
        if api_elem_ty_fits (f_ty fd) ty then
          match api_eval_zero fd ty z, api_eval_ogetter noneofs x og with
          | Some zv, Some (AVOneof w) =>
            match w with
            | Some (j', e) => if Nat.eqb j' j then api_elem_val (f_ty fd) e else Some zv
            | None => Some zv
            end
          | Some _, Some AVPanic => Some AVPanic
          | _, _ => None
          end
        else None
      | _, _ => None
      end
    end.

  (* p.Get<F_f>() / p.Get<O_o>() with the methods of [prog], p a pointer to message type mid *)
  Definition run_getter (prog : aprog) (h : heap) (mid : nat) (p : option nat) (f : nat) : option apival :=
    match nth_error (ap_getters prog) f with
    | Some g =>
      match g with
      | AGOneof _ _ => None
      | _ => api_eval_getter (fields_of sch mid) (rp_noneofs sch mid) (ap_ogetters prog) (api_recv h mid p) g
      end
    | None => None
    end.
  Definition run_ogetter (prog : aprog) (h : heap) (mid : nat) (p : option nat) (o : nat) : option apival :=
    match nth_error (ap_ogetters prog) o with
    | Some g => api_eval_ogetter (rp_noneofs sch mid) (api_recv h mid p) g
    | None => None
    end.

  (* p.Reset(): `*x = T{}` dereferences x; the UnsafeEnabled block writes the unexported state field only, which the heap does not model *)
  Definition run_reset (rs : areset) (h : heap) (mid : nat) (p : option nat) : option (heap * apival) :=
    match rs with
    | ARReset m _ _ =>
      if Nat.eqb m mid then
        match api_recv h mid p with
        | XObj (Some id) _ => Some (hset h id (HObj (new_obj sch mid)), AVUnit)
        | _ => Some (h, AVPanic)
        end
      else None
    end.
End ApiInterp.

(* ---- what a getter's result is in terms of protoreflect ----------------------------------------------------------------- *)
(* [api_rel h gv pv]: the Go value gv a getter returned and the protoreflect.Value pv that Get / WhichOneof returned for the same
   field on the same receiver denote the same thing. Equality, except for the documented representation differences:
   * a message getter returns the pointer held (nil included); Get returns the message, the typed nil pointer standing for the
     read-only empty message: both are [PMsg m p] / [AVMsg m p] with the same p;
   * a list / map getter returns the slice / map held; Get returns a view: the invalid (detached, empty) view [RNil] exactly
     when the getter's slice / map has no elements (nil or empty: Get does not tell them apart), else a view of the very
     field, whose contents are the getter's;
   * the oneof getter returns the wrapper; WhichOneof the member's descriptor: the member index is the same. *)
Definition api_rel (h : heap) (gv : apival) (pv : pval) : Prop :=
  match gv, pv with
  | AVScalar v, PScalar v' => v = v'
  | AVMsg m p, PMsg m' p' => m = m' /\ p = p'
  | AVList t l, PList t' r =>
    t = t' /\ match r with RNil => olen l = 0 | _ => olen l <> 0 /\ read_list h r = Some l end
  | AVMap kk t m, PMap kk' t' r =>
    kk = kk' /\ t = t' /\ match r with RNil => olen m = 0 | _ => olen m <> 0 /\ read_map h r = Some m end
  | AVOneof w, PField f => option_map fst w = f
  | AVPanic, PPanic => True
  | _, _ => False
  end.
(* the same, decided (for the driver) *)
Definition api_relb (h : heap) (gv : apival) (pv : pval) : bool :=
  match gv, pv with
  | AVScalar v, PScalar v' => rp_val_eqb v v'
  | AVMsg m p, PMsg m' p' => Nat.eqb m m' && rp_onat_eqb p p'
  | AVList t l, PList t' r =>
    rp_ftype_eqb t t' &&
    match r with
    | RNil => Nat.eqb (olen l) 0
    | _ => negb (Nat.eqb (olen l) 0) && rp_opt_eqb (rp_opt_eqb (rp_list_eqb rp_elem_eqb)) (read_list h r) (Some l)
    end
  | AVMap kk t m, PMap kk' t' r =>
    kind_eqb kk kk' && rp_ftype_eqb t t' &&
    match r with
    | RNil => Nat.eqb (olen m) 0
    | _ => negb (Nat.eqb (olen m) 0) && rp_opt_eqb (rp_opt_eqb (rp_list_eqb rp_entry_eqb)) (read_map h r) (Some m)
    end
  | AVOneof w, PField f => rp_onat_eqb (option_map fst w) f
  | AVPanic, PPanic => true
  | _, _ => false
  end.

(* ---- the naming context ------------------------------------------------------------------------------------------------ *)
Record afnames := mkFNames {
  fn_proto : name;          (* the field's name in the descriptor *)
  fn_json : name;           (* its JSON name *)
  fn_go : name;             (* the Go name: struct field / wrapper payload field, and Get<…> *)
  fn_wrap : name;           (* oneof members: the wrapper type *)
  fn_enum : name;           (* enum-typed (element / map value): the Go enum type, <import path>.<Name> *)
  fn_enum_tag : name;       (* … and its name in the tag (protoimpl.X.LegacyEnumName) *)
  fn_enum_local : bool;     (* … declared in the message's own Go package: the default is the constant, else <E>(<n>) *)
  fn_enum_first : Z }.      (* … the number of its first value *)
Record aonames := mkONames { on_proto : name; on_go : name; on_iface : name }.
Record amnames := mkMNames {
  mn_go : name;                       (* the Go type name *)
  mn_fields : list afnames; mn_oneofs : list aonames;
  mn_var : name;                      (* file_<…>_msgTypes of the message's file *)
  mn_tops : list mtree; mn_path : path }.   (* the message declarations of that file, and the message's place in them (Model/GenOrder.v) *)

Local Open Scope byte_scope.
Definition api_s_state : name := ["s"; "t"; "a"; "t"; "e"].
Definition api_s_sizecache : name := ["s"; "i"; "z"; "e"; "C"; "a"; "c"; "h"; "e"].
Definition api_s_unknown : name := ["u"; "n"; "k"; "n"; "o"; "w"; "n"; "F"; "i"; "e"; "l"; "d"; "s"].
Definition api_s_key : name := ["k"; "e"; "y"].
Definition api_s_value : name := ["v"; "a"; "l"; "u"; "e"].
Local Close Scope byte_scope.
Definition api_fnames0 : afnames := mkFNames [] [] [] [] [] [] false 0%Z.
Definition api_onames0 : aonames := mkONames [] [] [].

(* ---- the declarations the generator emits ------------------------------------------------------------------------------ *)
(* TagMarshal: the wire word of a kind *)
Definition api_wire_of (k : kind) : awire :=
  match k with
  | KBool | KEnum | KInt32 | KUint32 | KInt64 | KUint64 => AWVarint
  | KSint32 => AWZigzag32
  | KSint64 => AWZigzag64
  | KSfixed32 | KFixed32 | KFloat => AWFixed32
  | KSfixed64 | KFixed64 | KDouble => AWFixed64
  | KString | KBytes => AWBytes
  end.
Definition api_wire_of_ty (t : ftype) : awire := match t with TScalar k => api_wire_of k | TMsg _ => AWBytes end.
Definition api_enum_tag (t : ftype) (n : afnames) : option name :=
  match t with TScalar KEnum => Some (fn_enum_tag n) | _ => None end.
(* json=<…> appears when the JSON name is set and differs from the name *)
Definition api_json_opt (nm js : name) : option name :=
  match js with [] => None | _ => if name_eqb js nm then None else Some js end.

Definition canon_api_ptag (f : field) (n : afnames) : aptag :=
  match f_shape f with
  | MapOf _ =>      (* a repeated message (the entry type) *)
    mkPTag AWBytes (f_num f) ALRep false (fn_proto n) (api_json_opt (fn_proto n) (fn_json n)) true None false
  | Rep p =>
    mkPTag (api_wire_of_ty (f_ty f)) (f_num f) ALRep p (fn_proto n) (api_json_opt (fn_proto n) (fn_json n)) true
           (api_enum_tag (f_ty f) n) false
  | Singular =>
    mkPTag (api_wire_of_ty (f_ty f)) (f_num f) ALOpt false (fn_proto n) (api_json_opt (fn_proto n) (fn_json n)) true
           (api_enum_tag (f_ty f) n) false
  | Member _ =>
    mkPTag (api_wire_of_ty (f_ty f)) (f_num f) ALOpt false (fn_proto n) (api_json_opt (fn_proto n) (fn_json n)) true
           (api_enum_tag (f_ty f) n) true
  end.
(* the two fields of a map entry: key = 1, value = 2 *)
Definition canon_api_key_tag (kk : kind) : aptag := mkPTag (api_wire_of kk) 1%N ALOpt false api_s_key None true None false.
Definition canon_api_val_tag (t : ftype) (n : afnames) : aptag :=
  mkPTag (api_wire_of_ty t) 2%N ALOpt false api_s_value None true (api_enum_tag t n) false.

(* fieldGoType *)
Definition canon_api_scalar_ty (k : kind) (n : afnames) : agotype :=
  match k with
  | KBool => ATBool
  | KEnum => ATEnum (fn_enum n)
  | KInt32 | KSint32 | KSfixed32 => ATInt32
  | KUint32 | KFixed32 => ATUint32
  | KInt64 | KSint64 | KSfixed64 => ATInt64
  | KUint64 | KFixed64 => ATUint64
  | KFloat => ATFloat32
  | KDouble => ATFloat64
  | KString => ATString
  | KBytes => ATBytes
  end.
Definition canon_api_elem_ty (t : ftype) (n : afnames) : agotype :=
  match t with TScalar k => canon_api_scalar_ty k n | TMsg m => ATMsg m end.
Definition canon_api_field_ty (f : field) (n : afnames) : agotype :=
  match f_shape f with
  | Rep _ => ATSlice (canon_api_elem_ty (f_ty f) n)
  | MapOf kk => ATMap (canon_api_scalar_ty kk n) (canon_api_elem_ty (f_ty f) n)
  | _ => canon_api_elem_ty (f_ty f) n
  end.

(* genMessageField, a field outside a oneof *)
Definition canon_api_plain_field (f : field) (n : afnames) : agofield :=
  mkGoField (fn_go n) (canon_api_field_ty f n)
            (match f_shape f with
             | MapOf kk => TGMapField (canon_api_ptag f n) (fn_proto n) (canon_api_key_tag kk) (canon_api_val_tag (f_ty f) n)
             | _ => TGField (canon_api_ptag f n) (fn_proto n)
             end).
(* … the interface field of a oneof, printed where its first member stands *)
Definition canon_api_oneof_field (os : list aonames) (o : nat) : agofield :=
  let n := nth o os api_onames0 in mkGoField (on_go n) (ATIface (on_iface n)) (TGOneof (on_proto n)).

(* [seen]: the oneofs whose field was printed already *)
Fixpoint canon_api_gofields (os : list aonames) (seen : list nat) (fs : list field) (ns : list afnames) : list agofield :=
  match fs, ns with
  | f :: ft, n :: nt =>
    match f_shape f with
    | Member o =>
      if existsb (Nat.eqb o) seen then canon_api_gofields os seen ft nt
      else canon_api_oneof_field os o :: canon_api_gofields os (o :: seen) ft nt
    | _ => canon_api_plain_field f n :: canon_api_gofields os seen ft nt
    end
  | _, _ => []
  end.
(* genMessageInternalFields (no weak fields, no extension ranges in proto3) *)
Definition canon_api_internal : list agofield :=
  [mkGoField api_s_state ATState TGNone; mkGoField api_s_sizecache ATSizeCache TGNone; mkGoField api_s_unknown ATUnknown TGNone].

(* genMessageOneofWrapperTypes *)
Definition canon_api_wrapper (f : field) (n : afnames) : awrapper :=
  mkWrapper (fn_wrap n) (mkGoField (fn_go n) (canon_api_elem_ty (f_ty f) n) (TGWrapper (canon_api_ptag f n))).
Definition api_members (o : nat) (fs : list field) (ns : list afnames) : list (field * afnames) :=
  filter (fun fn => rp_member_of o (fst fn)) (combine fs ns).
Definition canon_api_oneofdecl (fs : list field) (ns : list afnames) (os : list aonames) (o : nat) : aoneofdecl :=
  let ms := api_members o fs ns in
  mkOneofDecl (on_iface (nth o os api_onames0)) (map (fun fn => canon_api_wrapper (fst fn) (snd fn)) ms) (map (fun fn => fn_wrap (snd fn)) ms).

Definition canon_api_struct (sch : schema) (mid : nat) (nm : amnames) : astruct :=
  let fs := rp_fields sch mid in
  mkStruct (mn_go nm)
           (canon_api_internal ++ canon_api_gofields (mn_oneofs nm) [] fs (mn_fields nm))
           (map (canon_api_oneofdecl fs (mn_fields nm) (mn_oneofs nm)) (seq 0 (rp_noneofs sch mid))).

(* fieldDefaultValue *)
Definition canon_api_zero (f : field) (n : afnames) : azero :=
  match f_shape f with
  | Rep _ | MapOf _ => AZNil
  | _ =>
    match f_ty f with
    | TMsg _ => AZNil
    | TScalar k =>
      match k with
      | KBool => AZFalse
      | KString => AZStr
      | KBytes => AZNil
      | KEnum => if fn_enum_local n then AZEnumConst (fn_enum n) (fn_enum_first n) else AZEnumConv (fn_enum n) (fn_enum_first n)
      | _ => AZNum
      end
    end
  end.
(* genMessageGetterMethods *)
Definition canon_api_getter (i : nat) (f : field) (n : afnames) : agetter :=
  match f_shape f with
  | Member o => AGMember o i (canon_api_elem_ty (f_ty f) n) (canon_api_zero f n)
  | _ => AGField i (canon_api_field_ty f n) (canon_api_zero f n)
  end.
Definition canon_api_getters (fs : list field) (ns : list afnames) : list agetter :=
  map (fun ifn => canon_api_getter (fst ifn) (fst (snd ifn)) (snd (snd ifn))) (rp_indexed 0 (combine fs ns)).
Definition canon_api_ogetters (noneofs : nat) (os : list aonames) : list agetter :=
  map (fun o => AGOneof o (on_iface (nth o os api_onames0))) (seq 0 noneofs).
(* genMessageBaseMethods: the index is f.allMessagesByPtr[m], the position in NewFileInfo's flattened order (Model/GenOrder.v) *)
Definition canon_api_reset (mid : nat) (nm : amnames) : areset :=
  ARReset mid (mn_var nm) (msg_index (mn_tops nm) (mn_path nm)).

Definition canon_prog (sch : schema) (mid : nat) (nm : amnames) : aprog :=
  mkAProg (canon_api_struct sch mid nm)
          (canon_api_getters (rp_fields sch mid) (mn_fields nm))
          (canon_api_ogetters (rp_noneofs sch mid) (mn_oneofs nm))
          (canon_api_reset mid nm).

(* ---- consistency of a naming context ------------------------------------------------------------------------------------ *)
Fixpoint api_nodup_names (l : list name) : bool :=
  match l with [] => true | x :: t => negb (existsb (name_eqb x) t) && api_nodup_names t end.
Definition api_first_zero (f : field) (n : afnames) : bool :=
  match f_ty f with TScalar KEnum => Z.eqb (fn_enum_first n) 0 | _ => true end.
(* one name record per field / oneof; every enum's first value is 0 (proto3) *)
Definition api_names_shapeb (sch : schema) (mid : nat) (nm : amnames) : bool :=
  Nat.eqb (length (mn_fields nm)) (length (rp_fields sch mid)) &&
  Nat.eqb (length (mn_oneofs nm)) (rp_noneofs sch mid) &&
  forallb (fun fn => api_first_zero (fst fn) (snd fn)) (combine (rp_fields sch mid) (mn_fields nm)).
(* … and names are injective: the Go fields of the struct, the wrapper types, the oneofs of the descriptor *)
Definition api_names_okb (sch : schema) (mid : nat) (nm : amnames) : bool :=
  api_names_shapeb sch mid nm &&
  api_nodup_names (map gf_name (as_fields (canon_api_struct sch mid nm))) &&
  api_nodup_names (map (fun fn => fn_wrap (snd fn))
                       (filter (fun fn => match f_shape (fst fn) with Member _ => true | _ => false end)
                               (combine (rp_fields sch mid) (mn_fields nm)))) &&
  api_nodup_names (map on_proto (mn_oneofs nm)).

(* ---- struct layout: what package reflect sees -------------------------------------------------------------------------- *)
(* the runner (values.go, and through it every translator) finds the Go field of proto field number n as the struct field whose
   protobuf tag carries n, the Go field of a oneof as the one tagged protobuf_oneof:"<name>", the wrapper of a member as the
   registered wrapper type whose only field carries the member's number *)
Definition api_tag_num (t : atags) : option N :=
  match t with TGField p _ | TGMapField p _ _ _ | TGWrapper p => Some (pt_num p) | _ => None end.
Definition api_tag_oneof (t : atags) : option name := match t with TGOneof n => Some n | _ => None end.
(* the number of Go fields printed for the first f proto fields *)
Fixpoint api_gopos (seen : list nat) (fs : list field) (f : nat) : nat :=
  match f, fs with
  | S f', fd :: ft =>
    match f_shape fd with
    | Member o => if existsb (Nat.eqb o) seen then api_gopos seen ft f' else S (api_gopos (o :: seen) ft f')
    | _ => S (api_gopos seen ft f')
    end
  | _, _ => 0
  end.
(* the first member of oneof o *)
Fixpoint api_first_member (o : nat) (fs : list field) : option nat :=
  match fs with
  | [] => None
  | fd :: ft => if rp_member_of o fd then Some 0 else option_map S (api_first_member o ft)
  end.

(* ---- the statements (proved in Proofs/ApiProgProofs.v) -------------------------------------------------------------------- *)
(* a getter agrees with Get, on every receiver (nil included) *)
Definition getter_api_stmt : Prop :=
  forall sch mid nm h p f fd, wf sch = true -> rp_heap_okb sch h = true -> api_names_shapeb sch mid nm = true ->
    nth_error (rp_fields sch mid) f = Some fd ->
    exists gv, run_getter sch (canon_prog sch mid nm) h mid p f = Some gv /\
               api_rel h gv (snd (step sch h (OGet (PMsg mid p) f))).
(* … and on the nil receiver it returns the zero value of its type *)
Definition api_zero_val (fd : field) : apival :=
  match f_shape fd with
  | Rep _ => AVList (f_ty fd) None
  | MapOf kk => AVMap kk (f_ty fd) None
  | _ => match f_ty fd with TMsg m => AVMsg m None | TScalar k => AVScalar (zero_scalar k) end
  end.
Definition getter_nil_api_stmt : Prop :=
  forall sch mid nm h f fd, wf sch = true -> api_names_shapeb sch mid nm = true ->
    nth_error (rp_fields sch mid) f = Some fd ->
    run_getter sch (canon_prog sch mid nm) h mid None f = Some (api_zero_val fd).
(* the oneof getter agrees with WhichOneof *)
Definition ogetter_api_stmt : Prop :=
  forall sch mid nm h p o, wf sch = true -> rp_heap_okb sch h = true -> api_names_shapeb sch mid nm = true ->
    o < rp_noneofs sch mid ->
    exists gv, run_ogetter sch (canon_prog sch mid nm) h mid p o = Some gv /\
               api_rel h gv (snd (step sch h (OWhichOneof (PMsg mid p) o))).
(* Reset: the object becomes the freshly allocated one; nothing else changes; nil panics; the invariant is kept *)
Definition reset_api_stmt : Prop :=
  forall sch mid nm h id ob, get_obj h id = Some ob -> o_mid ob = mid ->
    run_reset sch (ap_reset (canon_prog sch mid nm)) h mid (Some id) = Some (hset h id (HObj (new_obj sch mid)), AVUnit).
Definition reset_nil_api_stmt : Prop :=
  forall sch mid nm h, run_reset sch (ap_reset (canon_prog sch mid nm)) h mid None = Some (h, AVPanic).
Definition reset_keeps_ok_api_stmt : Prop :=
  forall sch mid nm h p h' r, rp_heap_okb sch h = true ->
    run_reset sch (ap_reset (canon_prog sch mid nm)) h mid p = Some (h', r) -> rp_heap_okb sch h' = true.
(* after Reset every field reads as unset and every getter returns its zero value *)
Definition reset_empties_api_stmt : Prop :=
  forall sch mid nm h id ob f fd, wf sch = true -> api_names_shapeb sch mid nm = true ->
    get_obj h id = Some ob -> o_mid ob = mid -> nth_error (rp_fields sch mid) f = Some fd ->
    forall h', run_reset sch (ap_reset (canon_prog sch mid nm)) h mid (Some id) = Some (h', AVUnit) ->
      snd (step sch h' (OHas (PMsg mid (Some id)) f)) = PBool false /\
      run_getter sch (canon_prog sch mid nm) h' mid (Some id) f = Some (api_zero_val fd).

(* struct layout. A field outside a oneof: the Go field at position 3 + api_gopos is the one the generator prints for it, and no
   other Go field of the struct carries its number *)
Definition struct_layout_field_stmt : Prop :=
  forall sch mid nm f fd, wf sch = true -> api_names_shapeb sch mid nm = true ->
    nth_error (rp_fields sch mid) f = Some fd -> (forall o, f_shape fd <> Member o) ->
    let st := canon_api_struct sch mid nm in
    let k := 3 + api_gopos [] (rp_fields sch mid) f in
    nth_error (as_fields st) k = Some (canon_api_plain_field fd (nth f (mn_fields nm) api_fnames0)) /\
    api_tag_num (gf_tags (canon_api_plain_field fd (nth f (mn_fields nm) api_fnames0))) = Some (f_num fd) /\
    forall k' gf, nth_error (as_fields st) k' = Some gf -> api_tag_num (gf_tags gf) = Some (f_num fd) -> k' = k.
(* A member of oneof o: the oneof's interface field stands where its first member is declared, and is the only Go field tagged
   with the oneof's name; the wrapper types of the oneof are those of its members, in order, and the member's wrapper is the only
   wrapper of the message that carries the member's number *)
Definition struct_layout_oneof_stmt : Prop :=
  forall sch mid nm f fd o, wf sch = true -> api_names_okb sch mid nm = true ->
    nth_error (rp_fields sch mid) f = Some fd -> f_shape fd = Member o ->
    let st := canon_api_struct sch mid nm in
    exists f0, api_first_member o (rp_fields sch mid) = Some f0 /\ f0 <= f /\
      let k := 3 + api_gopos [] (rp_fields sch mid) f0 in
      nth_error (as_fields st) k = Some (canon_api_oneof_field (mn_oneofs nm) o) /\
      (forall k' gf, nth_error (as_fields st) k' = Some gf ->
                     api_tag_oneof (gf_tags gf) = Some (on_proto (nth o (mn_oneofs nm) api_onames0)) -> k' = k) /\
      exists od, nth_error (as_oneofs st) o = Some od /\
                 In (canon_api_wrapper fd (nth f (mn_fields nm) api_fnames0)) (ao_wrappers od) /\
                 forall o' od' w, nth_error (as_oneofs st) o' = Some od' -> In w (ao_wrappers od') ->
                                  api_tag_num (gf_tags (aw_field w)) = Some (f_num fd) ->
                                  o' = o /\ w = canon_api_wrapper fd (nth f (mn_fields nm) api_fnames0).
(* exactly one Go field per field outside a oneof and per oneof that has a member, after the three internal ones, in declaration
   order: positions grow with the field index *)
Definition struct_layout_count_stmt : Prop :=
  forall sch mid nm, api_names_shapeb sch mid nm = true ->
    length (as_fields (canon_api_struct sch mid nm)) = 3 + api_gopos [] (rp_fields sch mid) (length (rp_fields sch mid)).
Definition struct_layout_order_stmt : Prop :=
  forall fs seen f1 f2 fd1, f1 < f2 -> f2 <= length fs -> nth_error fs f1 = Some fd1 ->
    (match f_shape fd1 with Member o => negb (existsb (Nat.eqb o) seen) && negb (existsb (rp_member_of o) (firstn f1 fs)) | _ => true end) = true ->
    api_gopos seen fs f1 < api_gopos seen fs f2.

(* ---- the same on one case, for the driver -------------------------------------------------------------------------------- *)
Definition api_val_eqb (a b : apival) : bool :=
  match a, b with
  | AVScalar x, AVScalar y => rp_val_eqb x y
  | AVMsg m p, AVMsg m' p' => Nat.eqb m m' && rp_onat_eqb p p'
  | AVList t l, AVList t' l' => rp_ftype_eqb t t' && rp_opt_eqb (rp_list_eqb rp_elem_eqb) l l'
  | AVMap k t m, AVMap k' t' m' => kind_eqb k k' && rp_ftype_eqb t t' && rp_opt_eqb (rp_list_eqb rp_entry_eqb) m m'
  | AVOneof w, AVOneof w' => rp_opt_eqb (fun x y => Nat.eqb (fst x) (fst y) && rp_elem_eqb (snd x) (snd y)) w w'
  | AVUnit, AVUnit | AVPanic, AVPanic => true
  | _, _ => false
  end.
(* getter_api_stmt, getter_nil_api_stmt, ogetter_api_stmt, reset_api_stmt, reset_empties_api_stmt on one heap and receiver *)
Definition api_getter_law (sch : schema) (mid : nat) (nm : amnames) (h : heap) (p : option nat) (f : nat) : bool :=
  negb (wf sch && rp_heap_okb sch h && api_names_shapeb sch mid nm) ||
  match nth_error (rp_fields sch mid) f with
  | None => true
  | Some fd =>
    match run_getter sch (canon_prog sch mid nm) h mid p f with
    | Some gv => api_relb h gv (snd (step sch h (OGet (PMsg mid p) f))) &&
                 match p with None => api_val_eqb gv (api_zero_val fd) | Some _ => true end
    | None => false
    end
  end.
Definition api_ogetter_law (sch : schema) (mid : nat) (nm : amnames) (h : heap) (p : option nat) (o : nat) : bool :=
  negb (wf sch && rp_heap_okb sch h && api_names_shapeb sch mid nm && (o <? rp_noneofs sch mid)) ||
  match run_ogetter sch (canon_prog sch mid nm) h mid p o with
  | Some gv => api_relb h gv (snd (step sch h (OWhichOneof (PMsg mid p) o)))
  | None => false
  end.
Definition api_reset_law (sch : schema) (mid : nat) (nm : amnames) (h : heap) (p : option nat) : bool :=
  negb (wf sch && rp_heap_okb sch h && api_names_shapeb sch mid nm) ||
  match run_reset sch (ap_reset (canon_prog sch mid nm)) h mid p, p with
  | Some (h', AVPanic), None => rp_heap_eqb h' h
  | Some (h', AVUnit), Some id =>
    match get_obj h id with
    | Some ob =>
      Nat.eqb (o_mid ob) mid && rp_heap_eqb h' (hset h id (HObj (new_obj sch mid))) && rp_heap_okb sch h' &&
      forallb (fun f =>
                 match nth_error (rp_fields sch mid) f, run_getter sch (canon_prog sch mid nm) h' mid p f with
                 | Some fd, Some gv =>
                   api_val_eqb gv (api_zero_val fd) && rp_pval_eqb (snd (step sch h' (OHas (PMsg mid p) f))) (PBool false)
                 | _, _ => false
                 end) (seq 0 (length (rp_fields sch mid)))
    | None => false
    end
  | Some (h', AVPanic), Some id =>
    rp_heap_eqb h' h && match get_obj h id with Some ob => negb (Nat.eqb (o_mid ob) mid) | None => true end
  | _, _ => false
  end.
(* the struct-layout statements on one message type *)
Fixpoint api_find_pos {A} (P : A -> bool) (l : list A) (i : nat) : list nat :=
  match l with [] => [] | x :: t => (if P x then [i] else []) ++ api_find_pos P t (S i) end.
Definition api_onum_eqb (a : option N) (n : N) : bool := match a with Some x => N.eqb x n | None => false end.
Definition api_layout_law (sch : schema) (mid : nat) (nm : amnames) : bool :=
  negb (wf sch && api_names_okb sch mid nm) ||
  let fs := rp_fields sch mid in
  let st := canon_api_struct sch mid nm in
  Nat.eqb (length (as_fields st)) (3 + api_gopos [] fs (length fs)) &&
  forallb (fun ifd =>
             let '(f, fd) := ifd in
             let n := nth f (mn_fields nm) api_fnames0 in
             match f_shape fd with
             | Member o =>
               match api_first_member o fs with
               | Some f0 =>
                 let k := 3 + api_gopos [] fs f0 in
                 (f0 <=? f) &&
                 match nth_error (as_fields st) k with
                 | Some gf => agofield_eqb gf (canon_api_oneof_field (mn_oneofs nm) o)
                 | None => false
                 end &&
                 rp_list_eqb Nat.eqb
                   (api_find_pos (fun gf => api_oname_eqb (api_tag_oneof (gf_tags gf)) (Some (on_proto (nth o (mn_oneofs nm) api_onames0))))
                                 (as_fields st) 0) [k] &&
                 rp_list_eqb (fun a b => Nat.eqb (fst a) (fst b) && awrapper_eqb (snd a) (snd b))
                   (concat (map (fun ood => map (fun w => (fst ood, w))
                                                (filter (fun w => api_onum_eqb (api_tag_num (gf_tags (aw_field w))) (f_num fd)) (ao_wrappers (snd ood))))
                                (rp_indexed 0 (as_oneofs st))))
                   [(o, canon_api_wrapper fd n)]
               | None => false
               end
             | _ =>
               let k := 3 + api_gopos [] fs f in
               match nth_error (as_fields st) k with
               | Some gf => agofield_eqb gf (canon_api_plain_field fd n)
               | None => false
               end &&
               rp_list_eqb Nat.eqb (api_find_pos (fun gf => api_onum_eqb (api_tag_num (gf_tags gf)) (f_num fd)) (as_fields st) 0) [k]
             end)
          (rp_indexed 0 fs).
