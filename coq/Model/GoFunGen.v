(* Model/GoFunGen.v — the GoFun translator tie extended to /repo/generator/helpers.go (task T15).

   helpers.go holds the two generation-time functions every template constant comes from:
     func KeySize(fieldNumber protoreflect.FieldNumber, wireType protowire.Type) int     (a shift loop)
     var wireTypes = map[protoreflect.Kind]protowire.Type{ protoreflect.BoolKind: protowire.VarintType, … }
     func ProtoWireType(k protoreflect.Kind) protowire.Type { return wireTypes[k] }
   Their hand-written models are Codec.key_size and Schema.kind_wt / ftype_wt.

   What is new with respect to Model/GoFun.v (whose definitions are used unchanged):
   * one declaration form, [gmapdecl]: a package-level `var m = map[K]V{ pkg.A: pkg.B, … }` from named constants to named
     constants (K, V named types; the entries are kept as GoFun expressions, only qualified identifiers are given a meaning);
   * a meaning for `func f(k K) V { return m[k] }` ([gen_lookup_of]: the body is GoFun syntax, StReturn [ExIndex (ExVar m)
     (ExVar k)], but m is a package-level map, which GoFun's values cannot hold): Go's map index expression — the value of
     the entry whose key equals k, Go's zero value of V for an absent key; it never panics;
   * two tables stated here and CHECKED BY THE ENGINE AGAINST THE REAL DECLARATIONS AT RUN TIME (GOFUNCONST / GOFUNTYPE lines,
     package reflect on the real constants): [gen_const_table], the named constants protoreflect.<X>Kind / protowire.<X>Type
     with their type and numeric value, and [gen_type_table], the underlying integer types of protoreflect.Kind,
     protowire.Type, protoreflect.FieldNumber, protowire.Number;
   * [gen_resolve]: before a function is run by GoFun.run_fun the named types of its SIGNATURE are replaced by their
     underlying integer types (GoFun.named_underlying knows time.Duration and the protoiface flag types only), so KeySize is
     run by the unchanged interpreter of GoFun.v. Named types inside a body (`var x protowire.Type`) are not resolved (stuck).
   What the type checker would reject stays stuck: a key constant of another type than K, a value constant of another
   type than V, a duplicate constant key (Go: "duplicate key in map literal"), an unknown constant, a parameter of another
   type than K, a result type other than V. A lookup function cannot be called from another translated function (the GoFun
   interpreter does not know maps: stuck); helpers.go has no such call.
   The canonical declarations (canon_KeySize, canon_ProtoWireType, canon_wireTypes, canon_const_ProtoPkg) are the current
   source transcribed once; the engine "gofun" (part "generator") re-translates the file on every run and the driver compares.
   Target statements at the end (proofs: Proofs/GoFunGenProofs.v; theorems: Properties/C02.v). Executable definitions only. *)
From CP Require Export GoFun Codec.
Local Open Scope Z_scope.
Local Open Scope gname_scope.

(* ---- the new declaration form --------------------------------------------------------------------------------------- *)
Record gmapdecl := { gm_name : gname; gm_key : gotype; gm_val : gotype; gm_entries : list (gexpr * gexpr) }.
(* a file: GoFun's globals and functions, and its package-level constant maps *)
Record genprogram := { gp_base : program; gp_maps : list gmapdecl }.

Fixpoint gm_entries_eqb (a b : list (gexpr * gexpr)) : bool :=
  match a, b with
  | [], [] => true
  | (k, v) :: a', (k', v') :: b' => gexpr_eqb k k' && gexpr_eqb v v' && gm_entries_eqb a' b'
  | _, _ => false
  end.
Definition gmapdecl_eqb (a b : gmapdecl) : bool :=
  str_eq (gm_name a) (gm_name b) && gotype_eqb (gm_key a) (gm_key b) && gotype_eqb (gm_val a) (gm_val b)
  && gm_entries_eqb (gm_entries a) (gm_entries b).
Fixpoint gen_find_map (ms : list gmapdecl) (x : gname) : option gmapdecl :=
  match ms with
  | [] => None
  | m :: t => if str_eq (gm_name m) x then Some m else gen_find_map t x
  end.

(* ---- the tables the engine checks against the real declarations ----------------------------------------------------- *)
(* (package, name) -> (its type, its value): google.golang.org/protobuf/reflect/protoreflect and encoding/protowire *)
Definition gen_const_table : list ((gname * gname) * (gname * Z)) :=
  [ (("protoreflect", "BoolKind"), ("protoreflect.Kind", 8));
    (("protoreflect", "EnumKind"), ("protoreflect.Kind", 14));
    (("protoreflect", "Int32Kind"), ("protoreflect.Kind", 5));
    (("protoreflect", "Sint32Kind"), ("protoreflect.Kind", 17));
    (("protoreflect", "Uint32Kind"), ("protoreflect.Kind", 13));
    (("protoreflect", "Int64Kind"), ("protoreflect.Kind", 3));
    (("protoreflect", "Sint64Kind"), ("protoreflect.Kind", 18));
    (("protoreflect", "Uint64Kind"), ("protoreflect.Kind", 4));
    (("protoreflect", "Sfixed32Kind"), ("protoreflect.Kind", 15));
    (("protoreflect", "Fixed32Kind"), ("protoreflect.Kind", 7));
    (("protoreflect", "FloatKind"), ("protoreflect.Kind", 2));
    (("protoreflect", "Sfixed64Kind"), ("protoreflect.Kind", 16));
    (("protoreflect", "Fixed64Kind"), ("protoreflect.Kind", 6));
    (("protoreflect", "DoubleKind"), ("protoreflect.Kind", 1));
    (("protoreflect", "StringKind"), ("protoreflect.Kind", 9));
    (("protoreflect", "BytesKind"), ("protoreflect.Kind", 12));
    (("protoreflect", "MessageKind"), ("protoreflect.Kind", 11));
    (("protoreflect", "GroupKind"), ("protoreflect.Kind", 10));
    (("protowire", "VarintType"), ("protowire.Type", 0));
    (("protowire", "Fixed64Type"), ("protowire.Type", 1));
    (("protowire", "BytesType"), ("protowire.Type", 2));
    (("protowire", "StartGroupType"), ("protowire.Type", 3));
    (("protowire", "EndGroupType"), ("protowire.Type", 4));
    (("protowire", "Fixed32Type"), ("protowire.Type", 5)) ].
(* named integer types and what they are underneath *)
Definition gen_type_table : list (gname * ity) :=
  [ ("protoreflect.Kind", TInt8); ("protowire.Type", TInt8); ("protoreflect.FieldNumber", TInt32); ("protowire.Number", TInt32) ].

Fixpoint gen_const_in (l : list ((gname * gname) * (gname * Z))) (p n : gname) : option (gname * Z) :=
  match l with
  | [] => None
  | ((p', n'), tv) :: t => if str_eq p p' && str_eq n n' then Some tv else gen_const_in t p n
  end.
Definition gen_const (p n : gname) : option (gname * Z) := gen_const_in gen_const_table p n.
Fixpoint gen_type_in (l : list (gname * ity)) (q : gname) : option ity :=
  match l with
  | [] => None
  | (q', t) :: r => if str_eq q q' then Some t else gen_type_in r q
  end.
Definition gen_underlying (q : gname) : option ity := gen_type_in gen_type_table q.

(* ---- running a function of the file ------------------------------------------------------------------------------------ *)
Definition gen_resolve_type (g : gotype) : gotype :=
  match g with
  | GoNamed q => match gen_underlying q with Some t => GoInt t | None => g end
  | _ => g
  end.
Definition gen_resolve_sig (l : list (gname * gotype)) : list (gname * gotype) :=
  map (fun xg => (fst xg, gen_resolve_type (snd xg))) l.
Definition gen_resolve_fun (fd : fundecl) : fundecl :=
  {| fn_name := fn_name fd; fn_params := gen_resolve_sig (fn_params fd); fn_results := gen_resolve_sig (fn_results fd); fn_body := fn_body fd |}.
Definition gen_resolve (p : program) : program :=
  {| pg_globals := pg_globals p; pg_funs := map gen_resolve_fun (pg_funs p) |}.

(* func f(k K) V { return m[k] }: the map and the parameter (m is not the parameter; the result is unnamed, so m is no local) *)
Definition gen_lookup_of (fd : fundecl) : option (gname * gname) :=
  match fn_params fd, fn_results fd, fn_body fd with
  | [(k', _)], [(r, _)], [StReturn [ExIndex (ExVar m) (ExVar k)]] =>
    if str_eq k k' && negb (str_eq m k) && str_eq r "" then Some (m, k) else None
  | _, _, _ => None
  end.

(* the value of a named constant used at the named type ty: it must be a constant OF that type *)
Definition gen_const_at (ty : gotype) (e : gexpr) : option Z :=
  match ty, e with
  | GoNamed q, ExQual p n =>
    match gen_const p n, gen_underlying q with
    | Some (q', z), Some t => if str_eq q q' && ity_in t z then Some z else None
    | _, _ => None
    end
  | _, _ => None
  end.
Fixpoint gen_entries (kt vt : gotype) (es : list (gexpr * gexpr)) : option (list (Z * Z)) :=
  match es with
  | [] => Some []
  | (k, v) :: t =>
    match gen_const_at kt k, gen_const_at vt v, gen_entries kt vt t with
    | Some a, Some b, Some l => Some ((a, b) :: l)
    | _, _, _ => None
    end
  end.
Fixpoint gen_assoc (k : Z) (l : list (Z * Z)) : option Z :=
  match l with
  | [] => None
  | (a, b) :: t => if k =? a then Some b else gen_assoc k t
  end.
Fixpoint gen_nodup_keys (l : list (Z * Z)) : bool :=
  match l with
  | [] => true
  | (a, _) :: t => match gen_assoc a t with Some _ => false | None => gen_nodup_keys t end
  end.

Definition gen_named_ity (g : gotype) : option ity :=
  match g with GoNamed q => gen_underlying q | _ => None end.

(* m[k] for the package-level constant map md, called with [args] *)
Definition gen_run_lookup (md : gmapdecl) (fd : fundecl) (args : list gvalue) : gres :=
  match fn_params fd, fn_results fd, args with
  | [(_, pt)], [(_, rt)], [v] =>
    if gotype_eqb pt (gm_key md) && gotype_eqb rt (gm_val md) then
      match gen_named_ity (gm_key md), gen_named_ity (gm_val md), gen_entries (gm_key md) (gm_val md) (gm_entries md) with
      | Some kt, Some vt, Some l =>
        if gen_nodup_keys l then
          match coerce (GoInt kt) v with
          | Some (GvInt _ z) => GOk [GvInt vt (match gen_assoc z l with Some w => w | None => 0 end)] [GvInt kt z]
          | _ => GStuck
          end
        else GStuck
      | _, _, _ => GStuck
      end
    else GStuck
  | _, _, _ => GStuck
  end.

Definition gen_run (p : genprogram) (lfuel depth : nat) (f : gname) (args : list gvalue) : gres :=
  let plain := run_fun (gen_resolve (gp_base p)) lfuel depth f args in
  match find_fun (pg_funs (gp_base p)) f with
  | None => GStuck
  | Some fd =>
    match gen_lookup_of fd with
    | Some (m, _) =>
      match gen_find_map (gp_maps p) m with
      | Some md => match depth with O => GFuel | S _ => gen_run_lookup md fd args end
      | None => plain
      end
    | None => plain
    end
  end.

(* ======================================================================================================================
   The canonical declarations: /repo/generator/helpers.go transcribed once (what the translator prints for the current source)
   ====================================================================================================================== *)

(* const ProtoPkg = "google.golang.org/protobuf/proto" *)
Definition canon_const_ProtoPkg : gname * gexpr := ("ProtoPkg", ExStr "google.golang.org/protobuf/proto").

(* func KeySize(fieldNumber protoreflect.FieldNumber, wireType protowire.Type) int {
     x := uint32(fieldNumber)<<3 | uint32(wireType)
     size := 0
     for size = 0; x > 127; size++ { x >>= 7 }
     size++
     return size } *)
Definition canon_KeySize : fundecl :=
  {| fn_name := "KeySize";
     fn_params := [("fieldNumber", GoNamed "protoreflect.FieldNumber"); ("wireType", GoNamed "protowire.Type")];
     fn_results := [("", GoInt TInt)];
     fn_body :=
       [StDefine "x" (ExBin BOr (ExBin BShl (ExConv TUint32 (ExVar "fieldNumber")) (ExConst 3)) (ExConv TUint32 (ExVar "wireType")));
        StDefine "size" (ExConst 0);
        StFor [StAssign (LvVar "size") (ExConst 0)] (Some (ExBin BGt (ExVar "x") (ExConst 127))) [StInc (LvVar "size")]
          [StOpAssign BShr (LvVar "x") (ExConst 7)];
        StInc (LvVar "size");
        StReturn [ExVar "size"]] |}.

(* var wireTypes = map[protoreflect.Kind]protowire.Type{ … } *)
Definition canon_wireTypes : gmapdecl :=
  {| gm_name := "wireTypes"; gm_key := GoNamed "protoreflect.Kind"; gm_val := GoNamed "protowire.Type";
     gm_entries :=
       [ (ExQual "protoreflect" "BoolKind", ExQual "protowire" "VarintType");
         (ExQual "protoreflect" "EnumKind", ExQual "protowire" "VarintType");
         (ExQual "protoreflect" "Int32Kind", ExQual "protowire" "VarintType");
         (ExQual "protoreflect" "Sint32Kind", ExQual "protowire" "VarintType");
         (ExQual "protoreflect" "Uint32Kind", ExQual "protowire" "VarintType");
         (ExQual "protoreflect" "Int64Kind", ExQual "protowire" "VarintType");
         (ExQual "protoreflect" "Sint64Kind", ExQual "protowire" "VarintType");
         (ExQual "protoreflect" "Uint64Kind", ExQual "protowire" "VarintType");
         (ExQual "protoreflect" "Sfixed32Kind", ExQual "protowire" "Fixed32Type");
         (ExQual "protoreflect" "Fixed32Kind", ExQual "protowire" "Fixed32Type");
         (ExQual "protoreflect" "FloatKind", ExQual "protowire" "Fixed32Type");
         (ExQual "protoreflect" "Sfixed64Kind", ExQual "protowire" "Fixed64Type");
         (ExQual "protoreflect" "Fixed64Kind", ExQual "protowire" "Fixed64Type");
         (ExQual "protoreflect" "DoubleKind", ExQual "protowire" "Fixed64Type");
         (ExQual "protoreflect" "StringKind", ExQual "protowire" "BytesType");
         (ExQual "protoreflect" "BytesKind", ExQual "protowire" "BytesType");
         (ExQual "protoreflect" "MessageKind", ExQual "protowire" "BytesType");
         (ExQual "protoreflect" "GroupKind", ExQual "protowire" "StartGroupType") ] |}.

(* func ProtoWireType(k protoreflect.Kind) protowire.Type { return wireTypes[k] } *)
Definition canon_ProtoWireType : fundecl :=
  {| fn_name := "ProtoWireType"; fn_params := [("k", GoNamed "protoreflect.Kind")]; fn_results := [("", GoNamed "protowire.Type")];
     fn_body := [StReturn [ExIndex (ExVar "wireTypes") (ExVar "k")]] |}.

Definition canon_generator : genprogram :=
  {| gp_base := {| pg_globals := [canon_const_ProtoPkg]; pg_funs := [canon_KeySize; canon_ProtoWireType] |};
     gp_maps := [canon_wireTypes] |}.
(* the names of the declarations in source order, as the translator lists them *)
Definition canon_generator_decls : list gname := ["const:ProtoPkg"; "KeySize"; "var:wireTypes"; "ProtoWireType"].
Definition gen_file : gname := "generator/helpers.go".

(* ======================================================================================================================
   Target statements: interpreting the canonical declarations gives the hand-written model's answer. Fuel as in GoFun.v:
   [lf] loop iterations and [dp] call levels are ADDED to the stated minimum.
   ====================================================================================================================== *)
Local Close Scope gname_scope.

Definition fnumv (n : N) : gvalue := GvInt TInt32 (Z.of_N n).       (* a protoreflect.FieldNumber *)
Definition wtypev (w : N) : gvalue := GvInt TInt8 (Z.of_N w).        (* a protowire.Type *)
Definition kindv (z : Z) : gvalue := GvInt TInt8 z.                  (* a protoreflect.Kind *)

(* KeySize: every non-negative int32 field number and every non-negative int8 wire type (the legal ones, 1 <= n < 2^29 and
   wt <= 5, included): Codec.key_size. The loop body runs at most 4 times (x < 2^32), the fifth unit of loop fuel is the last
   evaluation of `x > 127`. *)
Definition keysize_prog_stmt : Prop :=
  forall (n wt : N) (lf dp : nat), (n < 2147483648)%N -> (wt < 128)%N ->
    gen_run canon_generator (5 + lf) (1 + dp) "KeySize" [fnumv n; wtypev wt] = GOk [intv (Z.of_N (key_size n wt))] [fnumv n; wtypev wt].

(* ProtoWireType: the constant of protoreflect that IS a kind of Schema.v (the same correspondence as the runner's kind names,
   harness/cmd/runner/values.go), its number read from the checked table *)
Local Open Scope gname_scope.
Definition kind_const (k : kind) : gname :=
  match k with
  | KDouble => "DoubleKind" | KFloat => "FloatKind" | KInt32 => "Int32Kind" | KInt64 => "Int64Kind" | KUint32 => "Uint32Kind"
  | KUint64 => "Uint64Kind" | KSint32 => "Sint32Kind" | KSint64 => "Sint64Kind" | KFixed32 => "Fixed32Kind" | KFixed64 => "Fixed64Kind"
  | KSfixed32 => "Sfixed32Kind" | KSfixed64 => "Sfixed64Kind" | KBool => "BoolKind" | KString => "StringKind" | KBytes => "BytesKind"
  | KEnum => "EnumKind"
  end.
Definition const_number (p n : gname) : Z := match gen_const p n with Some (_, z) => z | None => -1 end.
Definition kind_number (k : kind) : Z := const_number "protoreflect" (kind_const k).
Definition message_kind_number : Z := const_number "protoreflect" "MessageKind".
Definition group_kind_number : Z := const_number "protoreflect" "GroupKind".
Local Close Scope gname_scope.

Definition all_kinds : list kind :=
  [KDouble; KFloat; KInt32; KInt64; KUint32; KUint64; KSint32; KSint64; KFixed32; KFixed64; KSfixed32; KSfixed64; KBool; KString; KBytes; KEnum].

Definition protowiretype_prog_stmt : Prop :=
  forall (lf dp : nat),
    (forall k : kind,
       gen_run canon_generator lf (1 + dp) "ProtoWireType" [kindv (kind_number k)] = GOk [wtypev (kind_wt k)] [kindv (kind_number k)]) /\
    (forall m : nat,
       gen_run canon_generator lf (1 + dp) "ProtoWireType" [kindv message_kind_number] = GOk [wtypev (ftype_wt (TMsg m))] [kindv message_kind_number]) /\
    gen_run canon_generator lf (1 + dp) "ProtoWireType" [kindv group_kind_number] = GOk [wtypev 3] [kindv group_kind_number].
(* every other value of protoreflect.Kind (an int8) is absent from the table: Go's zero value, protowire.VarintType; no panic *)
Definition is_kind_number (z : Z) : bool :=
  existsb (fun k => z =? kind_number k) all_kinds || (z =? message_kind_number) || (z =? group_kind_number).
Definition protowiretype_absent_prog_stmt : Prop :=
  forall (z : Z) (lf dp : nat), in_ity TInt8 z -> is_kind_number z = false ->
    gen_run canon_generator lf (1 + dp) "ProtoWireType" [kindv z] = GOk [wtypev 0] [kindv z].

(* ---- the statements on one case each, for the driver ------------------------------------------------------------------- *)
Definition keysize_prog_law (n wt : Z) : bool :=
  negb ((0 <=? n) && (n <? 2147483648) && (0 <=? wt) && (wt <? 128)) ||
  gres_eqb (gen_run canon_generator 5 1 "KeySize" [GvInt TInt32 n; GvInt TInt8 wt])
           (GOk [intv (Z.of_N (key_size (Z.to_N n) (Z.to_N wt)))] [GvInt TInt32 n; GvInt TInt8 wt]).
Definition kind_of_number (z : Z) : option kind := find (fun k => z =? kind_number k) all_kinds.
Definition protowiretype_prog_law (z : Z) : bool :=
  negb (ity_in TInt8 z) ||
  gres_eqb (gen_run canon_generator 0 1 "ProtoWireType" [kindv z])
           (GOk [wtypev (match kind_of_number z with
                         | Some k => kind_wt k
                         | None => if z =? message_kind_number then ftype_wt (TMsg 0) else if z =? group_kind_number then 3%N else 0%N
                         end)] [kindv z]).
