(* Model/AnyProg.v — translator tie for the HAND-WRITTEN Go of /repo/anyutil/any.go: New, MarshalFrom, Unpack (task T13).

   A statement language that is a literal image of what these three functions are made of, an interpreter over the SAME
   oracles as Model/AnyUtil.v (the codec and the registries are parameters), the CANONICAL programs (one constant per
   function: the current source transcribed once; the engine "anyprog" re-translates the source on every run and the driver
   compares, function by function, with these constants) and the statements that tie the canonical programs to the
   hand-written model AnyUtil.v (Definitions here; proofs in Proofs/AnyProgProofs.v, theorems in Properties/C16.v).

   Reading guide
   * Expressions [apexpr]: locals, nil, string literals, `a + b` on strings, the two fields of an Any, `==` / `!=` / `!`,
     and ONE CONSTRUCTOR PER LIBRARY CALL the file makes. A library call has no semantics of its own: the interpreter asks
     the oracle AnyUtil.v already has ([marshal], [find_message_by_url] on a registry, [lookup] in a file registry and the
     kind of declaration found, [unmarshal_to]); what Go itself does around the call (a method call on a nil interface, a field
     access through a nil pointer) is the interpreter's: Panic.
   * An expression yields a LIST of values (Go's multi-valued calls: `b, err := opts.Marshal(src)`).
   * Values [apvalue]: untyped nil, strings, byte slices, bools, a *anypb.Any (nil or a cell of the heap), a proto.Message
     (nil, a message value given by the caller, or a cell of the heap made by `typ.New()`), marshal options, a resolver
     (nil or a registry: a finite map), an error (nil or [aperr]: which error it is, and what it wraps), a message type
     (which implementation — registry type or dynamicpb — and which descriptor), a descriptor as the file resolver found it
     (with the kind of declaration), a message descriptor, and [AvJunk]: a value the model does not know (the bytes Marshal
     returns next to an error): every use of it is stuck.
   * The heap [apheap]: the Any objects (the caller's destination, `new(anypb.Any)`) and the messages made by `typ.New()`
     ([AcFresh]: empty, of a given type; [AcFilled]: what UnmarshalTo decoded into it; [AcGarbage]: after a failed decode).
   * Scopes as in Go: the environment is a stack of frames; `if init; cond {…} else {…}` opens one frame for init/cond and one
     for the branch taken; `x, y := e` declares in the innermost frame (re-using a variable already declared THERE);
     `x = e` assigns the innermost declaration of x; `_` is the blank identifier.
   * What Go's compiler would reject is "stuck" ([ApStuck]): an unbound identifier, a field of something that is no Any, a
     condition that is no bool, a missing return, a wrong number of values. The interpreter never guesses.
   * Errors are ordinary return values. Comparing errors: nil with anything, protoregistry.NotFound with anything (a library
     error [AerLib], a made error and a wrapping error are not the NotFound value itself); the identity of two other errors is
     not modelled (stuck).
   * Calls between the translated functions (New calls MarshalFrom) nest at most [depth] deep ([ApFuel] beyond; the codec's
     OutOfFuel is handed through as [ApFuel] too). There are no loops: nothing else consumes fuel.
   * Names: extracted into the same OCaml module as the other models: constructors carry prefixes of their own (Ax… expressions,
     Ast… statements, Av… values, Aer… errors, Ac… cells, Am… message references, ap_… functions).
   Executable definitions only. *)
From CP Require Export AnyUtil.
From CP Require Import GoFun.     (* gname (names and string literals: a byte list with a string notation), str_eq *)

(* ---- syntax -------------------------------------------------------------------------------------------------------- *)
Inductive apfield := ApTypeUrl | ApValue.                     (* .TypeUrl  .Value *)

Inductive apexpr :=
| AxNil                                                       (* nil *)
| AxVar (x : gname)                                           (* a parameter or local *)
| AxStr (s : gname)                                           (* "…" *)
| AxConcat (a b : apexpr)                                     (* a + b  (strings) *)
| AxField (e : apexpr) (f : apfield)                          (* e.TypeUrl / e.Value, e a *anypb.Any *)
| AxEq (a b : apexpr) | AxNe (a b : apexpr)                   (* a == b   a != b *)
| AxNot (e : apexpr)                                          (* !e *)
| AxNewAny                                                    (* new(anypb.Any) *)
| AxNoOpts                                                    (* proto.MarshalOptions{} *)
| AxGlobalTypes | AxGlobalFiles | AxNotFound                  (* protoregistry.GlobalTypes / .GlobalFiles / .NotFound *)
| AxTrimPrefix (e : apexpr) (p : gname)                       (* strings.TrimPrefix(e, "p") *)
| AxFullNameOf (e : apexpr)                                   (* string(e.ProtoReflect().Descriptor().FullName()) *)
| AxToFullName (e : apexpr)                                   (* protoreflect.FullName(e) *)
| AxNewError (m : gname)                                      (* protoimpl.X.NewError("m") *)
| AxErrorf (f : gname) (args : list apexpr)                   (* fmt.Errorf("f", args…) *)
| AxMarshal (o src : apexpr)                                  (* o.Marshal(src)                       : ([]byte, error) *)
| AxCall (f : gname) (args : list apexpr)                     (* f(args…), f a function of this file *)
| AxFindMessageByURL (r u : apexpr)                           (* r.FindMessageByURL(u)                : (MessageType, error) *)
| AxFindDescriptorByName (r n : apexpr)                       (* r.FindDescriptorByName(n)            : (Descriptor, error) *)
| AxIsMessageDesc (e : apexpr)                                (* e.(protoreflect.MessageDescriptor), comma-ok form : (MessageDescriptor, bool) *)
| AxAssertMessageDesc (e : apexpr)                            (* e.(protoreflect.MessageDescriptor), single-valued: panics *)
| AxNewMessageType (e : apexpr)                               (* dynamicpb.NewMessageType(e) *)
| AxTypNew (e : apexpr)                                       (* e.New().Interface() *)
| AxUnmarshalTo (a m : apexpr).                               (* a.UnmarshalTo(m)                     : error *)

Inductive apstmt :=
| AstDefine (xs : list gname) (e : apexpr)                    (* x, y := e *)
| AstAssign (xs : list gname) (e : apexpr)                    (* x, y = e   (variables only) *)
| AstSetField (x : gname) (f : apfield) (e : apexpr)          (* x.F = e *)
| AstIf (init : list apstmt) (c : apexpr) (a b : list apstmt) (* if init; c {a} else {b}: init has zero or one statement; `else if` is b = [AstIf …]; no else: b = [] *)
| AstReturn (es : list apexpr).                               (* return e… *)

(* parameters with the text of their types, the texts of the result types, the body *)
Record apfun := { af_name : gname; af_params : list (gname * gname); af_results : list gname; af_body : list apstmt }.

(* ---- decidable equality of programs --------------------------------------------------------------------------------- *)
Definition apfield_eqb (a b : apfield) : bool :=
  match a, b with ApTypeUrl, ApTypeUrl | ApValue, ApValue => true | _, _ => false end.

Fixpoint gnames_eqb (a b : list gname) : bool :=
  match a, b with
  | [], [] => true
  | x :: a', y :: b' => str_eq x y && gnames_eqb a' b'
  | _, _ => false
  end.

Fixpoint apexpr_eqb (a b : apexpr) {struct a} : bool :=
  let leq := fix leq (l l' : list apexpr) {struct l} : bool :=
      match l, l' with
      | [], [] => true
      | x :: t, y :: t' => apexpr_eqb x y && leq t t'
      | _, _ => false
      end in
  match a, b with
  | AxNil, AxNil => true
  | AxVar x, AxVar y => str_eq x y
  | AxStr x, AxStr y => str_eq x y
  | AxConcat x y, AxConcat x' y' => apexpr_eqb x x' && apexpr_eqb y y'
  | AxField e f, AxField e' f' => apexpr_eqb e e' && apfield_eqb f f'
  | AxEq x y, AxEq x' y' => apexpr_eqb x x' && apexpr_eqb y y'
  | AxNe x y, AxNe x' y' => apexpr_eqb x x' && apexpr_eqb y y'
  | AxNot e, AxNot e' => apexpr_eqb e e'
  | AxNewAny, AxNewAny => true
  | AxNoOpts, AxNoOpts => true
  | AxGlobalTypes, AxGlobalTypes => true
  | AxGlobalFiles, AxGlobalFiles => true
  | AxNotFound, AxNotFound => true
  | AxTrimPrefix e p, AxTrimPrefix e' p' => apexpr_eqb e e' && str_eq p p'
  | AxFullNameOf e, AxFullNameOf e' => apexpr_eqb e e'
  | AxToFullName e, AxToFullName e' => apexpr_eqb e e'
  | AxNewError m, AxNewError m' => str_eq m m'
  | AxErrorf f l, AxErrorf f' l' => str_eq f f' && leq l l'
  | AxMarshal x y, AxMarshal x' y' => apexpr_eqb x x' && apexpr_eqb y y'
  | AxCall f l, AxCall f' l' => str_eq f f' && leq l l'
  | AxFindMessageByURL x y, AxFindMessageByURL x' y' => apexpr_eqb x x' && apexpr_eqb y y'
  | AxFindDescriptorByName x y, AxFindDescriptorByName x' y' => apexpr_eqb x x' && apexpr_eqb y y'
  | AxIsMessageDesc e, AxIsMessageDesc e' => apexpr_eqb e e'
  | AxAssertMessageDesc e, AxAssertMessageDesc e' => apexpr_eqb e e'
  | AxNewMessageType e, AxNewMessageType e' => apexpr_eqb e e'
  | AxTypNew e, AxTypNew e' => apexpr_eqb e e'
  | AxUnmarshalTo x y, AxUnmarshalTo x' y' => apexpr_eqb x x' && apexpr_eqb y y'
  | _, _ => false
  end.

Fixpoint apexprs_eqb (l l' : list apexpr) {struct l} : bool :=
  match l, l' with
  | [], [] => true
  | x :: t, y :: t' => apexpr_eqb x y && apexprs_eqb t t'
  | _, _ => false
  end.

Fixpoint apstmt_eqb (a b : apstmt) {struct a} : bool :=
  let leq := fix leq (l l' : list apstmt) {struct l} : bool :=
      match l, l' with
      | [], [] => true
      | x :: t, y :: t' => apstmt_eqb x y && leq t t'
      | _, _ => false
      end in
  match a, b with
  | AstDefine xs e, AstDefine xs' e' => gnames_eqb xs xs' && apexpr_eqb e e'
  | AstAssign xs e, AstAssign xs' e' => gnames_eqb xs xs' && apexpr_eqb e e'
  | AstSetField x f e, AstSetField x' f' e' => str_eq x x' && apfield_eqb f f' && apexpr_eqb e e'
  | AstIf i c x y, AstIf i' c' x' y' => leq i i' && apexpr_eqb c c' && leq x x' && leq y y'
  | AstReturn l, AstReturn l' => apexprs_eqb l l'
  | _, _ => false
  end.

Fixpoint apstmts_eqb (l l' : list apstmt) {struct l} : bool :=
  match l, l' with
  | [], [] => true
  | x :: t, y :: t' => apstmt_eqb x y && apstmts_eqb t t'
  | _, _ => false
  end.

Fixpoint apparams_eqb (a b : list (gname * gname)) : bool :=
  match a, b with
  | [], [] => true
  | (x, t) :: a', (y, u) :: b' => str_eq x y && str_eq t u && apparams_eqb a' b'
  | _, _ => false
  end.

Definition apfun_eqb (f g : apfun) : bool :=
  str_eq (af_name f) (af_name g) && apparams_eqb (af_params f) (af_params g) && gnames_eqb (af_results f) (af_results g)
  && apstmts_eqb (af_body f) (af_body g).

(* ---- errors --------------------------------------------------------------------------------------------------------- *)
Inductive aperr :=
| AerNotFound                                   (* protoregistry.NotFound itself *)
| AerLib                                        (* an error made inside a library call (Marshal, FindMessageByURL's "found wrong type", UnmarshalTo) *)
| AerNew (m : gname)                            (* protoimpl.X.NewError("m") *)
| AerFmt (f : gname) (w : option aperr).        (* fmt.Errorf("f", …): the error among the operands, if any (what %w wraps) *)

(* x == y on two error values *)
Definition ap_err_equal (x y : option aperr) : option bool :=
  match x, y with
  | None, None => Some true
  | None, Some _ | Some _, None => Some false
  | Some AerNotFound, Some AerNotFound => Some true
  | Some AerNotFound, Some _ | Some _, Some AerNotFound => Some false
  | Some _, Some _ => None
  end.

Section AnyProg.
  Variable msg : Type.
  Variable desc : Type.
  Variable opts : Type.
  Variable dname : desc -> str.
  Variable descr_of : msg -> desc.
  Variable marshal : opts -> msg -> outcome (list byte).
  Variable unmarshal : bool -> desc -> list byte -> outcome msg.
  Variable default_opts : opts.
  Variable gt gf : registry desc.                 (* protoregistry.GlobalTypes / GlobalFiles *)

  (* ---- values and the heap ---------------------------------------------------------------------------------------- *)
  Inductive apmsg :=
  | AmNil                                       (* the nil interface *)
  | AmVal (m : msg)                             (* a message of the caller *)
  | AmCell (n : nat).                           (* a message made by typ.New(): cell n of the heap *)

  Inductive apvalue :=
  | AvNil                                       (* untyped nil (the literal) *)
  | AvStr (s : str)
  | AvBytes (b : list byte)
  | AvBool (b : bool)
  | AvAny (p : option nat)                      (* *anypb.Any: nil or cell p of the heap *)
  | AvMsg (m : apmsg)                           (* proto.Message *)
  | AvOpts (o : opts)                           (* proto.MarshalOptions *)
  | AvRes (r : option (registry desc))          (* a type / file resolver: the nil interface or a registry *)
  | AvErr (e : option aperr)                    (* error *)
  | AvType (t : option (bool * desc))           (* protoreflect.MessageType: nil, or (is it dynamicpb's?, descriptor) *)
  | AvDesc (e : option (entry desc))            (* protoreflect.Descriptor as FindDescriptorByName returns it *)
  | AvMsgDesc (d : option desc)                 (* protoreflect.MessageDescriptor *)
  | AvJunk.                                     (* unknown to the model *)

  Inductive apcell :=
  | AcFresh (dyn : bool) (d : desc)
  | AcFilled (dyn : bool) (m : msg)
  | AcGarbage (dyn : bool) (d : desc).

  Record apheap := { ah_anys : list any; ah_msgs : list apcell }.

  Definition apframe := list (gname * apvalue).
  Definition apenv := list apframe.

  Inductive apres (A : Type) :=
  | ApOk (a : A) (h : apheap)
  | ApPanic (h : apheap)
  | ApFuel (h : apheap)
  | ApStuck.
  Arguments ApOk {A} a h.
  Arguments ApPanic {A} h.
  Arguments ApFuel {A} h.
  Arguments ApStuck {A}.

  (* ---- environment -------------------------------------------------------------------------------------------------- *)
  Definition ap_blank (x : gname) : bool := str_eq x (gname_of_bytes [x5f]).        (* _ *)

  Fixpoint ap_frame_get (x : gname) (fr : apframe) : option apvalue :=
    match fr with
    | [] => None
    | (y, v) :: t => if str_eq x y then Some v else ap_frame_get x t
    end.
  Fixpoint ap_frame_set (x : gname) (v : apvalue) (fr : apframe) : option apframe :=
    match fr with
    | [] => None
    | (y, w) :: t =>
      if str_eq x y then Some ((y, v) :: t)
      else match ap_frame_set x v t with Some t' => Some ((y, w) :: t') | None => None end
    end.
  Fixpoint ap_get (x : gname) (en : apenv) : option apvalue :=
    match en with
    | [] => None
    | fr :: rest => match ap_frame_get x fr with Some v => Some v | None => ap_get x rest end
    end.
  (* x := v in the innermost frame *)
  Definition ap_define1 (x : gname) (v : apvalue) (en : apenv) : option apenv :=
    if ap_blank x then Some en
    else match en with
         | [] => None
         | fr :: rest =>
           match ap_frame_set x v fr with
           | Some fr' => Some (fr' :: rest)
           | None => Some (((x, v) :: fr) :: rest)
           end
         end.
  Fixpoint ap_define (xs : list gname) (vs : list apvalue) (en : apenv) : option apenv :=
    match xs, vs with
    | [], [] => Some en
    | x :: xs', v :: vs' => match ap_define1 x v en with Some en' => ap_define xs' vs' en' | None => None end
    | _, _ => None
    end.
  (* x = v: the innermost declaration of x *)
  Fixpoint ap_assign1 (x : gname) (v : apvalue) (en : apenv) : option apenv :=
    match en with
    | [] => None
    | fr :: rest =>
      match ap_frame_set x v fr with
      | Some fr' => Some (fr' :: rest)
      | None => match ap_assign1 x v rest with Some rest' => Some (fr :: rest') | None => None end
      end
    end.
  Fixpoint ap_assign (xs : list gname) (vs : list apvalue) (en : apenv) : option apenv :=
    match xs, vs with
    | [], [] => Some en
    | x :: xs', v :: vs' =>
      if ap_blank x then ap_assign xs' vs' en
      else match ap_assign1 x v en with Some en' => ap_assign xs' vs' en' | None => None end
    | _, _ => None
    end.

  (* ---- heap ---------------------------------------------------------------------------------------------------------- *)
  Fixpoint ap_list_set {A} (n : nat) (a : A) (l : list A) : option (list A) :=
    match l, n with
    | [], _ => None
    | _ :: t, O => Some (a :: t)
    | x :: t, S n' => match ap_list_set n' a t with Some t' => Some (x :: t') | None => None end
    end.

  Definition ap_set_field (n : nat) (f : apfield) (v : apvalue) (h : apheap) : option apheap :=
    match nth_error (ah_anys h) n with
    | None => None
    | Some a =>
      match f, v with
      | ApTypeUrl, AvStr s =>
        match ap_list_set n {| type_url := s; value := value a |} (ah_anys h) with
        | Some l => Some {| ah_anys := l; ah_msgs := ah_msgs h |} | None => None end
      | ApValue, AvBytes b =>
        match ap_list_set n {| type_url := type_url a; value := b |} (ah_anys h) with
        | Some l => Some {| ah_anys := l; ah_msgs := ah_msgs h |} | None => None end
      | _, _ => None
      end
    end.

  Definition ap_set_cell (n : nat) (c : apcell) (h : apheap) : option apheap :=
    match ap_list_set n c (ah_msgs h) with
    | Some l => Some {| ah_anys := ah_anys h; ah_msgs := l |}
    | None => None
    end.

  (* ---- comparisons --------------------------------------------------------------------------------------------------- *)
  (* a value comparable with nil: is it nil? *)
  Definition ap_is_nil (v : apvalue) : option bool :=
    match v with
    | AvNil => Some true
    | AvAny p => Some (match p with None => true | Some _ => false end)
    | AvMsg m => Some (match m with AmNil => true | _ => false end)
    | AvRes r => Some (match r with None => true | Some _ => false end)
    | AvErr e => Some (match e with None => true | Some _ => false end)
    | AvType t => Some (match t with None => true | Some _ => false end)
    | AvDesc e => Some (match e with None => true | Some _ => false end)
    | AvMsgDesc d => Some (match d with None => true | Some _ => false end)
    | _ => None
    end.

  Definition ap_equal (a b : apvalue) : option bool :=
    match a, b with
    | AvNil, _ => ap_is_nil b
    | _, AvNil => ap_is_nil a
    | AvErr x, AvErr y => ap_err_equal x y
    | AvBool x, AvBool y => Some (Bool.eqb x y)
    | AvStr x, AvStr y => Some (str_eqb x y)
    | _, _ => None
    end.

  (* strings.TrimPrefix(s, p) *)
  Definition ap_trim_prefix (p s : str) : str :=
    match strip_prefix p s with Some r => r | None => s end.

  (* the error among the operands of fmt.Errorf *)
  Fixpoint ap_first_err (vs : list apvalue) : option aperr :=
    match vs with
    | [] => None
    | AvErr (Some e) :: _ => Some e
    | _ :: t => ap_first_err t
    end.

  (* ---- expressions --------------------------------------------------------------------------------------------------- *)
  (* The interpreter is written in continuation-passing style: [k] is what the rest of the function does with the values and the
     heap; a panic, exhausted fuel and a stuck state drop the continuation. (An oracle's answer is then inspected with the
     whole rest of the run inside each branch: a run is a decision tree over the oracle answers.) *)
  Section Exec.
    Variable A : Type.                                                    (* the answer type of the whole run *)
    Definition apk := list apvalue -> apheap -> apres A.
    (* a call of a function of the file *)
    Variable call : gname -> list apvalue -> apheap -> apk -> apres A.

    (* a single-valued operand *)
    Definition ap_one (k : apvalue -> apheap -> apres A) : apk :=
      fun vs h => match vs with [v] => k v h | _ => ApStuck end.

    Fixpoint ap_eval (e : apexpr) (en : apenv) (h : apheap) (k : apk) {struct e} : apres A :=
      let evs := fix evs (l : list apexpr) (h : apheap) (k : apk) {struct l} : apres A :=
          match l with
          | [] => k [] h
          | x :: t => ap_eval x en h (ap_one (fun v h1 => evs t h1 (fun vs h2 => k (v :: vs) h2)))
          end in
      match e with
      | AxNil => k [AvNil] h
      | AxVar x => match ap_get x en with Some v => k [v] h | None => ApStuck end
      | AxStr s => k [AvStr (gname_bytes s)] h
      | AxConcat a b =>
        ap_eval a en h (ap_one (fun va h1 => ap_eval b en h1 (ap_one (fun vb h2 =>
          match va, vb with AvStr x, AvStr y => k [AvStr (x ++ y)] h2 | _, _ => ApStuck end))))
      | AxField e f =>
        ap_eval e en h (ap_one (fun v h1 =>
          match v with
          | AvAny (Some n) =>
            match nth_error (ah_anys h1) n with
            | Some a => k [match f with ApTypeUrl => AvStr (type_url a) | ApValue => AvBytes (value a) end] h1
            | None => ApStuck
            end
          | AvAny None => ApPanic h1                                      (* nil pointer dereference *)
          | _ => ApStuck
          end))
      | AxEq a b =>
        ap_eval a en h (ap_one (fun va h1 => ap_eval b en h1 (ap_one (fun vb h2 =>
          match ap_equal va vb with Some r => k [AvBool r] h2 | None => ApStuck end))))
      | AxNe a b =>
        ap_eval a en h (ap_one (fun va h1 => ap_eval b en h1 (ap_one (fun vb h2 =>
          match ap_equal va vb with Some r => k [AvBool (negb r)] h2 | None => ApStuck end))))
      | AxNot e =>
        ap_eval e en h (ap_one (fun v h1 => match v with AvBool b => k [AvBool (negb b)] h1 | _ => ApStuck end))
      | AxNewAny =>
        k [AvAny (Some (List.length (ah_anys h)))] {| ah_anys := ah_anys h ++ [empty_any]; ah_msgs := ah_msgs h |}
      | AxNoOpts => k [AvOpts default_opts] h
      | AxGlobalTypes => k [AvRes (Some gt)] h
      | AxGlobalFiles => k [AvRes (Some gf)] h
      | AxNotFound => k [AvErr (Some AerNotFound)] h
      | AxTrimPrefix e p =>
        ap_eval e en h (ap_one (fun v h1 =>
          match v with AvStr s => k [AvStr (ap_trim_prefix (gname_bytes p) s)] h1 | _ => ApStuck end))
      | AxFullNameOf e =>
        ap_eval e en h (ap_one (fun v h1 =>
          match v with
          | AvMsg AmNil => ApPanic h1                                     (* method call on the nil interface *)
          | AvMsg (AmVal m) => k [AvStr (full_name msg desc dname descr_of m)] h1
          | AvMsg (AmCell n) =>
            match nth_error (ah_msgs h1) n with
            | Some (AcFresh _ d) | Some (AcGarbage _ d) => k [AvStr (dname d)] h1
            | Some (AcFilled _ m) => k [AvStr (full_name msg desc dname descr_of m)] h1
            | None => ApStuck
            end
          | _ => ApStuck
          end))
      | AxToFullName e =>
        ap_eval e en h (ap_one (fun v h1 => match v with AvStr s => k [AvStr s] h1 | _ => ApStuck end))
      | AxNewError m => k [AvErr (Some (AerNew m))] h
      | AxErrorf f args => evs args h (fun vs h1 => k [AvErr (Some (AerFmt f (ap_first_err vs)))] h1)
      | AxMarshal o src =>
        ap_eval o en h (ap_one (fun vo h1 => ap_eval src en h1 (ap_one (fun vs h2 =>
          match vo, vs with
          | AvOpts o', AvMsg AmNil => k [AvBytes []; AvErr None] h2        (* proto: "treat nil message interface as an empty message" *)
          | AvOpts o', AvMsg (AmVal m) =>
            match marshal o' m with
            | Ok b => k [AvBytes b; AvErr None] h2
            | Err => k [AvJunk; AvErr (Some AerLib)] h2
            | Panic => ApPanic h2
            | OutOfFuel => ApFuel h2
            end
          | _, _ => ApStuck
          end))))
      | AxCall f args => evs args h (fun vs h1 => call f vs h1 k)
      | AxFindMessageByURL r u =>
        ap_eval r en h (ap_one (fun vr h1 => ap_eval u en h1 (ap_one (fun vu h2 =>
          match vr, vu with
          | AvRes None, AvStr _ => ApPanic h2                              (* method call on the nil interface *)
          | AvRes (Some tr), AvStr s =>
            match find_message_by_url desc tr s with
            | Found d => k [AvType (Some (false, d)); AvErr None] h2
            | NotFound => k [AvType None; AvErr (Some AerNotFound)] h2
            | WrongType => k [AvType None; AvErr (Some AerLib)] h2
            end
          | _, _ => ApStuck
          end))))
      | AxFindDescriptorByName r n =>
        ap_eval r en h (ap_one (fun vr h1 => ap_eval n en h1 (ap_one (fun vn h2 =>
          match vr, vn with
          | AvRes None, AvStr _ => ApPanic h2
          | AvRes (Some fr), AvStr s =>
            match lookup desc fr s with
            | Some e => k [AvDesc (Some e); AvErr None] h2
            | None => k [AvDesc None; AvErr (Some AerNotFound)] h2
            end
          | _, _ => ApStuck
          end))))
      | AxIsMessageDesc e =>
        ap_eval e en h (ap_one (fun v h1 =>
          match v with
          | AvDesc (Some (EMessage d)) => k [AvMsgDesc (Some d); AvBool true] h1
          | AvDesc _ => k [AvMsgDesc None; AvBool false] h1
          | _ => ApStuck
          end))
      | AxAssertMessageDesc e =>
        ap_eval e en h (ap_one (fun v h1 =>
          match v with
          | AvDesc (Some (EMessage d)) => k [AvMsgDesc (Some d)] h1
          | AvDesc _ => ApPanic h1                                        (* interface conversion *)
          | _ => ApStuck
          end))
      | AxNewMessageType e =>
        ap_eval e en h (ap_one (fun v h1 =>
          match v with AvMsgDesc (Some d) => k [AvType (Some (true, d))] h1 | _ => ApStuck end))
      | AxTypNew e =>
        ap_eval e en h (ap_one (fun v h1 =>
          match v with
          | AvType (Some (dyn, d)) =>
            k [AvMsg (AmCell (List.length (ah_msgs h1)))] {| ah_anys := ah_anys h1; ah_msgs := ah_msgs h1 ++ [AcFresh dyn d] |}
          | AvType None => ApPanic h1                                     (* method call on the nil interface *)
          | _ => ApStuck
          end))
      | AxUnmarshalTo a m =>
        ap_eval a en h (ap_one (fun va h1 => ap_eval m en h1 (ap_one (fun vm h2 =>
          match va, vm with
          | AvAny (Some n), AvMsg (AmCell c) =>
            match nth_error (ah_anys h2) n, nth_error (ah_msgs h2) c with
            | Some a0, Some (AcFresh dyn d) =>
              match unmarshal_to msg desc dname unmarshal a0 dyn d with
              | Ok (dy, m') =>
                match ap_set_cell c (AcFilled dy m') h2 with Some h3 => k [AvErr None] h3 | None => ApStuck end
              | Err =>
                match ap_set_cell c (AcGarbage dyn d) h2 with Some h3 => k [AvErr (Some AerLib)] h3 | None => ApStuck end
              | Panic => ApPanic h2
              | OutOfFuel => ApFuel h2
              end
            | _, _ => ApStuck
            end
          | _, _ => ApStuck
          end))))
      end.

    Fixpoint ap_evals (l : list apexpr) (en : apenv) (h : apheap) (k : apk) {struct l} : apres A :=
      match l with
      | [] => k [] h
      | x :: t => ap_eval x en h (ap_one (fun v h1 => ap_evals t en h1 (fun vs h2 => k (v :: vs) h2)))
      end.

    (* ---- statements ------------------------------------------------------------------------------------------------ *)
    (* what a statement hands to the rest: go on with this environment, or return these values *)
    Inductive apsig := SgNext (en : apenv) | SgRet (vs : list apvalue).
    Definition apsk := apsig -> apheap -> apres A.

    Fixpoint ap_exec (s : apstmt) (en : apenv) (h : apheap) (k : apsk) {struct s} : apres A :=
      let block := fix block (l : list apstmt) (en : apenv) (h : apheap) (k : apsk) {struct l} : apres A :=
          match l with
          | [] => k (SgNext en) h
          | s :: t =>
            ap_exec s en h (fun sg h1 => match sg with SgNext en1 => block t en1 h1 k | SgRet vs => k (SgRet vs) h1 end)
          end in
      match s with
      | AstDefine xs e =>
        ap_eval e en h (fun vs h1 => match ap_define xs vs en with Some en' => k (SgNext en') h1 | None => ApStuck end)
      | AstAssign xs e =>
        ap_eval e en h (fun vs h1 => match ap_assign xs vs en with Some en' => k (SgNext en') h1 | None => ApStuck end)
      | AstSetField x f e =>
        ap_eval e en h (ap_one (fun v h1 =>
          match ap_get x en with
          | Some (AvAny (Some n)) => match ap_set_field n f v h1 with Some h2 => k (SgNext en) h2 | None => ApStuck end
          | Some (AvAny None) => ApPanic h1                                (* nil pointer dereference *)
          | _ => ApStuck
          end))
      | AstIf init c a b =>
        block init ([] :: en) h (fun sg h1 =>
          match sg with
          | SgRet vs => k (SgRet vs) h1
          | SgNext en1 =>
            ap_eval c en1 h1 (ap_one (fun v h2 =>
              match v with
              | AvBool t =>
                let k' := fun sg h3 =>
                  match sg with
                  | SgRet vs => k (SgRet vs) h3
                  | SgNext en3 => k (SgNext (tl (tl en3))) h3              (* both frames are left *)
                  end in
                if t then block a ([] :: en1) h2 k' else block b ([] :: en1) h2 k'
              | _ => ApStuck
              end))
          end)
      | AstReturn es =>
        match es with
        | [e] => ap_eval e en h (fun vs h1 => k (SgRet vs) h1)              (* return f() hands all of f's values on *)
        | _ => ap_evals es en h (fun vs h1 => k (SgRet vs) h1)
        end
      end.

    Fixpoint ap_block (l : list apstmt) (en : apenv) (h : apheap) (k : apsk) {struct l} : apres A :=
      match l with
      | [] => k (SgNext en) h
      | s :: t =>
        ap_exec s en h (fun sg h1 => match sg with SgNext en1 => ap_block t en1 h1 k | SgRet vs => k (SgRet vs) h1 end)
      end.
  End Exec.

  (* ---- functions ------------------------------------------------------------------------------------------------------ *)
  Fixpoint ap_find (p : list apfun) (f : gname) : option apfun :=
    match p with
    | [] => None
    | fd :: t => if str_eq f (af_name fd) then Some fd else ap_find t f
    end.

  Fixpoint ap_bind_params (ps : list (gname * gname)) (vs : list apvalue) : option apframe :=
    match ps, vs with
    | [], [] => Some []
    | (x, _) :: ps', v :: vs' => match ap_bind_params ps' vs' with Some fr => Some ((x, v) :: fr) | None => None end
    | _, _ => None
    end.

  Fixpoint ap_run (A : Type) (p : list apfun) (depth : nat) (f : gname) (args : list apvalue) (h : apheap) (k : apk A) {struct depth} : apres A :=
    match depth with
    | O => ApFuel h
    | S d =>
      match ap_find p f with
      | None => ApStuck
      | Some fd =>
        match ap_bind_params (af_params fd) args with
        | None => ApStuck
        | Some fr =>
          ap_block A (ap_run A p d) (af_body fd) [fr] h (fun sg h1 =>
            match sg with
            | SgRet vs => if Nat.eqb (List.length vs) (List.length (af_results fd)) then k vs h1 else ApStuck
            | SgNext _ => ApStuck                                          (* missing return *)
            end)
        end
      end
    end.

  (* a whole run: the values returned and the final heap *)
  Definition ap_run_top (p : list apfun) (depth : nat) (f : gname) (args : list apvalue) (h : apheap) : apres (list apvalue) :=
    ap_run (list apvalue) p depth f args h (fun vs h1 => ApOk vs h1).

  (* ---- the three entry points, on the arguments and with the results of AnyUtil.v's functions ------------------------- *)
  Definition ap_name (l : list byte) : gname := gname_of_bytes l.
  Definition ap_n_New : gname := ap_name [x4e; x65; x77].
  Definition ap_n_MarshalFrom : gname := ap_name [x4d; x61; x72; x73; x68; x61; x6c; x46; x72; x6f; x6d].
  Definition ap_n_Unpack : gname := ap_name [x55; x6e; x70; x61; x63; x6b].

  Definition ap_heap0 (a : option any) : apheap := {| ah_anys := match a with Some a => [a] | None => [] end; ah_msgs := [] |}.
  Definition ap_ptr0 (a : option any) : apvalue := AvAny (match a with Some _ => Some O | None => None end).
  Definition ap_after (a : option any) (h : apheap) : option any := match a with Some _ => nth_error (ah_anys h) O | None => None end.
  Definition ap_src (src : option msg) : apvalue := AvMsg (match src with Some m => AmVal m | None => AmNil end).

  (* is this returned value a nil / a non-nil error? *)
  Definition ap_err_class (v : apvalue) : option bool :=      (* Some true: nil *)
    match v with AvNil | AvErr None => Some true | AvErr (Some _) => Some false | _ => None end.

  (* MarshalFrom(dst, src, o): None = the interpreter is stuck *)
  Definition ap_marshal_from (p : list apfun) (depth : nat) (dst : option any) (src : option msg) (o : opts)
    : option (outcome unit * option any) :=
    match ap_run_top p depth ap_n_MarshalFrom [ap_ptr0 dst; ap_src src; AvOpts o] (ap_heap0 dst) with
    | ApOk [v] h =>
      match ap_err_class v with
      | Some true => Some (Ok tt, ap_after dst h)
      | Some false => Some (Err, ap_after dst h)
      | None => None
      end
    | ApOk _ _ => None
    | ApPanic h => Some (Panic, ap_after dst h)
    | ApFuel h => Some (OutOfFuel, ap_after dst h)
    | ApStuck => None
    end.

  (* New(src) *)
  Definition ap_new (p : list apfun) (depth : nat) (src : option msg) : option (outcome any) :=
    match ap_run_top p depth ap_n_New [ap_src src] (ap_heap0 None) with
    | ApOk [v; e] h =>
      match ap_err_class e, v with
      | Some true, AvAny (Some n) => match nth_error (ah_anys h) n with Some a => Some (Ok a) | None => None end
      | Some false, (AvNil | AvAny None) => Some Err
      | _, _ => None
      end
    | ApOk _ _ => None
    | ApPanic _ => Some Panic
    | ApFuel _ => Some OutOfFuel
    | ApStuck => None
    end.

  (* Unpack(a, fr, tr): the outcome with the returned message and which implementation it has, and the argument Any afterwards *)
  Definition ap_unpack_full (p : list apfun) (depth : nat) (a : option any) (fr tr : option (registry desc))
    : option (outcome (bool * msg) * option any) :=
    match ap_run_top p depth ap_n_Unpack [ap_ptr0 a; AvRes fr; AvRes tr] (ap_heap0 a) with
    | ApOk [v; e] h =>
      match ap_err_class e, v with
      | Some true, AvMsg (AmCell n) =>
        match nth_error (ah_msgs h) n with Some (AcFilled dyn m) => Some (Ok (dyn, m), ap_after a h) | _ => None end
      | Some false, (AvNil | AvMsg AmNil) => Some (Err, ap_after a h)
      | _, _ => None
      end
    | ApOk _ _ => None
    | ApPanic h => Some (Panic, ap_after a h)
    | ApFuel h => Some (OutOfFuel, ap_after a h)
    | ApStuck => None
    end.
  Definition ap_unpack (p : list apfun) (depth : nat) (a : option any) (fr tr : option (registry desc)) : option (outcome (bool * msg)) :=
    match ap_unpack_full p depth a fr tr with Some (r, _) => Some r | None => None end.
End AnyProg.

Arguments AmNil {msg}.
Arguments AmVal {msg} m.
Arguments AmCell {msg} n.
Arguments AvNil {msg desc opts}.
Arguments AvStr {msg desc opts} s.
Arguments AvBytes {msg desc opts} b.
Arguments AvBool {msg desc opts} b.
Arguments AvAny {msg desc opts} p.
Arguments AvMsg {msg desc opts} m.
Arguments AvOpts {msg desc opts} o.
Arguments AvRes {msg desc opts} r.
Arguments AvErr {msg desc opts} e.
Arguments AvType {msg desc opts} t.
Arguments AvDesc {msg desc opts} e.
Arguments AvMsgDesc {msg desc opts} d.
Arguments AvJunk {msg desc opts}.
Arguments AcFresh {msg desc} dyn d.
Arguments AcFilled {msg desc} dyn m.
Arguments AcGarbage {msg desc} dyn d.
Arguments ApOk {msg desc A} a h.
Arguments ApPanic {msg desc A} h.
Arguments ApFuel {msg desc A} h.
Arguments ApStuck {msg desc A}.
Arguments SgNext {msg desc opts} en.
Arguments SgRet {msg desc opts} vs.

(* ---- the canonical programs: /repo/anyutil/any.go transcribed ------------------------------------------------------- *)
Local Open Scope gname_scope.

(* func New(src proto.Message) ( *anypb.Any, error) {
     dst := new(anypb.Any)
     if err := MarshalFrom(dst, src, proto.MarshalOptions{}); err != nil {
       return nil, err
     }
     return dst, nil
   } *)
Definition canon_New : apfun :=
  {| af_name := "New";
     af_params := [("src", "proto.Message")];
     af_results := ["*anypb.Any"; "error"];
     af_body :=
       [ AstDefine ["dst"] AxNewAny;
         AstIf [AstDefine ["err"] (AxCall "MarshalFrom" [AxVar "dst"; AxVar "src"; AxNoOpts])]
               (AxNe (AxVar "err") AxNil)
               [AstReturn [AxNil; AxVar "err"]]
               [];
         AstReturn [AxVar "dst"; AxNil] ] |}.

(* func MarshalFrom(dst *anypb.Any, src proto.Message, opts proto.MarshalOptions) error {
     if src == nil {
       return protoimpl.X.NewError("invalid nil source message")
     }
     b, err := opts.Marshal(src)
     if err != nil {
       return err
     }
     dst.TypeUrl = "/" + string(src.ProtoReflect().Descriptor().FullName())
     dst.Value = b
     return nil
   } *)
Definition canon_MarshalFrom : apfun :=
  {| af_name := "MarshalFrom";
     af_params := [("dst", "*anypb.Any"); ("src", "proto.Message"); ("opts", "proto.MarshalOptions")];
     af_results := ["error"];
     af_body :=
       [ AstIf [] (AxEq (AxVar "src") AxNil) [AstReturn [AxNewError "invalid nil source message"]] [];
         AstDefine ["b"; "err"] (AxMarshal (AxVar "opts") (AxVar "src"));
         AstIf [] (AxNe (AxVar "err") AxNil) [AstReturn [AxVar "err"]] [];
         AstSetField "dst" ApTypeUrl (AxConcat (AxStr "/") (AxFullNameOf (AxVar "src")));
         AstSetField "dst" ApValue (AxVar "b");
         AstReturn [AxNil] ] |}.

(* func Unpack(any *anypb.Any, fileResolver protodesc.Resolver, typeResolver protoregistry.MessageTypeResolver) (proto.Message, error) {
     if typeResolver == nil {
       typeResolver = protoregistry.GlobalTypes
     }
     if any == nil {
       return nil, fmt.Errorf("cannot unpack a nil Any")
     }
     url := any.TypeUrl
     typ, err := typeResolver.FindMessageByURL(url)
     if err == protoregistry.NotFound {
       if fileResolver == nil {
         fileResolver = protoregistry.GlobalFiles
       }
       typeURL := strings.TrimPrefix(any.TypeUrl, "/")
       msgDesc, err := fileResolver.FindDescriptorByName(protoreflect.FullName(typeURL))
       if err != nil {
         return nil, fmt.Errorf("protoFiles does not have descriptor %s: %w", any.TypeUrl, err)
       }
       md, ok := msgDesc.(protoreflect.MessageDescriptor)
       if !ok {
         return nil, fmt.Errorf("%s does not name a message type (found %T)", any.TypeUrl, msgDesc)
       }
       typ = dynamicpb.NewMessageType(md)
     } else if err != nil {
       return nil, err
     }
     packedMsg := typ.New().Interface()
     err = any.UnmarshalTo(packedMsg)
     if err != nil {
       return nil, fmt.Errorf("cannot unmarshal msg %s: %w", any.TypeUrl, err)
     }
     return packedMsg, nil
   } *)
Definition canon_Unpack : apfun :=
  {| af_name := "Unpack";
     af_params := [("any", "*anypb.Any"); ("fileResolver", "protodesc.Resolver"); ("typeResolver", "protoregistry.MessageTypeResolver")];
     af_results := ["proto.Message"; "error"];
     af_body :=
       [ AstIf [] (AxEq (AxVar "typeResolver") AxNil) [AstAssign ["typeResolver"] AxGlobalTypes] [];
         AstIf [] (AxEq (AxVar "any") AxNil) [AstReturn [AxNil; AxErrorf "cannot unpack a nil Any" []]] [];
         AstDefine ["url"] (AxField (AxVar "any") ApTypeUrl);
         AstDefine ["typ"; "err"] (AxFindMessageByURL (AxVar "typeResolver") (AxVar "url"));
         AstIf [] (AxEq (AxVar "err") AxNotFound)
           [ AstIf [] (AxEq (AxVar "fileResolver") AxNil) [AstAssign ["fileResolver"] AxGlobalFiles] [];
             AstDefine ["typeURL"] (AxTrimPrefix (AxField (AxVar "any") ApTypeUrl) "/");
             AstDefine ["msgDesc"; "err"] (AxFindDescriptorByName (AxVar "fileResolver") (AxToFullName (AxVar "typeURL")));
             AstIf [] (AxNe (AxVar "err") AxNil)
               [AstReturn [AxNil; AxErrorf "protoFiles does not have descriptor %s: %w" [AxField (AxVar "any") ApTypeUrl; AxVar "err"]]] [];
             AstDefine ["md"; "ok"] (AxIsMessageDesc (AxVar "msgDesc"));
             AstIf [] (AxNot (AxVar "ok"))
               [AstReturn [AxNil; AxErrorf "%s does not name a message type (found %T)" [AxField (AxVar "any") ApTypeUrl; AxVar "msgDesc"]]] [];
             AstAssign ["typ"] (AxNewMessageType (AxVar "md")) ]
           [ AstIf [] (AxNe (AxVar "err") AxNil) [AstReturn [AxNil; AxVar "err"]] [] ];
         AstDefine ["packedMsg"] (AxTypNew (AxVar "typ"));
         AstAssign ["err"] (AxUnmarshalTo (AxVar "any") (AxVar "packedMsg"));
         AstIf [] (AxNe (AxVar "err") AxNil)
           [AstReturn [AxNil; AxErrorf "cannot unmarshal msg %s: %w" [AxField (AxVar "any") ApTypeUrl; AxVar "err"]]] [];
         AstReturn [AxVar "packedMsg"; AxNil] ] |}.

(* Unpack as it was before /repo commit d0c621d (no nil guard, unchecked type assertion): the program AnyUtil.v's
   [unpack_gen false] is the model of; kept, like that model, only to state what the commit repaired *)
Definition canon_Unpack_before_fix : apfun :=
  {| af_name := "Unpack";
     af_params := [("any", "*anypb.Any"); ("fileResolver", "protodesc.Resolver"); ("typeResolver", "protoregistry.MessageTypeResolver")];
     af_results := ["proto.Message"; "error"];
     af_body :=
       [ AstIf [] (AxEq (AxVar "typeResolver") AxNil) [AstAssign ["typeResolver"] AxGlobalTypes] [];
         AstDefine ["url"] (AxField (AxVar "any") ApTypeUrl);
         AstDefine ["typ"; "err"] (AxFindMessageByURL (AxVar "typeResolver") (AxVar "url"));
         AstIf [] (AxEq (AxVar "err") AxNotFound)
           [ AstIf [] (AxEq (AxVar "fileResolver") AxNil) [AstAssign ["fileResolver"] AxGlobalFiles] [];
             AstDefine ["typeURL"] (AxTrimPrefix (AxField (AxVar "any") ApTypeUrl) "/");
             AstDefine ["msgDesc"; "err"] (AxFindDescriptorByName (AxVar "fileResolver") (AxToFullName (AxVar "typeURL")));
             AstIf [] (AxNe (AxVar "err") AxNil)
               [AstReturn [AxNil; AxErrorf "protoFiles does not have descriptor %s: %w" [AxField (AxVar "any") ApTypeUrl; AxVar "err"]]] [];
             AstDefine ["md"] (AxAssertMessageDesc (AxVar "msgDesc"));
             AstAssign ["typ"] (AxNewMessageType (AxVar "md")) ]
           [ AstIf [] (AxNe (AxVar "err") AxNil) [AstReturn [AxNil; AxVar "err"]] [] ];
         AstDefine ["packedMsg"] (AxTypNew (AxVar "typ"));
         AstAssign ["err"] (AxUnmarshalTo (AxVar "any") (AxVar "packedMsg"));
         AstIf [] (AxNe (AxVar "err") AxNil)
           [AstReturn [AxNil; AxErrorf "cannot unmarshal msg %s: %w" [AxField (AxVar "any") ApTypeUrl; AxVar "err"]]] [];
         AstReturn [AxVar "packedMsg"; AxNil] ] |}.

(* the file, in source order; and the packages it imports (path, or name=path for a renamed import), sorted *)
Definition canon_anyprog : list apfun := [canon_New; canon_MarshalFrom; canon_Unpack].
Definition canon_anyprog_imports : list gname :=
  [ "fmt";
    "google.golang.org/protobuf/proto";
    "google.golang.org/protobuf/reflect/protodesc";
    "google.golang.org/protobuf/reflect/protoreflect";
    "google.golang.org/protobuf/reflect/protoregistry";
    "google.golang.org/protobuf/types/dynamicpb";
    "google.golang.org/protobuf/types/known/anypb";
    "protoimpl=google.golang.org/protobuf/runtime/protoimpl";
    "strings" ].

(* ---- the statements (proved in Proofs/AnyProgProofs.v, theorems in Properties/C16.v) --------------------------------- *)
(* for every codec, every pair of global registries, every destination / source / options / Any / resolver setting (nil
   included) and every call-depth budget that lets New reach MarshalFrom: interpreting the canonical program is AnyUtil.v's
   function — the outcome (Ok / Err / Panic / OutOfFuel), the value returned, and the Any after the call *)
Definition marshal_from_prog_stmt : Prop :=
  forall (msg desc opts : Type) (dname : desc -> str) (descr_of : msg -> desc) (marshal : opts -> msg -> outcome (list byte))
         (unmarshal : bool -> desc -> list byte -> outcome msg) (default_opts : opts) (gt gf : registry desc)
         (d : nat) (dst : option any) (src : option msg) (o : opts),
    ap_marshal_from msg desc opts dname descr_of marshal unmarshal default_opts gt gf canon_anyprog (S d) dst src o
    = Some (marshal_from msg desc opts dname descr_of marshal dst src o).

Definition new_prog_stmt : Prop :=
  forall (msg desc opts : Type) (dname : desc -> str) (descr_of : msg -> desc) (marshal : opts -> msg -> outcome (list byte))
         (unmarshal : bool -> desc -> list byte -> outcome msg) (default_opts : opts) (gt gf : registry desc)
         (d : nat) (src : option msg),
    ap_new msg desc opts dname descr_of marshal unmarshal default_opts gt gf canon_anyprog (S (S d)) src
    = Some (new_any msg desc opts dname descr_of marshal default_opts src).

Definition unpack_prog_stmt : Prop :=
  forall (msg desc opts : Type) (dname : desc -> str) (descr_of : msg -> desc) (marshal : opts -> msg -> outcome (list byte))
         (unmarshal : bool -> desc -> list byte -> outcome msg) (default_opts : opts) (gt gf : registry desc)
         (d : nat) (a : option any) (fr tr : option (registry desc)),
    ap_unpack_full msg desc opts dname descr_of marshal unmarshal default_opts gt gf canon_anyprog (S d) a fr tr
    = Some (unpack msg desc dname unmarshal gt gf a fr tr, a).

(* the same for the code before the repair and the model of it *)
Definition unpack_before_fix_prog_stmt : Prop :=
  forall (msg desc opts : Type) (dname : desc -> str) (descr_of : msg -> desc) (marshal : opts -> msg -> outcome (list byte))
         (unmarshal : bool -> desc -> list byte -> outcome msg) (default_opts : opts) (gt gf : registry desc)
         (d : nat) (a : option any) (fr tr : option (registry desc)),
    ap_unpack_full msg desc opts dname descr_of marshal unmarshal default_opts gt gf [canon_Unpack_before_fix] (S d) a fr tr
    = Some (unpack_gen msg desc dname unmarshal false gt gf a fr tr, a).

(* a program the decidable equality accepts IS the canonical one *)
Definition apfun_eqb_sound_stmt : Prop := forall f g : apfun, apfun_eqb f g = true -> f = g.
