(* Model/GenDeps.v — features/protoc/main.go:genReflectFileDescriptor: the goTypes table and the depIdxs table handed to
   protoimpl.TypeBuilder (GoTypes / DependencyIndexes). Types are identified by their full names (the `seen` map is keyed
   by protoreflect.FullName). Executable definitions only; lemmas in Proofs/GenDepsProofs.v. *)
From CP Require Import Bytes GenNames.
Local Open Scope N_scope.

(* a small descriptor model: declarations carry full names; a field / extension / method refers to a type by full name *)
Definition tref := option name.                 (* Some t: message- or enum-typed; None: scalar *)
Record dext := { x_extendee : name; x_type : tref }.
Inductive dmsg := DM (full : name) (enums : list name) (exts : list dext) (fields : list tref) (nested : list dmsg).
Record dmethod := { me_in : name; me_out : name }.
Record dfile := { df_enums : list name; df_exts : list dext; df_msgs : list dmsg; df_services : list (list dmethod) }.

Definition dm_full (m : dmsg) : name := match m with DM n _ _ _ _ => n end.
Definition dm_enums (m : dmsg) : list name := match m with DM _ e _ _ _ => e end.
Definition dm_exts (m : dmsg) : list dext := match m with DM _ _ x _ _ => x end.
Definition dm_fields (m : dmsg) : list tref := match m with DM _ _ _ f _ => f end.
Definition dm_nested (m : dmsg) : list dmsg := match m with DM _ _ _ _ n => n end.

(* walkMessages: pre-order *)
Fixpoint pre (m : dmsg) : list dmsg := match m with DM _ _ _ _ ns => m :: flat_map pre ns end.
Definition walk_order (f : dfile) : list dmsg := flat_map pre (df_msgs f).
(* newFileInfo: declarations of the file, then at every message of the walk its own declarations *)
Definition all_enums (f : dfile) : list name := df_enums f ++ flat_map dm_enums (walk_order f).
Definition all_messages (f : dfile) : list dmsg := df_msgs f ++ flat_map dm_nested (walk_order f).
Definition all_exts (f : dfile) : list dext := df_exts f ++ flat_map dm_exts (walk_order f).

Fixpoint somes (l : list tref) : list name :=
  match l with [] => [] | Some t :: r => t :: somes r | None :: r => somes r end.

(* the five dependency sub-lists, as lists of the referenced full names *)
Definition refs_fields (f : dfile) : list name := flat_map (fun m => somes (dm_fields m)) (all_messages f).
Definition refs_extendee (f : dfile) : list name := map x_extendee (all_exts f).
Definition refs_exttype (f : dfile) : list name := somes (map x_type (all_exts f)).
Definition refs_input (f : dfile) : list name := flat_map (map me_in) (df_services f).
Definition refs_output (f : dfile) : list name := flat_map (map me_out) (df_services f).
Definition sublists (f : dfile) : list (list name) :=
  [refs_fields f; refs_extendee f; refs_exttype f; refs_input f; refs_output f].

(* ---- the generator's state machine ---------------------------------------------------------------------- *)
Definition mem (n : name) (g : list name) : bool := existsb (name_eqb n) g.
(* seen[name] = len(seen) together with goTypes = append(goTypes, ...): the index is the position in goTypes *)
Fixpoint pos_from (i : N) (g : list name) (n : name) : N :=
  match g with [] => i | x :: t => if name_eqb x n then i else pos_from (i + 1) t n end.
Definition pos (g : list name) (n : name) : N := pos_from 0 g n.

Definition declare (g : list name) (n : name) : list name := if mem n g then g else g ++ [n].
(* genEnum / genMessage with a depSource: declare if new, then append seen[name] to depIdxs *)
Definition dep (st : list name * list N) (n : name) : list name * list N :=
  let g := declare (fst st) n in (g, snd st ++ [pos g n]).
Definition len {A} (l : list A) : N := N.of_nat (List.length l).

Record tables := { goTypes : list name; depIdxs : list N }.
Definition gen_tables (f : dfile) : tables :=
  let g0 := fold_left declare (map dm_full (all_messages f)) (fold_left declare (all_enums f) []) in
  let s0 := (g0, []) in
  let o0 := len (snd s0) in let s1 := fold_left dep (refs_fields f) s0 in
  let o1 := len (snd s1) in let s2 := fold_left dep (refs_extendee f) s1 in
  let o2 := len (snd s2) in let s3 := fold_left dep (refs_exttype f) s2 in
  let o3 := len (snd s3) in let s4 := fold_left dep (refs_input f) s3 in
  let o4 := len (snd s4) in let s5 := fold_left dep (refs_output f) s4 in
  {| goTypes := fst s5; depIdxs := snd s5 ++ [o4; o3; o2; o1; o0] |}.

(* ---- what filetype.TypeBuilder expects (its documentation) ------------------------------------------------ *)
(* GoTypes: declarations (enums, then messages, flattened order) first, dependencies after, each type once *)
Definition all_names (f : dfile) : list name :=
  all_enums f ++ map dm_full (all_messages f) ++ concat (sublists f).
(* start offset of sub-list k *)
Fixpoint offsets_from (i : N) (ls : list (list name)) : list N :=
  match ls with [] => [] | l :: r => i :: offsets_from (i + len l) r end.
Definition offsets (f : dfile) : list N := offsets_from 0 (sublists f).
Definition nthN {A} (l : list A) (i : N) (d : A) : A := nth (N.to_nat i) l d.
