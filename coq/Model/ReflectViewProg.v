(* Model/ReflectViewProg.v — "ReflectViewProg": a statement language that is the literal image of what the two templates
   features/fastreflection/list.go and map.go print into the methods of the wrapper types of every repeated / map field,
       _T_N_list : Len, Get, Set, Append, AppendMutable, Truncate, NewElement, IsValid        (protoreflect.List)
       _T_N_map  : Len, Range, Has, Clear, Get, Set, Mutable, NewValue, IsValid               (protoreflect.Map)
   its interpreter over the heap of Go objects of Model/Reflect.v, and [canon_list] / [canon_map], the method bodies the
   templates emit for an element type / a key kind and value type, computed from the schema alone ([canon_view]).

   Use (DESIGN 12.7: translator tie; continues Model/ReflectProg.v). On every run the Go runner (engine "reflectviewprog")
   parses every generated *.pulsar.go with go/parser, checks the frame of every wrapper type literally (the assertion
   `var _ protoreflect.List = ( *_T_N_list)(nil)`, the struct with its single pointer field, the signature of each method)
   and translates every method body, statement by statement and purely syntactically, into the syntax below (or fails:
   "untranslatable"). The driver compares the translated methods with the canonical ones ([lprogs_eqb] / [mprogs_eqb],
   statement by statement) and runs the interpreter on the TRANSLATED methods against the running code (REFLECTVIEWRUN).
   The statements at the end of the file (to be proved in Proofs/ by another task) tie the canonical methods to
   Reflect.step for all schemas, heaps, views and operands.

   Conventions
   * A method body is a LIST of statements, one constructor per printed line (or per block the template prints as a whole:
     the two lines of genPrefValueToGoValue, the zeroing loop of Truncate, the `for k, v := range *x.m` loop of Range).
     What varies inside a form (the Value accessor `value.<U>()`, the cast applied to it, the protoreflect.ValueOf…
     constructor, the zero literal, the message type of new(T) / .( *T)) is a parameter, so that a template change in any
     of them changes the translation. Local variable names are not part of the syntax: the translator checks that each
     form uses the names the template prints (keyUnwrapped / concreteKey — concreteValue in Has —, valueUnwrapped /
     concreteValue, v, ok, newValue, mapKey, mapValue, k, i, n) — the interpreter keeps one register per role.
   * The receiver x is a wrapper struct whose only field is a pointer to a slice / map: Reflect.v's [cref] — [RNil] is the
     nil pointer (the invalid view `&_T_N_list{}` that Get returns for an empty container), [RField o f] = &o.F,
     [RVar id] = the address of the stand-alone variable NewField allocated. `*x.list` of the nil pointer panics.
   * The interpreter answers None ("stuck") for a program Go's type checker would reject, or that is not one of the shapes it
     knows the meaning of (a statement of the other wrapper kind, a register read before it is written, a ValueOf…
     constructor / cast / zero literal that does not fit the element's Go type, a `return` of the wrong type, falling off
     the end of a method that returns a value). The canonical programs never get stuck on operands satisfying [vp_op_okb].
   * Fixed library calls are given Reflect.v's meaning by construction: value.Bool()/Int()/…/Message().Interface().( *T)
     followed by the cast of the element's Go type = [pval_to_elem] (a protoreflect.Value of the wrong Go type panics),
     key.Bool()/Int()/Uint() = the key when it is [wt_scalar] for the key kind (else panic), protoreflect.ValueOf…(e) =
     [elem_to_pval], new(T) = [halloc] of [new_obj], `m[k]` / `m[k] = v` / delete(m, k) = [massoc] / [mput] / [mdel].
     ONE call is different: value.String() / key.String() never panics (protoreflect.Value.String formats a non-string
     value with fmt.Sprint): the interpreter gives it a meaning on strings only, and is stuck otherwise ([vp_op_okb]).
   * Go slices are modelled without capacity (Reflect.v's heap has none): `( *x.list)[:n]` panics unless 0 <= n <= len.
   * Map iteration (`for k, v := range *x.m`) visits the entries in the order of Reflect.v's association list (Go's order is
     unspecified; the driver compares sorted renderings). The callback of Range is a parameter; the result of the method
     is PMapRange of the calls made, in order.
   * A panic leaves the heap as it is at that point: an object allocated by `new(T)` before the panicking statement stays in
     the interpreter's heap (unreachable garbage in Go), where Reflect.step returns the heap unchanged: [vp_res_rel].
   * In the comments of this file a Go dereference / pointer type in parentheses is written with a space, `( *x.list)`.
   Executable definitions only. *)
From CP Require Export ReflectProg.
Local Open Scope nat_scope.

(* ---- the parts that vary --------------------------------------------------------------------------------------------- *)
(* valueUnwrapper: the accessor of protoreflect.Value / MapKey *)
Inductive vunwrap :=
| VUBool | VUEnum | VUInt | VUUint | VUFloat | VUString | VUBytes | VUMessage.   (* .Bool() .Enum() .Int() .Uint() .Float() .String() .Bytes() .Message() *)
(* genPrefValueToGoValue: what is applied to <in>Unwrapped to give the concrete Go value *)
Inductive vcast :=
| VXNone            (* concreteValue := valueUnwrapped *)
| VXI32             (* concreteValue := (int32)(valueUnwrapped) *)
| VXU32             (* concreteValue := (uint32)(valueUnwrapped) *)
| VXF32             (* concreteValue := (float32)(valueUnwrapped) *)
| VXEnum            (* concreteValue := (E)(valueUnwrapped), E the element's Go enum type *)
| VXMsg (m : nat).  (* concreteValue := valueUnwrapped.Interface().( *T), T = message m *)
(* how a Go value e is made a protoreflect.Value *)
Inductive vwrap :=
| VWOf (c : rctor)  (* protoreflect.ValueOf<c>(e) *)
| VWEnumNum         (* protoreflect.ValueOfEnum((protoreflect.EnumNumber)(e)) *)
| VWEnumMeth        (* protoreflect.ValueOfEnum(e.Number())                       (Map.Range) *)
| VWMsg.            (* protoreflect.ValueOfMessage(e.ProtoReflect()) *)

Definition unwrap_of (t : ftype) : vunwrap :=
  match t with
  | TMsg _ => VUMessage
  | TScalar k =>
    match k with
    | KBool => VUBool
    | KEnum => VUEnum
    | KInt32 | KSint32 | KSfixed32 | KInt64 | KSint64 | KSfixed64 => VUInt
    | KUint32 | KFixed32 | KUint64 | KFixed64 => VUUint
    | KFloat | KDouble => VUFloat
    | KString => VUString
    | KBytes => VUBytes
    end
  end.
Definition cast_of (t : ftype) : vcast :=
  match t with
  | TMsg m => VXMsg m
  | TScalar k =>
    match k with
    | KEnum => VXEnum
    | KInt32 | KSint32 | KSfixed32 => VXI32
    | KUint32 | KFixed32 => VXU32
    | KFloat => VXF32
    | _ => VXNone
    end
  end.
(* List.Get, Map.Get *)
Definition wrap_of (t : ftype) : vwrap :=
  match t with
  | TMsg _ => VWMsg
  | TScalar k => if is_enum k then VWEnumNum else VWOf (ctor_of k)
  end.
(* Map.Range: enum values through v.Number() *)
Definition wrap_range_of (t : ftype) : vwrap :=
  match t with
  | TMsg _ => VWMsg
  | TScalar k => if is_enum k then VWEnumMeth else VWOf (ctor_of k)
  end.

Definition vunwrap_eqb (a b : vunwrap) : bool :=
  match a, b with
  | VUBool, VUBool | VUEnum, VUEnum | VUInt, VUInt | VUUint, VUUint | VUFloat, VUFloat | VUString, VUString
  | VUBytes, VUBytes | VUMessage, VUMessage => true
  | _, _ => false
  end.
Definition vcast_eqb (a b : vcast) : bool :=
  match a, b with
  | VXNone, VXNone | VXI32, VXI32 | VXU32, VXU32 | VXF32, VXF32 | VXEnum, VXEnum => true
  | VXMsg m, VXMsg m' => Nat.eqb m m'
  | _, _ => false
  end.
Definition vwrap_eqb (a b : vwrap) : bool :=
  match a, b with
  | VWOf c, VWOf c' => rctor_eqb c c'
  | VWEnumNum, VWEnumNum | VWEnumMeth, VWEnumMeth | VWMsg, VWMsg => true
  | _, _ => false
  end.

(* ---- syntax ----------------------------------------------------------------------------------------------------------- *)
(* P = `list` in a list wrapper, `m` in a map wrapper *)
Inductive vstmt :=
(* guards on the wrapper's pointer *)
| VSNilRet0                           (* if x.P == nil { return 0 } *)
| VSNilRet                            (* if x.m == nil { return } *)
| VSNilRetFalse                       (* if x.m == nil { return false } *)
| VSNilRetInvalid                     (* if x.m == nil { return protoreflect.Value{} } *)
| VSValidGuard                        (* if !key.IsValid() || !value.IsValid() { panic("invalid key or value provided") } *)
(* genPrefValueToGoValue *)
| VSKey (u : vunwrap) (c : vcast)     (* keyUnwrapped := key.<u>(); concreteKey := <c>(keyUnwrapped) *)
| VSVal (u : vunwrap) (c : vcast)     (* valueUnwrapped := value.<u>(); concreteValue := <c>(valueUnwrapped) *)
(* both wrappers *)
| VSRetLen                            (* return len( *x.P) *)
| VSRetNotNil                         (* return x.P != nil *)
| VSNew (m : nat)                     (* v := new(T)      (newValue := new(T) in Map.Mutable) *)
| VSRetNew                            (* return protoreflect.ValueOfMessage(v.ProtoReflect())      (newValue) *)
| VSZero (z : rzero)                  (* v := <z> *)
| VSVarBytes                          (* var v []byte *)
| VSRetZero (w : vwrap)               (* return <w>(v) *)
| VSPanic                             (* panic(fmt.Errorf("AppendMutable can not be called on message <M> at list field <F> as it is not of Message kind"))
                                         panic("should not call Mutable on protoreflect.Map whose value is not of type protoreflect.Message") *)
(* lists *)
| VSRetIdx (w : vwrap)                (* return <w>(( *x.list)[i]) *)
| VSStoreIdx                          (* ( *x.list)[i] = concreteValue *)
| VSAppendVal                         (* *x.list = append( *x.list, concreteValue) *)
| VSAppendNew                         (* *x.list = append( *x.list, v) *)
| VSZeroLoop                          (* for i := n; i < len( *x.list); i++ { ( *x.list)[i] = nil } *)
| VSSlice                             (* *x.list = ( *x.list)[:n] *)
(* maps *)
| VSRangeLoop (kc : rctor) (w : vwrap)
      (* for k, v := range *x.m { mapKey := (protoreflect.MapKey)(protoreflect.ValueOf<kc>(k)); mapValue := <w>(v); if !f(mapKey, mapValue) { break } } *)
| VSLookupOk                          (* _, ok := ( *x.m)[concreteValue]      (Has names the key concreteValue) *)
| VSRetOk                             (* return ok *)
| VSDelete                            (* delete( *x.m, concreteKey) *)
| VSLookup                            (* v, ok := ( *x.m)[concreteKey] *)
| VSIfNotOkRetInvalid                 (* if !ok { return protoreflect.Value{} } *)
| VSRetLooked (w : vwrap)             (* return <w>(v) *)
| VSStoreKey                          (* ( *x.m)[concreteKey] = concreteValue *)
| VSIfOkRetMsg                        (* if ok { return protoreflect.ValueOfMessage(v.ProtoReflect()) } *)
| VSStoreKeyNew.                      (* ( *x.m)[concreteKey] = newValue *)

Record lprogs := mkLProgs {
  vl_len : list vstmt; vl_get : list vstmt; vl_set : list vstmt; vl_append : list vstmt; vl_appendmut : list vstmt;
  vl_truncate : list vstmt; vl_newelem : list vstmt; vl_isvalid : list vstmt }.
Record mprogs := mkMProgs {
  vm_len : list vstmt; vm_range : list vstmt; vm_has : list vstmt; vm_clear : list vstmt; vm_get : list vstmt;
  vm_set : list vstmt; vm_mutable : list vstmt; vm_newvalue : list vstmt; vm_isvalid : list vstmt }.

(* ---- decidable equality ------------------------------------------------------------------------------------------------ *)
Definition vstmt_eqb (a b : vstmt) : bool :=
  match a, b with
  | VSNilRet0, VSNilRet0 | VSNilRet, VSNilRet | VSNilRetFalse, VSNilRetFalse | VSNilRetInvalid, VSNilRetInvalid
  | VSValidGuard, VSValidGuard | VSRetLen, VSRetLen | VSRetNotNil, VSRetNotNil | VSRetNew, VSRetNew | VSVarBytes, VSVarBytes
  | VSPanic, VSPanic | VSStoreIdx, VSStoreIdx | VSAppendVal, VSAppendVal | VSAppendNew, VSAppendNew | VSZeroLoop, VSZeroLoop
  | VSSlice, VSSlice | VSLookupOk, VSLookupOk | VSRetOk, VSRetOk | VSDelete, VSDelete | VSLookup, VSLookup
  | VSIfNotOkRetInvalid, VSIfNotOkRetInvalid | VSStoreKey, VSStoreKey | VSIfOkRetMsg, VSIfOkRetMsg
  | VSStoreKeyNew, VSStoreKeyNew => true
  | VSKey u c, VSKey u' c' | VSVal u c, VSVal u' c' => vunwrap_eqb u u' && vcast_eqb c c'
  | VSNew m, VSNew m' => Nat.eqb m m'
  | VSZero z, VSZero z' => rzero_eqb z z'
  | VSRetZero w, VSRetZero w' | VSRetIdx w, VSRetIdx w' | VSRetLooked w, VSRetLooked w' => vwrap_eqb w w'
  | VSRangeLoop c w, VSRangeLoop c' w' => rctor_eqb c c' && vwrap_eqb w w'
  | _, _ => false
  end.
Definition vbody_eqb (a b : list vstmt) : bool := rp_list_eqb vstmt_eqb a b.
Definition lprogs_eqb (a b : lprogs) : bool :=
  vbody_eqb (vl_len a) (vl_len b) && vbody_eqb (vl_get a) (vl_get b) && vbody_eqb (vl_set a) (vl_set b) &&
  vbody_eqb (vl_append a) (vl_append b) && vbody_eqb (vl_appendmut a) (vl_appendmut b) &&
  vbody_eqb (vl_truncate a) (vl_truncate b) && vbody_eqb (vl_newelem a) (vl_newelem b) && vbody_eqb (vl_isvalid a) (vl_isvalid b).
Definition mprogs_eqb (a b : mprogs) : bool :=
  vbody_eqb (vm_len a) (vm_len b) && vbody_eqb (vm_range a) (vm_range b) && vbody_eqb (vm_has a) (vm_has b) &&
  vbody_eqb (vm_clear a) (vm_clear b) && vbody_eqb (vm_get a) (vm_get b) && vbody_eqb (vm_set a) (vm_set b) &&
  vbody_eqb (vm_mutable a) (vm_mutable b) && vbody_eqb (vm_newvalue a) (vm_newvalue b) && vbody_eqb (vm_isvalid a) (vm_isvalid b).

(* ---- interpreter ------------------------------------------------------------------------------------------------------ *)
(* which wrapper x is *)
Inductive vrecv := VRList | VRMap (kk : kind).
(* the result type of the method *)
Inductive vret :=
| VTVoid      (* no result: Set, Append, Truncate, Clear *)
| VTCalls     (* Range: no result; the model's result is the list of the calls of f *)
| VTInt       (* int *)
| VTBool      (* bool *)
| VTValue.    (* protoreflect.Value *)
(* the parameters in scope *)
Record vargs := mkArgs {
  a_int : option Z;                         (* i (Get, Set) / n (Truncate) *)
  a_key : option val;                       (* key *)
  a_value : option pval;                    (* value *)
  a_f : option (val -> pval -> bool) }.     (* f *)
Definition vargs0 : vargs := mkArgs None None None None.

(* the local variables *)
Record vregs := mkRegs {
  g_key : option val;                       (* concreteKey *)
  g_val : option elem;                      (* concreteValue *)
  g_look : option (option elem);            (* v, ok: Some None = !ok *)
  g_new : option (nat * nat);               (* v := new(T) / newValue: (message type, object) *)
  g_zero : option rzero;                    (* v := <zero literal> *)
  g_calls : option (list (val * pval)) }.   (* the calls the Range loop made *)
Definition vregs0 : vregs := mkRegs None None None None None None.
Definition set_key (g : vregs) (k : val) := mkRegs (Some k) (g_val g) (g_look g) (g_new g) (g_zero g) (g_calls g).
Definition set_val (g : vregs) (e : elem) := mkRegs (g_key g) (Some e) (g_look g) (g_new g) (g_zero g) (g_calls g).
Definition set_look (g : vregs) (r : option elem) := mkRegs (g_key g) (g_val g) (Some r) (g_new g) (g_zero g) (g_calls g).
Definition set_new (g : vregs) (m q : nat) := mkRegs (g_key g) (g_val g) (g_look g) (Some (m, q)) (g_zero g) (g_calls g).
Definition set_zero (g : vregs) (z : rzero) := mkRegs (g_key g) (g_val g) (g_look g) (g_new g) (Some z) (g_calls g).
Definition set_calls (g : vregs) (l : list (val * pval)) := mkRegs (g_key g) (g_val g) (g_look g) (g_new g) (g_zero g) (Some l).

(* what one statement does *)
Inductive vout :=
| VOStuck
| VORet (h : heap) (v : pval)               (* return / panic *)
| VONext (h : heap) (g : vregs).

Definition cref_nil (r : cref) : bool := match r with RNil => true | _ => false end.

(* <w>(e) type-checks for an element of type t *)
Definition wrap_okb (t : ftype) (w : vwrap) : bool :=
  match t, w with
  | TMsg _, VWMsg => true
  | TScalar KEnum, (VWEnumNum | VWEnumMeth) => true
  | TScalar k, VWOf c => negb (is_enum k) && rctor_eqb c (ctor_of k)
  | _, _ => false
  end.
(* <w>(v) for v := <zero literal z> of kind k (the enum literal is an untyped constant: v is an int, v.Number() does not exist) *)
Definition wrap_zero_okb (k : kind) (w : vwrap) (z : rzero) : bool :=
  zero_ok k z && match w with
                 | VWOf c => negb (is_enum k) && rctor_eqb c (ctor_of k)
                 | VWEnumNum => is_enum k
                 | _ => false
                 end.

(* keyUnwrapped := key.<u>(); concreteKey := <c>(keyUnwrapped)   — outer None: stuck; inner None: the accessor panics *)
Definition key_conv (kk : kind) (u : vunwrap) (c : vcast) (k : val) : option (option val) :=
  if vunwrap_eqb u (unwrap_of (TScalar kk)) && vcast_eqb c (cast_of (TScalar kk)) then
    if wt_scalar kk k then Some (Some k)
    else match kk with KString => None | _ => Some None end      (* key.String() of a non-string: fmt.Sprint, not modelled *)
  else None.
Definition val_conv (t : ftype) (u : vunwrap) (c : vcast) (v : pval) : option (option elem) :=
  if vunwrap_eqb u (unwrap_of t) && vcast_eqb c (cast_of t) then
    match pval_to_elem t v with
    | Some e => Some (Some e)
    | None => match t with TScalar KString => None | _ => Some None end   (* value.String() of a non-string *)
    end
  else None.

(* for i := n; i < len( *x.list); i++ { ( *x.list)[i] = nil }  — None: out of fuel; Some None: panic (nil pointer, negative index) *)
Fixpoint zero_loop (fuel : nat) (h : heap) (r : cref) (i : Z) : option (option heap) :=
  match fuel with
  | O => None
  | S fu =>
    match read_list h r with
    | None => Some None
    | Some l =>
      if (i <? Z.of_nat (olen l))%Z then
        if (0 <=? i)%Z then zero_loop fu (write_list h r (Some (set_nth (olist l) (Z.to_nat i) (EPtr None)))) r (i + 1)%Z
        else Some None
      else Some (Some h)
    end
  end.

(* the calls of the Range loop over the entries, up to and including the first one answered false (break) *)
Fixpoint range_calls (f : val -> pval -> bool) (t : ftype) (m : list (val * elem)) : list (val * pval) :=
  match m with
  | [] => []
  | (k, e) :: tl => let pv := elem_to_pval t e in if f k pv then (k, pv) :: range_calls f t tl else [(k, pv)]
  end.

Section VInterp.
  Variable sch : schema.
  Variable rk : vrecv.        (* the wrapper kind (and key kind) *)
  Variable t : ftype.         (* element type / value type *)
  Variable r : cref.          (* x.list / x.m *)
  Variable ret : vret.
  Variable a : vargs.

  Definition vpanic (h : heap) : vout := VORet h PPanic.
  (* *x.list / *x.m: the nil pointer panics; a pointer that does not point to a slice / map cannot exist in Go: panic *)
  Definition on_list (h : heap) (k : option (list elem) -> vout) : vout :=
    match rk with
    | VRList => match read_list h r with Some l => k l | None => vpanic h end
    | VRMap _ => VOStuck
    end.
  Definition on_map (h : heap) (k : option (list (val * elem)) -> vout) : vout :=
    match rk with
    | VRMap _ => match read_map h r with Some m => k m | None => vpanic h end
    | VRList => VOStuck
    end.

  Definition vstep1 (s : vstmt) (h : heap) (g : vregs) : vout :=
    match s with
    | VSNilRet0 => match ret with VTInt => if cref_nil r then VORet h (PScalar (VInt 0%Z)) else VONext h g | _ => VOStuck end
    | VSNilRet =>
      match ret with
      | VTVoid => if cref_nil r then VORet h PUnit else VONext h g
      | VTCalls => if cref_nil r then VORet h (PMapRange []) else VONext h g
      | _ => VOStuck
      end
    | VSNilRetFalse => match ret with VTBool => if cref_nil r then VORet h (PBool false) else VONext h g | _ => VOStuck end
    | VSNilRetInvalid => match ret with VTValue => if cref_nil r then VORet h PInvalid else VONext h g | _ => VOStuck end
    | VSValidGuard =>
      match a_key a, a_value a with
      | Some _, Some PInvalid => vpanic h               (* the model's keys are always valid MapKeys *)
      | Some _, Some _ => VONext h g
      | _, _ => VOStuck
      end
    | VSKey u c =>
      match rk, a_key a with
      | VRMap kk, Some k =>
        match key_conv kk u c k with
        | Some (Some k') => VONext h (set_key g k')
        | Some None => vpanic h
        | None => VOStuck
        end
      | _, _ => VOStuck
      end
    | VSVal u c =>
      match a_value a with
      | Some v =>
        match val_conv t u c v with
        | Some (Some e) => VONext h (set_val g e)
        | Some None => vpanic h
        | None => VOStuck
        end
      | None => VOStuck
      end
    | VSRetLen =>
      match ret with
      | VTInt =>
        match rk with
        | VRList => on_list h (fun l => VORet h (PScalar (VInt (Z.of_nat (olen l)))))
        | VRMap _ => on_map h (fun m => VORet h (PScalar (VInt (Z.of_nat (olen m)))))
        end
      | _ => VOStuck
      end
    | VSRetNotNil => match ret with VTBool => VORet h (PBool (negb (cref_nil r))) | _ => VOStuck end
    | VSNew m => let (h1, q) := halloc h (HObj (new_obj sch m)) in VONext h1 (set_new g m q)
    | VSRetNew => match ret, g_new g with VTValue, Some (m, q) => VORet h (PMsg m (Some q)) | _, _ => VOStuck end
    | VSZero z => match z with ZLNil => VOStuck | _ => VONext h (set_zero g z) end      (* `v := nil` does not compile *)
    | VSVarBytes => VONext h (set_zero g ZLNil)
    | VSRetZero w =>
      match ret, g_zero g, t with
      | VTValue, Some z, TScalar k => if wrap_zero_okb k w z then VORet h (PScalar (zero_lit_val z)) else VOStuck
      | _, _, _ => VOStuck
      end
    | VSPanic => vpanic h
    | VSRetIdx w =>
      match ret, a_int a with
      | VTValue, Some i =>
        if wrap_okb t w then
          on_list h (fun l => if in_bounds i (olen l) then VORet h (elem_to_pval t (nth (Z.to_nat i) (olist l) (EPtr None))) else vpanic h)
        else VOStuck
      | _, _ => VOStuck
      end
    | VSStoreIdx =>
      match g_val g, a_int a with
      | Some e, Some i =>
        on_list h (fun l => if in_bounds i (olen l) then VONext (write_list h r (Some (set_nth (olist l) (Z.to_nat i) e))) g else vpanic h)
      | _, _ => VOStuck
      end
    | VSAppendVal =>
      match g_val g with
      | Some e => on_list h (fun l => VONext (write_list h r (Some (olist l ++ [e]))) g)
      | None => VOStuck
      end
    | VSAppendNew =>
      match g_new g, t with
      | Some (m, q), TMsg m' =>
        if Nat.eqb m m' then on_list h (fun l => VONext (write_list h r (Some (olist l ++ [EPtr (Some q)]))) g) else VOStuck
      | _, _ => VOStuck
      end
    | VSZeroLoop =>
      match a_int a, t, rk with
      | Some n, TMsg _, VRList =>
        match zero_loop (S (match read_list h r with Some l => olen l | None => 0 end)) h r n with
        | Some (Some h') => VONext h' g
        | Some None => vpanic h
        | None => VOStuck
        end
      | _, _, _ => VOStuck
      end
    | VSSlice =>
      match a_int a with
      | Some n =>
        on_list h (fun l =>
          if ((0 <=? n) && (n <=? Z.of_nat (olen l)))%Z
          then VONext (write_list h r (match l with None => None | Some x => Some (firstn (Z.to_nat n) x) end)) g
          else vpanic h)
      | None => VOStuck
      end
    | VSRangeLoop kc w =>
      match rk, ret, a_f a with
      | VRMap kk, VTCalls, Some f =>
        if rctor_eqb kc (ctor_of kk) && wrap_okb t w then
          on_map h (fun m => VONext h (set_calls g (olist (g_calls g) ++ range_calls f t (olist m))))
        else VOStuck
      | _, _, _ => VOStuck
      end
    | VSLookupOk | VSLookup =>
      match g_key g with
      | Some k => on_map h (fun m => VONext h (set_look g (massoc (olist m) k)))
      | None => VOStuck
      end
    | VSRetOk =>
      match ret, g_look g with
      | VTBool, Some lk => VORet h (PBool (match lk with Some _ => true | None => false end))
      | _, _ => VOStuck
      end
    | VSDelete =>
      match g_key g with
      | Some k => on_map h (fun m => match m with
                                     | Some kvs => VONext (write_map h r (Some (mdel kvs k))) g
                                     | None => VONext h g                       (* delete on a nil map is a no-op *)
                                     end)
      | None => VOStuck
      end
    | VSIfNotOkRetInvalid =>
      match ret, g_look g with
      | VTValue, Some None => VORet h PInvalid
      | VTValue, Some (Some _) => VONext h g
      | _, _ => VOStuck
      end
    | VSRetLooked w =>
      match ret, g_look g with
      | VTValue, Some lk =>
        if wrap_okb t w then VORet h (match lk with Some e => elem_to_pval t e | None => zero_elem t end)   (* !ok: v is the zero value *)
        else VOStuck
      | _, _ => VOStuck
      end
    | VSStoreKey =>
      match g_key g, g_val g with
      | Some k, Some e => on_map h (fun m => match m with
                                             | Some kvs => VONext (write_map h r (Some (mput kvs k e))) g
                                             | None => vpanic h                 (* assignment to an entry in a nil map *)
                                             end)
      | _, _ => VOStuck
      end
    | VSIfOkRetMsg =>
      match ret, g_look g, t with
      | VTValue, Some (Some e), TMsg _ => VORet h (elem_to_pval t e)
      | VTValue, Some None, TMsg _ => VONext h g
      | _, _, _ => VOStuck
      end
    | VSStoreKeyNew =>
      match g_key g, g_new g, t with
      | Some k, Some (m, q), TMsg m' =>
        if Nat.eqb m m' then
          on_map h (fun mp => match mp with
                              | Some kvs => VONext (write_map h r (Some (mput kvs k (EPtr (Some q))))) g
                              | None => vpanic h
                              end)
        else VOStuck
      | _, _, _ => VOStuck
      end
    end.

  Fixpoint vexec (ss : list vstmt) (h : heap) (g : vregs) : option (heap * pval) :=
    match ss with
    | [] =>
      match ret with
      | VTVoid => Some (h, PUnit)
      | VTCalls => Some (h, PMapRange (olist (g_calls g)))
      | _ => None                                                       (* missing return *)
      end
    | s :: ss' =>
      match vstep1 s h g with
      | VOStuck => None
      | VORet h' v => Some (h', v)
      | VONext h' g' => vexec ss' h' g'
      end
    end.

  Definition run_view (p : list vstmt) (h : heap) : option (heap * pval) := vexec p h vregs0.
End VInterp.

(* one operation with the wrapper methods taken from [lp] / [mp] (element type -> translated methods of a list wrapper; key kind,
   value type -> of a map wrapper; None and every other operation: Reflect.step) *)
Definition vp_step (sch : schema) (lp : ftype -> option lprogs) (mp : kind -> ftype -> option mprogs) (h : heap) (o : op)
  : option (heap * pval) :=
  let onl (t : ftype) (k : lprogs -> option (heap * pval)) := match lp t with Some ps => k ps | None => Some (step sch h o) end in
  let onm (kk : kind) (t : ftype) (k : mprogs -> option (heap * pval)) := match mp kk t with Some ps => k ps | None => Some (step sch h o) end in
  let ai (i : Z) := mkArgs (Some i) None None None in
  let ak (k : val) := mkArgs None (Some k) None None in
  match o with
  | OLLen (PList t r) => onl t (fun ps => run_view sch VRList t r VTInt vargs0 (vl_len ps) h)
  | OLGet (PList t r) i => onl t (fun ps => run_view sch VRList t r VTValue (ai i) (vl_get ps) h)
  | OLSet (PList t r) i v => onl t (fun ps => run_view sch VRList t r VTVoid (mkArgs (Some i) None (Some v) None) (vl_set ps) h)
  | OLAppend (PList t r) v => onl t (fun ps => run_view sch VRList t r VTVoid (mkArgs None None (Some v) None) (vl_append ps) h)
  | OLAppendMutable (PList t r) => onl t (fun ps => run_view sch VRList t r VTValue vargs0 (vl_appendmut ps) h)
  | OLTruncate (PList t r) n => onl t (fun ps => run_view sch VRList t r VTVoid (ai n) (vl_truncate ps) h)
  | OLNewElement (PList t r) => onl t (fun ps => run_view sch VRList t r VTValue vargs0 (vl_newelem ps) h)
  | OIsValid (PList t r) => onl t (fun ps => run_view sch VRList t r VTBool vargs0 (vl_isvalid ps) h)
  | OMLen (PMap kk t r) => onm kk t (fun ps => run_view sch (VRMap kk) t r VTInt vargs0 (vm_len ps) h)
  | OMRange (PMap kk t r) => onm kk t (fun ps => run_view sch (VRMap kk) t r VTCalls (mkArgs None None None (Some (fun _ _ => true))) (vm_range ps) h)
  | OMHas (PMap kk t r) k => onm kk t (fun ps => run_view sch (VRMap kk) t r VTBool (ak k) (vm_has ps) h)
  | OMClear (PMap kk t r) k => onm kk t (fun ps => run_view sch (VRMap kk) t r VTVoid (ak k) (vm_clear ps) h)
  | OMGet (PMap kk t r) k => onm kk t (fun ps => run_view sch (VRMap kk) t r VTValue (ak k) (vm_get ps) h)
  | OMSet (PMap kk t r) k v => onm kk t (fun ps => run_view sch (VRMap kk) t r VTVoid (mkArgs None (Some k) (Some v) None) (vm_set ps) h)
  | OMMutable (PMap kk t r) k => onm kk t (fun ps => run_view sch (VRMap kk) t r VTValue (ak k) (vm_mutable ps) h)
  | OMNewValue (PMap kk t r) => onm kk t (fun ps => run_view sch (VRMap kk) t r VTValue vargs0 (vm_newvalue ps) h)
  | OIsValid (PMap kk t r) => onm kk t (fun ps => run_view sch (VRMap kk) t r VTBool vargs0 (vm_isvalid ps) h)
  | _ => Some (step sch h o)
  end.
(* Map.Range with any callback *)
Definition run_maprange (sch : schema) (f : val -> pval -> bool) (ps : mprogs) (h : heap) (v : pval) : option (heap * pval) :=
  match v with
  | PMap kk t r => run_view sch (VRMap kk) t r VTCalls (mkArgs None None None (Some f)) (vm_range ps) h
  | _ => Some (h, PPanic)
  end.

(* ---- the methods the templates emit -------------------------------------------------------------------------------------- *)
(* genNewElement / genNewValue *)
Definition canon_newzero (t : ftype) : list vstmt :=
  match t with
  | TMsg m => [VSNew m; VSRetNew]
  | TScalar KBytes => [VSVarBytes; VSRetZero (VWOf VCBytes)]
  | TScalar k => [VSZero (zero_lit k); VSRetZero (wrap_of t)]
  end.
(* list.go *)
Definition canon_list (t : ftype) : lprogs :=
  mkLProgs
    [VSNilRet0; VSRetLen]
    [VSRetIdx (wrap_of t)]
    [VSVal (unwrap_of t) (cast_of t); VSStoreIdx]
    [VSVal (unwrap_of t) (cast_of t); VSAppendVal]
    (match t with TMsg m => [VSNew m; VSAppendNew; VSRetNew] | TScalar _ => [VSPanic] end)
    ((match t with TMsg _ => [VSZeroLoop] | TScalar _ => [] end) ++ [VSSlice])
    (canon_newzero t)
    [VSRetNotNil].
(* map.go *)
Definition canon_map (kk : kind) (t : ftype) : mprogs :=
  let key := VSKey (unwrap_of (TScalar kk)) (cast_of (TScalar kk)) in
  mkMProgs
    [VSNilRet0; VSRetLen]
    [VSNilRet; VSRangeLoop (ctor_of kk) (wrap_range_of t)]
    [VSNilRetFalse; key; VSLookupOk; VSRetOk]
    [VSNilRet; key; VSDelete]
    [VSNilRetInvalid; key; VSLookup; VSIfNotOkRetInvalid; VSRetLooked (wrap_of t)]
    [VSValidGuard; key; VSVal (unwrap_of t) (cast_of t); VSStoreKey]
    (match t with
     | TMsg m => [key; VSLookup; VSIfOkRetMsg; VSNew m; VSStoreKeyNew; VSRetNew]
     | TScalar _ => [VSPanic]
     end)
    (canon_newzero t)
    [VSRetNotNil].

(* the wrapper type the plugin emits for field f of message mid *)
Inductive vprogs := VPList (p : lprogs) | VPMap (p : mprogs).
Definition canon_view (sch : schema) (mid f : nat) : option vprogs :=
  match field_of sch mid f with
  | Some fd =>
    match f_shape fd with
    | Rep _ => Some (VPList (canon_list (f_ty fd)))
    | MapOf kk => Some (VPMap (canon_map kk (f_ty fd)))
    | _ => None
    end
  | None => None
  end.
Definition vprogs_eqb (a b : vprogs) : bool :=
  match a, b with
  | VPList x, VPList y => lprogs_eqb x y
  | VPMap x, VPMap y => mprogs_eqb x y
  | _, _ => false
  end.

(* ---- hypotheses of the statements (executable) ------------------------------------------------------------------------- *)
(* a view that is not the invalid nil view points to a slice / map of the heap. True of every view Get / Mutable / NewField / Range
   hand out and kept by every step ([vp_view_live_kept_stmt]). Needed where Reflect.step reads a dangling view as empty and the
   generated code would dereference the pointer. Counterexample: h = [], OLLen (PList (TScalar KInt32) (RVar 0)): step answers 0, the
   interpreter panics at `len( *x.list)` (a pointer to nothing cannot exist in Go). Likewise OMLen, OMHas, OMGet, OMClear, OMRange. *)
Definition view_liveb (h : heap) (v : pval) : bool :=
  match v with
  | PList _ RNil | PMap _ _ RNil => true
  | PList _ r => match read_list h r with Some _ => true | None => false end
  | PMap _ _ r => match read_map h r with Some _ => true | None => false end
  | _ => true
  end.
(* value.String() / key.String(): for string elements, values and keys the unwrapper is protoreflect.Value.String(), which does not
   panic on a Value of another Go type but formats it (fmt.Sprint); Reflect.step panics (pval_to_elem / wt_scalar), the interpreter is
   stuck. Counterexample: h = [HListVar (Some [])], OLAppend (PList (TScalar KString) (RVar 0)) (PScalar (VInt 5)): step panics, the
   generated Append stores "5". Likewise OLSet, OMSet (value), and OMHas / OMGet / OMClear / OMSet / OMMutable with a non-string key on a
   map<string, …> (OMHas (PMap KString t r) (VInt 5): step panics, the generated Has looks "5" up and answers false). *)
Definition str_val_okb (t : ftype) (v : pval) : bool :=
  match t with
  | TScalar KString => match pval_to_elem t v with Some _ => true | None => false end
  | _ => true
  end.
Definition str_key_okb (kk : kind) (k : val) : bool :=
  match kk with KString => wt_scalar KString k | _ => true end.
Definition vp_op_okb (h : heap) (o : op) : bool :=
  match o with
  | OLLen v => view_liveb h v
  | OLSet (PList t _) _ v | OLAppend (PList t _) v => str_val_okb t v
  | OMLen v | OMRange v => view_liveb h v
  | OMHas (PMap kk _ r) k | OMGet (PMap kk _ r) k | OMClear (PMap kk _ r) k =>
    (* the nil guard comes before the key is unwrapped; a key of the wrong type panics (except key.String()) before the map is read *)
    cref_nil r || (if wt_scalar kk k then view_liveb h (PMap kk (TScalar KBool) r) else str_key_okb kk k)
  | OMMutable (PMap kk (TMsg _) _) k => str_key_okb kk k
  | OMSet (PMap kk t _) k v => match v with PInvalid => true | _ => str_key_okb kk k && (negb (wt_scalar kk k) || str_val_okb t v) end
  | _ => true
  end.

(* equal results; after a panic the interpreter's heap may hold, at its end, objects allocated before the panicking statement
   (unreachable in Go), Reflect.step returns the heap it was given. Counterexamples for plain equality:
   OLAppendMutable (PList (TMsg 0) RNil) in any heap h: `v := new(T)` then `*x.list` of the nil pointer: (h ++ [new T], PPanic) against
   step's (h, PPanic); OMMutable on a view of a field whose map is nil (a view from Mutable/Get after Clear of the field), absent key:
   `newValue := new(T)` then the assignment to an entry of a nil map panics. *)
Fixpoint heap_prefixb (a b : heap) : bool :=            (* a is a prefix of b *)
  match a, b with
  | [], _ => true
  | x :: a', y :: b' => rp_hent_eqb x y && heap_prefixb a' b'
  | _ :: _, [] => false
  end.
Definition vp_res_rel (res want : heap * pval) : Prop :=
  snd res = snd want /\
  match snd want with
  | PPanic => exists g, fst res = fst want ++ g
  | _ => fst res = fst want
  end.
Definition vp_res_relb (res want : heap * pval) : bool :=
  rp_pval_eqb (snd res) (snd want) &&
  match snd want with
  | PPanic => heap_prefixb (fst want) (fst res)
  | _ => rp_heap_eqb (fst res) (fst want)
  end.

(* ---- the statements another task proves ----------------------------------------------------------------------------------- *)
(* an operation on a list / map view executed with the canonical wrapper methods of the view's element (key, value) type is Reflect.step *)
Definition vp_canon_step (sch : schema) (h : heap) (o : op) : option (heap * pval) :=
  vp_step sch (fun t => Some (canon_list t)) (fun kk t => Some (canon_map kk t)) h o.
Definition vp_agrees (sch : schema) (h : heap) (o : op) : Prop :=
  match vp_canon_step sch h o with
  | Some res => vp_res_rel res (step sch h o)
  | None => False
  end.
(* per method; r is any view of element type t (pointing to a struct field, to a stand-alone variable, or the invalid nil view) *)
Definition list_len_prog_stmt : Prop :=
  forall sch h t r, wf sch = true -> rp_heap_okb sch h = true -> view_liveb h (PList t r) = true -> vp_agrees sch h (OLLen (PList t r)).
Definition list_get_prog_stmt : Prop :=
  forall sch h t r i, wf sch = true -> rp_heap_okb sch h = true -> vp_agrees sch h (OLGet (PList t r) i).
Definition list_set_prog_stmt : Prop :=
  forall sch h t r i v, wf sch = true -> rp_heap_okb sch h = true -> str_val_okb t v = true -> vp_agrees sch h (OLSet (PList t r) i v).
Definition list_append_prog_stmt : Prop :=
  forall sch h t r v, wf sch = true -> rp_heap_okb sch h = true -> str_val_okb t v = true -> vp_agrees sch h (OLAppend (PList t r) v).
(* the view must be live, as for Len: `v := new(T)` runs before `*x.list` is read, so a dangling view that points one past the end of
   the heap, at a repeated field of the type being allocated, would come alive (found by the proof, T11:
   ReflectViewProgProofs.list_appendmutable_prog_counterexample); no history produces a dangling view (vp_view_live_kept, vp_result_live) *)
Definition list_appendmutable_prog_stmt : Prop :=
  forall sch h t r, wf sch = true -> rp_heap_okb sch h = true -> view_liveb h (PList t r) = true -> vp_agrees sch h (OLAppendMutable (PList t r)).
Definition list_truncate_prog_stmt : Prop :=
  forall sch h t r n, wf sch = true -> rp_heap_okb sch h = true -> vp_agrees sch h (OLTruncate (PList t r) n).
Definition list_newelement_prog_stmt : Prop :=
  forall sch h t r, wf sch = true -> rp_heap_okb sch h = true -> vp_agrees sch h (OLNewElement (PList t r)).
Definition list_isvalid_prog_stmt : Prop :=
  forall sch h t r, wf sch = true -> rp_heap_okb sch h = true -> vp_agrees sch h (OIsValid (PList t r)).
Definition map_len_prog_stmt : Prop :=
  forall sch h kk t r, wf sch = true -> rp_heap_okb sch h = true -> view_liveb h (PMap kk t r) = true -> vp_agrees sch h (OMLen (PMap kk t r)).
Definition map_range_prog_stmt : Prop :=
  forall sch h kk t r, wf sch = true -> rp_heap_okb sch h = true -> view_liveb h (PMap kk t r) = true -> vp_agrees sch h (OMRange (PMap kk t r)).
Definition map_has_prog_stmt : Prop :=
  forall sch h kk t r k, wf sch = true -> rp_heap_okb sch h = true -> vp_op_okb h (OMHas (PMap kk t r) k) = true -> vp_agrees sch h (OMHas (PMap kk t r) k).
Definition map_clear_prog_stmt : Prop :=
  forall sch h kk t r k, wf sch = true -> rp_heap_okb sch h = true -> vp_op_okb h (OMClear (PMap kk t r) k) = true -> vp_agrees sch h (OMClear (PMap kk t r) k).
Definition map_get_prog_stmt : Prop :=
  forall sch h kk t r k, wf sch = true -> rp_heap_okb sch h = true -> vp_op_okb h (OMGet (PMap kk t r) k) = true -> vp_agrees sch h (OMGet (PMap kk t r) k).
Definition map_set_prog_stmt : Prop :=
  forall sch h kk t r k v, wf sch = true -> rp_heap_okb sch h = true -> vp_op_okb h (OMSet (PMap kk t r) k v) = true -> vp_agrees sch h (OMSet (PMap kk t r) k v).
Definition map_mutable_prog_stmt : Prop :=
  forall sch h kk t r k, wf sch = true -> rp_heap_okb sch h = true -> vp_op_okb h (OMMutable (PMap kk t r) k) = true -> vp_agrees sch h (OMMutable (PMap kk t r) k).
Definition map_newvalue_prog_stmt : Prop :=
  forall sch h kk t r, wf sch = true -> rp_heap_okb sch h = true -> vp_agrees sch h (OMNewValue (PMap kk t r)).
Definition map_isvalid_prog_stmt : Prop :=
  forall sch h kk t r, wf sch = true -> rp_heap_okb sch h = true -> vp_agrees sch h (OIsValid (PMap kk t r)).

(* Map.Range with any callback: exactly the calls of the full iteration up to and including the first one answered false *)
Fixpoint vp_cut_calls (f : val -> pval -> bool) (l : list (val * pval)) : list (val * pval) :=
  match l with
  | [] => []
  | c :: tl => if f (fst c) (snd c) then c :: vp_cut_calls f tl else [c]
  end.
Definition map_range_stop_prog_stmt : Prop :=
  forall sch h kk t r f, wf sch = true -> rp_heap_okb sch h = true -> view_liveb h (PMap kk t r) = true ->
    run_maprange sch f (canon_map kk t) h (PMap kk t r) =
    Some (match step sch h (OMRange (PMap kk t r)) with
          | (h', PMapRange l) => (h', PMapRange (vp_cut_calls f l))
          | other => other
          end).

(* all at once: every operation (the message-level ones and those on a receiver of the wrong kind are Reflect.step by definition) *)
Definition view_prog_correct_stmt : Prop :=
  forall sch h o, wf sch = true -> rp_heap_okb sch h = true -> vp_op_okb h o = true ->
    (forall v, o = OLAppendMutable v -> view_liveb h v = true) -> vp_agrees sch h o.

(* the canonical wrapper of a field is the canonical wrapper of its element (key, value) type: what ties [canon_view] (what the plugin
   emits per field, compared with the translation on every run) to the statements above *)
Definition canon_view_stmt : Prop :=
  forall sch mid f fd, field_of sch mid f = Some fd ->
    canon_view sch mid f = match f_shape fd with
                           | Rep _ => Some (VPList (canon_list (f_ty fd)))
                           | MapOf kk => Some (VPMap (canon_map kk (f_ty fd)))
                           | _ => None
                           end.

(* liveness of views is an invariant: a live view stays live whatever operation is executed (so that [vp_op_okb] holds along every
   history for every view obtained in it) *)
Definition vp_view_live_kept_stmt : Prop :=
  forall sch h o v, wf sch = true -> rp_heap_okb sch h = true -> view_liveb h v = true -> view_liveb (fst (step sch h o)) v = true.
(* and the views an operation returns are live *)
Definition vp_result_live_stmt : Prop :=
  forall sch h o, wf sch = true -> rp_heap_okb sch h = true ->
    let (h', res) := step sch h o in
    view_liveb h' res = true /\
    match res with PRange l => forallb (fun c => view_liveb h' (snd c)) l = true | _ => True end.

(* ---- the same statements on one case, for the driver ---------------------------------------------------------------------- *)
Definition view_prog_law (sch : schema) (h : heap) (o : op) : bool :=
  negb (wf sch && rp_heap_okb sch h && vp_op_okb h o && match o with OLAppendMutable v => view_liveb h v | _ => true end) ||
  match vp_canon_step sch h o with
  | Some res => vp_res_relb res (step sch h o)
  | None => false
  end.
Definition vp_view_live_kept_law (sch : schema) (h : heap) (o : op) (v : pval) : bool :=
  negb (wf sch && rp_heap_okb sch h && view_liveb h v) || view_liveb (fst (step sch h o)) v.
Definition vp_result_live_law (sch : schema) (h : heap) (o : op) : bool :=
  negb (wf sch && rp_heap_okb sch h) ||
  (let (h', res) := step sch h o in
   view_liveb h' res && match res with PRange l => forallb (fun c => view_liveb h' (snd c)) l | _ => true end).
(* map_range_stop_prog_stmt on one case: the callback answers false at its n-th call (positions recovered from the full iteration:
   the keys of a map are distinct) *)
Definition map_range_stop_law (sch : schema) (h : heap) (v : pval) (n : nat) : bool :=
  match v with
  | PMap kk t r =>
    negb (wf sch && rp_heap_okb sch h && view_liveb h v) ||
    match step sch h (OMRange v) with
    | (h', PMapRange l) =>
      let f := fun (k : val) (_ : pval) =>
                 (fix pos (l : list (val * pval)) (i : nat) {struct l} : bool :=
                    match l with
                    | [] => true
                    | c :: tl => if rp_val_eqb (fst c) k then Nat.ltb (S i) n else pos tl (S i)
                    end) l 0 in
      match run_maprange sch f (canon_map kk t) h v with
      | Some res => rp_res_eqb res (h', PMapRange (vp_cut_calls f l))
      | None => false
      end
    | _ => true
    end
  | _ => true
  end.
