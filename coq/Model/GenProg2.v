(* Model/GenProg2.v — third file of the genprog translator tie (task T21): /repo/generator/generator.go
     NewGenerator            (findFeatures, error handed on; the `local` package set of the files with Generate = true)
     Generator.GenerateFile  (the proto3-only guard, the loop over gen.features calling GenerateFile on each feature generator,
                              "generated iff some feature said so", GenerateHelpers once per (import path, feature index))
   which Model/GenProg.v gives the meaning of GenOrder.v (GpxNewGenerator / GpxGenerateFile, gpp_outs_spec).

   GenProg.v's syntax has no method calls, keyed composite literals, maps with struct keys or methods with receivers, and its
   definitions must not change; so this file has a small syntax of its own [g2expr / g2stmt / g2decl] (same conventions: names and
   types travel as text [gname]) and reuses GenProg.v's protogen objects [pfile] and GenOrder.v's functions unchanged.

   Reading guide
   * Values [v2]: nil, bools, strings, ints (the index of a range), slices by value, structs (a composite literal, keyed; `&T{…}`
     is the same value: no function of this file writes a field through a pointer), Go maps with ANY comparable key as references
     into a heap of (zero value, association list) cells, feature values [V2Feat n] (opaque tokens: a generator.Feature), feature
     generators [V2FeatGen n] (what calling a Feature returns), plugin.Files[i] [V2File i], its descriptor [V2Desc i], opaque
     constants [V2Opaque] (protoreflect.Proto3 …), the opaque parameters plugin / gf / ext.
   * Opaque code: `findFeatures(names)` is the parameter [ff] (the statements instantiate it with GenOrder.find_features, which
     GenProgProofs ties to the translated findFeatures); `feat(p, plugin)` makes the feature generator of that feature;
     `fg.GenerateFile(file, plugin)` appends the event [EvGenerateFile n i] and returns [feat_gen n]; `fg.GenerateHelpers()`
     appends [EvHelpers n]. The trace of events is what "features run in sorted order" is stated on.
   * Blocks: one flat environment; a block's definitions are dropped at its end (no shadowing is resolved differently from Go:
     define puts the new binding in front).  No function of the file loops except by `range` over a slice; no fuel.
   Executable definitions only. *)
From CP Require Import Bytes GenNames GenOrder GoFun GenProg.
Local Open Scope nat_scope.

(* ---- syntax ----------------------------------------------------------------------------------------------------------- *)
Inductive g2expr :=
| G2Nil | G2True | G2False
| G2Var (x : gname)
| G2Qual (pkg n : gname)                                       (* pkg.Name *)
| G2Sel (e : g2expr) (f : gname)                               (* e.f *)
| G2Call (f : gname) (args : list g2expr)                      (* f(args…): a function of the package or a variable holding a func *)
| G2Method (e : g2expr) (m : gname) (args : list g2expr)       (* e.m(args…) *)
| G2Ne (a b : g2expr)                                          (* a != b *)
| G2Not (e : g2expr)                                           (* !e *)
| G2Make (kty vty : gname)                                     (* make(map[K]V) *)
| G2Lit (amp : bool) (ty : gname) (keys : list gname) (vals : list g2expr)   (* T{k: e, …}  /  &T{k: e, …} *)
| G2Index (m k : g2expr)                                       (* m[k], single-valued *)
| G2Conv (ty : gname) (e : g2expr).                            (* T(e) *)

Inductive g2stmt :=
| G2Define (xs : list gname) (e : g2expr)                      (* x, y := e *)
| G2Assign (x : gname) (e : g2expr)                            (* x = e *)
| G2VarDecl (x ty : gname)                                     (* var x T *)
| G2SetIndex (m k v : g2expr)                                  (* m[k] = v *)
| G2If (c : g2expr) (a b : list g2stmt)                        (* if c {a} else {b} *)
| G2Range (k v : gname) (e : g2expr) (body : list g2stmt)      (* for k, v := range e {body} *)
| G2Return (es : list g2expr)
| G2Expr (e : g2expr).

Inductive g2decl :=
| G2Func (recv : list (gname * gname)) (f : gname) (params : list (gname * gname)) (results : list gname) (body : list g2stmt)
| G2Type (t : gname) (text : gname).

Definition g2d_name (d : g2decl) : gname := match d with G2Func _ f _ _ _ => f | G2Type t _ => t end.

(* ---- decidable equality ------------------------------------------------------------------------------------------------- *)
Fixpoint g2_names_eqb (a b : list gname) : bool :=
  match a, b with [], [] => true | x :: a', y :: b' => str_eq x y && g2_names_eqb a' b' | _, _ => false end.
Fixpoint g2_pairs_eqb (a b : list (gname * gname)) : bool :=
  match a, b with
  | [], [] => true
  | (x, s) :: a', (y, t) :: b' => str_eq x y && str_eq s t && g2_pairs_eqb a' b'
  | _, _ => false
  end.
Fixpoint g2expr_eqb (a b : g2expr) {struct a} : bool :=
  let fix go (l l' : list g2expr) {struct l} : bool :=
    match l, l' with [], [] => true | x :: t, y :: t' => g2expr_eqb x y && go t t' | _, _ => false end in
  match a, b with
  | G2Nil, G2Nil | G2True, G2True | G2False, G2False => true
  | G2Var x, G2Var y => str_eq x y
  | G2Qual p n, G2Qual p' n' => str_eq p p' && str_eq n n'
  | G2Sel e f, G2Sel e' f' => g2expr_eqb e e' && str_eq f f'
  | G2Call f l, G2Call f' l' => str_eq f f' && go l l'
  | G2Method e m l, G2Method e' m' l' => g2expr_eqb e e' && str_eq m m' && go l l'
  | G2Ne x y, G2Ne x' y' => g2expr_eqb x x' && g2expr_eqb y y'
  | G2Not e, G2Not e' => g2expr_eqb e e'
  | G2Make k v, G2Make k' v' => str_eq k k' && str_eq v v'
  | G2Lit p t ks vs, G2Lit p' t' ks' vs' => Bool.eqb p p' && str_eq t t' && g2_names_eqb ks ks' && go vs vs'
  | G2Index m k, G2Index m' k' => g2expr_eqb m m' && g2expr_eqb k k'
  | G2Conv t e, G2Conv t' e' => str_eq t t' && g2expr_eqb e e'
  | _, _ => false
  end.
Fixpoint g2exprs_eqb (l l' : list g2expr) : bool :=
  match l, l' with [], [] => true | x :: t, y :: t' => g2expr_eqb x y && g2exprs_eqb t t' | _, _ => false end.
Fixpoint g2stmt_eqb (a b : g2stmt) {struct a} : bool :=
  let fix go (l l' : list g2stmt) {struct l} : bool :=
    match l, l' with [], [] => true | x :: t, y :: t' => g2stmt_eqb x y && go t t' | _, _ => false end in
  match a, b with
  | G2Define xs e, G2Define xs' e' => g2_names_eqb xs xs' && g2expr_eqb e e'
  | G2Assign x e, G2Assign x' e' => str_eq x x' && g2expr_eqb e e'
  | G2VarDecl x t, G2VarDecl x' t' => str_eq x x' && str_eq t t'
  | G2SetIndex m k v, G2SetIndex m' k' v' => g2expr_eqb m m' && g2expr_eqb k k' && g2expr_eqb v v'
  | G2If c x y, G2If c' x' y' => g2expr_eqb c c' && go x x' && go y y'
  | G2Range k v e body, G2Range k' v' e' body' => str_eq k k' && str_eq v v' && g2expr_eqb e e' && go body body'
  | G2Return es, G2Return es' => g2exprs_eqb es es'
  | G2Expr e, G2Expr e' => g2expr_eqb e e'
  | _, _ => false
  end.
Fixpoint g2stmts_eqb (l l' : list g2stmt) : bool :=
  match l, l' with [], [] => true | x :: t, y :: t' => g2stmt_eqb x y && g2stmts_eqb t t' | _, _ => false end.
Definition g2decl_eqb (a b : g2decl) : bool :=
  match a, b with
  | G2Func r f ps rs body, G2Func r' f' ps' rs' body' =>
    g2_pairs_eqb r r' && str_eq f f' && g2_pairs_eqb ps ps' && g2_names_eqb rs rs' && g2stmts_eqb body body'
  | G2Type t s, G2Type t' s' => str_eq t t' && str_eq s s'
  | _, _ => false
  end.

(* ---- values and the state ----------------------------------------------------------------------------------------------- *)
Inductive v2 :=
| V2Nil
| V2Bool (b : bool)
| V2Str (s : name)
| V2Int (n : nat)
| V2Slice (l : list v2)
| V2Struct (ty : gname) (keys : list gname) (vals : list v2)
| V2Map (cell : nat)
| V2Feat (n : name)
| V2FeatGen (n : name)
| V2File (i : nat)
| V2Desc (i : nat)
| V2Err
| V2Opaque (t : gname).

(* Go's == on comparable values (map keys): structs field by field *)
Fixpoint v2_eqb (a b : v2) {struct a} : bool :=
  let fix go (l l' : list v2) {struct l} : bool :=
    match l, l' with [], [] => true | x :: t, y :: t' => v2_eqb x y && go t t' | _, _ => false end in
  match a, b with
  | V2Nil, V2Nil => true
  | V2Bool x, V2Bool y => Bool.eqb x y
  | V2Str x, V2Str y => name_eqb x y
  | V2Int x, V2Int y => Nat.eqb x y
  | V2Struct t ks vs, V2Struct t' ks' vs' => str_eq t t' && g2_names_eqb ks ks' && go vs vs'
  | V2Opaque x, V2Opaque y => str_eq x y
  | V2File x, V2File y => Nat.eqb x y
  | _, _ => false
  end.

Inductive g2event := EvGenerateFile (feat : name) (file : nat) | EvHelpers (feat : name).
Definition g2cell := (v2 * list (v2 * v2))%type.               (* zero value of the element type, entries *)
Record g2state := { g2_env : list (gname * v2); g2_maps : list g2cell; g2_trace : list g2event }.

Fixpoint g2_lookup (x : gname) (en : list (gname * v2)) : option v2 :=
  match en with [] => None | (y, v) :: t => if str_eq x y then Some v else g2_lookup x t end.
Fixpoint g2_update (x : gname) (v : v2) (en : list (gname * v2)) : option (list (gname * v2)) :=
  match en with
  | [] => None
  | (y, w) :: t => if str_eq x y then Some ((y, v) :: t)
                   else match g2_update x v t with Some t' => Some ((y, w) :: t') | None => None end
  end.
Definition g2_bind (x : gname) (v : v2) (st : g2state) : g2state :=
  if str_eq x "_"%gname then st else {| g2_env := (x, v) :: g2_env st; g2_maps := g2_maps st; g2_trace := g2_trace st |}.
Fixpoint g2_binds (xs : list gname) (vs : list v2) (st : g2state) : option g2state :=
  match xs, vs with
  | [], [] => Some st
  | x :: xs', v :: vs' => g2_binds xs' vs' (g2_bind x v st)
  | _, _ => None
  end.
(* leaving a block: the bindings made in it go, assignments to outer variables stay *)
Definition g2_leave (outer : nat) (st : g2state) : g2state :=
  {| g2_env := skipn (length (g2_env st) - outer) (g2_env st); g2_maps := g2_maps st; g2_trace := g2_trace st |}.
Definition g2_emit (e : g2event) (st : g2state) : g2state :=
  {| g2_env := g2_env st; g2_maps := g2_maps st; g2_trace := g2_trace st ++ [e] |}.

Fixpoint g2_assoc (k : v2) (l : list (v2 * v2)) : option v2 :=
  match l with [] => None | (k', v) :: t => if v2_eqb k k' then Some v else g2_assoc k t end.
Fixpoint g2_assoc_set (k v : v2) (l : list (v2 * v2)) : list (v2 * v2) :=
  match l with [] => [(k, v)] | (k', w) :: t => if v2_eqb k k' then (k', v) :: t else (k', w) :: g2_assoc_set k v t end.
Definition g2_map_get (st : g2state) (c : nat) (k : v2) : option v2 :=
  match nth_error (g2_maps st) c with
  | Some (z, l) => Some (match g2_assoc k l with Some v => v | None => z end)
  | None => None
  end.
Definition g2_map_set (st : g2state) (c : nat) (k v : v2) : option g2state :=
  match nth_error (g2_maps st) c with
  | Some (z, l) => Some {| g2_env := g2_env st; g2_maps := gpp_list_set c (z, g2_assoc_set k v l) (g2_maps st); g2_trace := g2_trace st |}
  | None => None
  end.
Definition g2_zero (ty : gname) : option v2 :=
  if str_eq ty "bool"%gname then Some (V2Bool false) else if str_eq ty "string"%gname then Some (V2Str []) else None.
Fixpoint g2_field (f : gname) (ks : list gname) (vs : list v2) : option v2 :=
  match ks, vs with k :: ks', v :: vs' => if str_eq f k then Some v else g2_field f ks' vs' | _, _ => None end.
Fixpoint g2_strs (l : list v2) : option (list name) :=
  match l with
  | [] => Some []
  | V2Str s :: t => match g2_strs t with Some r => Some (s :: r) | None => None end
  | _ => None
  end.
Fixpoint g2_index_items (i : nat) (l : list v2) : list (v2 * v2) :=
  match l with [] => [] | v :: t => (V2Int i, v) :: g2_index_items (S i) t end.

Local Open Scope gname_scope.
Section Interp2.
  Variable files : list pfile.                                 (* plugin.Files (read only here) *)
  Variable ff : list name -> option (list name).               (* findFeatures: the features by name, or an error *)
  Variable feat_gen : name -> bool.                            (* does this feature's GenerateFile report "generated"? *)

  Definition g2res := option (list v2 * g2state).
  Definition g2_one (r : g2res) (k : v2 -> g2state -> g2res) : g2res :=
    match r with Some ([v], st) => k v st | _ => None end.

  Fixpoint g2_eval (e : g2expr) (st : g2state) {struct e} : g2res :=
    let fix evs (l : list g2expr) (st : g2state) {struct l} : g2res :=
      match l with
      | [] => Some ([], st)
      | x :: t => g2_one (g2_eval x st) (fun v st1 => match evs t st1 with Some (vs, st2) => Some (v :: vs, st2) | None => None end)
      end in
    match e with
    | G2Nil => Some ([V2Nil], st)
    | G2True => Some ([V2Bool true], st)
    | G2False => Some ([V2Bool false], st)
    | G2Var x => match g2_lookup x (g2_env st) with Some v => Some ([v], st) | None => None end
    | G2Qual p n => Some ([V2Opaque n], st)
    | G2Sel a f =>
      g2_one (g2_eval a st) (fun v st1 =>
        match v with
        | V2Struct _ ks vs => match g2_field f ks vs with Some w => Some ([w], st1) | None => None end
        | V2File i =>
          match nth_error files i with
          | Some fi =>
            if str_eq f "Generate" then Some ([V2Bool (fi_generate fi)], st1)
            else if str_eq f "Desc" then Some ([V2Desc i], st1)
            else if str_eq f "GoImportPath" then Some ([V2Str (fi_import fi)], st1)
            else None
          | None => None
          end
        | _ => None
        end)
    | G2Call f args =>
      match evs args st with
      | Some (vs, st1) =>
        match g2_lookup f (g2_env st1), vs with
        | Some (V2Feat n), [_; _] => Some ([V2FeatGen n], st1)                  (* feat(p, plugin) *)
        | Some _, _ => None
        | None, [V2Slice l] =>
          if str_eq f "findFeatures" then
            match g2_strs l with
            | Some names => match ff names with
                            | Some fs => Some ([V2Slice (map V2Feat fs); V2Nil], st1)
                            | None => Some ([V2Nil; V2Err], st1)
                            end
            | None => None
            end
          else None
        | None, _ => None
        end
      | None => None
      end
    | G2Method a m args =>
      g2_one (g2_eval a st) (fun v st1 =>
        match evs args st1 with
        | Some (vs, st2) =>
          match v, vs with
          | V2FeatGen n, [V2File i; _] =>
            if str_eq m "GenerateFile" then Some ([V2Bool (feat_gen n)], g2_emit (EvGenerateFile n i) st2) else None
          | V2FeatGen n, [] => if str_eq m "GenerateHelpers" then Some ([], g2_emit (EvHelpers n) st2) else None
          | V2Desc i, [] =>
            match nth_error files i with
            | Some fi =>
              if str_eq m "Package" then Some ([V2Str (fi_pkg fi)], st2)
              else if str_eq m "Syntax" then Some ([V2Opaque (if fi_proto3 fi then "Proto3" else "Proto2")], st2)
              else None
            | None => None
            end
          | _, _ => None
          end
        | None => None
        end)
    | G2Ne a b =>
      g2_one (g2_eval a st) (fun x st1 => g2_one (g2_eval b st1) (fun y st2 =>
        match x, y with
        | V2Nil, V2Err | V2Err, V2Nil => Some ([V2Bool true], st2)               (* err != nil *)
        | V2Err, _ | _, V2Err => None
        | _, _ => Some ([V2Bool (negb (v2_eqb x y))], st2)
        end))
    | G2Not a => g2_one (g2_eval a st) (fun v st1 => match v with V2Bool b => Some ([V2Bool (negb b)], st1) | _ => None end)
    | G2Make kty vty =>
      match g2_zero vty with
      | Some z => Some ([V2Map (length (g2_maps st))],
                        {| g2_env := g2_env st; g2_maps := g2_maps st ++ [(z, [])]; g2_trace := g2_trace st |})
      | None => None
      end
    | G2Lit _ ty ks es =>
      match evs es st with
      | Some (vs, st1) => if Nat.eqb (length ks) (length vs) then Some ([V2Struct ty ks vs], st1) else None
      | None => None
      end
    | G2Index m k =>
      g2_one (g2_eval m st) (fun mv st1 => g2_one (g2_eval k st1) (fun kv st2 =>
        match mv with
        | V2Map c => match g2_map_get st2 c kv with Some v => Some ([v], st2) | None => None end
        | _ => None
        end))
    | G2Conv ty a =>
      g2_one (g2_eval a st) (fun v st1 =>
        match v with V2Str s => if str_eq ty "string" then Some ([V2Str s], st1) else None | _ => None end)
    end.

  Fixpoint g2_evals (l : list g2expr) (st : g2state) : g2res :=
    match l with
    | [] => Some ([], st)
    | x :: t => g2_one (g2_eval x st) (fun v st1 => match g2_evals t st1 with Some (vs, st2) => Some (v :: vs, st2) | None => None end)
    end.

  (* the result of a statement: the state and, after a return, the values returned *)
  Definition g2sres := option (option (list v2) * g2state).

  Fixpoint g2_items (step : v2 * v2 -> g2state -> g2sres) (items : list (v2 * v2)) (st : g2state) : g2sres :=
    match items with
    | [] => Some (None, st)
    | it :: rest => match step it st with Some (None, st1) => g2_items step rest st1 | r => r end
    end.

  (* a block, and a block in a scope of its own, over the statement interpreter [exec] (nested recursion: g2_exec below) *)
  Definition g2_block_with (exec : g2stmt -> g2state -> g2sres) : list g2stmt -> g2state -> g2sres :=
    fix block (l : list g2stmt) (st : g2state) {struct l} : g2sres :=
      match l with
      | [] => Some (None, st)
      | x :: t => match exec x st with Some (None, st1) => block t st1 | r => r end
      end.
  Definition g2_scoped_with (exec : g2stmt -> g2state -> g2sres) (l : list g2stmt) (st : g2state) : g2sres :=
    match g2_block_with exec l st with
    | Some (r, st1) => Some (r, g2_leave (length (g2_env st)) st1)
    | None => None
    end.

  Fixpoint g2_exec (s : g2stmt) (st : g2state) {struct s} : g2sres :=
    let scoped := g2_scoped_with g2_exec in
    match s with
    | G2Define xs e =>
      match g2_eval e st with
      | Some (vs, st1) => match g2_binds xs vs st1 with Some st2 => Some (None, st2) | None => None end
      | None => None
      end
    | G2Assign x e =>
      match g2_eval e st with
      | Some ([v], st1) =>
        match g2_update x v (g2_env st1) with
        | Some en => Some (None, {| g2_env := en; g2_maps := g2_maps st1; g2_trace := g2_trace st1 |})
        | None => None
        end
      | _ => None
      end
    | G2VarDecl x ty => match g2_zero ty with Some z => Some (None, g2_bind x z st) | None => None end
    | G2SetIndex m k v =>
      match g2_eval m st with
      | Some ([V2Map c], st1) =>
        match g2_eval k st1 with
        | Some ([kv], st2) =>
          match g2_eval v st2 with
          | Some ([vv], st3) => match g2_map_set st3 c kv vv with Some st4 => Some (None, st4) | None => None end
          | _ => None
          end
        | _ => None
        end
      | _ => None
      end
    | G2If c a b =>
      match g2_eval c st with
      | Some ([V2Bool t], st1) => scoped (if t then a else b) st1
      | _ => None
      end
    | G2Range k v e body =>
      match g2_eval e st with
      | Some ([V2Slice l], st1) =>
        g2_items (fun it s0 => match scoped body (g2_bind v (snd it) (g2_bind k (fst it) s0)) with
                               | Some (r, s1) => Some (r, g2_leave (length (g2_env s0)) s1)      (* k and v go too *)
                               | None => None
                               end) (g2_index_items 0 l) st1
      | Some ([V2Nil], st1) => Some (None, st1)
      | _ => None
      end
    | G2Return es => match g2_evals es st with Some (vs, st1) => Some (Some vs, st1) | None => None end
    | G2Expr e => match g2_eval e st with Some (_, st1) => Some (None, st1) | None => None end
    end.

  Definition g2_block : list g2stmt -> g2state -> g2sres := g2_block_with g2_exec.

  Fixpoint g2_find (p : list g2decl) (f : gname) : option g2decl :=
    match p with [] => None | d :: t => if str_eq (g2d_name d) f then Some d else g2_find t f end.

  (* call a function / method of the file: receiver and parameters bound in order; maps and trace as given *)
  Definition g2_call (p : list g2decl) (f : gname) (args : list v2) (maps : list g2cell) (trace : list g2event)
    : option (list v2 * list g2cell * list g2event) :=
    match g2_find p f with
    | Some (G2Func recv _ params _ body) =>
      match g2_binds (map fst (recv ++ params)) args {| g2_env := []; g2_maps := maps; g2_trace := trace |} with
      | Some st =>
        match g2_block body st with
        | Some (Some vs, st1) => Some (vs, g2_maps st1, g2_trace st1)
        | _ => None
        end
      | None => None
      end
    | _ => None
    end.
End Interp2.

(* ---- the canonical program: generator/generator.go -------------------------------------------------------------------- *)
Definition canon_NewGenerator_loop : list g2stmt :=
  [ G2If (G2Sel (G2Var "f") "Generate")
      [ G2SetIndex (G2Var "local") (G2Conv "string" (G2Method (G2Sel (G2Var "f") "Desc") "Package" [])) G2True ] [] ].
Definition canon_NewGenerator_body : list g2stmt :=
  [ G2Define ["features"; "err"] (G2Call "findFeatures" [G2Var "featureNames"]);
    G2If (G2Ne (G2Var "err") G2Nil) [ G2Return [G2Nil; G2Var "err"] ] [];
    G2Define ["local"] (G2Make "string" "bool");
    G2Range "_" "f" (G2Var "allFiles") canon_NewGenerator_loop;
    G2Return [ G2Lit true "Generator" ["seen"; "ext"; "features"; "local"]
                 [ G2Make "featureHelpers" "bool"; G2Var "ext"; G2Var "features"; G2Var "local" ];
               G2Nil ] ].

Definition canon_GenerateFile_loop : list g2stmt :=
  [ G2Define ["featGenerator"] (G2Call "feat" [G2Var "p"; G2Var "plugin"]);
    G2If (G2Method (G2Var "featGenerator") "GenerateFile" [G2Var "file"; G2Var "plugin"])
      [ G2Assign "generated" G2True;
        G2Define ["helpersForPlugin"]
          (G2Lit false "featureHelpers" ["path"; "feature"] [G2Sel (G2Var "file") "GoImportPath"; G2Var "fidx"]);
        G2If (G2Not (G2Index (G2Sel (G2Var "gen") "seen") (G2Var "helpersForPlugin")))
          [ G2Expr (G2Method (G2Var "featGenerator") "GenerateHelpers" []);
            G2SetIndex (G2Sel (G2Var "gen") "seen") (G2Var "helpersForPlugin") G2True ] [] ] [] ].

Definition canon_GenerateFile_body : list g2stmt :=
  [ G2If (G2Ne (G2Method (G2Sel (G2Var "file") "Desc") "Syntax" []) (G2Qual "protoreflect" "Proto3")) [ G2Return [G2False] ] [];
    G2Define ["p"] (G2Lit true "GeneratedFile" ["GeneratedFile"; "Ext"; "LocalPackages"]
                      [ G2Var "gf"; G2Sel (G2Var "gen") "ext"; G2Sel (G2Var "gen") "local" ]);
    G2VarDecl "generated" "bool";
    G2Range "fidx" "feat" (G2Sel (G2Var "gen") "features") canon_GenerateFile_loop;
    G2Return [G2Var "generated"] ].

Definition canon_generator_go : list g2decl :=
  [ G2Type "featureHelpers" "struct{path protogen.GoImportPath; feature int}";
    G2Type "Extensions" "struct{Poolable map[protogen.GoIdent]bool}";
    G2Type "Generator" "struct{seen map[featureHelpers]bool; ext *Extensions; features []Feature; local map[string]bool}";
    G2Func [] "NewGenerator" [("allFiles", "[]*protogen.File"); ("featureNames", "[]string"); ("ext", "*Extensions")]
           ["*Generator"; "error"] canon_NewGenerator_body;
    G2Func [("gen", "*Generator")] "GenerateFile"
           [("plugin", "*protogen.Plugin"); ("gf", "*protogen.GeneratedFile"); ("file", "*protogen.File")] ["bool"]
           canon_GenerateFile_body ].
Definition canon_generator_go_imports : list gname :=
  [ "google.golang.org/protobuf/compiler/protogen"; "google.golang.org/protobuf/reflect/protoreflect" ].
Local Close Scope gname_scope.

(* ---- running the two functions on a request ---------------------------------------------------------------------------- *)
Definition g2_files_value (files : list pfile) : v2 := V2Slice (map V2File (seq 0 (length files))).
Definition g2_run_new (p : list g2decl) (files : list pfile) (ff : list name -> option (list name)) (feat_gen : name -> bool)
  (names : list name) :=
  g2_call files ff feat_gen p "NewGenerator"%gname [g2_files_value files; V2Slice (map V2Str names); V2Opaque "ext"%gname] [] [].
Definition g2_run_file (p : list g2decl) (files : list pfile) (ff : list name -> option (list name)) (feat_gen : name -> bool)
  (gen : v2) (maps : list g2cell) (trace : list g2event) (i : nat) :=
  g2_call files ff feat_gen p "GenerateFile"%gname [gen; V2Opaque "plugin"%gname; V2Opaque "gf"%gname; V2File i] maps trace.

(* NewGenerator, then GenerateFile on every file of [todo] in order (what generateAllFiles does with the files to generate):
   the booleans returned and the whole trace *)
Fixpoint g2_run_files (p : list g2decl) (files : list pfile) ff feat_gen (gen : v2) (maps : list g2cell) (trace : list g2event)
  (todo : list nat) : option (list bool * list g2event) :=
  match todo with
  | [] => Some ([], trace)
  | i :: rest =>
    match g2_run_file p files ff feat_gen gen maps trace i with
    | Some ([V2Bool b], maps1, trace1) =>
      match g2_run_files p files ff feat_gen gen maps1 trace1 rest with
      | Some (bs, tr) => Some (b :: bs, tr)
      | None => None
      end
    | _ => None
    end
  end.
Definition g2_run_all (p : list g2decl) (files : list pfile) ff feat_gen (names : list name) (todo : list nat)
  : option (option (list bool * list g2event)) :=
  match g2_run_new p files ff feat_gen names with
  | Some ([_; V2Err], _, _) => Some None                                        (* the error of findFeatures handed on *)
  | Some ([gen; V2Nil], maps, trace) =>
    match g2_run_files p files ff feat_gen gen maps trace todo with Some r => Some (Some r) | None => None end
  | _ => None
  end.

(* ---- what GenOrder.v says -------------------------------------------------------------------------------------------- *)
(* the helpers of feature number k were already made for this import path *)
Definition g2seen := list (name * nat).
Definition g2_seen_has (s : g2seen) (path : name) (k : nat) : bool := existsb (fun e => name_eqb path (fst e) && Nat.eqb k (snd e)) s.
Fixpoint g2_file_events (feat_gen : name -> bool) (i : nat) (path : name) (k : nat) (fs : list name) (s : g2seen) : list g2event * g2seen :=
  match fs with
  | [] => ([], s)
  | n :: rest =>
    if feat_gen n then
      if g2_seen_has s path k then let (ev, s') := g2_file_events feat_gen i path (S k) rest s in (EvGenerateFile n i :: ev, s')
      else let (ev, s') := g2_file_events feat_gen i path (S k) rest (s ++ [(path, k)]) in (EvGenerateFile n i :: EvHelpers n :: ev, s')
    else let (ev, s') := g2_file_events feat_gen i path (S k) rest s in (EvGenerateFile n i :: ev, s')
  end.
Fixpoint g2_files_spec (files : list pfile) (feat_gen : name -> bool) (fs : list name) (s : g2seen) (todo : list nat)
  : option (list bool * list g2event) :=
  match todo with
  | [] => Some ([], [])
  | i :: rest =>
    match nth_error files i with
    | None => None
    | Some fi =>
      if fi_proto3 fi then
        let (ev, s') := g2_file_events feat_gen i (fi_import fi) 0 fs s in
        match g2_files_spec files feat_gen fs s' rest with
        | Some (bs, tr) => Some (existsb feat_gen fs :: bs, ev ++ tr)
        | None => None
        end
      else match g2_files_spec files feat_gen fs s rest with
           | Some (bs, tr) => Some (false :: bs, tr)
           | None => None
           end
    end
  end.
(* GenOrder.v: the features are find_features' (sorted), a file is emitted iff it is proto3 and GenOrder.generated; every feature
   runs on every proto3 file, in that order *)
Definition g2_all_spec (files : list pfile) ff (feat_gen : name -> bool) (names : list name) (todo : list nat)
  : option (option (list bool * list g2event)) :=
  match ff names with
  | None => Some None
  | Some fs => match g2_files_spec files feat_gen fs [] todo with Some r => Some (Some r) | None => None end
  end.

Definition g2_default_feat_gen (n : name) : bool := match lookup n with Some g => g | None => false end.
Definition g2_generate_file_events (t : list g2event) : list (name * nat) :=
  flat_map (fun e => match e with EvGenerateFile n i => [(n, i)] | EvHelpers _ => [] end) t.

(* the statement (proved in Proofs/GenProg2Proofs.v or evaluated as a law by driver/genprog2_eval.ml) *)
Definition generator_go_prog_stmt : Prop :=
  forall files ff feat_gen names todo,
    Forall (fun i => i < length files) todo ->
    g2_run_all canon_generator_go files ff feat_gen names todo = g2_all_spec files ff feat_gen names todo.

(* with GenOrder.v's findFeatures and registry: the booleans are "proto3 and GenOrder.generated (find_features names)", and the
   GenerateFile calls are exactly (sorted feature, proto3 file) in file-major order *)
Definition generator_go_genorder_stmt : Prop :=
  forall files names todo,
    Forall (fun i => i < length files) todo ->
    match g2_run_all canon_generator_go files find_features g2_default_feat_gen names todo with
    | Some None => find_features names = None
    | Some (Some (bs, tr)) =>
      exists fs, find_features names = Some fs /\
        bs = map (fun i => match nth_error files i with Some fi => fi_proto3 fi && generated fs | None => false end) todo /\
        g2_generate_file_events tr =
          flat_map (fun i => match nth_error files i with
                             | Some fi => if fi_proto3 fi then map (fun n => (n, i)) fs else []
                             | None => [] end) todo
    | None => False
    end.
