(* Model/UnmarshalProg.v — "UnmarshalProg": a small imperative language that is the literal image of the statements the
   unmarshal template (features/fastreflection/proto_unmarshal.go: genUnmarshalMethod, decodeVarint, unmarshalField,
   fieldItem, decodeFixed64/32, decodeMessage, unmarshalMapField) prints into the
   `unmarshal := func(input protoiface.UnmarshalInput) (protoiface.UnmarshalOutput, error) {…}` closure of every generated
   message type; its interpreter over the model's message values; and [canon_unmarshal], the program the template emits
   for a message type, computed from the schema alone.

   Use (DESIGN 12.7: translator tie, as Model/SizeProg.v and Model/MarshalProg.v). On every run the Go runner (engine
   "unmarshalprog") parses every generated *.pulsar.go with go/parser and translates every unmarshal closure, statement by
   statement and purely syntactically, into this syntax (or fails: "untranslatable"). The driver compares the translated
   program with [canon_unmarshal sch mid] (syntactic equality, [uprog_eqb]) and runs the translated program with
   [run_unmarshal] on sample inputs against proto.UnmarshalOptions.Unmarshal of the running code. The statement
   [unmarshal_prog_correct_stmt] (end of file; to be proved in Proofs/) ties [canon_unmarshal] to Decode.unmarshal_at, the
   hand-written faithful decoder that C03, C06 and C14 are theorems about.

   The machine.
   * dAtA is the input ([data], fixed), l = len(dAtA) ([dlen]), iNdEx a Go int ([us_idx], a Z; every `+`, `-`, `++` on
     Go ints wraps to 64 bits: [wrap64]). [us_rest] caches dAtA[iNdEx:] (invariant: us_rest = zskipn us_idx data); it only
     makes the interpreter linear, every read is defined through the index.
   * Locals are an environment, scoped as Go scopes them: a declaration (`var x T`, `x := e`) pushes a binding, an
     assignment updates the innermost binding of the name, leaving a block (if / else / for body / case clause) drops the
     bindings made in it. Integers are held as mathematical integers; every operation that depends on the Go type of its
     operand carries that type ([gty]): conversions T(e), the varint block, the little-endian reads.
   * The struct x is [us_slots] (one slot per declared field, Schema.v conventions: nil list/map/bytes/message = VNil, one
     slot per oneof member: VSome payload / VNil) and [us_unk] (x.unknownFields). Assigning a wrapper to the oneof
     interface field sets the member's slot and clears the other members of that oneof ([Decode.clear_oneof]).
   * Outcomes are Decode.v's: `return …, nil` = Ok (the struct as it is then), `return …, <error>` = Err, a Go run-time panic
     (index or slice bounds out of range, assignment to an entry of a nil map, make with a negative length) = Panic, a
     loop that exhausts its fuel ([lfuel], S (length data) per loop: every iteration of every loop of the canonical
     program consumes a byte) = OutOfFuel. A program that Go would not compile, or whose meaning this file does not define
     (unbound variable, operation on a value of the wrong shape, falling off the end without return) is "stuck":
     [run_unmarshal] answers None.
   * `options.Unmarshal(sub, child)` is the parameter [child] (Decode.child_t): the decoder of the child's message type on
     (target value, payload). runtime.UnmarshalInputToOptions hands input.Depth-1 down as the RecursionLimit (a
     non-positive budget as -1) and proto.UnmarshalOptions passes its RecursionLimit as the child's input.Depth, so for
     the code as generated [child] is "the same decoder at depth-1", in the model [unmarshal_at … (depth-1)];
     `input.Depth <= 0` is [CDepthLe0] on the parameter [depth]. `runtime.Skip` is Runtime.Skip.
   * The varint block, as printed by decodeVarint, is ONE statement [UsVarint target T]; its meaning is [varint_loop],
     defined once, generically in the bit width and signedness of T ([gty_int]): `target |= T(b&0x7F) << shift` is computed
     in T — bits shifted beyond the width are lost, for shift >= width the contribution is 0 — and or-ed into the current
     value of the target, whatever that is (the template zeroes it first: `var v T`, `x.F = 0`, `mapkey = 0`).
   * What is matched literally by the translator and has no statement of its own: `x := input.Message.Interface().( *T)`
     and `if x == nil { return …, nil }` ([UsNilCheck]: the model has no typed-nil target; a VNil target stands for a freshly
     allocated message), and `options := runtime.UnmarshalInputToOptions(input); _ = options; dAtA := input.Buf;
     l := len(dAtA); iNdEx := 0` ([UsBegin]).
   Executable definitions only. *)
From CP Require Export Schema Runtime Codec Decode WF.
Local Open Scope Z_scope.

(* ---- Go types that occur in the printed code -------------------------------------------------------------------- *)
Inductive gty := GU64 | GU32 | GI64 | GI32 | GInt | GEnum | GBool | GF64 | GF32 | GString | GBytes.
(* uint64 | uint32 | int64 | int32 | int | the field's enum type (underlying int32) | bool | float64 | float32 | string | []byte *)

(* (bit width, signed) of the integer types *)
Definition gty_int (t : gty) : option (N * bool) :=
  match t with
  | GU64 => Some (64%N, false)
  | GU32 => Some (32%N, false)
  | GI64 | GInt => Some (64%N, true)
  | GI32 | GEnum => Some (32%N, true)
  | _ => None
  end.

(* 2^w; the two widths that occur are looked up *)
Definition pow2 (w : N) : N :=
  if (w =? 64)%N then two64 else if (w =? 63)%N then two63 else if (w =? 32)%N then two32 else if (w =? 31)%N then two31
  else (2 ^ w)%N.
(* the w-bit two's-complement pattern of a mathematical integer, and the value of type (w, signed) with a given pattern *)
Definition to_pat (w : N) (z : Z) : N := Z.to_N (z mod Z.of_N (pow2 w)).
Definition of_pat (w : N) (sg : bool) (p : N) : Z :=
  let q := (p mod pow2 w)%N in
  if (sg && (pow2 (w - 1) <=? q)%N)%bool then Z.of_N q - Z.of_N (pow2 w) else Z.of_N q.
(* the conversion T(z) between integer types *)
Definition gconv (w : N) (sg : bool) (z : Z) : Z := of_pat w sg (to_pat w z).
(* cur |= T(b&0x7F) << shift, in T *)
Definition varint_or (w : N) (sg : bool) (cur : Z) (b : N) (shift : N) : Z :=
  of_pat w sg (N.lor (to_pat w cur) (N.shiftl (N.land b 127) shift mod pow2 w)%N).

(* ---- syntax ------------------------------------------------------------------------------------------------------ *)
(* the local variables of the template, by their printed names; [key]: mapkey… / mapvalue… *)
Inductive uvar :=
| UvWire | UvFieldNum | UvWireType | UvPreIndex | UvV | UvV2 | UvB
| UvMsglen | UvStringLen | UvIntStringLen | UvPostIndex | UvByteLen | UvPackedLen | UvElementCount | UvCount
| UvEntryPreIndex | UvMapmsglen | UvPostmsgIndex | UvMapbyteLen | UvIntMapbyteLen | UvPostbytesIndex | UvSkippy
| UvMap (key : bool)                 (* mapkey | mapvalue *)
| UvMapTemp (key : bool)             (* mapkeytemp | mapvaluetemp *)
| UvStringLenMap (key : bool)        (* stringLenmapkey | stringLenmapvalue *)
| UvIntStringLenMap (key : bool)     (* intStringLenmapkey | intStringLenmapvalue *)
| UvPostStringIndexMap (key : bool). (* postStringIndexmapkey | postStringIndexmapvalue *)

Inductive cmpop := OLt | OLe | OGt | OGe | OEq | ONe.

Inductive uexpr :=
| ENum (z : Z)                       (* integer literal *)
| EVar (x : uvar)                    (* a local *)
| EIdx                               (* iNdEx *)
| EL                                 (* l *)
| EAdd (a b : uexpr)                 (* a + b   (Go int) *)
| ESub (a b : uexpr)                 (* a - b   (Go int) *)
| EDiv (a : uexpr) (n : Z)           (* a / n   (n a literal) *)
| EShr (a : uexpr) (n : N)           (* a >> n *)
| EAnd (a : uexpr) (n : Z)           (* a & n   (n a literal) *)
| EConv (t : gty) (a : uexpr)        (* T(a) *)
| ENe0 (a : uexpr)                   (* a != 0, as an expression of type bool *)
| ELenF (i : nat)                    (* len(x.F) *)
| EUnzig32 (x : uvar)                (* int32((uint32(x) >> 1) ^ uint32(((x&1)<<31)>>31)) *)
| EUnzig64 (x : uvar)                (* (x >> 1) ^ uint64((int64(x&1)<<63)>>63) *)
| EF64bits (a : uexpr)               (* math.Float64frombits(a) *)
| EF32bits (a : uexpr)               (* math.Float32frombits(a) *)
| ESlice (lo hi : uexpr)             (* dAtA[lo:hi] *)
| ELE32 (lo : uexpr)                 (* binary.LittleEndian.Uint32(dAtA[lo:]) *)
| ELE64 (lo : uexpr)                 (* binary.LittleEndian.Uint64(dAtA[lo:]) *)
| ENewMsg (m : nat)                  (* &T{}, T the Go type of message m of the schema *)
| EMakeBytes (n : uexpr)             (* make([]byte, n) *)
| EMakeList (n : uexpr)              (* make([]T, 0, n) *)
| EMakeMap                           (* make(map[K]V) *)
| EEmptyBytes.                       (* []byte{} *)

Inductive ucond :=
| CCmp (o : cmpop) (a b : uexpr)     (* a < b, a <= b, a > b, a >= b, a == b, a != b   on integers *)
| COr (c d : ucond)                  (* c || d *)
| CAnd (c d : ucond)                 (* c && d *)
| CFieldNil (i : nat)                (* x.F == nil *)
| CNotDiscard                        (* !options.DiscardUnknown *)
| CDepthLe0.                         (* input.Depth <= 0 *)

Inductive utarget := TgVar (x : uvar) | TgField (i : nat).                     (* a local | x.F *)
Inductive mtarget := MtField (i : nat) | MtLast (i : nat) | MtVar (x : uvar).  (* x.F | x.F[len(x.F)-1] | a local *)

(* the second result of `return protoiface.UnmarshalOutput{NoUnkeyedLiterals: input.NoUnkeyedLiterals}, <e>` *)
Inductive uerr :=
| ErNil                              (* nil *)
| ErRecursionDepth                   (* runtime.ErrRecursionDepth *)
| ErEOF                              (* io.ErrUnexpectedEOF *)
| ErInvalidLength                    (* runtime.ErrInvalidLength *)
| ErEndGroup                         (* fmt.Errorf("proto: <Msg>: wiretype end group for non-group") *)
| ErIllegalTag                       (* fmt.Errorf("proto: <Msg>: illegal tag %d (wire type %d)", fieldNum, wire) *)
| ErWrongWire (i : nat).             (* fmt.Errorf("proto: wrong wireType = %d for field <GoName of field i>", wireType) *)

Inductive ustmt :=
| UsNilCheck                                    (* x := input.Message.Interface().( *T); if x == nil { return …, nil } *)
| UsBegin                                       (* options := …(input); _ = options; dAtA := input.Buf; l := len(dAtA); iNdEx := 0 *)
| UsVar (x : uvar) (t : gty)                    (* var x T *)
| UsDecl (x : uvar) (e : uexpr)                 (* x := e *)
| UsSet (x : uvar) (e : uexpr)                  (* x = e *)
| UsInc (x : uvar)                              (* x++ *)
| UsIdxSet (e : uexpr)                          (* iNdEx = e *)
| UsIdxAdd (e : uexpr)                          (* iNdEx += e *)
| UsVarint (tg : utarget) (t : gty)             (* the decodeVarint block: for shift := uint(0); ; shift += 7 { … tg |= T(b&0x7F) << shift … } *)
| UsRet (e : uerr)                              (* return protoiface.UnmarshalOutput{…}, e *)
| UsIf (c : ucond) (body : list ustmt)          (* if c { body } *)
| UsIfElse (c : ucond) (a b : list ustmt)       (* if c { a } else { b }      (`else if d {…}` is b = [UsIf… d]) *)
| UsFor (c : ucond) (body : list ustmt)         (* for c { body } *)
| UsSwitch (x : uvar) (cases : list (Z * list ustmt)) (dflt : list ustmt)   (* switch x { case N: … default: … } *)
| UsRangeCount (x : uvar) (lo hi : uexpr)       (* for _, integer := range dAtA[lo:hi] { if integer < 128 { x++ } } *)
| UsFieldSet (i : nat) (e : uexpr)              (* x.F = e *)
| UsFieldAppend (i : nat) (e : uexpr)           (* x.F = append(x.F, e) *)
| UsOneofSet (j : nat) (e : uexpr)              (* x.<Oneof> = &<Wrapper of member j>{e} *)
| UsOneofReuse (j : nat) (x : uvar)             (* if o, ok := x.<Oneof>.( *<Wrapper j>); ok && o.<F> != nil { x = o.<F> } *)
| UsUnmarshal (lo hi : uexpr) (tg : mtarget)    (* if err := options.Unmarshal(dAtA[lo:hi], tg); err != nil { return …, err } *)
| UsBytesSet (i : nat) (lo hi : uexpr)          (* x.F = append(x.F[:0], dAtA[lo:hi]...) *)
| UsCopy (dst : mtarget) (lo hi : uexpr)        (* copy(dst, dAtA[lo:hi]) *)
| UsMapStore (i : nat) (k v : uvar)             (* x.F[k] = v *)
| UsSkip (lo : uexpr)                           (* skippy, err := runtime.Skip(dAtA[lo:]); if err != nil { return …, err } *)
| UsUnkAppend (lo hi : uexpr).                  (* x.unknownFields = append(x.unknownFields, dAtA[lo:hi]...) *)

(* ---- decidable equality --------------------------------------------------------------------------------------------- *)
Definition gty_code (t : gty) : nat :=
  match t with
  | GU64 => 0 | GU32 => 1 | GI64 => 2 | GI32 => 3 | GInt => 4 | GEnum => 5 | GBool => 6 | GF64 => 7 | GF32 => 8
  | GString => 9 | GBytes => 10
  end%nat.
Definition gty_eqb (a b : gty) : bool := Nat.eqb (gty_code a) (gty_code b).
Definition b2nat (b : bool) : nat := if b then 1%nat else 0%nat.
Definition uvar_code (x : uvar) : nat :=
  match x with
  | UvWire => 0 | UvFieldNum => 1 | UvWireType => 2 | UvPreIndex => 3 | UvV => 4 | UvV2 => 5 | UvB => 6
  | UvMsglen => 7 | UvStringLen => 8 | UvIntStringLen => 9 | UvPostIndex => 10 | UvByteLen => 11 | UvPackedLen => 12
  | UvElementCount => 13 | UvCount => 14 | UvEntryPreIndex => 15 | UvMapmsglen => 16 | UvPostmsgIndex => 17
  | UvMapbyteLen => 18 | UvIntMapbyteLen => 19 | UvPostbytesIndex => 20 | UvSkippy => 21
  | UvMap k => 22 + b2nat k | UvMapTemp k => 24 + b2nat k | UvStringLenMap k => 26 + b2nat k
  | UvIntStringLenMap k => 28 + b2nat k | UvPostStringIndexMap k => 30 + b2nat k
  end%nat.
Definition uvar_eqb (a b : uvar) : bool := Nat.eqb (uvar_code a) (uvar_code b).
Definition cmpop_code (o : cmpop) : nat :=
  match o with OLt => 0 | OLe => 1 | OGt => 2 | OGe => 3 | OEq => 4 | ONe => 5 end%nat.
Definition cmpop_eqb (a b : cmpop) : bool := Nat.eqb (cmpop_code a) (cmpop_code b).

Fixpoint uexpr_eqb (a b : uexpr) : bool :=
  match a, b with
  | ENum x, ENum y => x =? y
  | EVar x, EVar y => uvar_eqb x y
  | EIdx, EIdx | EL, EL | EMakeMap, EMakeMap | EEmptyBytes, EEmptyBytes => true
  | EAdd a1 a2, EAdd b1 b2 | ESub a1 a2, ESub b1 b2 | ESlice a1 a2, ESlice b1 b2 => uexpr_eqb a1 b1 && uexpr_eqb a2 b2
  | EDiv a1 n, EDiv b1 m | EAnd a1 n, EAnd b1 m => uexpr_eqb a1 b1 && (n =? m)
  | EShr a1 n, EShr b1 m => uexpr_eqb a1 b1 && (n =? m)%N
  | EConv t a1, EConv u b1 => gty_eqb t u && uexpr_eqb a1 b1
  | ENe0 a1, ENe0 b1 | EF64bits a1, EF64bits b1 | EF32bits a1, EF32bits b1 | ELE32 a1, ELE32 b1 | ELE64 a1, ELE64 b1
  | EMakeBytes a1, EMakeBytes b1 | EMakeList a1, EMakeList b1 => uexpr_eqb a1 b1
  | ELenF i, ELenF j | ENewMsg i, ENewMsg j => Nat.eqb i j
  | EUnzig32 x, EUnzig32 y | EUnzig64 x, EUnzig64 y => uvar_eqb x y
  | _, _ => false
  end.
Fixpoint ucond_eqb (a b : ucond) : bool :=
  match a, b with
  | CCmp o a1 a2, CCmp p b1 b2 => cmpop_eqb o p && uexpr_eqb a1 b1 && uexpr_eqb a2 b2
  | COr a1 a2, COr b1 b2 | CAnd a1 a2, CAnd b1 b2 => ucond_eqb a1 b1 && ucond_eqb a2 b2
  | CFieldNil i, CFieldNil j => Nat.eqb i j
  | CNotDiscard, CNotDiscard | CDepthLe0, CDepthLe0 => true
  | _, _ => false
  end.
Definition utarget_eqb (a b : utarget) : bool :=
  match a, b with
  | TgVar x, TgVar y => uvar_eqb x y
  | TgField i, TgField j => Nat.eqb i j
  | _, _ => false
  end.
Definition mtarget_eqb (a b : mtarget) : bool :=
  match a, b with
  | MtField i, MtField j | MtLast i, MtLast j => Nat.eqb i j
  | MtVar x, MtVar y => uvar_eqb x y
  | _, _ => false
  end.
Definition uerr_eqb (a b : uerr) : bool :=
  match a, b with
  | ErNil, ErNil | ErRecursionDepth, ErRecursionDepth | ErEOF, ErEOF | ErInvalidLength, ErInvalidLength
  | ErEndGroup, ErEndGroup | ErIllegalTag, ErIllegalTag => true
  | ErWrongWire i, ErWrongWire j => Nat.eqb i j
  | _, _ => false
  end.
(* (the recursion is on the statement; the statement lists inside it are walked by local fixpoints) *)
Fixpoint ustmt_eqb (s t : ustmt) {struct s} : bool :=
  let peq := fix peq (a b : list ustmt) {struct a} : bool :=
      match a, b with
      | [], [] => true
      | x :: a', y :: b' => ustmt_eqb x y && peq a' b'
      | _, _ => false
      end in
  match s, t with
  | UsNilCheck, UsNilCheck | UsBegin, UsBegin => true
  | UsVar x t1, UsVar y t2 => uvar_eqb x y && gty_eqb t1 t2
  | UsDecl x e, UsDecl y f | UsSet x e, UsSet y f => uvar_eqb x y && uexpr_eqb e f
  | UsInc x, UsInc y => uvar_eqb x y
  | UsIdxSet e, UsIdxSet f | UsIdxAdd e, UsIdxAdd f | UsSkip e, UsSkip f => uexpr_eqb e f
  | UsVarint g t1, UsVarint h t2 => utarget_eqb g h && gty_eqb t1 t2
  | UsRet e, UsRet f => uerr_eqb e f
  | UsIf c x, UsIf d y | UsFor c x, UsFor d y => ucond_eqb c d && peq x y
  | UsIfElse c x1 x2, UsIfElse d y1 y2 => ucond_eqb c d && peq x1 y1 && peq x2 y2
  | UsSwitch x cs dx, UsSwitch y cs' dy =>
    uvar_eqb x y &&
    (fix ceq (cs : list (Z * list ustmt)) (cs' : list (Z * list ustmt)) {struct cs} : bool :=
       match cs, cs' with
       | [], [] => true
       | (k, p) :: r, (k', p') :: r' => (k =? k') && peq p p' && ceq r r'
       | _, _ => false
       end) cs cs' && peq dx dy
  | UsRangeCount x a1 a2, UsRangeCount y b1 b2 => uvar_eqb x y && uexpr_eqb a1 b1 && uexpr_eqb a2 b2
  | UsFieldSet i e, UsFieldSet j f | UsFieldAppend i e, UsFieldAppend j f | UsOneofSet i e, UsOneofSet j f =>
    Nat.eqb i j && uexpr_eqb e f
  | UsOneofReuse i x, UsOneofReuse j y => Nat.eqb i j && uvar_eqb x y
  | UsUnmarshal a1 a2 g, UsUnmarshal b1 b2 h | UsCopy g a1 a2, UsCopy h b1 b2 =>
    uexpr_eqb a1 b1 && uexpr_eqb a2 b2 && mtarget_eqb g h
  | UsBytesSet i a1 a2, UsBytesSet j b1 b2 => Nat.eqb i j && uexpr_eqb a1 b1 && uexpr_eqb a2 b2
  | UsMapStore i k v, UsMapStore j k' v' => Nat.eqb i j && uvar_eqb k k' && uvar_eqb v v'
  | UsUnkAppend a1 a2, UsUnkAppend b1 b2 => uexpr_eqb a1 b1 && uexpr_eqb a2 b2
  | _, _ => false
  end.
Fixpoint uprog_eqb (a b : list ustmt) {struct a} : bool :=
  match a, b with
  | [], [] => true
  | x :: a', y :: b' => ustmt_eqb x y && uprog_eqb a' b'
  | _, _ => false
  end.

(* ---- interpreter ------------------------------------------------------------------------------------------------------ *)
(* what a local holds: a value of the model (integers of every Go type as VInt, bool, float bits, string / []byte as
   VBytes, nil []byte as VNil), or a pointer to a message of type m *)
Inductive lval := LV (v : val) | LM (m : nat) (v : val).
Definition lval_val (x : lval) : val := match x with LV v | LM _ v => v end.
Definition env := list (uvar * lval).

Fixpoint env_get (x : uvar) (en : env) : option lval :=
  match en with
  | [] => None
  | (y, v) :: t => if uvar_eqb x y then Some v else env_get x t
  end.
(* assignment: the innermost binding of the name *)
Fixpoint env_set (x : uvar) (v : lval) (en : env) : option env :=
  match en with
  | [] => None
  | (y, w) :: t =>
    if uvar_eqb x y then Some ((y, v) :: t)
    else match env_set x v t with Some t' => Some ((y, w) :: t') | None => None end
  end.
(* leaving a block: the bindings made in it (pushed in front of [outer]) are dropped, updates of outer bindings stay *)
Definition env_restore (outer inner : env) : env := skipn (length inner - length outer) inner.

Record ustate := { us_idx : Z; us_rest : list byte; us_slots : list val; us_unk : list byte }.

Inductive eres (A : Type) := EOk (a : A) | EPanic | EStuck.
Arguments EOk {A} a.
Arguments EPanic {A}.
Arguments EStuck {A}.
Definition ebind {A B} (r : eres A) (f : A -> eres B) : eres B :=
  match r with EOk a => f a | EPanic => EPanic | EStuck => EStuck end.

(* result of a statement: go on (environment for the rest of the block, state) | the closure returned or the run was
   aborted (outcome) | stuck *)
Inductive xres := XNext (en : env) (st : ustate) | XDone (o : outcome val) | XStuck.
Definition xlift {A} (r : eres A) (k : A -> xres) : xres :=
  match r with EOk a => k a | EPanic => XDone Panic | EStuck => XStuck end.

Definition zero_of (t : gty) : val :=
  match t with
  | GBool => VBool false
  | GF64 | GF32 => VBits 0
  | GString => VBytes []
  | GBytes => VNil
  | _ => VInt 0
  end.
Definition cmp_z (o : cmpop) (a b : Z) : bool :=
  match o with
  | OLt => a <? b | OLe => a <=? b | OGt => b <? a | OGe => b <=? a | OEq => a =? b | ONe => negb (a =? b)
  end.
Fixpoint count_lt128 (bs : list byte) : Z :=
  match bs with
  | [] => 0
  | b :: t => (if (b2n b <? 128)%N then 1 else 0) + count_lt128 t
  end.
(* copy(dst, src): min(len dst, len src) bytes *)
Definition go_copy (dst src : list byte) : list byte :=
  let n := Nat.min (length dst) (length src) in firstn n src ++ skipn n dst.
Fixpoint set_last (l : list val) (x : val) : list val :=
  match l with
  | [] => []
  | [_] => [x]
  | h :: t => h :: set_last t x
  end.
Definition is_nil_val (v : val) : bool := match v with VNil => true | _ => false end.

(* the varint block. [rest] = dAtA[idx:]. Ten iterations read ten bytes; the eleventh finds shift = 70 *)
Inductive vres := VrOk (cur idx : Z) (rest : list byte) | VrErr | VrPanic | VrFuel.
Fixpoint varint_loop (fuel : nat) (w : N) (sg : bool) (dlen : Z) (shift : N) (cur idx : Z) (rest : list byte) : vres :=
  match fuel with
  | O => VrFuel
  | S f =>
    if (64 <=? shift)%N then VrErr                          (* if shift >= 64 { return …, runtime.ErrIntOverflow } *)
    else if dlen <=? idx then VrErr                         (* if iNdEx >= l { return …, io.ErrUnexpectedEOF } *)
    else if idx <? 0 then VrPanic                           (* b := dAtA[iNdEx] with a negative index *)
    else match rest with
         | [] => VrPanic
         | b :: rest' =>
           let cur' := varint_or w sg cur (b2n b) shift in  (* iNdEx++; target |= T(b&0x7F) << shift *)
           if (b2n b <? 128)%N then VrOk cur' (wrap64 (idx + 1)) rest'                     (* if b < 0x80 { break } *)
           else varint_loop f w sg dlen (shift + 7)%N cur' (wrap64 (idx + 1)) rest'
         end
  end.

Section URun.
  Variable sch : schema.
  Variable discard : bool.          (* options.DiscardUnknown *)
  Variable child : child_t.         (* options.Unmarshal on a child message *)
  Variable depth : Z.               (* input.Depth *)
  Variable fs : list field.         (* the message type's declared fields *)
  Variable data : list byte.        (* dAtA *)
  Variable dlen : Z.                (* l = len(dAtA) *)
  Variable lfuel : nat.             (* fuel of every loop *)

  (* dAtA[lo:] for 0 <= lo *)
  Definition suffix_at (st : ustate) (lo : Z) : list byte :=
    if lo =? us_idx st then us_rest st else zskipn lo data.
  Definition set_idx (st : ustate) (n : Z) : ustate :=
    {| us_idx := n;
       us_rest := if ((0 <=? us_idx st) && (us_idx st <=? n))%bool then zskipn (n - us_idx st) (us_rest st) else zskipn n data;
       us_slots := us_slots st; us_unk := us_unk st |}.
  Definition set_slots (st : ustate) (ss : list val) : ustate :=
    {| us_idx := us_idx st; us_rest := us_rest st; us_slots := ss; us_unk := us_unk st |}.
  Definition set_unk (st : ustate) (u : list byte) : ustate :=
    {| us_idx := us_idx st; us_rest := us_rest st; us_slots := us_slots st; us_unk := u |}.

  (* dAtA[lo:hi]: slice bounds out of range unless 0 <= lo <= hi <= len (the capacity of the input is its length) *)
  Definition slice (st : ustate) (lo hi : Z) : eres (list byte) :=
    if ((0 <=? lo) && (lo <=? hi) && (hi <=? dlen))%bool then EOk (zfirstn (hi - lo) (suffix_at st lo)) else EPanic.
  (* dAtA[lo:] *)
  Definition slice_from (st : ustate) (lo : Z) : eres (list byte) :=
    if ((0 <=? lo) && (lo <=? dlen))%bool then EOk (suffix_at st lo) else EPanic.

  (* a field outside oneofs (x.F is a field of the message struct) *)
  Definition plain_field (i : nat) : option field :=
    match nth_error fs i with
    | Some f => match f_shape f with Member _ => None | _ => Some f end
    | None => None
    end.
  Definition slot (st : ustate) (i : nat) : option val := nth_error (us_slots st) i.

  Definition as_int (r : eres lval) : eres Z :=
    match r with EOk (LV (VInt z)) => EOk z | EOk _ => EStuck | EPanic => EPanic | EStuck => EStuck end.
  Definition var_int (x : uvar) (en : env) : eres Z :=
    match env_get x en with Some (LV (VInt z)) => EOk z | _ => EStuck end.

  Fixpoint eval (e : uexpr) (en : env) (st : ustate) {struct e} : eres lval :=
    let int := fun a => as_int (eval a en st) in
    let ret := fun z : Z => EOk (LV (VInt z)) in
    match e with
    | ENum z => ret z
    | EVar x => match env_get x en with Some v => EOk v | None => EStuck end
    | EIdx => ret (us_idx st)
    | EL => ret dlen
    | EAdd a b => ebind (int a) (fun x => ebind (int b) (fun y => ret (wrap64 (x + y))))
    | ESub a b => ebind (int a) (fun x => ebind (int b) (fun y => ret (wrap64 (x - y))))
    | EDiv a n => if n <=? 0 then EStuck else ebind (int a) (fun x => ret (Z.quot x n))
    | EShr a n => ebind (int a) (fun x => ret (Z.shiftr x (Z.of_N n)))
    | EAnd a n => if n <? 0 then EStuck else ebind (int a) (fun x => ret (Z.land x n))
    | EConv t a =>
      match gty_int t with
      | Some (w, sg) => ebind (int a) (fun x => ret (gconv w sg x))
      | None =>
        ebind (eval a en st) (fun v =>
          match t, v with
          | GBool, LV (VBool _) | GF64, LV (VBits _) | GF32, LV (VBits _) | GString, LV (VBytes _) => EOk v
          | _, _ => EStuck
          end)
      end
    | ENe0 a => ebind (int a) (fun x => EOk (LV (VBool (negb (x =? 0)))))
    | ELenF i =>
      match plain_field i, slot st i with
      | Some _, Some VNil => ret 0
      | Some _, Some (VList l) => ret (Z.of_nat (length l))
      | Some _, Some (VMap l) => ret (Z.of_nat (length l))
      | Some _, Some (VBytes l) => ret (Z.of_nat (length l))
      | _, _ => EStuck
      end
    | EUnzig32 x => ebind (var_int x en) (fun z => ret (s32 (unzigzag32 (z2u32 z))))
    | EUnzig64 x => ebind (var_int x en) (fun z => ret (Z.of_N (unzigzag64 (z2u64 z))))
    | EF64bits a => ebind (int a) (fun x => EOk (LV (VBits (to_pat 64 x))))
    | EF32bits a => ebind (int a) (fun x => EOk (LV (VBits (to_pat 32 x))))
    | ESlice lo hi => ebind (int lo) (fun a => ebind (int hi) (fun b => ebind (slice st a b) (fun bs => EOk (LV (VBytes bs)))))
    | ELE32 lo =>
      ebind (int lo) (fun a => ebind (slice_from st a) (fun bs =>
        if (length bs <? 4)%nat then EPanic else ret (Z.of_N (dec_le (firstn 4 bs)))))
    | ELE64 lo =>
      ebind (int lo) (fun a => ebind (slice_from st a) (fun bs =>
        if (length bs <? 8)%nat then EPanic else ret (Z.of_N (dec_le (firstn 8 bs)))))
    | ENewMsg m => match get_msg sch m with Some md => EOk (LM m (empty_msg md)) | None => EStuck end
    | EMakeBytes n => ebind (int n) (fun x => if x <? 0 then EPanic else EOk (LV (VBytes (repeat x00 (Z.to_nat x)))))
    | EMakeList n => ebind (int n) (fun x => if x <? 0 then EPanic else EOk (LV (VList [])))
    | EMakeMap => EOk (LV (VMap []))
    | EEmptyBytes => EOk (LV (VBytes []))
    end.
  Definition eval_int (e : uexpr) (en : env) (st : ustate) : eres Z := as_int (eval e en st).

  Fixpoint cond (c : ucond) (en : env) (st : ustate) {struct c} : eres bool :=
    match c with
    | CCmp o a b => ebind (eval_int a en st) (fun x => ebind (eval_int b en st) (fun y => EOk (cmp_z o x y)))
    | COr c d => ebind (cond c en st) (fun b => if b then EOk true else cond d en st)
    | CAnd c d => ebind (cond c en st) (fun b => if b then cond d en st else EOk false)
    | CFieldNil i =>
      match plain_field i, slot st i with
      | Some _, Some v => EOk (is_nil_val v)
      | _, _ => EStuck
      end
    | CNotDiscard => EOk (negb discard)
    | CDepthLe0 => EOk (depth <=? 0)
    end.

  Definition of_outcome {A} (o : outcome A) (k : A -> xres) : xres :=
    match o with Ok a => k a | Err => XDone Err | Panic => XDone Panic | OutOfFuel => XDone OutOfFuel end.

  (* the statements without blocks *)
  Definition exec_atom (s : ustmt) (en : env) (st : ustate) : xres :=
    match s with
    | UsNilCheck => XNext en st
    | UsBegin => XNext en (set_idx st 0)
    | UsVar x t => XNext ((x, LV (zero_of t)) :: en) st
    | UsDecl x e => xlift (eval e en st) (fun v => XNext ((x, v) :: en) st)
    | UsSet x e =>
      xlift (eval e en st) (fun v => match env_set x v en with Some en' => XNext en' st | None => XStuck end)
    | UsInc x =>
      xlift (var_int x en) (fun z =>
        match env_set x (LV (VInt (wrap64 (z + 1)))) en with Some en' => XNext en' st | None => XStuck end)
    | UsIdxSet e => xlift (eval_int e en st) (fun z => XNext en (set_idx st z))
    | UsIdxAdd e => xlift (eval_int e en st) (fun z => XNext en (set_idx st (wrap64 (us_idx st + z))))
    | UsVarint tg t =>
      match gty_int t with
      | None => XStuck
      | Some (w, sg) =>
        let go := fun (cur : Z) (put : Z -> ustate -> xres) =>
          match varint_loop 11 w sg dlen 0%N cur (us_idx st) (us_rest st) with
          | VrOk cur' idx' rest' =>
            put cur' {| us_idx := idx'; us_rest := rest'; us_slots := us_slots st; us_unk := us_unk st |}
          | VrErr => XDone Err
          | VrPanic => XDone Panic
          | VrFuel => XDone OutOfFuel
          end in
        match tg with
        | TgVar x =>
          xlift (var_int x en) (fun cur =>
            go cur (fun cur' st' => match env_set x (LV (VInt cur')) en with Some en' => XNext en' st' | None => XStuck end))
        | TgField i =>
          match plain_field i, slot st i with
          | Some _, Some (VInt cur) => go cur (fun cur' st' => XNext en (set_slots st' (set_nth (us_slots st') i (VInt cur'))))
          | _, _ => XStuck
          end
        end
      end
    | UsRet e =>
      match e with
      | ErNil => XDone (Ok (VMsg (us_slots st) (us_unk st)))
      | _ => XDone Err
      end
    | UsRangeCount x lo hi =>
      xlift (eval_int lo en st) (fun a => xlift (eval_int hi en st) (fun b => xlift (slice st a b) (fun bs =>
        xlift (var_int x en) (fun c =>
          match env_set x (LV (VInt (wrap64 (c + count_lt128 bs)))) en with Some en' => XNext en' st | None => XStuck end))))
    | UsFieldSet i e =>
      match plain_field i, slot st i with
      | Some _, Some _ => xlift (eval e en st) (fun v => XNext en (set_slots st (set_nth (us_slots st) i (lval_val v))))
      | _, _ => XStuck
      end
    | UsFieldAppend i e =>
      match plain_field i, slot st i with
      | Some _, Some s =>
        match s with
        | VNil | VList _ => xlift (eval e en st) (fun v => XNext en (set_slots st (set_nth (us_slots st) i (list_append s (lval_val v)))))
        | _ => XStuck
        end
      | _, _ => XStuck
      end
    | UsOneofSet j e =>
      match nth_error fs j, slot st j with
      | Some f, Some _ =>
        match f_shape f with
        | Member oi =>
          xlift (eval e en st) (fun v =>
            XNext en (set_slots st (set_nth (clear_oneof fs (us_slots st) oi) j (VSome (lval_val v)))))
        | _ => XStuck
        end
      | _, _ => XStuck
      end
    | UsOneofReuse j x =>
      match nth_error fs j, slot st j with
      | Some f, Some s =>
        match f_shape f, f_ty f with
        | Member _, TMsg m =>
          match s with
          | VSome (VMsg ss u) => match env_set x (LM m (VMsg ss u)) en with Some en' => XNext en' st | None => XStuck end
          | _ => XNext en st                       (* another member, nothing, or a wrapper holding nil *)
          end
        | _, _ => XStuck
        end
      | _, _ => XStuck
      end
    | UsUnmarshal lo hi tg =>
      xlift (eval_int lo en st) (fun a => xlift (eval_int hi en st) (fun b => xlift (slice st a b) (fun bs =>
        match tg with
        | MtField i =>
          match plain_field i, slot st i with
          | Some f, Some (VMsg ss u) =>
            match f_shape f, f_ty f with
            | Singular, TMsg m =>
              of_outcome (child m (VMsg ss u) bs) (fun v => XNext en (set_slots st (set_nth (us_slots st) i v)))
            | _, _ => XStuck
            end
          | _, _ => XStuck
          end
        | MtLast i =>
          match plain_field i, slot st i with
          | Some f, Some (VList l) =>
            match f_shape f, f_ty f, last l VNil with
            | Rep _, TMsg m, VMsg ss u =>
              of_outcome (child m (VMsg ss u) bs) (fun v => XNext en (set_slots st (set_nth (us_slots st) i (VList (set_last l v)))))
            | _, _, _ => XStuck
            end
          | _, _ => XStuck
          end
        | MtVar x =>
          match env_get x en with
          | Some (LM m (VMsg ss u)) =>
            of_outcome (child m (VMsg ss u) bs) (fun v =>
              match env_set x (LM m v) en with Some en' => XNext en' st | None => XStuck end)
          | _ => XStuck
          end
        end)))
    | UsBytesSet i lo hi =>
      match plain_field i, slot st i with
      | Some _, Some s =>
        xlift (eval_int lo en st) (fun a => xlift (eval_int hi en st) (fun b => xlift (slice st a b) (fun bs =>
          match s, bs with
          | VNil, [] => XNext en st                                         (* append(nil[:0]) of nothing: nil *)
          | VNil, _ | VBytes _, _ => XNext en (set_slots st (set_nth (us_slots st) i (VBytes bs)))
          | _, _ => XStuck
          end)))
      | _, _ => XStuck
      end
    | UsCopy dst lo hi =>
      xlift (eval_int lo en st) (fun a => xlift (eval_int hi en st) (fun b => xlift (slice st a b) (fun bs =>
        match dst with
        | MtVar x =>
          match env_get x en with
          | Some (LV (VBytes d)) =>
            match env_set x (LV (VBytes (go_copy d bs))) en with Some en' => XNext en' st | None => XStuck end
          | _ => XStuck
          end
        | MtLast i =>
          match plain_field i, slot st i with
          | Some _, Some (VList l) =>
            match last l VNil with
            | VBytes d => XNext en (set_slots st (set_nth (us_slots st) i (VList (set_last l (VBytes (go_copy d bs))))))
            | _ => XStuck
            end
          | _, _ => XStuck
          end
        | MtField _ => XStuck
        end)))
    | UsMapStore i k v =>
      match plain_field i, slot st i, env_get k en, env_get v en with
      | Some _, Some (VMap kvs), Some (LV kv), Some vv =>
        XNext en (set_slots st (set_nth (us_slots st) i (VMap (map_set kvs kv (lval_val vv)))))
      | Some _, Some VNil, Some (LV _), Some _ => XDone Panic               (* assignment to entry in nil map *)
      | _, _, _, _ => XStuck
      end
    | UsSkip lo =>
      xlift (eval_int lo en st) (fun a => xlift (slice_from st a) (fun bs =>
        of_outcome (Skip bs) (fun n => XNext ((UvSkippy, LV (VInt n)) :: en) st)))
    | UsUnkAppend lo hi =>
      xlift (eval_int lo en st) (fun a => xlift (eval_int hi en st) (fun b => xlift (slice st a b) (fun bs =>
        XNext en (set_unk st (us_unk st ++ bs)))))
    | UsIf _ _ | UsIfElse _ _ _ | UsFor _ _ | UsSwitch _ _ _ => XStuck
    end.

  (* leaving a block *)
  Definition leave (outer : env) (r : xres) : xres :=
    match r with XNext en' st' => XNext (env_restore outer en') st' | _ => r end.

  Fixpoint exec (s : ustmt) (en : env) (st : ustate) {struct s} : xres :=
    let blk := fix blk (b : list ustmt) (en : env) (st : ustate) {struct b} : xres :=
        match b with
        | [] => XNext en st
        | s' :: b' => match exec s' en st with XNext en' st' => blk b' en' st' | r => r end
        end in
    let block := fun (b : list ustmt) (en : env) (st : ustate) => leave en (blk b en st) in
    match s with
    | UsIf c body =>
      xlift (cond c en st) (fun b => if b then block body en st else XNext en st)
    | UsIfElse c a b =>
      xlift (cond c en st) (fun t => if t then block a en st else block b en st)
    | UsFor c body =>
      (fix loop (fuel : nat) (en : env) (st : ustate) {struct fuel} : xres :=
         match fuel with
         | O => XDone OutOfFuel
         | S f =>
           xlift (cond c en st) (fun t =>
             if t then match block body en st with XNext en' st' => loop f en' st' | r => r end
             else XNext en st)
         end) lfuel en st
    | UsSwitch x cases dflt =>
      xlift (var_int x en) (fun z =>
        (fix find (cs : list (Z * list ustmt)) {struct cs} : xres :=
           match cs with
           | [] => block dflt en st
           | (k, body) :: cs' => if z =? k then block body en st else find cs'
           end) cases)
    | _ => exec_atom s en st
    end.

  Fixpoint run_block (b : list ustmt) (en : env) (st : ustate) {struct b} : xres :=
    match b with
    | [] => XNext en st
    | s :: b' => match exec s en st with XNext en' st' => run_block b' en' st' | r => r end
    end.
End URun.

(* the closure applied to (input.Message = target, input.Buf = bs, input.Depth = depth): a VNil target is a freshly
   allocated message. None: the program is stuck or ends without a return *)
Definition run_unmarshal (sch : schema) (discard : bool) (child : child_t) (depth : Z) (mid : nat) (p : list ustmt)
           (target : val) (bs : list byte) : option (outcome val) :=
  match get_msg sch mid with
  | None => None
  | Some md =>
    let init := match target with VMsg _ _ => target | _ => empty_msg md end in
    let st := {| us_idx := 0; us_rest := bs; us_slots := slots_of init; us_unk := unk_of init |} in
    match run_block sch discard child depth (m_fields md) bs (Z.of_nat (length bs)) (S (length bs)) p [] st with
    | XDone o => Some o
    | XNext _ _ => None
    | XStuck => None
    end
  end.

(* proto.UnmarshalOptions{…}.Unmarshal at the top level: input.Depth = the default recursion limit, children decoded by
   the model's decoder (Decode.pulsar_unmarshal is this with the hand-written loop in place of the program) *)
Definition run_unmarshal_top (sch : schema) (discard : bool) (mid : nat) (p : list ustmt) (target : val) (bs : list byte)
  : option (outcome val) :=
  run_unmarshal sch discard (unmarshal_at sch discard (length bs) (recursion_limit - 1)) recursion_limit mid p target bs.

(* ---- the program the template emits (proto_unmarshal.go, proto3: no groups, no required fields, no extension ranges;
        proto3 `optional` is outside the supported subset) ------------------------------------------------------------------ *)
(* noStarOrSliceType / FieldGoType of a scalar field *)
Definition kind_gty (k : kind) : gty :=
  match k with
  | KDouble => GF64 | KFloat => GF32
  | KInt32 | KSint32 | KSfixed32 => GI32
  | KInt64 | KSint64 | KSfixed64 => GI64
  | KUint32 | KFixed32 => GU32
  | KUint64 | KFixed64 => GU64
  | KBool => GBool | KString => GString | KBytes => GBytes | KEnum => GEnum
  end.

Definition u_ret (e : uerr) : list ustmt := [UsRet e].
Definition u_v (x : uvar) : uexpr := EVar x.
(* if <len> < 0 {ErrInvalidLength}; post := iNdEx + <len>; if post < 0 {ErrInvalidLength}; if post > <limit> {EOF} *)
Definition u_lencheck (len : uexpr) (post : uvar) (limit : uexpr) : list ustmt :=
  [UsIf (CCmp OLt len (ENum 0)) (u_ret ErInvalidLength);
   UsDecl post (EAdd EIdx len);
   UsIf (CCmp OLt (u_v post) (ENum 0)) (u_ret ErInvalidLength);
   UsIf (CCmp OGt (u_v post) limit) (u_ret ErEOF)].
Definition u_assign (tg : utarget) (e : uexpr) : ustmt :=
  match tg with TgVar x => UsSet x e | TgField i => UsFieldSet i e end.
(* decodeFixed64 / decodeFixed32 *)
Definition u_fixed64 (tg : utarget) (t : gty) : list ustmt :=
  [UsIf (CCmp OGt (EAdd EIdx (ENum 8)) EL) (u_ret ErEOF); u_assign tg (EConv t (ELE64 EIdx)); UsIdxAdd (ENum 8)].
Definition u_fixed32 (tg : utarget) (t : gty) : list ustmt :=
  [UsIf (CCmp OGt (EAdd EIdx (ENum 4)) EL) (u_ret ErEOF); u_assign tg (EConv t (ELE32 EIdx)); UsIdxAdd (ENum 4)].

(* how fieldItem stores the item: member of a oneof | element of a repeated field | singular proto3 field *)
Inductive imode := IOneof | IRep | ISing.
Definition u_put (md : imode) (i : nat) (e : uexpr) : ustmt :=
  match md with IOneof => UsOneofSet i e | IRep => UsFieldAppend i e | ISing => UsFieldSet i e end.

(* fieldItem for a scalar kind *)
Definition u_item_scalar (md : imode) (i : nat) (k : kind) : list ustmt :=
  let t := kind_gty k in
  let post := u_v UvPostIndex in
  match k with
  | KDouble =>
    UsVar UvV GU64 :: u_fixed64 (TgVar UvV) GU64 ++
    (let e := EConv GF64 (EF64bits (u_v UvV)) in
     match md with IRep => [UsDecl UvV2 e; UsFieldAppend i (u_v UvV2)] | _ => [u_put md i e] end)
  | KFloat =>
    UsVar UvV GU32 :: u_fixed32 (TgVar UvV) GU32 ++
    (let e := EConv GF32 (EF32bits (u_v UvV)) in
     match md with IRep => [UsDecl UvV2 e; UsFieldAppend i (u_v UvV2)] | _ => [u_put md i e] end)
  | KInt64 | KUint64 | KInt32 | KUint32 | KEnum =>
    match md with
    | ISing => [UsFieldSet i (ENum 0); UsVarint (TgField i) t]
    | _ => [UsVar UvV t; UsVarint (TgVar UvV) t; u_put md i (u_v UvV)]
    end
  | KFixed64 | KSfixed64 =>
    match md with
    | ISing => UsFieldSet i (ENum 0) :: u_fixed64 (TgField i) t
    | _ => UsVar UvV t :: u_fixed64 (TgVar UvV) t ++ [u_put md i (u_v UvV)]
    end
  | KFixed32 | KSfixed32 =>
    match md with
    | ISing => UsFieldSet i (ENum 0) :: u_fixed32 (TgField i) t
    | _ => UsVar UvV t :: u_fixed32 (TgVar UvV) t ++ [u_put md i (u_v UvV)]
    end
  | KBool =>
    [UsVar UvV GInt; UsVarint (TgVar UvV) GInt] ++
    (let e := EConv GBool (ENe0 (u_v UvV)) in
     match md with IOneof => [UsDecl UvB e; UsOneofSet i (u_v UvB)] | _ => [u_put md i e] end)
  | KString =>
    [UsVar UvStringLen GU64; UsVarint (TgVar UvStringLen) GU64; UsDecl UvIntStringLen (EConv GInt (u_v UvStringLen))] ++
    u_lencheck (u_v UvIntStringLen) UvPostIndex EL ++
    [u_put md i (EConv GString (ESlice EIdx post)); UsIdxSet post]
  | KBytes =>
    [UsVar UvByteLen GInt; UsVarint (TgVar UvByteLen) GInt] ++
    u_lencheck (u_v UvByteLen) UvPostIndex EL ++
    match md with
    | IOneof => [UsDecl UvV (EMakeBytes (ESub post EIdx)); UsCopy (MtVar UvV) EIdx post; UsOneofSet i (u_v UvV)]
    | IRep => [UsFieldAppend i (EMakeBytes (ESub post EIdx)); UsCopy (MtLast i) EIdx post]
    | ISing => [UsBytesSet i EIdx post; UsIf (CFieldNil i) [UsFieldSet i EEmptyBytes]]
    end ++
    [UsIdxSet post]
  | KSint32 =>
    [UsVar UvV GI32; UsVarint (TgVar UvV) GI32; UsSet UvV (EUnzig32 UvV); u_put md i (u_v UvV)]
  | KSint64 =>
    [UsVar UvV GU64; UsVarint (TgVar UvV) GU64; UsSet UvV (EUnzig64 UvV); u_put md i (EConv GI64 (u_v UvV))]
  end.

(* the message length header of fieldItem's MessageKind branch (message fields and maps) *)
Definition u_msg_header : list ustmt :=
  [UsVar UvMsglen GInt; UsVarint (TgVar UvMsglen) GInt] ++ u_lencheck (u_v UvMsglen) UvPostIndex EL.

(* fieldItem for a message field that is not a map *)
Definition u_item_msg (md : imode) (i : nat) (m : nat) : list ustmt :=
  let post := u_v UvPostIndex in
  u_msg_header ++
  match md with
  | IOneof => [UsDecl UvV (ENewMsg m); UsOneofReuse i UvV; UsUnmarshal EIdx post (MtVar UvV); UsOneofSet i (u_v UvV)]
  | IRep => [UsFieldAppend i (ENewMsg m); UsUnmarshal EIdx post (MtLast i)]
  | ISing => [UsIf (CFieldNil i) [UsFieldSet i (ENewMsg m)]; UsUnmarshal EIdx post (MtField i)]
  end ++
  [UsIdxSet post].

(* unmarshalMapField(varName, field): [key] selects mapkey / mapvalue *)
Definition u_mapfield (key : bool) (t : ftype) : list ustmt :=
  let var := UvMap key in
  let tmp := UvMapTemp key in
  let post := u_v UvPostIndex in
  match t with
  | TMsg _ =>
    [UsVar UvMapmsglen GInt; UsVarint (TgVar UvMapmsglen) GInt] ++ u_lencheck (u_v UvMapmsglen) UvPostmsgIndex post ++
    [UsUnmarshal EIdx (u_v UvPostmsgIndex) (MtVar var); UsIdxSet (u_v UvPostmsgIndex)]
  | TScalar k =>
    match k with
    | KDouble => UsVar tmp GU64 :: u_fixed64 (TgVar tmp) GU64 ++ [UsSet var (EF64bits (u_v tmp))]
    | KFloat => UsVar tmp GU32 :: u_fixed32 (TgVar tmp) GU32 ++ [UsSet var (EF32bits (u_v tmp))]
    | KInt64 | KUint64 | KInt32 | KUint32 | KEnum => [UsSet var (ENum 0); UsVarint (TgVar var) (kind_gty k)]
    | KFixed64 | KSfixed64 => u_fixed64 (TgVar var) (kind_gty k)
    | KFixed32 | KSfixed32 => u_fixed32 (TgVar var) (kind_gty k)
    | KBool => [UsVar tmp GInt; UsVarint (TgVar tmp) GInt; UsSet var (EConv GBool (ENe0 (u_v tmp)))]
    | KString =>
      [UsVar (UvStringLenMap key) GU64; UsVarint (TgVar (UvStringLenMap key)) GU64;
       UsDecl (UvIntStringLenMap key) (EConv GInt (u_v (UvStringLenMap key)))] ++
      u_lencheck (u_v (UvIntStringLenMap key)) (UvPostStringIndexMap key) post ++
      [UsSet var (EConv GString (ESlice EIdx (u_v (UvPostStringIndexMap key)))); UsIdxSet (u_v (UvPostStringIndexMap key))]
    | KBytes =>
      [UsVar UvMapbyteLen GU64; UsVarint (TgVar UvMapbyteLen) GU64; UsDecl UvIntMapbyteLen (EConv GInt (u_v UvMapbyteLen))] ++
      u_lencheck (u_v UvIntMapbyteLen) UvPostbytesIndex post ++
      [UsSet var (EMakeBytes (u_v UvMapbyteLen)); UsCopy (MtVar var) EIdx (u_v UvPostbytesIndex); UsIdxSet (u_v UvPostbytesIndex)]
    | KSint32 =>
      [UsVar tmp GI32; UsVarint (TgVar tmp) GI32; UsSet tmp (EUnzig32 tmp); UsSet var (EConv GI32 (u_v tmp))]
    | KSint64 =>
      [UsVar tmp GU64; UsVarint (TgVar tmp) GU64; UsSet tmp (EUnzig64 tmp); UsSet var (EConv GI64 (u_v tmp))]
    end
  end.

(* iNdEx = <back>; skippy, err := runtime.Skip(dAtA[iNdEx:]) …; the two bounds checks against <limit> *)
Definition u_skip (back : uvar) (limit : uexpr) : list ustmt :=
  [UsIdxSet (u_v back); UsSkip EIdx;
   UsIf (COr (CCmp OLt (u_v UvSkippy) (ENum 0)) (CCmp OLt (EAdd EIdx (u_v UvSkippy)) (ENum 0))) (u_ret ErInvalidLength);
   UsIf (CCmp OGt (EAdd EIdx (u_v UvSkippy)) limit) (u_ret ErEOF)].

(* fieldItem for a map field *)
Definition u_item_map (i : nat) (kk : kind) (t : ftype) : list ustmt :=
  let post := u_v UvPostIndex in
  u_msg_header ++
  [UsIf (CFieldNil i) [UsFieldSet i EMakeMap];
   UsVar (UvMap true) (kind_gty kk);
   match t with TMsg m => UsDecl (UvMap false) (ENewMsg m) | TScalar k => UsVar (UvMap false) (kind_gty k) end;
   UsFor (CCmp OLt EIdx post)
     [UsDecl UvEntryPreIndex EIdx;
      UsVar UvWire GU64; UsVarint (TgVar UvWire) GU64;
      UsDecl UvFieldNum (EConv GI32 (EShr (u_v UvWire) 3));
      UsIfElse (CCmp OEq (u_v UvFieldNum) (ENum 1)) (u_mapfield true (TScalar kk))
        [UsIfElse (CCmp OEq (u_v UvFieldNum) (ENum 2)) (u_mapfield false t)
           (u_skip UvEntryPreIndex post ++ [UsIdxAdd (u_v UvSkippy)])];
      UsIf (CCmp OGt EIdx post) (u_ret ErEOF)];
   UsMapStore i (UvMap true) (UvMap false);
   UsIdxSet post].

Definition u_item (md : imode) (i : nat) (f : field) : list ustmt :=
  match f_shape f, f_ty f with
  | MapOf kk, t => u_item_map i kk t
  | _, TScalar k => u_item_scalar md i k
  | _, TMsg m => u_item_msg md i m
  end.

(* the element count of a packed run *)
Definition u_element_count (k : kind) : list ustmt :=
  match k with
  | KDouble | KFixed64 | KSfixed64 => [UsSet UvElementCount (EDiv (u_v UvPackedLen) 8)]
  | KFloat | KFixed32 | KSfixed32 => [UsSet UvElementCount (EDiv (u_v UvPackedLen) 4)]
  | KInt64 | KUint64 | KInt32 | KUint32 | KSint32 | KSint64 =>
    [UsVar UvCount GInt; UsRangeCount UvCount EIdx (u_v UvPostIndex); UsSet UvElementCount (u_v UvCount)]
  | KBool => [UsSet UvElementCount (u_v UvPackedLen)]
  | _ => []
  end.

(* unmarshalField: the body of `case <number>:` *)
Definition u_case (i : nat) (f : field) : list ustmt :=
  let wt := u_v UvWireType in
  match f_shape f, f_ty f with
  | Rep _, TScalar k =>
    if negb (kind_wt k =? WT_BYTES)%N then
      [UsIfElse (CCmp OEq wt (ENum (Z.of_N (kind_wt k)))) (u_item IRep i f)
         [UsIfElse (CCmp OEq wt (ENum 2))
            ([UsVar UvPackedLen GInt; UsVarint (TgVar UvPackedLen) GInt] ++
             u_lencheck (u_v UvPackedLen) UvPostIndex EL ++
             [UsVar UvElementCount GInt] ++ u_element_count k ++
             [UsIf (CAnd (CCmp ONe (u_v UvElementCount) (ENum 0)) (CCmp OEq (ELenF i) (ENum 0)))
                [UsFieldSet i (EMakeList (u_v UvElementCount))];
              UsFor (CCmp OLt EIdx (u_v UvPostIndex)) (u_item IRep i f)])
            (u_ret (ErWrongWire i))]]
    else UsIf (CCmp ONe wt (ENum 2)) (u_ret (ErWrongWire i)) :: u_item IRep i f
  | sh, t =>
    let w := match sh with MapOf _ => WT_BYTES | _ => ftype_wt t end in
    let md := match sh with Member _ => IOneof | Singular => ISing | _ => IRep end in
    UsIf (CCmp ONe wt (ENum (Z.of_N w))) (u_ret (ErWrongWire i)) :: u_item md i f
  end.

Fixpoint u_cases (i : nat) (fs : list field) : list (Z * list ustmt) :=
  match fs with
  | [] => []
  | f :: t => (Z.of_N (f_num f), u_case i f) :: u_cases (S i) t
  end.

(* the default clause: an unknown field is skipped and, unless DiscardUnknown, kept *)
Definition u_default : list ustmt :=
  u_skip UvPreIndex EL ++
  [UsIf CNotDiscard [UsUnkAppend EIdx (EAdd EIdx (u_v UvSkippy))]; UsIdxAdd (u_v UvSkippy)].

Definition canon_unmarshal (sch : schema) (mid : nat) : list ustmt :=
  match get_msg sch mid with
  | None => []
  | Some md =>
    [UsNilCheck;
     UsIf CDepthLe0 (u_ret ErRecursionDepth);
     UsBegin;
     UsFor (CCmp OLt EIdx EL)
       [UsDecl UvPreIndex EIdx;
        UsVar UvWire GU64; UsVarint (TgVar UvWire) GU64;
        UsDecl UvFieldNum (EConv GI32 (EShr (u_v UvWire) 3));
        UsDecl UvWireType (EConv GInt (EAnd (u_v UvWire) 7));
        UsIf (CCmp OEq (u_v UvWireType) (ENum 4)) (u_ret ErEndGroup);
        UsIf (CCmp OLe (u_v UvFieldNum) (ENum 0)) (u_ret ErIllegalTag);
        UsSwitch UvFieldNum (u_cases 0 (m_fields md)) u_default];
     UsIf (CCmp OGt EIdx EL) (u_ret ErEOF);
     UsRet ErNil]
  end.

(* ---- the statement the proof task proves (it becomes a Theorem in Properties/) --------------------------------------------
   For every wf schema, DiscardUnknown setting, depth budget, message type, target (a fresh message, or any well-typed message
   to merge into) and input shorter than 2^63 - 8 bytes (a Go slice; see the bound below): the canonical program, with the children decoded by the model's
   decoder one level down ([unmarshal_at] with fuel f, depth-1), computes what the model's decoder computes at this level
   ([unmarshal_at] with fuel S f, depth) — value, error, panic and out-of-fuel alike. Decode.pulsar_unmarshal is the instance
   f = length bs, depth = recursion_limit ([run_unmarshal_top]). *)
Definition unmarshal_prog_correct_stmt : Prop :=
  forall sch discard f depth mid target bs,
    wf sch = true -> (mid < length sch)%nat ->
    (target = VNil \/ wt_msg sch mid target = true) ->
    Z.of_nat (length bs) + 8 < Z.of_N two63 ->    (* +8: decodeFixed64's guard `(iNdEx + 8) > l` must not wrap; found by the proof, T6 *)
    run_unmarshal sch discard (unmarshal_at sch discard f (depth - 1)) depth mid (canon_unmarshal sch mid) target bs
    = Some (unmarshal_at sch discard (S f) depth mid target bs).

(* the same statement on one case, for the driver (evaluated as a law on the cases of a run) *)
Fixpoint up_bytes_eqb (a b : list byte) : bool :=
  match a, b with
  | [], [] => true
  | x :: a', y :: b' => Byte.eqb x y && up_bytes_eqb a' b'
  | _, _ => false
  end.
Fixpoint val_eqb (a b : val) {struct a} : bool :=
  let leq := fix leq (l l' : list val) {struct l} : bool :=
      match l, l' with
      | [], [] => true
      | x :: t, y :: t' => val_eqb x y && leq t t'
      | _, _ => false
      end in
  match a, b with
  | VInt x, VInt y => x =? y
  | VBool x, VBool y => Bool.eqb x y
  | VBits x, VBits y => (x =? y)%N
  | VBytes x, VBytes y => up_bytes_eqb x y
  | VNil, VNil => true
  | VSome x, VSome y => val_eqb x y
  | VMsg s u, VMsg s' u' => leq s s' && up_bytes_eqb u u'
  | VList l, VList l' => leq l l'
  | VMap kvs, VMap kvs' =>
    (fix meq (l l' : list (val * val)) {struct l} : bool :=
       match l, l' with
       | [], [] => true
       | (k, v) :: t, (k', v') :: t' => val_eqb k k' && val_eqb v v' && meq t t'
       | _, _ => false
       end) kvs kvs'
  | _, _ => false
  end.
Definition outcome_eqb (a b : outcome val) : bool :=
  match a, b with
  | Ok x, Ok y => val_eqb x y
  | Err, Err | Panic, Panic | OutOfFuel, OutOfFuel => true
  | _, _ => false
  end.
Definition unmarshal_prog_law (sch : schema) (discard : bool) (f : nat) (depth : Z) (mid : nat) (target : val) (bs : list byte) : bool :=
  negb (wf sch && (mid <? length sch)%nat && (is_nil_val target || wt_msg sch mid target)) ||
  match run_unmarshal sch discard (unmarshal_at sch discard f (depth - 1)) depth mid (canon_unmarshal sch mid) target bs with
  | Some o => outcome_eqb o (unmarshal_at sch discard (S f) depth mid target bs)
  | None => false
  end.
