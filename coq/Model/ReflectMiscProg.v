(* Model/ReflectMiscProg.v — "ReflectMiscProg": the REST of what features/fastreflection/proto_message.go (and type.go,
   descriptors.go) prints for every generated message type T, beside the eight per-field methods of Model/ReflectProg.v
   and the list / map wrappers of Model/ReflectViewProg.v:

       func (x *T) ProtoReflect() protoreflect.Message                       { return ( *fastReflection_T)(x) }
       func (x *T) slowProtoReflect() protoreflect.Message                   { mi := &file_…_msgTypes[k]; … }
       func (x fastReflection_T_messageType) Zero() protoreflect.Message     { return ( *fastReflection_T)(nil) }
       func (x fastReflection_T_messageType) New() protoreflect.Message      { return new(fastReflection_T) }
       func (x fastReflection_T_messageType) Descriptor() …MessageDescriptor { return md_T }
       func (x *fastReflection_T) Descriptor() …MessageDescriptor            { return md_T }
       func (x *fastReflection_T) Type() protoreflect.MessageType            { return _fastReflection_T_messageType }
       func (x *fastReflection_T) New() protoreflect.Message                 { return new(fastReflection_T) }
       func (x *fastReflection_T) Interface() protoreflect.ProtoMessage      { return ( *T)(x) }
       func (x *fastReflection_T) GetUnknown() protoreflect.RawFields        { if x == nil { return nil }; return x.unknownFields }
       func (x *fastReflection_T) SetUnknown(fields protoreflect.RawFields)  { x.unknownFields = fields }
       func (x *fastReflection_T) IsValid() bool                             { return x != nil }
       func (x *fastReflection_T) ProtoMethods() *protoiface.Methods         { size := func…; marshal := func…; unmarshal := func…;
                                                                               return &protoiface.Methods{…} }

   a statement / expression language that is the literal image of these bodies (one constructor per printed form), its
   interpreter over the heap of Go objects of Model/Reflect.v, the canonical methods [canon_mzprogs] computed from (schema,
   message) alone, decidable equality, and the statements (proved in Proofs/ReflectMiscProgProofs.v, Theorems in
   Properties/C09.v): the canonical GetUnknown / SetUnknown / IsValid / New / ProtoReflect / Type().New / Type().Zero,
   interpreted, are [Reflect.step] on OGetUnknown / OSetUnknown / OIsValid / ONew / ONil for EVERY heap and receiver (the
   typed nil pointer included: GetUnknown of nil = no bytes, IsValid of nil = false, SetUnknown of nil PANICS with the heap
   unchanged — there is no nil guard in front of the store), Interface followed by ProtoReflect is the identity, Descriptor
   and Type().Descriptor() name the message's own descriptor, and the protoiface.Methods literal sets exactly Size, Marshal,
   Unmarshal (to the closures of those names) with Flags = SupportMarshalDeterministic|SupportUnmarshalDiscardUnknown and
   leaves Merge and CheckInitialized nil.

   Use (DESIGN 12.7: translator tie). On every run the Go runner (engine "reflectmiscprog") parses every generated
   *.pulsar.go, checks the signature of each of these methods literally and translates the body, token for token, into the
   syntax below (or fails: "untranslatable"); the driver compares the translation with [canon_mzprogs] (REFLECTMISCPROG
   lines) and runs the interpreter on the TRANSLATED methods against the running code (REFLECTMISCRUN lines).

   Conventions (those of Model/ReflectProg.v). Names are indexes: message m = the Go type of message m of the schema
   (`T`, `fastReflection_T`, `fastReflection_T_messageType`, the variables `md_T` — resolved through its assignment in
   init() — and `_fastReflection_T_messageType` — resolved through its declared type). The interpreter answers None
   ("stuck") for a program Go's type checker would reject (a conversion of the receiver to the pointer type of ANOTHER
   message, a result of the wrong type, a missing return, `fields` where there is no such parameter …); the canonical
   programs never get stuck. The receiver `x` is a [mzrecv]: a *fastReflection_T or a *T (Reflect.v's PMsg mid p with
   p = None the typed nil pointer), or the empty struct fastReflection_T_messageType{}.
   In the comments of this file a Go pointer type in parentheses is written with a space, `( *T)`.
   Executable definitions only. *)
From CP Require Export Reflect.
From CP Require Import ReflectProg.
Local Open Scope nat_scope.

(* ---- syntax ---------------------------------------------------------------------------------------------------------- *)
Inductive mzexpr :=
| MZCastFast (m : nat)      (* ( *fastReflection_T)(x) *)
| MZCastMsg (m : nat)       (* ( *T)(x) *)
| MZNilFast (m : nat)       (* ( *fastReflection_T)(nil) *)
| MZNewFast (m : nat)       (* new(fastReflection_T) *)
| MZMdVar (m : nat)         (* md_T *)
| MZTypeVar (m : nat)       (* _fastReflection_T_messageType *)
| MZNeNil                   (* x != nil *)
| MZUnknown                 (* x.unknownFields *)
| MZNil.                    (* nil *)

Inductive mzstmt :=
| MZReturn (e : mzexpr)         (* return e *)
| MZIfNilReturn (e : mzexpr)    (* if x == nil { return e } *)
| MZIfNilReturnVoid             (* if x == nil { return }      (no template prints it; a nil guard in front of a store) *)
| MZStoreUnknown.               (* x.unknownFields = fields *)

(* slowProtoReflect: the fixed frame of protoc-gen-go's ProtoReflect, with the index of the message in its file's msgTypes:
     mi := &file_…_msgTypes[k]
     if protoimpl.UnsafeEnabled && x != nil { ms := protoimpl.X.MessageStateOf(protoimpl.Pointer(x))
                                              if ms.LoadMessageInfo() == nil { ms.StoreMessageInfo(mi) }; return ms }
     return mi.MessageOf(x) *)
Inductive mzslow := MZSlow (k : nat).

(* ProtoMethods: the closures defined in front of the literal, and the literal *)
Inductive mzclos :=
| MZSize          (* size := func(input protoiface.SizeInput) protoiface.SizeOutput { … } *)
| MZMarshal       (* marshal := func(input protoiface.MarshalInput) (protoiface.MarshalOutput, error) { … } *)
| MZUnmarshal.    (* unmarshal := func(input protoiface.UnmarshalInput) (protoiface.UnmarshalOutput, error) { … } *)
Inductive mzentry :=
| MZENil                      (* nil *)
| MZEClos (c : mzclos).       (* the local variable size / marshal / unmarshal *)
Inductive mzflag :=
| MZFDeterministic            (* protoiface.SupportMarshalDeterministic *)
| MZFDiscardUnknown.          (* protoiface.SupportUnmarshalDiscardUnknown *)
(* return &protoiface.Methods{ NoUnkeyedLiterals: struct{}{}, Flags: f | f …, Size: e, Marshal: e, Unmarshal: e, Merge: e, CheckInitialized: e } *)
Record mzlit := mkMzLit {
  zl_flags : list mzflag;
  zl_size : mzentry; zl_marshal : mzentry; zl_unmarshal : mzentry; zl_merge : mzentry; zl_checkinit : mzentry }.
Record mzmethods := mkMzMethods { zm_locals : list mzclos; zm_lit : mzlit }.

Record mzprogs := mkMzProgs {
  z_protoreflect : list mzstmt;     (* (x *T) ProtoReflect *)
  z_descriptor : list mzstmt;       (* (x *fastReflection_T) Descriptor … *)
  z_type : list mzstmt;
  z_new : list mzstmt;
  z_interface : list mzstmt;
  z_getunknown : list mzstmt;
  z_setunknown : list mzstmt;
  z_isvalid : list mzstmt;
  z_methods : mzmethods;            (* ProtoMethods *)
  z_tzero : list mzstmt;            (* (x fastReflection_T_messageType) Zero, New, Descriptor *)
  z_tnew : list mzstmt;
  z_tdescriptor : list mzstmt }.

(* ---- decidable equality --------------------------------------------------------------------------------------------- *)
Definition mzexpr_eqb (a b : mzexpr) : bool :=
  match a, b with
  | MZCastFast m, MZCastFast m' | MZCastMsg m, MZCastMsg m' | MZNilFast m, MZNilFast m' | MZNewFast m, MZNewFast m'
  | MZMdVar m, MZMdVar m' | MZTypeVar m, MZTypeVar m' => Nat.eqb m m'
  | MZNeNil, MZNeNil | MZUnknown, MZUnknown | MZNil, MZNil => true
  | _, _ => false
  end.
Definition mzstmt_eqb (a b : mzstmt) : bool :=
  match a, b with
  | MZReturn e, MZReturn e' | MZIfNilReturn e, MZIfNilReturn e' => mzexpr_eqb e e'
  | MZIfNilReturnVoid, MZIfNilReturnVoid | MZStoreUnknown, MZStoreUnknown => true
  | _, _ => false
  end.
Definition mzbody_eqb (a b : list mzstmt) : bool := rp_list_eqb mzstmt_eqb a b.
Definition mzslow_eqb (a b : mzslow) : bool := match a, b with MZSlow k, MZSlow k' => Nat.eqb k k' end.
Definition mzclos_eqb (a b : mzclos) : bool :=
  match a, b with MZSize, MZSize | MZMarshal, MZMarshal | MZUnmarshal, MZUnmarshal => true | _, _ => false end.
Definition mzentry_eqb (a b : mzentry) : bool :=
  match a, b with MZENil, MZENil => true | MZEClos c, MZEClos c' => mzclos_eqb c c' | _, _ => false end.
Definition mzflag_eqb (a b : mzflag) : bool :=
  match a, b with MZFDeterministic, MZFDeterministic | MZFDiscardUnknown, MZFDiscardUnknown => true | _, _ => false end.
Definition mzlit_eqb (a b : mzlit) : bool :=
  rp_list_eqb mzflag_eqb (zl_flags a) (zl_flags b) && mzentry_eqb (zl_size a) (zl_size b) &&
  mzentry_eqb (zl_marshal a) (zl_marshal b) && mzentry_eqb (zl_unmarshal a) (zl_unmarshal b) &&
  mzentry_eqb (zl_merge a) (zl_merge b) && mzentry_eqb (zl_checkinit a) (zl_checkinit b).
Definition mzmethods_eqb (a b : mzmethods) : bool :=
  rp_list_eqb mzclos_eqb (zm_locals a) (zm_locals b) && mzlit_eqb (zm_lit a) (zm_lit b).
Definition mzprogs_eqb (a b : mzprogs) : bool :=
  mzbody_eqb (z_protoreflect a) (z_protoreflect b) && mzbody_eqb (z_descriptor a) (z_descriptor b) &&
  mzbody_eqb (z_type a) (z_type b) && mzbody_eqb (z_new a) (z_new b) && mzbody_eqb (z_interface a) (z_interface b) &&
  mzbody_eqb (z_getunknown a) (z_getunknown b) && mzbody_eqb (z_setunknown a) (z_setunknown b) &&
  mzbody_eqb (z_isvalid a) (z_isvalid b) && mzmethods_eqb (z_methods a) (z_methods b) &&
  mzbody_eqb (z_tzero a) (z_tzero b) && mzbody_eqb (z_tnew a) (z_tnew b) && mzbody_eqb (z_tdescriptor a) (z_tdescriptor b).

(* ---- interpreter ------------------------------------------------------------------------------------------------------ *)
Inductive mzrecv :=
| MZRFast (mid : nat) (p : option nat)      (* x : *fastReflection_T   (Reflect.v's PMsg mid p) *)
| MZRProto (mid : nat) (p : option nat)     (* x : *T *)
| MZRType (mid : nat).                      (* x : fastReflection_T_messageType *)

Inductive mzval :=
| MZVal (v : pval)                          (* a protoreflect.Message (PMsg), bool (PBool), RawFields (PBytes), nothing (PUnit); PPanic *)
| MZVProto (mid : nat) (p : option nat)     (* a protoreflect.ProtoMessage holding a *T *)
| MZVDesc (mid : nat)                       (* the descriptor of message mid *)
| MZVType (mid : nat).                      (* the protoreflect.MessageType of message mid *)

(* the declared result type of a method *)
Inductive mzkind := MZKMsg | MZKProto | MZKDesc | MZKType | MZKBool | MZKRaw | MZKVoid.

Definition mzval_fits (k : mzkind) (v : mzval) : bool :=
  match k, v with
  | _, MZVal PPanic => true
  | MZKMsg, MZVal (PMsg _ _) => true
  | MZKProto, MZVProto _ _ => true
  | MZKDesc, MZVDesc _ => true
  | MZKType, MZVType _ => true
  | MZKBool, MZVal (PBool _) => true
  | MZKRaw, MZVal (PBytes _) => true
  | MZKVoid, MZVal PUnit => true
  | _, _ => false
  end.

Section Interp.
  Variable sch : schema.

  (* Some true: x is a nil pointer; Some false: a non-nil pointer; None: x is not a pointer (x == nil does not compile) *)
  Definition mz_is_nil (x : mzrecv) : option bool :=
    match x with
    | MZRFast _ p | MZRProto _ p => Some (match p with None => true | Some _ => false end)
    | MZRType _ => None
    end.

  Definition eval_mzexpr (k : mzkind) (h : heap) (x : mzrecv) (e : mzexpr) : option (heap * mzval) :=
    let ret (r : heap * mzval) := if mzval_fits k (snd r) then Some r else None in
    match e with
    | MZCastFast m =>
      match x with MZRProto m' p => if Nat.eqb m m' then ret (h, MZVal (PMsg m p)) else None | _ => None end
    | MZCastMsg m =>
      match x with MZRFast m' p => if Nat.eqb m m' then ret (h, MZVProto m p) else None | _ => None end
    | MZNilFast m => ret (h, MZVal (PMsg m None))
    | MZNewFast m => let (h', id) := halloc h (HObj (new_obj sch m)) in ret (h', MZVal (PMsg m (Some id)))
    | MZMdVar m => ret (h, MZVDesc m)
    | MZTypeVar m => ret (h, MZVType m)
    | MZNeNil => match mz_is_nil x with Some b => ret (h, MZVal (PBool (negb b))) | None => None end
    | MZUnknown =>
      match x with
      | MZRFast mid None => ret (h, MZVal PPanic)                      (* nil pointer dereference *)
      | MZRFast mid (Some id) =>
        match recv_obj sch h mid (Some id) with
        | Some ob => ret (h, MZVal (PBytes (olist (o_unk ob))))
        | None => ret (h, MZVal PPanic)                                (* not an object of the type (impossible in Go) *)
        end
      | _ => None                                                      (* unexported field of another type / no such field *)
      end
    | MZNil => match k with MZKRaw => ret (h, MZVal (PBytes [])) | _ => None end     (* RawFields(nil) *)
    end.

  (* [arg]: the parameter `fields` (SetUnknown only) *)
  Fixpoint exec_mzbody (k : mzkind) (arg : option (list byte)) (h : heap) (x : mzrecv) (l : list mzstmt) : option (heap * mzval) :=
    match l with
    | [] => match k with MZKVoid => Some (h, MZVal PUnit) | _ => None end          (* missing return *)
    | MZReturn e :: _ => match k with MZKVoid => None | _ => eval_mzexpr k h x e end
    | MZIfNilReturn e :: t =>
      match k, mz_is_nil x with
      | MZKVoid, _ | _, None => None
      | _, Some true => eval_mzexpr k h x e
      | _, Some false => match eval_mzexpr k h x e with Some _ => exec_mzbody k arg h x t | None => None end   (* (still type-checked) *)
      end
    | MZIfNilReturnVoid :: t =>
      match k, mz_is_nil x with
      | MZKVoid, Some true => Some (h, MZVal PUnit)
      | MZKVoid, Some false => exec_mzbody k arg h x t
      | _, _ => None
      end
    | MZStoreUnknown :: t =>
      match arg, x with
      | Some u, MZRFast mid None => Some (h, MZVal PPanic)             (* nil pointer dereference: nothing is stored *)
      | Some u, MZRFast mid (Some id) =>
        match recv_obj sch h mid (Some id) with
        | Some ob => exec_mzbody k arg (hset h id (HObj (set_unk ob (Some u)))) x t
        | None => Some (h, MZVal PPanic)
        end
      | _, _ => None
      end
    end.

  (* the results that are protoreflect values *)
  Definition mz_pval (r : option (heap * mzval)) : option (heap * pval) :=
    match r with Some (h, MZVal v) => Some (h, v) | _ => None end.

  Definition run_mz_getunknown (ps : mzprogs) (h : heap) (r : pval) : option (heap * pval) :=
    match r with PMsg mid p => mz_pval (exec_mzbody MZKRaw None h (MZRFast mid p) (z_getunknown ps)) | _ => Some (h, PPanic) end.
  Definition run_mz_setunknown (ps : mzprogs) (h : heap) (r : pval) (u : list byte) : option (heap * pval) :=
    match r with PMsg mid p => mz_pval (exec_mzbody MZKVoid (Some u) h (MZRFast mid p) (z_setunknown ps)) | _ => Some (h, PPanic) end.
  Definition run_mz_isvalid (ps : mzprogs) (h : heap) (r : pval) : option (heap * pval) :=
    match r with PMsg mid p => mz_pval (exec_mzbody MZKBool None h (MZRFast mid p) (z_isvalid ps)) | _ => Some (h, PPanic) end.
  (* x.New() *)
  Definition run_mz_new (ps : mzprogs) (h : heap) (r : pval) : option (heap * pval) :=
    match r with PMsg mid p => mz_pval (exec_mzbody MZKMsg None h (MZRFast mid p) (z_new ps)) | _ => Some (h, PPanic) end.
  (* ( *T).ProtoReflect() of the pointer p *)
  Definition run_mz_protoreflect (ps : mzprogs) (h : heap) (mid : nat) (p : option nat) : option (heap * pval) :=
    mz_pval (exec_mzbody MZKMsg None h (MZRProto mid p) (z_protoreflect ps)).
  (* x.Descriptor(), x.Type() *)
  Definition run_mz_descriptor (ps : mzprogs) (h : heap) (mid : nat) (p : option nat) : option (heap * mzval) :=
    exec_mzbody MZKDesc None h (MZRFast mid p) (z_descriptor ps).
  Definition run_mz_type (ps : mzprogs) (h : heap) (mid : nat) (p : option nat) : option (heap * mzval) :=
    exec_mzbody MZKType None h (MZRFast mid p) (z_type ps).
  (* x.Interface().ProtoReflect(): [progs] gives the methods of the dynamic type of the ProtoMessage *)
  Definition run_mz_interface_reflect (progs : nat -> option mzprogs) (ps : mzprogs) (h : heap) (r : pval) : option (heap * pval) :=
    match r with
    | PMsg mid p =>
      match exec_mzbody MZKProto None h (MZRFast mid p) (z_interface ps) with
      | Some (h1, MZVProto m q) => match progs m with Some ps' => run_mz_protoreflect ps' h1 m q | None => None end
      | Some (h1, MZVal PPanic) => Some (h1, PPanic)
      | _ => None
      end
    | _ => Some (h, PPanic)
    end.
  (* x.Type().New() / .Zero() / .Descriptor(): [progs] gives the methods of the message type Type() returned *)
  Definition run_mz_via_type {A} (progs : nat -> option mzprogs) (ps : mzprogs) (h : heap) (r : pval)
             (k : nat -> mzprogs -> heap -> option A) (panic : heap -> A) : option A :=
    match r with
    | PMsg mid p =>
      match run_mz_type ps h mid p with
      | Some (h1, MZVType m) => match progs m with Some ps' => k m ps' h1 | None => None end
      | Some (h1, MZVal PPanic) => Some (panic h1)
      | _ => None
      end
    | _ => Some (panic h)
    end.
  Definition run_mz_type_new (progs : nat -> option mzprogs) (ps : mzprogs) (h : heap) (r : pval) : option (heap * pval) :=
    run_mz_via_type progs ps h r (fun m ps' h1 => mz_pval (exec_mzbody MZKMsg None h1 (MZRType m) (z_tnew ps'))) (fun h1 => (h1, PPanic)).
  Definition run_mz_type_zero (progs : nat -> option mzprogs) (ps : mzprogs) (h : heap) (r : pval) : option (heap * pval) :=
    run_mz_via_type progs ps h r (fun m ps' h1 => mz_pval (exec_mzbody MZKMsg None h1 (MZRType m) (z_tzero ps'))) (fun h1 => (h1, PPanic)).
  Definition run_mz_type_descriptor (progs : nat -> option mzprogs) (ps : mzprogs) (h : heap) (r : pval) : option (heap * mzval) :=
    run_mz_via_type progs ps h r (fun m ps' h1 => exec_mzbody MZKDesc None h1 (MZRType m) (z_tdescriptor ps')) (fun h1 => (h1, MZVal PPanic)).

  (* ProtoMethods(): nothing in front of the closures, the closures (which shadow x), the literal: the receiver is never
     read, so the nil pointer gets the same table. None: does not compile (an entry names a closure that is not defined; a
     closure is defined twice, or defined and not used) *)
  Definition mz_entry_clos (e : mzentry) : list mzclos := match e with MZEClos c => [c] | MZENil => [] end.
  Definition mz_used (l : mzlit) : list mzclos :=
    mz_entry_clos (zl_size l) ++ mz_entry_clos (zl_marshal l) ++ mz_entry_clos (zl_unmarshal l) ++
    mz_entry_clos (zl_merge l) ++ mz_entry_clos (zl_checkinit l).
  Definition mz_mem (c : mzclos) (l : list mzclos) : bool := existsb (mzclos_eqb c) l.
  Fixpoint mz_nodup (l : list mzclos) : bool :=
    match l with [] => true | c :: t => negb (mz_mem c t) && mz_nodup t end.
  (* the Go type of an entry fits the field of protoiface.Methods it is assigned to *)
  Definition mz_entry_fits (want : option mzclos) (e : mzentry) : bool :=
    match e, want with
    | MZENil, _ => true
    | MZEClos c, Some w => mzclos_eqb c w
    | MZEClos _, None => false
    end.
  Definition run_mz_methods (m : mzmethods) (x : mzrecv) : option mzlit :=
    let l := zm_lit m in
    if mz_nodup (zm_locals m) &&
       forallb (fun c => mz_mem c (zm_locals m)) (mz_used l) && forallb (fun c => mz_mem c (mz_used l)) (zm_locals m) &&
       mz_entry_fits (Some MZSize) (zl_size l) && mz_entry_fits (Some MZMarshal) (zl_marshal l) &&
       mz_entry_fits (Some MZUnmarshal) (zl_unmarshal l) && mz_entry_fits None (zl_merge l) && mz_entry_fits None (zl_checkinit l)
    then Some l else None.

  (* one operation with the methods of this file taken from [progs] (a type without translated methods, and every other
     operation: Reflect.step). ONew mid is `new(T).ProtoReflect()`, ONil mid is `( *T)(nil).ProtoReflect()`. *)
  Definition rmz_step (progs : nat -> option mzprogs) (h : heap) (o : op) : option (heap * pval) :=
    let on (r : pval) (k : mzprogs -> option (heap * pval)) :=
      match r with
      | PMsg mid _ => match progs mid with Some ps => k ps | None => Some (step sch h o) end
      | _ => Some (step sch h o)
      end in
    match o with
    | OGetUnknown r => on r (fun ps => run_mz_getunknown ps h r)
    | OSetUnknown r u => on r (fun ps => run_mz_setunknown ps h r u)
    | OIsValid r => on r (fun ps => run_mz_isvalid ps h r)
    | ONew mid =>
      match progs mid with
      | Some ps => let (h1, id) := halloc h (HObj (new_obj sch mid)) in run_mz_protoreflect ps h1 mid (Some id)
      | None => Some (step sch h o)
      end
    | ONil mid =>
      match progs mid with
      | Some ps => run_mz_protoreflect ps h mid None
      | None => Some (step sch h o)
      end
    | _ => Some (step sch h o)
    end.
End Interp.

(* ---- the methods the templates emit ------------------------------------------------------------------------------------- *)
Definition canon_mzlit : mzlit :=
  mkMzLit [MZFDeterministic; MZFDiscardUnknown] (MZEClos MZSize) (MZEClos MZMarshal) (MZEClos MZUnmarshal) MZENil MZENil.
Definition canon_mzmethods : mzmethods := mkMzMethods [MZSize; MZMarshal; MZUnmarshal] canon_mzlit.
(* (the bodies do not depend on the fields of the message: the schema is a parameter for uniformity with canon_progs) *)
Definition canon_mzprogs (sch : schema) (mid : nat) : mzprogs :=
  mkMzProgs
    [MZReturn (MZCastFast mid)]
    [MZReturn (MZMdVar mid)]
    [MZReturn (MZTypeVar mid)]
    [MZReturn (MZNewFast mid)]
    [MZReturn (MZCastMsg mid)]
    [MZIfNilReturn MZNil; MZReturn MZUnknown]
    [MZStoreUnknown]
    [MZReturn MZNeNil]
    canon_mzmethods
    [MZReturn (MZNilFast mid)]
    [MZReturn (MZNewFast mid)]
    [MZReturn (MZMdVar mid)].
(* slowProtoReflect of the message that stands at position k of its file's message list (top-level messages first, then the children of every message, depth first; map entries counted) *)
Definition canon_mzslow (k : nat) : mzslow := MZSlow k.

(* ---- the Methods table as a decidable statement ------------------------------------------------------------------------ *)
(* protoiface: SupportMarshalDeterministic SupportFlags = 1 << iota; SupportUnmarshalDiscardUnknown *)
Definition mzflag_bit (f : mzflag) : N := match f with MZFDeterministic => 1%N | MZFDiscardUnknown => 2%N end.
Definition mzflags_value (l : list mzflag) : N := fold_right (fun f a => N.lor (mzflag_bit f) a) 0%N l.
(* the non-nil entries are exactly Size, Marshal, Unmarshal, bound to the closures of those names; Merge and
   CheckInitialized are nil; Flags = SupportMarshalDeterministic|SupportUnmarshalDiscardUnknown *)
Definition mzlit_okb (l : mzlit) : bool :=
  N.eqb (mzflags_value (zl_flags l)) 3%N &&
  mzentry_eqb (zl_size l) (MZEClos MZSize) && mzentry_eqb (zl_marshal l) (MZEClos MZMarshal) &&
  mzentry_eqb (zl_unmarshal l) (MZEClos MZUnmarshal) && mzentry_eqb (zl_merge l) MZENil && mzentry_eqb (zl_checkinit l) MZENil.
(* on a translated ProtoMethods, for the driver: the table is returned for the nil receiver and for a real one, and is as stated *)
Definition mz_methods_law (m : mzmethods) (mid : nat) : bool :=
  match run_mz_methods m (MZRFast mid None), run_mz_methods m (MZRFast mid (Some 0)) with
  | Some l, Some l' => mzlit_okb l && mzlit_eqb l l'
  | _, _ => false
  end.

(* ---- the statements (proved in Proofs/ReflectMiscProgProofs.v) ----------------------------------------------------------- *)
Definition canon_mz (sch : schema) : nat -> option mzprogs := fun mid => Some (canon_mzprogs sch mid).

(* for EVERY heap (so in particular for every heap with rp_heap_okb) and every receiver, the typed nil pointer included *)
Definition getunknown_prog_stmt : Prop :=
  forall sch h mid p, run_mz_getunknown sch (canon_mzprogs sch mid) h (PMsg mid p) = Some (step sch h (OGetUnknown (PMsg mid p))).
Definition setunknown_prog_stmt : Prop :=
  forall sch h mid p u,
    run_mz_setunknown sch (canon_mzprogs sch mid) h (PMsg mid p) u = Some (step sch h (OSetUnknown (PMsg mid p) u)).
Definition isvalid_prog_stmt : Prop :=
  forall sch h mid p, run_mz_isvalid sch (canon_mzprogs sch mid) h (PMsg mid p) = Some (step sch h (OIsValid (PMsg mid p))).
(* what they are on the nil receiver, spelled out: no bytes / false / PANIC with the heap unchanged *)
Definition misc_nil_receiver_stmt : Prop :=
  forall sch h mid u,
    let ps := canon_mzprogs sch mid in
    run_mz_getunknown sch ps h (PMsg mid None) = Some (h, PBytes []) /\
    run_mz_isvalid sch ps h (PMsg mid None) = Some (h, PBool false) /\
    run_mz_setunknown sch ps h (PMsg mid None) u = Some (h, PPanic).
(* x.New(), x.Type().New(): a fresh empty object, whatever the receiver; x.Type().Zero(): the nil message *)
Definition new_prog_stmt : Prop :=
  forall sch h mid p, run_mz_new sch (canon_mzprogs sch mid) h (PMsg mid p) = Some (step sch h (ONew mid)).
Definition type_new_prog_stmt : Prop :=
  forall sch h mid p, run_mz_type_new sch (canon_mz sch) (canon_mzprogs sch mid) h (PMsg mid p) = Some (step sch h (ONew mid)).
Definition type_zero_prog_stmt : Prop :=
  forall sch h mid p, run_mz_type_zero sch (canon_mz sch) (canon_mzprogs sch mid) h (PMsg mid p) = Some (step sch h (ONil mid)).
(* ( *T).ProtoReflect(): the same pointer, seen as a message; x.Interface().ProtoReflect() = x, nothing touched *)
Definition protoreflect_prog_stmt : Prop :=
  forall sch h mid p, run_mz_protoreflect sch (canon_mzprogs sch mid) h mid p = Some (h, PMsg mid p).
Definition interface_identity_stmt : Prop :=
  forall sch h mid p, run_mz_interface_reflect sch (canon_mz sch) (canon_mzprogs sch mid) h (PMsg mid p) = Some (h, PMsg mid p).
(* x.Descriptor(), x.Type() and x.Type().Descriptor() name the message's own descriptor / type, for the nil receiver too *)
Definition descriptor_prog_stmt : Prop :=
  forall sch h mid p,
    run_mz_descriptor sch (canon_mzprogs sch mid) h mid p = Some (h, MZVDesc mid) /\
    run_mz_type sch (canon_mzprogs sch mid) h mid p = Some (h, MZVType mid) /\
    run_mz_type_descriptor sch (canon_mz sch) (canon_mzprogs sch mid) h (PMsg mid p) = Some (h, MZVDesc mid).
(* ProtoMethods(): the same table for every receiver (nil included), and the table is as stated *)
Definition methods_prog_stmt : Prop :=
  forall sch mid x,
    run_mz_methods (z_methods (canon_mzprogs sch mid)) x = Some canon_mzlit /\ mzlit_okb canon_mzlit = true /\
    (forall l, mzlit_okb l = true ->
       zl_size l = MZEClos MZSize /\ zl_marshal l = MZEClos MZMarshal /\ zl_unmarshal l = MZEClos MZUnmarshal /\
       zl_merge l = MZENil /\ zl_checkinit l = MZENil /\ mzflags_value (zl_flags l) = 3%N).
(* all at once: an operation executed with the canonical methods of every message type is Reflect.step *)
Definition reflect_misc_prog_correct_stmt : Prop :=
  forall sch h o, rmz_step sch (canon_mz sch) h o = Some (step sch h o).
(* … in the form of the other translator ties (hypotheses of reflect_prog_correct_stmt) *)
Definition reflect_misc_prog_correct_ok_stmt : Prop :=
  forall sch h o, wf sch = true -> rp_heap_okb sch h = true -> rmz_step sch (canon_mz sch) h o = Some (step sch h o).
(* decidable equality decides equality (so `translated = canonical` in the driver transfers the statements) *)
Definition mzprogs_eqb_stmt : Prop := forall a b, mzprogs_eqb a b = true <-> a = b.

(* ---- the same on one case, for the driver -------------------------------------------------------------------------------- *)
Definition reflect_misc_prog_law (sch : schema) (h : heap) (o : op) : bool :=
  match rmz_step sch (canon_mz sch) h o with
  | Some r => rp_res_eqb r (step sch h o)
  | None => false
  end.
