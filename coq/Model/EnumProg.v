(* Model/EnumProg.v — features/protoc/main.go:genEnum / genEnumReflectMethods and the per-file type tables
   (`file_X_enumTypes`, `file_X_msgTypes`): what the generator prints per enum, as data.
     type E int32
     const ( P_V E = n ... )                                   declaration order, aliases included
     var ( E_name = map[int32]string{ n: "V", ... }            a value whose number was declared before is printed as a comment
           E_value = map[string]int32{ "V": n, ... } )
     func (x E) Enum() *E { p := new(E); *p = x; return p }
     func (x E) String() string { return protoimpl.X.EnumStringOf(x.Descriptor(), protoreflect.EnumNumber(x)) }
     func (E) Descriptor() protoreflect.EnumDescriptor { return file_X_enumTypes[N].Descriptor() }
     func (E) Type() protoreflect.EnumType { return &file_X_enumTypes[N] }
     func (x E) Number() protoreflect.EnumNumber { return protoreflect.EnumNumber(x) }
     func (E) EnumDescriptor() ([]byte, []int) { return file_X_rawDescGZIP(), []int{path} }
   and per message `mi := &file_X_msgTypes[N]` in slowProtoReflect and Reset.
   N = f.allEnumsByPtr[e] / f.allMessagesByPtr[m]: the position in newFileInfo's flattened lists, which are GenDeps.all_enums /
   GenDeps.all_messages (the same lists genReflectFileDescriptor builds goTypes from). The Go names (protogen GoIdents) are inputs.
   Executable definitions only; lemmas in Proofs/EnumProgProofs.v. *)
From CP Require Import Bytes GenNames GenDeps.
Local Open Scope N_scope.

(* ---- description of a file's enums ------------------------------------------------------------------------------------ *)
Record evalue := mkEValue { ev_name : name; ev_go : name; ev_num : Z }.           (* proto name, Go constant, number *)
Record einfo := mkEInfo { ei_full : name; ei_go : name; ei_values : list evalue }. (* full name, Go type, values in declaration order *)
(* the declaration tree (GenDeps.dfile: full names, nesting, declaration order), the file's variable prefix `file_X`, the enums *)
Record efile := mkEFile { ef_desc : dfile; ef_var : name; ef_infos : list einfo }.

(* ---- descriptor index paths: [i] for the i-th enum of the file, [m1; …; mk; i] for the i-th enum of message m1.….mk ------- *)
Fixpoint number_from (p : list N) (i : N) (es : list name) : list (name * list N) :=
  match es with [] => [] | e :: r => (e, p ++ [i]) :: number_from p (i + 1) r end.
Fixpoint epaths (p : list N) (m : dmsg) : list (name * list N) :=
  match m with
  | DM _ es _ _ ns =>
    number_from p 0 es ++
    (fix go (i : N) (l : list dmsg) : list (name * list N) :=
       match l with [] => [] | c :: r => epaths (p ++ [i]) c ++ go (i + 1) r end) 0 ns
  end.
Fixpoint epaths_list (p : list N) (i : N) (l : list dmsg) : list (name * list N) :=
  match l with [] => [] | c :: r => epaths (p ++ [i]) c ++ epaths_list p (i + 1) r end.
(* every enum of the file with its path, in the generator's walk order *)
Definition file_epaths (f : dfile) : list (name * list N) := number_from [] 0 (df_enums f) ++ epaths_list [] 0 (df_msgs f).

(* following a path through the declaration tree *)
Definition nthN_opt {A} (l : list A) (i : N) : option A := nth_error l (N.to_nat i).
Fixpoint resolve_in (fuel : nat) (es : list name) (ms : list dmsg) (p : list N) : option name :=
  match fuel with
  | O => None
  | S k =>
    match p with
    | [] => None
    | [i] => nthN_opt es i
    | i :: rest => match nthN_opt ms i with Some m => resolve_in k (dm_enums m) (dm_nested m) rest | None => None end
    end
  end.
Definition resolve_path (f : dfile) (p : list N) : option name := resolve_in (S (length p)) (df_enums f) (df_msgs f) p.

(* ---- the printed program --------------------------------------------------------------------------------------------- *)
Inductive emeth :=
| EMEnum (t : name)                       (* func (x T) Enum() *T { p := new(T); *p = x; return p } *)
| EMString (t : name)                     (* func (x T) String() string { return protoimpl.X.EnumStringOf(x.Descriptor(), protoreflect.EnumNumber(x)) } *)
| EMDescriptor (t var : name) (n : N)     (* func (T) Descriptor() protoreflect.EnumDescriptor { return var_enumTypes[n].Descriptor() } *)
| EMType (t var : name) (n : N)           (* func (T) Type() protoreflect.EnumType { return &var_enumTypes[n] } *)
| EMNumber (t : name)                     (* func (x T) Number() protoreflect.EnumNumber { return protoreflect.EnumNumber(x) } *)
| EMRawDesc (t var : name) (path : list N). (* func (T) EnumDescriptor() ([]byte, []int) { return var_rawDescGZIP(), []int{path} } *)

Record eprog := mkEProg {
  ep_type : name;                       (* type T int32 *)
  ep_consts : list (name * Z);          (* the const block, every constant typed T *)
  ep_name_map : list (Z * name);        (* T_name *)
  ep_value_map : list (name * Z);       (* T_value *)
  ep_methods : list emeth }.

(* E_name: a value is printed unless e.Desc.Values().ByNumber(number) is an earlier value *)
Fixpoint first_names (seen : list Z) (vs : list evalue) : list (Z * name) :=
  match vs with
  | [] => []
  | v :: r => if existsb (Z.eqb (ev_num v)) seen then first_names seen r
              else (ev_num v, ev_name v) :: first_names (ev_num v :: seen) r
  end.

Definition find_info (infos : list einfo) (n : name) : option einfo := find (fun i => name_eqb (ei_full i) n) infos.
Definition find_path (f : dfile) (n : name) : option (list N) :=
  match find (fun e => name_eqb (fst e) n) (file_epaths f) with Some e => Some (snd e) | None => None end.
(* f.allEnumsByPtr[e]: position in allEnums *)
Definition enum_index (f : dfile) (n : name) : N := pos (all_enums f) n.
(* f.allMessagesByPtr[m]: position in allMessages *)
Definition message_index (f : dfile) (n : name) : N := pos (map dm_full (all_messages f)) n.

Definition canon_enum (f : efile) (n : name) : option eprog :=
  if mem n (all_enums (ef_desc f)) then
    match find_info (ef_infos f) n, find_path (ef_desc f) n with
    | Some inf, Some path =>
      let t := ei_go inf in
      let k := enum_index (ef_desc f) n in
      Some {| ep_type := t;
              ep_consts := map (fun v => (ev_go v, ev_num v)) (ei_values inf);
              ep_name_map := first_names [] (ei_values inf);
              ep_value_map := map (fun v => (ev_name v, ev_num v)) (ei_values inf);
              ep_methods := [EMEnum t; EMString t; EMDescriptor t (ef_var f) k; EMType t (ef_var f) k; EMNumber t;
                             EMRawDesc t (ef_var f) path] |}
    | _, _ => None
    end
  else None.

(* table lengths: make([]protoimpl.EnumInfo, len(allEnums)), make([]protoimpl.MessageInfo, len(allMessages)) *)
Definition enum_table_len (f : dfile) : N := len (all_enums f).
Definition msg_table_len (f : dfile) : N := len (all_messages f).
(* per message: the variable and index of `mi := &file_X_msgTypes[N]` (slowProtoReflect, Reset) *)
Inductive emprog := MPIdx (var : name) (slow reset : N).
Definition canon_msg (f : efile) (n : name) : option emprog :=
  if mem n (map dm_full (all_messages (ef_desc f))) then
    let k := message_index (ef_desc f) n in Some (MPIdx (ef_var f) k k)
  else None.

(* ---- readings of a program --------------------------------------------------------------------------------------------- *)
Fixpoint desc_index (ms : list emeth) : option N :=
  match ms with [] => None | EMDescriptor _ _ n :: _ => Some n | _ :: r => desc_index r end.
Fixpoint type_index (ms : list emeth) : option N :=
  match ms with [] => None | EMType _ _ n :: _ => Some n | _ :: r => type_index r end.
Fixpoint raw_path (ms : list emeth) : option (list N) :=
  match ms with [] => None | EMRawDesc _ _ p :: _ => Some p | _ :: r => raw_path r end.

(* EnumDescriptor.Values().ByNumber: the first declared value with that number *)
Definition by_number (vs : list evalue) (x : Z) : option name :=
  match find (fun v => Z.eqb (ev_num v) x) vs with Some v => Some (ev_name v) | None => None end.
Definition map_lookup (m : list (Z * name)) (x : Z) : option name :=
  match find (fun e => Z.eqb (fst e) x) m with Some e => Some (snd e) | None => None end.
(* String(): EnumStringOf(x.Descriptor(), n) with Descriptor() = enumTypes[N].Descriptor(); TypeBuilder fills enumTypes[i] with
   the i-th enum of the flattened order, i.e. goTypes[i]. Some (Some name) / Some None (prints the number) / None (no such slot) *)
Definition run_string (f : efile) (p : eprog) (x : Z) : option (option name) :=
  match desc_index (ep_methods p) with
  | Some k =>
    match nthN_opt (goTypes (gen_tables (ef_desc f))) k with
    | Some full => match find_info (ef_infos f) full with Some inf => Some (by_number (ei_values inf) x) | None => None end
    | None => None
    end
  | None => None
  end.

(* ---- decidable equality ----------------------------------------------------------------------------------------------- *)
Fixpoint list_eqb {A} (e : A -> A -> bool) (a b : list A) : bool :=
  match a, b with
  | [], [] => true
  | x :: a', y :: b' => e x y && list_eqb e a' b'
  | _, _ => false
  end.
Definition emeth_eqb (a b : emeth) : bool :=
  match a, b with
  | EMEnum t, EMEnum t' => name_eqb t t'
  | EMString t, EMString t' => name_eqb t t'
  | EMDescriptor t v n, EMDescriptor t' v' n' => name_eqb t t' && name_eqb v v' && N.eqb n n'
  | EMType t v n, EMType t' v' n' => name_eqb t t' && name_eqb v v' && N.eqb n n'
  | EMNumber t, EMNumber t' => name_eqb t t'
  | EMRawDesc t v p, EMRawDesc t' v' p' => name_eqb t t' && name_eqb v v' && list_eqb N.eqb p p'
  | _, _ => false
  end.
Definition eprog_eqb (a b : eprog) : bool :=
  name_eqb (ep_type a) (ep_type b) &&
  list_eqb (fun x y => name_eqb (fst x) (fst y) && Z.eqb (snd x) (snd y)) (ep_consts a) (ep_consts b) &&
  list_eqb (fun x y => Z.eqb (fst x) (fst y) && name_eqb (snd x) (snd y)) (ep_name_map a) (ep_name_map b) &&
  list_eqb (fun x y => name_eqb (fst x) (fst y) && Z.eqb (snd x) (snd y)) (ep_value_map a) (ep_value_map b) &&
  list_eqb emeth_eqb (ep_methods a) (ep_methods b).
Definition emprog_eqb (a b : emprog) : bool :=
  match a, b with MPIdx v s r, MPIdx v' s' r' => name_eqb v v' && N.eqb s s' && N.eqb r r' end.

(* ---- the statements, as executable laws (evaluated by the driver on every file of a run) --------------------------------- *)
Definition edeclared (f : dfile) : list name := all_enums f ++ map dm_full (all_messages f).
Definition enum_law (f : efile) (n : name) : bool :=
  match canon_enum f n with
  | None => true
  | Some p =>
    match desc_index (ep_methods p), type_index (ep_methods p), raw_path (ep_methods p) with
    | Some k, Some k', Some path =>
      N.eqb k k' && N.ltb k (enum_table_len (ef_desc f)) &&
      match nthN_opt (goTypes (gen_tables (ef_desc f))) k with Some x => name_eqb x n | None => false end &&
      match resolve_path (ef_desc f) path with Some x => name_eqb x n | None => false end
    | _, _, _ => false
    end
  end.
