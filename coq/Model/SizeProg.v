(* Model/SizeProg.v — "SizeProg": a tiny imperative language that is the literal image of the statements
   the size template (features/fastreflection/proto_size.go: genSizeMethod, field, messageSize) prints into the
   `size := func(input protoiface.SizeInput) protoiface.SizeOutput {…}` closure of every generated message type;
   its interpreter over the model's message values; and [canon_size], the program the template emits for a
   message type, computed from the schema alone.

   Use (DESIGN: translator tie). On every run the Go runner (engine "sizeprog") parses every generated
   *.pulsar.go with go/parser and translates the body of every size closure, statement by statement and purely
   syntactically, into this syntax (or fails: "untranslatable"). The driver compares the translated program with
   [canon_size sch mid] (syntactic equality, [prog_eqb]) and runs the translated program with [run_size] on sample
   values against proto.Size of the running code. The statement [size_prog_correct_stmt] (end of file; proved in
   Proofs/ by task T2) ties [canon_size] to Codec.msg_size for all schemas and values.

   Conventions
   * Go `int` (n, l, mapEntrySize, len(…)) is modelled unbounded (N): sizes stay below 2^63 for every value that
     fits in memory, so no wrap-around is modelled. `uint64(<int expression>)` around len/l/mapEntrySize arithmetic
     is the identity on non-negative ints and is dropped by the translator; `uint64(<scalar>)` is [XCast].
   * Go struct state -> val: as in Schema.v (nil list/map/bytes/message = VNil; oneof = one slot per member,
     VSome payload for the member that is set, VNil otherwise; a typed-nil wrapper reads as VNil, which is what
     `if x == nil { break }` in the case clause makes of it).
   * Scoping is Go's: every integer variable is a stack; `v := e` ([SDecl]) pushes, leaving the block that holds
     the declaration pops (if/for bodies, case clauses and every call of the SiZeMaP closure are blocks). So
     `l := 0` inside the closure shadows the outer l and `l = …` without it assigns the outer one, as in Go.
   * x.unknownFields: val does not distinguish nil from empty; `x.unknownFields != nil` is read as "non-empty"
     (the guarded statement adds len(x.unknownFields), which is 0 for an empty non-nil slice).
   * A map is iterated in the order of the VMap list (Go: sorted or random; only the final n is observed, and
     the closure the template emits sets l/mapEntrySize before reading them).
   Executable definitions only. *)
From CP Require Export Schema Codec WF.
Local Open Scope N_scope.

(* ---- syntax ------------------------------------------------------------------------------------ *)
Inductive lvar := VE | VS | VB | VK | VV.                   (* loop / closure variables e, s, b, k, v *)
Inductive ivar := IN | IL | IEntry.                         (* n, l, mapEntrySize *)
(* (RF/RV and SMapFn rather than RField/RVar and SMap: Model/Reflect.v and Model/GenTemplates.v already have constructors of
   those names and all models are extracted into one OCaml module) *)
Inductive sref :=
| RF (i : nat)     (* x.<GoName of field i>; inside the case clause of member i: the wrapper's payload field *)
| RV (x : lvar).
Inductive sexpr :=
| XNum (z : N)          (* integer literal *)
| XInt (v : ivar)
| XLen (r : sref)       (* len(r): string, []byte, slice, map *)
| XLenUnk               (* len(x.unknownFields) *)
| XCast (r : sref)      (* uint64(r), r an integer or enum scalar: sign extension for the signed Go types *)
| XSov (e : sexpr)      (* runtime.Sov(uint64(e)) *)
| XSoz (e : sexpr)      (* runtime.Soz(uint64(e)) *)
| XSize (r : sref)      (* options.Size(r) *)
| XAdd (a b : sexpr)
| XMul (a b : sexpr).
Inductive cond :=
| CLenPos (r : sref)          (* len(r) > 0 *)
| CNotNil (r : sref)          (* r != nil, r a message pointer *)
| CNonZero (r : sref)         (* r != 0, r an integer or enum *)
| CTrue (r : sref)            (* r, a bool *)
| CNonZeroOrSign (r : sref)   (* r != 0 || math.Signbit(r) (float32: math.Signbit(float64(r))) *)
| CIntPos (v : ivar)          (* v > 0 *)
| CUnkNotNil.                 (* x.unknownFields != nil *)
Inductive stmt :=
| SSet (v : ivar) (e : sexpr)                         (* v = e *)
| SDecl (v : ivar) (e : sexpr)                        (* v := e   (only the closure body has them) *)
| SAdd (v : ivar) (e : sexpr)                         (* v += e *)
| SIf (c : cond) (body : list stmt)
| SFor (x : lvar) (r : sref) (body : list stmt)       (* for _, x := range r { body } *)
| SMapFn (i : nat) (body : list stmt)                   (* SiZeMaP := func(k K, v V) { body }; called once per entry of map field i *)
| SSwitch (oneof : nat) (cases : list (nat * list stmt)).
      (* switch x := x.<Oneof>.(type) { case *<wrapper of field j>: if x == nil { break }; body … } *)

(* ---- decidable equality -------------------------------------------------------------------------- *)
Definition lvar_eqb (a b : lvar) : bool :=
  match a, b with VE, VE | VS, VS | VB, VB | VK, VK | VV, VV => true | _, _ => false end.
Definition ivar_eqb (a b : ivar) : bool :=
  match a, b with IN, IN | IL, IL | IEntry, IEntry => true | _, _ => false end.
Definition sref_eqb (a b : sref) : bool :=
  match a, b with
  | RF i, RF j => Nat.eqb i j
  | RV x, RV y => lvar_eqb x y
  | _, _ => false
  end.
Fixpoint sexpr_eqb (a b : sexpr) : bool :=
  match a, b with
  | XNum x, XNum y => x =? y
  | XInt v, XInt w => ivar_eqb v w
  | XLen r, XLen s => sref_eqb r s
  | XLenUnk, XLenUnk => true
  | XCast r, XCast s => sref_eqb r s
  | XSov x, XSov y => sexpr_eqb x y
  | XSoz x, XSoz y => sexpr_eqb x y
  | XSize r, XSize s => sref_eqb r s
  | XAdd x1 x2, XAdd y1 y2 => sexpr_eqb x1 y1 && sexpr_eqb x2 y2
  | XMul x1 x2, XMul y1 y2 => sexpr_eqb x1 y1 && sexpr_eqb x2 y2
  | _, _ => false
  end.
Definition cond_eqb (a b : cond) : bool :=
  match a, b with
  | CLenPos r, CLenPos s | CNotNil r, CNotNil s | CNonZero r, CNonZero s
  | CTrue r, CTrue s | CNonZeroOrSign r, CNonZeroOrSign s => sref_eqb r s
  | CIntPos v, CIntPos w => ivar_eqb v w
  | CUnkNotNil, CUnkNotNil => true
  | _, _ => false
  end.
(* (the recursion is on the statement; the statement lists inside it are walked by local fixpoints: stmt is nested
   in list and prod) *)
Fixpoint stmt_eqb (s t : stmt) {struct s} : bool :=
  let peq := fix peq (a b : list stmt) {struct a} : bool :=
      match a, b with
      | [], [] => true
      | x :: a', y :: b' => stmt_eqb x y && peq a' b'
      | _, _ => false
      end in
  match s, t with
  | SSet v e, SSet w f => ivar_eqb v w && sexpr_eqb e f
  | SDecl v e, SDecl w f => ivar_eqb v w && sexpr_eqb e f
  | SAdd v e, SAdd w f => ivar_eqb v w && sexpr_eqb e f
  | SIf c x, SIf d y => cond_eqb c d && peq x y
  | SFor x r p, SFor y q p' => lvar_eqb x y && sref_eqb r q && peq p p'
  | SMapFn i p, SMapFn j p' => Nat.eqb i j && peq p p'
  | SSwitch o cs, SSwitch o' cs' =>
    Nat.eqb o o' &&
    (fix ceq (cs : list (nat * list stmt)) (cs' : list (nat * list stmt)) {struct cs} : bool :=
       match cs, cs' with
       | [], [] => true
       | (j, p) :: r, (j', p') :: r' => Nat.eqb j j' && peq p p' && ceq r r'
       | _, _ => false
       end) cs cs'
  | _, _ => false
  end.
Fixpoint prog_eqb (a b : list stmt) {struct a} : bool :=
  match a, b with
  | [], [] => true
  | x :: a', y :: b' => stmt_eqb x y && prog_eqb a' b'
  | _, _ => false
  end.

(* ---- interpreter ---------------------------------------------------------------------------------- *)
(* static type of what a reference denotes *)
Inductive rty := RTScalar (k : kind) | RTMsg (m : nat) | RTList (t : ftype) | RTMap (kk : kind) (t : ftype).
Definition rty_of (t : ftype) : rty := match t with TScalar k => RTScalar k | TMsg m => RTMsg m end.

(* integer variables: one stack per variable (innermost declaration first) *)
Record state := { s_n : list N; s_l : list N; s_e : list N }.
Definition st_init : state := {| s_n := [0]; s_l := [0]; s_e := [] |}.        (* var n int; var l int *)
Definition st_stack (v : ivar) (st : state) : list N :=
  match v with IN => s_n st | IL => s_l st | IEntry => s_e st end.
Definition st_with (v : ivar) (k : list N) (st : state) : state :=
  match v with
  | IN => {| s_n := k; s_l := s_l st; s_e := s_e st |}
  | IL => {| s_n := s_n st; s_l := k; s_e := s_e st |}
  | IEntry => {| s_n := s_n st; s_l := s_l st; s_e := k |}
  end.
Definition st_get (v : ivar) (st : state) : option N := hd_error (st_stack v st).
Definition st_set (v : ivar) (x : N) (st : state) : option state :=
  match st_stack v st with [] => None | _ :: k => Some (st_with v (x :: k) st) end.
Definition st_push (v : ivar) (x : N) (st : state) : state := st_with v (x :: st_stack v st) st.
Definition st_pop (v : ivar) (st : state) : state := st_with v (tl (st_stack v st)) st.
(* leaving a block: the declarations made at its top level go out of scope *)
Fixpoint unwind (b : list stmt) (st : state) : state :=
  match b with
  | [] => st
  | SDecl v _ :: b' => unwind b' (st_pop v st)
  | _ :: b' => unwind b' st
  end.

(* environment: which case clause we are in (x is then the wrapper of that member) and the bound loop variables *)
Record env := { e_case : option nat; e_vars : list (lvar * (rty * val)) }.
Definition env_init : env := {| e_case := None; e_vars := [] |}.
Definition env_bind (x : lvar) (tv : rty * val) (en : env) : env :=
  {| e_case := e_case en; e_vars := (x, tv) :: e_vars en |}.
Definition env_case (j : nat) (en : env) : env := {| e_case := Some j; e_vars := e_vars en |}.
Fixpoint sp_lookup (x : lvar) (l : list (lvar * (rty * val))) : option (rty * val) :=
  match l with
  | [] => None
  | (y, tv) :: t => if lvar_eqb x y then Some tv else sp_lookup x t
  end.

Definition is_nil (v : val) : bool := match v with VNil => true | _ => false end.
Definition list_of (v : val) : list val := match v with VList l => l | _ => [] end.      (* nil slice: no elements *)
Definition entries_of (v : val) : list (val * val) := match v with VMap kvs => kvs | _ => [] end.

Section Run.
  Variable sch : schema.
  Variable fs : list field.        (* the message type's declared fields *)
  Variable slots : list val.       (* the struct: one slot per field *)
  Variable unk : list byte.        (* x.unknownFields *)

  Definition eval_ref (r : sref) (en : env) : option (rty * val) :=
    match r with
    | RV x => sp_lookup x (e_vars en)
    | RF i =>
      match nth_error fs i, nth_error slots i with
      | Some f, Some s =>
        match f_shape f, e_case en with
        | Singular, None => Some (rty_of (f_ty f), s)
        | Rep _, None => Some (RTList (f_ty f), s)
        | MapOf kk, None => Some (RTMap kk (f_ty f), s)
        | Member _, Some j =>                         (* x is the wrapper of member j: it has this one field *)
          if Nat.eqb i j then match s with VSome p => Some (rty_of (f_ty f), p) | _ => None end else None
        | _, _ => None                                (* the message has no such Go field in this scope *)
        end
      | _, _ => None
      end
    end.

  Definition eval_len (tv : rty * val) : option N :=
    match tv with
    | (RTScalar KString, v) | (RTScalar KBytes, v) => Some (blen v)
    | (RTList _, v) => Some (N.of_nat (length (list_of v)))
    | (RTMap _ _, v) => Some (N.of_nat (length (entries_of v)))
    | _ => None
    end.

  (* uint64(x) by the Go type of x *)
  Definition eval_cast (tv : rty * val) : option N :=
    match tv with
    | (RTScalar (KInt32 | KSint32 | KSfixed32 | KEnum), v) => Some (as_i32_u64 v)
    | (RTScalar (KInt64 | KSint64 | KSfixed64 | KUint32 | KUint64 | KFixed32 | KFixed64), v) => Some (as_u64 v)
    | _ => None
    end.

  Definition eval_size (tv : rty * val) : option N :=
    match tv with
    | (RTMsg m, v) => Some (msg_size sch m v)         (* options.Size: 0 for a nil pointer *)
    | _ => None
    end.

  Definition obindN {A} (o : option A) (f : A -> option N) : option N := match o with Some a => f a | None => None end.

  Fixpoint eval (e : sexpr) (en : env) (st : state) : option N :=
    match e with
    | XNum z => Some z
    | XInt v => st_get v st
    | XLen r => obindN (eval_ref r en) eval_len
    | XLenUnk => Some (N.of_nat (length unk))
    | XCast r => obindN (eval_ref r en) eval_cast
    | XSov a => option_map Sov (eval a en st)
    | XSoz a => option_map Soz (eval a en st)
    | XSize r => obindN (eval_ref r en) eval_size
    | XAdd a b => match eval a en st, eval b en st with Some x, Some y => Some (x + y) | _, _ => None end
    | XMul a b => match eval a en st, eval b en st with Some x, Some y => Some (x * y) | _, _ => None end
    end.

  Definition eval_cond (c : cond) (en : env) (st : state) : option bool :=
    match c with
    | CLenPos r => match obindN (eval_ref r en) eval_len with Some n => Some (0 <? n) | None => None end
    | CNotNil r => match eval_ref r en with Some (RTMsg _, v) => Some (negb (is_nil v)) | _ => None end
    | CNonZero r =>
      match eval_ref r en with
      | Some (RTScalar (KInt32 | KInt64 | KUint32 | KUint64 | KSint32 | KSint64
                       | KFixed32 | KFixed64 | KSfixed32 | KSfixed64 | KEnum), v) => Some (negb (as_z v =? 0)%Z)
      | _ => None
      end
    | CTrue r => match eval_ref r en with Some (RTScalar KBool, v) => Some (as_bool v) | _ => None end
    | CNonZeroOrSign r =>
      match eval_ref r en with
      | Some (RTScalar (KFloat | KDouble), v) => Some (negb (as_bits v =? 0))     (* anything but +0 *)
      | _ => None
      end
    | CIntPos v => match st_get v st with Some n => Some (0 <? n) | None => None end
    | CUnkNotNil => Some (negb (Nat.eqb (length unk) 0))
    end.

  (* one statement. The recursion is on the statement; [blk] runs a statement list in sequence (it is [run] below);
     a block = blk, then [unwind] *)
  Fixpoint exec (s : stmt) (en : env) (st : state) {struct s} : option state :=
    let blk := fix blk (b : list stmt) (en : env) (st : state) {struct b} : option state :=
        match b with
        | [] => Some st
        | s' :: b' => match exec s' en st with Some st' => blk b' en st' | None => None end
        end in
    match s with
    | SSet v e => match eval e en st with Some x => st_set v x st | None => None end
    | SDecl v e => match eval e en st with Some x => Some (st_push v x st) | None => None end
    | SAdd v e => match eval e en st, st_get v st with Some x, Some y => st_set v (y + x) st | _, _ => None end
    | SIf c body =>
      match eval_cond c en st with
      | Some true => option_map (unwind body) (blk body en st)
      | Some false => Some st
      | None => None
      end
    | SFor x r body =>
      match eval_ref r en with
      | Some (RTList t, v) =>
        (fix iter (vs : list val) (st : state) {struct vs} : option state :=
           match vs with
           | [] => Some st
           | e :: vs' =>
             match option_map (unwind body) (blk body (env_bind x (rty_of t, e) en) st) with
             | Some st' => iter vs' st'
             | None => None
             end
           end) (list_of v) st
      | _ => None
      end
    | SMapFn i body =>
      match eval_ref (RF i) en with
      | Some (RTMap kk t, v) =>
        (fix iter (kvs : list (val * val)) (st : state) {struct kvs} : option state :=
           match kvs with
           | [] => Some st
           | kv :: kvs' =>
             match option_map (unwind body)
                     (blk body (env_bind VV (rty_of t, snd kv) (env_bind VK (RTScalar kk, fst kv) en)) st) with
             | Some st' => iter kvs' st'
             | None => None
             end
           end) (entries_of v) st
      | _ => None
      end
    | SSwitch o cases =>
      match e_case en with
      | Some _ => None                                (* x is a wrapper here: it has no oneof field *)
      | None =>
        (fix find (cs : list (nat * list stmt)) {struct cs} : option state :=
           match cs with
           | [] => Some st                            (* no clause matches (there is no default clause) *)
           | (j, body) :: cs' =>
             match nth_error fs j, nth_error slots j with
             | Some f, Some sl =>
               match f_shape f with
               | Member o' =>
                 if Nat.eqb o' o then
                   match sl with
                   | VSome _ => option_map (unwind body) (blk body (env_case j en) st)
                   | _ => find cs'                    (* another member, nothing, or a typed-nil wrapper (break) *)
                   end
                 else None
               | _ => None
               end
             | _, _ => None
             end
           end) cases
      end
    end.

  Fixpoint run (b : list stmt) (en : env) (st : state) {struct b} : option state :=
    match b with
    | [] => Some st
    | s :: b' => match exec s en st with Some st' => run b' en st' | None => None end
    end.
End Run.

(* the closure applied to input.Message = v:  x == nil -> Size 0;  otherwise run the body and return n *)
Definition run_size (sch : schema) (mid : nat) (p : list stmt) (v : val) : option N :=
  match v with
  | VNil => Some 0
  | VMsg slots unk =>
    match get_msg sch mid with
    | Some md =>
      match run sch (m_fields md) slots unk p env_init st_init with
      | Some st => st_get IN st
      | None => None
      end
    | None => None
    end
  | _ => None
  end.

(* ---- the program the template emits (proto_size.go, proto3; groups are rejected by the generator) ------- *)
Definition xadd3 (a b c : sexpr) : sexpr := XAdd (XAdd a b) c.                 (* a + b + c as Go parses it *)
(* n += <key> + l + runtime.Sov(uint64(l)) *)
Definition add_len_l (key : N) : stmt := SAdd IN (xadd3 (XNum key) (XInt IL) (XSov (XInt IL))).
Definition guard (oneof : bool) (c : cond) (body : list stmt) : list stmt := if oneof then body else [SIf c body].

Definition fixed_width (k : kind) : N :=
  match k with KFixed64 | KSfixed64 | KDouble => 8 | _ => 4 end.

(* field(): the part inside the `if len(x.F) > 0 {` / `if x.F != nil {` wrapper, for a non-map field *)
Definition canon_inner (i : nat) (f : field) (oneof : bool) : list stmt :=
  let r := RF i in
  let packed := match f_shape f with Rep true => true | _ => false end in
  let repeated := match f_shape f with Rep _ | MapOf _ => true | _ => false end in
  let wt := if packed then WT_BYTES else ftype_wt (f_ty f) in
  let key := key_size (f_num f) wt in
  match f_ty f with
  | TMsg _ =>
    if repeated then [SFor VE r [SSet IL (XSize (RV VE)); add_len_l key]]
    else [SSet IL (XSize r); add_len_l key]
  | TScalar k =>
    match k with
    | KFixed64 | KSfixed64 | KFixed32 | KSfixed32 | KDouble | KFloat =>
      let w := fixed_width k in
      let c := match k with KDouble | KFloat => CNonZeroOrSign r | _ => CNonZero r end in
      if packed then [SAdd IN (xadd3 (XNum key) (XSov (XMul (XLen r) (XNum w))) (XMul (XLen r) (XNum w)))]
      else if repeated then [SAdd IN (XMul (XNum (key + w)) (XLen r))]
      else guard oneof c [SAdd IN (XNum (key + w))]
    | KInt64 | KUint64 | KUint32 | KEnum | KInt32 | KSint32 | KSint64 =>
      let sz := match k with KSint32 | KSint64 => XSoz | _ => XSov end in
      if packed then [SSet IL (XNum 0); SFor VE r [SAdd IL (sz (XCast (RV VE)))];
                      SAdd IN (xadd3 (XNum key) (XSov (XInt IL)) (XInt IL))]
      else if repeated then [SFor VE r [SAdd IN (XAdd (XNum key) (sz (XCast (RV VE))))]]
      else guard oneof (CNonZero r) [SAdd IN (XAdd (XNum key) (sz (XCast r)))]
    | KBool =>
      if packed then [SAdd IN (xadd3 (XNum key) (XSov (XLen r)) (XMul (XLen r) (XNum 1)))]
      else if repeated then [SAdd IN (XMul (XNum (key + 1)) (XLen r))]
      else guard oneof (CTrue r) [SAdd IN (XNum (key + 1))]
    | KString | KBytes =>
      let x := match k with KString => VS | _ => VB end in
      if repeated then [SFor x r [SSet IL (XLen (RV x)); add_len_l key]]
      else SSet IL (XLen r) :: guard oneof (CIntPos IL) [add_len_l key]
    end
  end.

(* the SiZeMaP closure body of a map field *)
Fixpoint xsum (first : sexpr) (rest : list sexpr) : sexpr :=            (* strings.Join(sum, "+"), parsed by Go *)
  match rest with [] => first | e :: rest' => xsum (XAdd first e) rest' end.

Definition canon_map_body (f : field) (kk : kind) : list stmt :=
  let k := RV VK in
  let v := RV VV in
  let key_key := key_size 1 (kind_wt kk) in
  let val_key := key_size 2 (ftype_wt (f_ty f)) in
  let field_key := key_size (f_num f) WT_BYTES in
  let ksum :=
    match kk with
    | KDouble | KFixed64 | KSfixed64 => [XNum 8]
    | KFloat | KFixed32 | KSfixed32 => [XNum 4]
    | KInt64 | KUint64 | KUint32 | KEnum | KInt32 => [XSov (XCast k)]
    | KBool => [XNum 1]
    | KString | KBytes => [XLen k; XSov (XLen k)]
    | KSint32 | KSint64 => [XSoz (XCast k)]
    end in
  let '(pre, vsum) :=
    match f_ty f with
    | TMsg _ =>
      ([SDecl IL (XNum 0); SIf (CNotNil v) [SSet IL (XSize v)]; SAdd IL (XAdd (XNum val_key) (XSov (XInt IL)))],
       [XInt IL])
    | TScalar vk =>
      match vk with
      | KDouble | KFixed64 | KSfixed64 => ([], [XNum val_key; XNum 8])
      | KFloat | KFixed32 | KSfixed32 => ([], [XNum val_key; XNum 4])
      | KInt64 | KUint64 | KUint32 | KEnum | KInt32 => ([], [XNum val_key; XSov (XCast v)])
      | KBool => ([], [XNum val_key; XNum 1])
      | KString => ([], [XNum val_key; XLen v; XSov (XLen v)])
      | KBytes => ([SSet IL (xadd3 (XNum val_key) (XLen v) (XSov (XLen v)))], [XInt IL])
      | KSint32 | KSint64 => ([], [XNum val_key; XSoz (XCast v)])
      end
    end in
  pre ++ [SDecl IEntry (xsum (XNum key_key) (ksum ++ vsum));
          SAdd IN (xadd3 (XInt IEntry) (XNum field_key) (XSov (XInt IEntry)))].

(* field(proto3, field, oneof) *)
Definition canon_field (i : nat) (f : field) (oneof : bool) : list stmt :=
  let r := RF i in
  let repeated := match f_shape f with Rep _ | MapOf _ => true | _ => false end in
  let nullable := match f_ty f with TMsg _ => true | TScalar _ => false end in
  let inner := match f_shape f with
               | MapOf kk => [SMapFn i (canon_map_body f kk)]
               | _ => canon_inner i f oneof
               end in
  if oneof then inner
  else if repeated then [SIf (CLenPos r) inner]
  else if nullable then [SIf (CNotNil r) inner]
  else inner.

Fixpoint sp_indexed {A} (i : nat) (l : list A) : list (nat * A) :=
  match l with [] => [] | a :: t => (i, a) :: sp_indexed (S i) t end.

(* the case clauses of oneof o: its members in declaration order *)
Definition canon_cases (fs : list field) (o : nat) : list (nat * list stmt) :=
  map (fun jf => (fst jf, canon_field (fst jf) (snd jf) true))
      (filter (fun jf => member_of o (snd jf)) (sp_indexed 0 fs)).

(* genSizeMethod: fields in declaration order; a oneof is emitted once, where its first member stands *)
Definition canon_fields (fs : list field) : list stmt :=
  concat (map (fun jf =>
                 let i := fst jf in
                 let f := snd jf in
                 match f_shape f with
                 | Member o => if existsb (member_of o) (firstn i fs) then [] else [SSwitch o (canon_cases fs o)]
                 | _ => canon_field i f false
                 end) (sp_indexed 0 fs)).

Definition canon_tail : list stmt := [SIf CUnkNotNil [SAdd IN XLenUnk]].

Definition canon_size (sch : schema) (mid : nat) : list stmt :=
  match get_msg sch mid with
  | Some md => canon_fields (m_fields md) ++ canon_tail
  | None => []
  end.

(* ---- the statement task T2 proves (it becomes Theorem size_prog_correct in Properties/C04.v) ------------ *)
Definition size_prog_correct_stmt : Prop :=
  forall sch mid v, wf sch = true -> wt_msg sch mid v = true ->
    run_size sch mid (canon_size sch mid) v = Some (msg_size sch mid v).

(* the same statement on one case, for the driver (evaluated as a law on every case of a run) *)
Definition size_prog_law (sch : schema) (mid : nat) (v : val) : bool :=
  negb (wf sch && wt_msg sch mid v) ||
  match run_size sch mid (canon_size sch mid) v with
  | Some n => n =? msg_size sch mid v
  | None => false
  end.
