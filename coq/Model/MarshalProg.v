(* Model/MarshalProg.v — "MarshalProg": a tiny imperative language that is the literal image of the statements
   the marshal template (features/fastreflection/proto_marshal.go: genMarshalMethod, marshalField, mapField,
   marshalBackward, reverseListRange, encodeFixed64/32, encodeVarint, encodeKey) prints into the
   `marshal := func(input protoiface.MarshalInput) (protoiface.MarshalOutput, error) {…}` closure of every generated
   message type; its interpreter over the model's message values; and [canon_marshal], the program the template emits
   for a message type, computed from the schema alone.

   Use (DESIGN: translator tie, as Model/SizeProg.v). On every run the Go runner (engine "marshalprog") parses every
   generated *.pulsar.go with go/parser and translates the body of every marshal closure, statement by statement and
   purely syntactically, into this syntax (or fails: "untranslatable"). The driver compares the translated program with
   [canon_marshal sch mid] (syntactic equality, [mprog_eqb]) and runs the translated program with [run_marshal] on
   sample values against proto.MarshalOptions{Deterministic: det}.Marshal of the running code. The statement
   [marshal_prog_correct_stmt] (end of file; to be proved in Proofs/) ties [canon_marshal] to Codec.emit for all
   schemas and values.

   The buffer. The closure allocates dAtA := make([]byte, size), sets i := len(dAtA) and fills dAtA from the back:
   every write goes to the bytes just below everything written so far. The interpreter therefore keeps, instead of
   (dAtA, i), the byte list written so far, [ms_out] = dAtA[i+gap:], and a pending reservation [ms_gap]:
     i--  /  i -= e                     reserve 1 / e bytes (gap := Some n); only legal when nothing is pending
     dAtA[i] = b                        fill a 1-byte reservation: out := b :: out
     copy(dAtA[i:], bs)                 fill a reservation of exactly len(bs) bytes: out := bs ++ out
     binary.LittleEndian.PutUint32/64   fill a reservation of exactly 4 / 8 bytes with the little-endian bytes
     i = runtime.EncodeVarint(dAtA,i,v) out := enc_varint v ++ out (Runtime.EncodeVarint writes the varint of v just below
                                        offset i: Proofs/RuntimeProofs.v), only legal when nothing is pending
     i -= pksize; j := i; for … { <varint of num written at dAtA[j…], j++> }
                                        the forward packed loop: [ms_fwd] collects the bytes written upwards from j; the next
                                        backward statement (and the end of the program) "settles" the reservation: the bytes
                                        written forward must fill it exactly (length fwd = pksize), then out := fwd ++ out.
   Whatever does not fit this discipline (a write with no or a wrong-sized reservation, a reservation never filled,
   a forward loop that writes fewer or more bytes than reserved) makes the interpreter answer None: such a program
   would leave zero bytes in, or overwrite, what is already written. (The translator also refuses, statically, a
   reserve statement that is not directly followed by its filling statement.)
   [run_marshal] returns the bytes written (dAtA[i:] at the end). The closure's prologue and epilogue are matched
   literally by the translator and are not part of the program: x == nil returns input.Buf unchanged (run_marshal of
   VNil = Some []); size := options.Size(x); dAtA := make([]byte, size); i := len(dAtA); …;
   `if input.Buf != nil { input.Buf = append(input.Buf, dAtA...) } else { input.Buf = dAtA }`. Their meaning is
   Codec.pulsar_marshal / Extra.pulsar_marshal_append: with bs = the bytes written and n = msg_size, the result is
   prefix ++ bs when length bs = n, prefix ++ zeros(n - length bs) ++ bs when fewer bytes were written than
   allocated, and an index-out-of-range panic when more (i would go below 0).

   Conventions
   * Go `int` (i, l, pksize, len(…), baseI-i) is modelled unbounded (N): lengths stay below 2^63 for every value that
     fits in memory. The conversions `uint64(<int expression>)` in the third argument of EncodeVarint and
     `uint64(…)`/`uint32(…)` around an expression that already is an unsigned word (math.Float64bits(…), f<N>, x<N>,
     the zig-zag expression) are the identity and are dropped by the translator; `uint64(<scalar reference>)` and
     `uint32(<scalar reference>)` are [MeC64]/[MeC32] (sign extension / truncation by the Go type of the scalar).
   * Go struct state -> val: as in Schema.v and SizeProg.v (nil list/map/bytes/message = VNil; oneof = one slot per
     member). The case clauses of the marshal closure have no `if x == nil { break }`: a typed-nil wrapper in the
     oneof interface field makes the generated code dereference nil (panic); [val] has no such state (the runner's
     value reader renders it as "not set") and it is outside the model.
   * The numbered local variables f<N>, x<N>, j<N>, pksize<N> (numGen counter of the template) are one slot each
     ([MvF], [MvX], ms_fwd, ms_pk): the translator checks, through the identifier resolution of go/parser, that every
     use refers to the most recent declaration of its slot that is in scope, so the number carries no meaning.
   * `encoded, err := options.Marshal(r)` followed by the literal error-return block is one statement, [MsMarshal]:
     the child's bytes are [emit sch det child_type child_value] (Codec.v; [] for a nil pointer, which is what
     proto.MarshalOptions.Marshal answers for a nil message). Errors of the child are not modelled (emit is total).
   * Maps. `MaRsHaLmAp := func(k K, v V) (…) { baseI := i; …; return protoiface.MarshalOutput{}, nil }` followed by the
     `if options.Deterministic { keys…; sort.Slice(keys, <comparator>); for iNdEx := len(keys) - 1; iNdEx >= 0; iNdEx-- {…} }
     else { for k := range x.F {…} }` boilerplate (matched as a whole by the translator) is [MsMapFn i cmp body]: the
     closure body is run once per entry. Order: under Deterministic the Go code sorts the keys ascending with the
     comparator and visits them from the LAST to the first; since the buffer is filled from the back the entries end up
     in ASCENDING key order in the output. The interpreter takes [ordered] = Codec.isort (key_ltb kk) of the entries
     when det (the very sorting function Codec.emit uses, so the orders agree by construction) and the VMap list order
     otherwise (Schema.v: the order of a VMap list is the order in which the entries appear in the output, i.e. the
     reverse of the order in which Go's `range` happened to visit them), and visits [rev ordered], prepending each entry.
     The comparator form printed ([MkLt]: keys[i] < keys[j]; [MkBool]: !keys[i] && keys[j]) must be the one that
     type-checks for the key kind (bool keys: MkBool, all others: MkLt), else None.
   * x.unknownFields: val does not distinguish nil from empty; `x.unknownFields != nil` is read as "non-empty" (the
     guarded statements write len(x.unknownFields) = 0 bytes for an empty non-nil slice).
   * `for iNdEx := len(x.F) - 1; iNdEx >= 0; iNdEx-- { body }` ([MsForRev i]) runs the body for the elements of the list
     from the last to the first; `x.F[iNdEx]` ([MrIdx i]) is the current element.
   * the seven lines  for X >= 1<<7 { dAtA[J] = uint8(uint64(X)&0x7f | 0x80); X >>= 7; J++ }; dAtA[J] = uint8(X); J++
     (sint kinds: J++ before X >>= 7) are one statement, [MsPutVarintJ X inc_first]: it appends Bytes.enc_varint X (which
     is that loop) to the bytes written forward from j.
   Executable definitions only. *)
From CP Require Export Schema Codec WF SizeProg.
Local Open Scope N_scope.

(* ---- syntax ------------------------------------------------------------------------------------ *)
Inductive mvar := MvNum | MvNum1 | MvK | MvV | MvF | MvX.     (* num, num1, k, v, f<N>, x<N> *)
Inductive mref :=
| MrF (i : nat)      (* x.<GoName of field i>; inside the case clause of member i: the wrapper's payload field *)
| MrIdx (i : nat)    (* x.<GoName of field i>[iNdEx] *)
| MrV (x : mvar)     (* a range / closure variable holding a value of the message *)
| MrEnc              (* encoded *)
| MrUnk.             (* x.unknownFields *)
Inductive mexpr :=
| MeNum (z : N)                         (* integer literal *)
| MeLen (r : mref)                      (* len(r) *)
| MeMul (a b : mexpr)                   (* a * b *)
| MeC64 (r : mref)                      (* uint64(r), r an integer or enum scalar *)
| MeC32 (r : mref)                      (* uint32(r), r an integer scalar *)
| MeBits64 (r : mref)                   (* math.Float64bits(float64(r)) *)
| MeBits32 (r : mref)                   (* math.Float32bits(float32(r)) *)
| MeZig (w32 : bool) (r : mref) (sh : N) (* (uint32(r) << 1) ^ uint32((r >> sh))   /   (uint64(r) << 1) ^ uint64((r >> sh)) *)
| MePk                                  (* pksize<N> *)
| MeBase                                (* baseI - i *)
| MeLoc (x : mvar)                      (* f<N>, x<N>: a local holding an unsigned word *)
| MeSov (e : mexpr)                     (* runtime.Sov(e) *)
| MeSoz (e : mexpr).                    (* runtime.Soz(e) *)
Inductive mcond :=
| McLenPos (r : mref)          (* len(r) > 0 *)
| McNotNil (r : mref)          (* r != nil, r a message pointer *)
| McNonZero (r : mref)         (* r != 0 *)
| McTrue (r : mref)            (* r, a bool *)
| McNonZeroOrSign (r : mref)   (* r != 0 || math.Signbit(r)   (float32: math.Signbit(float64(r))) *)
| McUnkNotNil.                 (* x.unknownFields != nil *)
Inductive mcmp := MkLt | MkBool.  (* return keys[i] < keys[j]   |   return !keys[i] && keys[j] *)
Inductive mstmt :=
| MsDec                                   (* i-- *)
| MsSub (e : mexpr)                       (* i -= e *)
| MsByte (b : N)                          (* dAtA[i] = <byte literal> *)
| MsCopy (r : mref)                       (* copy(dAtA[i:], r) *)
| MsPut32 (e : mexpr)                     (* binary.LittleEndian.PutUint32(dAtA[i:], uint32(e)) *)
| MsPut64 (e : mexpr)                     (* binary.LittleEndian.PutUint64(dAtA[i:], uint64(e)) *)
| MsVarint (e : mexpr)                    (* i = runtime.EncodeVarint(dAtA, i, uint64(e)) *)
| MsDecl (x : mvar) (e : mexpr)           (* x := e          (f<N> := …bits(…), x<N> := <zig-zag>, num := uint64(num1)) *)
| MsMarshal (r : mref)                    (* encoded, err := options.Marshal(r); if err != nil { return <MarshalOutput>, err } *)
| MsBaseI                                 (* baseI := i *)
| MsVarPk                                 (* var pksize<N> int *)
| MsAddPk (e : mexpr)                     (* pksize<N> += e *)
| MsDeclJ                                 (* j<N> := i *)
| MsPutVarintJ (x : mvar) (inc_first : bool)   (* the varint of x written at dAtA[j<N>…], j<N> advanced (header) *)
| MsIf (c : mcond) (body : list mstmt)
| MsIfElse (c : mcond) (a b : list mstmt)
| MsForRev (i : nat) (body : list mstmt)  (* for iNdEx := len(x.F) - 1; iNdEx >= 0; iNdEx-- { body } *)
| MsFor (x : mvar) (r : mref) (body : list mstmt)          (* for _, x := range r { body } *)
| MsMapFn (i : nat) (c : mcmp) (body : list mstmt)         (* MaRsHaLmAp closure of map field i + iteration boilerplate *)
| MsSwitch (oneof : nat) (cases : list (nat * list mstmt)). (* switch x := x.<Oneof>.(type) { case *<wrapper of field j>: body … } *)

(* ---- decidable equality -------------------------------------------------------------------------- *)
Definition mvar_eqb (a b : mvar) : bool :=
  match a, b with
  | MvNum, MvNum | MvNum1, MvNum1 | MvK, MvK | MvV, MvV | MvF, MvF | MvX, MvX => true
  | _, _ => false
  end.
Definition mref_eqb (a b : mref) : bool :=
  match a, b with
  | MrF i, MrF j => Nat.eqb i j
  | MrIdx i, MrIdx j => Nat.eqb i j
  | MrV x, MrV y => mvar_eqb x y
  | MrEnc, MrEnc => true
  | MrUnk, MrUnk => true
  | _, _ => false
  end.
Fixpoint mexpr_eqb (a b : mexpr) : bool :=
  match a, b with
  | MeNum x, MeNum y => x =? y
  | MeLen r, MeLen s => mref_eqb r s
  | MeMul x1 x2, MeMul y1 y2 => mexpr_eqb x1 y1 && mexpr_eqb x2 y2
  | MeC64 r, MeC64 s => mref_eqb r s
  | MeC32 r, MeC32 s => mref_eqb r s
  | MeBits64 r, MeBits64 s => mref_eqb r s
  | MeBits32 r, MeBits32 s => mref_eqb r s
  | MeZig w r n, MeZig w' s n' => Bool.eqb w w' && mref_eqb r s && (n =? n')
  | MePk, MePk => true
  | MeBase, MeBase => true
  | MeLoc x, MeLoc y => mvar_eqb x y
  | MeSov x, MeSov y => mexpr_eqb x y
  | MeSoz x, MeSoz y => mexpr_eqb x y
  | _, _ => false
  end.
Definition mcond_eqb (a b : mcond) : bool :=
  match a, b with
  | McLenPos r, McLenPos s | McNotNil r, McNotNil s | McNonZero r, McNonZero s
  | McTrue r, McTrue s | McNonZeroOrSign r, McNonZeroOrSign s => mref_eqb r s
  | McUnkNotNil, McUnkNotNil => true
  | _, _ => false
  end.
Definition mcmp_eqb (a b : mcmp) : bool :=
  match a, b with MkLt, MkLt | MkBool, MkBool => true | _, _ => false end.
(* (the recursion is on the statement; the statement lists inside it are walked by local fixpoints) *)
Fixpoint mstmt_eqb (s t : mstmt) {struct s} : bool :=
  let peq := fix peq (a b : list mstmt) {struct a} : bool :=
      match a, b with
      | [], [] => true
      | x :: a', y :: b' => mstmt_eqb x y && peq a' b'
      | _, _ => false
      end in
  match s, t with
  | MsDec, MsDec => true
  | MsSub e, MsSub f => mexpr_eqb e f
  | MsByte x, MsByte y => x =? y
  | MsCopy r, MsCopy q => mref_eqb r q
  | MsPut32 e, MsPut32 f => mexpr_eqb e f
  | MsPut64 e, MsPut64 f => mexpr_eqb e f
  | MsVarint e, MsVarint f => mexpr_eqb e f
  | MsDecl x e, MsDecl y f => mvar_eqb x y && mexpr_eqb e f
  | MsMarshal r, MsMarshal q => mref_eqb r q
  | MsBaseI, MsBaseI => true
  | MsVarPk, MsVarPk => true
  | MsAddPk e, MsAddPk f => mexpr_eqb e f
  | MsDeclJ, MsDeclJ => true
  | MsPutVarintJ x o, MsPutVarintJ y o' => mvar_eqb x y && Bool.eqb o o'
  | MsIf c x, MsIf d y => mcond_eqb c d && peq x y
  | MsIfElse c x1 x2, MsIfElse d y1 y2 => mcond_eqb c d && peq x1 y1 && peq x2 y2
  | MsForRev i p, MsForRev j p' => Nat.eqb i j && peq p p'
  | MsFor x r p, MsFor y q p' => mvar_eqb x y && mref_eqb r q && peq p p'
  | MsMapFn i c p, MsMapFn j c' p' => Nat.eqb i j && mcmp_eqb c c' && peq p p'
  | MsSwitch o cs, MsSwitch o' cs' =>
    Nat.eqb o o' &&
    (fix ceq (cs : list (nat * list mstmt)) (cs' : list (nat * list mstmt)) {struct cs} : bool :=
       match cs, cs' with
       | [], [] => true
       | (j, p) :: r, (j', p') :: r' => Nat.eqb j j' && peq p p' && ceq r r'
       | _, _ => false
       end) cs cs'
  | _, _ => false
  end.
Fixpoint mprog_eqb (a b : list mstmt) {struct a} : bool :=
  match a, b with
  | [], [] => true
  | x :: a', y :: b' => mstmt_eqb x y && mprog_eqb a' b'
  | _, _ => false
  end.

(* ---- interpreter ---------------------------------------------------------------------------------- *)
(* what a local variable holds: a value of the message (range / closure variables) or an unsigned word (:= declarations) *)
Inductive mbind := MbVal (tv : rty * val) | MbWord (w : N).

(* environment (scoped: a block's declarations are dropped when the block is left) *)
Record menv := {
  me_case : option nat;                       (* inside the case clause of that member: x is its wrapper *)
  me_idx : option (nat * (rty * val));        (* inside `for iNdEx …` over field i: the current element x.F[iNdEx] *)
  me_vars : list (mvar * mbind);
  me_enc : option (list byte);                (* encoded *)
  me_base : option N                          (* baseI, as the number of bytes written when it was taken *)
}.
Definition menv_init : menv := {| me_case := None; me_idx := None; me_vars := []; me_enc := None; me_base := None |}.
Definition me_bind (x : mvar) (b : mbind) (en : menv) : menv :=
  {| me_case := me_case en; me_idx := me_idx en; me_vars := (x, b) :: me_vars en; me_enc := me_enc en; me_base := me_base en |}.
Definition me_with_case (j : nat) (en : menv) : menv :=
  {| me_case := Some j; me_idx := me_idx en; me_vars := me_vars en; me_enc := me_enc en; me_base := me_base en |}.
Definition me_with_idx (i : nat) (tv : rty * val) (en : menv) : menv :=
  {| me_case := me_case en; me_idx := Some (i, tv); me_vars := me_vars en; me_enc := me_enc en; me_base := me_base en |}.
Definition me_with_enc (bs : list byte) (en : menv) : menv :=
  {| me_case := me_case en; me_idx := me_idx en; me_vars := me_vars en; me_enc := Some bs; me_base := me_base en |}.
Definition me_with_base (n : N) (en : menv) : menv :=
  {| me_case := me_case en; me_idx := me_idx en; me_vars := me_vars en; me_enc := me_enc en; me_base := Some n |}.
Fixpoint mp_lookup (x : mvar) (l : list (mvar * mbind)) : option mbind :=
  match l with
  | [] => None
  | (y, b) :: t => if mvar_eqb x y then Some b else mp_lookup x t
  end.

(* state: the bytes written so far, the pending reservation, the bytes written forward into it, pksize *)
Record mstate := { ms_out : list byte; ms_gap : option N; ms_fwd : option (list byte); ms_pk : option N }.
Definition mstate_init : mstate := {| ms_out := []; ms_gap := None; ms_fwd := None; ms_pk := None |}.
Definition mp_len (bs : list byte) : N := N.of_nat (length bs).

(* before a backward statement and at the end: nothing pending, or a reservation exactly filled by forward writes *)
Definition mp_settle (st : mstate) : option mstate :=
  match ms_gap st, ms_fwd st with
  | None, None => Some st
  | Some n, Some bs =>
    if mp_len bs =? n then Some {| ms_out := bs ++ ms_out st; ms_gap := None; ms_fwd := None; ms_pk := ms_pk st |} else None
  | _, _ => None
  end.
Definition mp_reserve (n : N) (st : mstate) : option mstate :=
  match mp_settle st with
  | Some s => Some {| ms_out := ms_out s; ms_gap := Some n; ms_fwd := None; ms_pk := ms_pk s |}
  | None => None
  end.
(* a write of bs at dAtA[i:] into a reservation of exactly that size *)
Definition mp_fill (bs : list byte) (st : mstate) : option mstate :=
  match ms_gap st, ms_fwd st with
  | Some n, None =>
    if mp_len bs =? n then Some {| ms_out := bs ++ ms_out st; ms_gap := None; ms_fwd := None; ms_pk := ms_pk st |} else None
  | _, _ => None
  end.
Definition mp_prepend (bs : list byte) (st : mstate) : option mstate :=
  match mp_settle st with
  | Some s => Some {| ms_out := bs ++ ms_out s; ms_gap := None; ms_fwd := None; ms_pk := ms_pk s |}
  | None => None
  end.

Definition mp_is_int (k : kind) : bool :=
  match k with
  | KInt32 | KInt64 | KUint32 | KUint64 | KSint32 | KSint64 | KFixed32 | KFixed64 | KSfixed32 | KSfixed64 | KEnum => true
  | _ => false
  end.
(* (uintW(r) << 1) ^ uintW((r >> sh)) on the mathematical value z of r *)
Definition mp_zig (w32 : bool) (z : Z) (sh : N) : N :=
  if w32 then N.lxor (u32 (N.shiftl (z2u32 z) 1)) (z2u32 (Z.shiftr z (Z.of_N sh)))
  else N.lxor (u64 (N.shiftl (z2u64 z) 1)) (z2u64 (Z.shiftr z (Z.of_N sh))).

Section MRun.
  Variable sch : schema.
  Variable det : bool.
  Variable fs : list field.        (* the message type's declared fields *)
  Variable slots : list val.       (* the struct: one slot per field *)
  Variable unk : list byte.        (* x.unknownFields *)

  Definition mp_ref (r : mref) (en : menv) : option (rty * val) :=
    match r with
    | MrF i => eval_ref fs slots (RF i) {| e_case := me_case en; e_vars := [] |}      (* SizeProg: field access by scope *)
    | MrIdx i => match me_idx en with Some (j, tv) => if Nat.eqb i j then Some tv else None | None => None end
    | MrV x => match mp_lookup x (me_vars en) with Some (MbVal tv) => Some tv | _ => None end
    | MrEnc => match me_enc en with Some bs => Some (RTScalar KBytes, VBytes bs) | None => None end
    | MrUnk => match me_case en with None => Some (RTScalar KBytes, VBytes unk) | Some _ => None end
    end.

  Definition mp_cast32 (tv : rty * val) : option N :=
    match tv with
    | (RTScalar k, v) => if mp_is_int k then Some (as_u32 v) else None
    | _ => None
    end.
  Definition mp_bits (want : kind) (tv : rty * val) : option N :=
    match tv with
    | (RTScalar k, v) => if kind_eqb k want then Some (as_bits v) else None
    | _ => None
    end.
  Definition mp_zig_of (w32 : bool) (sh : N) (tv : rty * val) : option N :=
    match tv with
    | (RTScalar k, v) => if mp_is_int k then Some (mp_zig w32 (as_z v) sh) else None
    | _ => None
    end.
  Definition mp_bytes_of (tv : rty * val) : option (list byte) :=
    match tv with
    | (RTScalar KString, v) | (RTScalar KBytes, v) => Some (as_bytes v)
    | _ => None
    end.
  Definition obind_bytes (o : option (rty * val)) : option (list byte) :=
    match o with Some tv => mp_bytes_of tv | None => None end.
  (* a local read as an unsigned word: a := declaration, or a range variable of an unsigned Go type *)
  Definition mp_word (x : mvar) (en : menv) : option N :=
    match mp_lookup x (me_vars en) with
    | Some (MbWord w) => Some w
    | Some (MbVal (RTScalar (KUint32 | KUint64 | KFixed32 | KFixed64), v)) => Some (as_u64 v)
    | _ => None
    end.

  Fixpoint mp_eval (e : mexpr) (en : menv) (st : mstate) : option N :=
    match e with
    | MeNum z => Some z
    | MeLen r => obindN (mp_ref r en) eval_len
    | MeMul a b => match mp_eval a en st, mp_eval b en st with Some x, Some y => Some (x * y) | _, _ => None end
    | MeC64 r => obindN (mp_ref r en) eval_cast
    | MeC32 r => obindN (mp_ref r en) mp_cast32
    | MeBits64 r => obindN (mp_ref r en) (mp_bits KDouble)
    | MeBits32 r => obindN (mp_ref r en) (mp_bits KFloat)
    | MeZig w r sh => obindN (mp_ref r en) (mp_zig_of w sh)
    | MePk => ms_pk st
    | MeBase =>
      match me_base en, ms_gap st, ms_fwd st with
      | Some b, None, None => Some (mp_len (ms_out st) - b)
      | _, _, _ => None
      end
    | MeLoc x => match mp_lookup x (me_vars en) with Some (MbWord w) => Some w | _ => None end
    | MeSov a => option_map Sov (mp_eval a en st)
    | MeSoz a => option_map Soz (mp_eval a en st)
    end.

  Definition mp_cond (c : mcond) (en : menv) : option bool :=
    match c with
    | McLenPos r => match obindN (mp_ref r en) eval_len with Some n => Some (0 <? n) | None => None end
    | McNotNil r => match mp_ref r en with Some (RTMsg _, v) => Some (negb (is_nil v)) | _ => None end
    | McNonZero r =>
      match mp_ref r en with
      | Some (RTScalar k, v) => if mp_is_int k then Some (negb (as_z v =? 0)%Z) else None
      | _ => None
      end
    | McTrue r => match mp_ref r en with Some (RTScalar KBool, v) => Some (as_bool v) | _ => None end
    | McNonZeroOrSign r =>
      match mp_ref r en with
      | Some (RTScalar (KFloat | KDouble), v) => Some (negb (as_bits v =? 0))     (* anything but +0 *)
      | _ => None
      end
    | McUnkNotNil => match me_case en with None => Some (negb (Nat.eqb (length unk) 0)) | Some _ => None end
    end.

  (* one statement: the environment for the rest of the enclosing block, and the new state. [blk] runs a statement
     list in sequence, threading both (it is [mp_run] below); the caller of a block keeps its own environment *)
  Fixpoint mp_exec (s : mstmt) (en : menv) (st : mstate) {struct s} : option (menv * mstate) :=
    let blk := fix blk (b : list mstmt) (en : menv) (st : mstate) {struct b} : option (menv * mstate) :=
        match b with
        | [] => Some (en, st)
        | s' :: b' => match mp_exec s' en st with Some (en', st') => blk b' en' st' | None => None end
        end in
    let keep := fun (o : option mstate) => match o with Some st' => Some (en, st') | None => None end in
    let block := fun (b : list mstmt) (en' : menv) (st : mstate) =>
        match blk b en' st with Some (_, st') => Some st' | None => None end in
    match s with
    | MsDec => keep (mp_reserve 1 st)
    | MsSub e => match mp_eval e en st with Some n => keep (mp_reserve n st) | None => None end
    | MsByte b => if b <? 256 then keep (mp_fill [n2b b] st) else None
    | MsCopy r => match obind_bytes (mp_ref r en) with Some bs => keep (mp_fill bs st) | None => None end
    | MsPut32 e =>
      match mp_eval e en st, ms_gap st with
      | Some w, Some 4 => keep (mp_fill (enc_fixed32 w) st)
      | _, _ => None
      end
    | MsPut64 e =>
      match mp_eval e en st, ms_gap st with
      | Some w, Some 8 => keep (mp_fill (enc_fixed64 w) st)
      | _, _ => None
      end
    | MsVarint e => match mp_eval e en st with Some w => keep (mp_prepend (enc_varint w) st) | None => None end
    | MsDecl x e => match mp_eval e en st with Some w => Some (me_bind x (MbWord w) en, st) | None => None end
    | MsMarshal r =>
      match mp_ref r en with
      | Some (RTMsg m, v) => Some (me_with_enc (emit sch det m v) en, st)
      | _ => None
      end
    | MsBaseI =>
      match ms_gap st, ms_fwd st with
      | None, None => Some (me_with_base (mp_len (ms_out st)) en, st)
      | _, _ => None
      end
    | MsVarPk => Some (en, {| ms_out := ms_out st; ms_gap := ms_gap st; ms_fwd := ms_fwd st; ms_pk := Some 0 |})
    | MsAddPk e =>
      match mp_eval e en st, ms_pk st with
      | Some w, Some p => Some (en, {| ms_out := ms_out st; ms_gap := ms_gap st; ms_fwd := ms_fwd st; ms_pk := Some (p + w) |})
      | _, _ => None
      end
    | MsDeclJ =>
      match ms_gap st, ms_fwd st with
      | Some _, None => Some (en, {| ms_out := ms_out st; ms_gap := ms_gap st; ms_fwd := Some []; ms_pk := ms_pk st |})
      | _, _ => None
      end
    | MsPutVarintJ x _ =>
      match mp_word x en, ms_fwd st with
      | Some w, Some bs =>
        Some (en, {| ms_out := ms_out st; ms_gap := ms_gap st; ms_fwd := Some (bs ++ enc_varint w); ms_pk := ms_pk st |})
      | _, _ => None
      end
    | MsIf c body =>
      match mp_cond c en with
      | Some true => keep (block body en st)
      | Some false => Some (en, st)
      | None => None
      end
    | MsIfElse c a b =>
      match mp_cond c en with
      | Some true => keep (block a en st)
      | Some false => keep (block b en st)
      | None => None
      end
    | MsForRev i body =>
      match mp_ref (MrF i) en with
      | Some (RTList t, v) =>
        keep ((fix iter (vs : list val) (st : mstate) {struct vs} : option mstate :=
                 match vs with
                 | [] => Some st
                 | e :: vs' =>
                   match block body (me_with_idx i (rty_of t, e) en) st with
                   | Some st' => iter vs' st'
                   | None => None
                   end
                 end) (rev (list_of v)) st)
      | _ => None
      end
    | MsFor x r body =>
      match mp_ref r en with
      | Some (RTList t, v) =>
        keep ((fix iter (vs : list val) (st : mstate) {struct vs} : option mstate :=
                 match vs with
                 | [] => Some st
                 | e :: vs' =>
                   match block body (me_bind x (MbVal (rty_of t, e)) en) st with
                   | Some st' => iter vs' st'
                   | None => None
                   end
                 end) (list_of v) st)
      | _ => None
      end
    | MsMapFn i c body =>
      match mp_ref (MrF i) en with
      | Some (RTMap kk t, v) =>
        if Bool.eqb (match c with MkBool => true | MkLt => false end) (kind_eqb kk KBool) then
          let entries := entries_of v in
          let ordered := if det then isort (fun a b => key_ltb kk (fst a) (fst b)) entries else entries in
          keep ((fix iter (kvs : list (val * val)) (st : mstate) {struct kvs} : option mstate :=
                   match kvs with
                   | [] => Some st
                   | kv :: kvs' =>
                     match block body (me_bind MvV (MbVal (rty_of t, snd kv)) (me_bind MvK (MbVal (RTScalar kk, fst kv)) en)) st with
                     | Some st' => iter kvs' st'
                     | None => None
                     end
                   end) (rev ordered) st)
        else None
      | _ => None
      end
    | MsSwitch o cases =>
      match me_case en with
      | Some _ => None                                (* x is a wrapper here: it has no oneof field *)
      | None =>
        keep ((fix find (cs : list (nat * list mstmt)) {struct cs} : option mstate :=
                 match cs with
                 | [] => Some st                      (* no clause matches (there is no default clause) *)
                 | (j, body) :: cs' =>
                   match nth_error fs j, nth_error slots j with
                   | Some f, Some sl =>
                     match f_shape f with
                     | Member o' =>
                       if Nat.eqb o' o then
                         match sl with
                         | VSome _ => block body (me_with_case j en) st
                         | _ => find cs'              (* another member or nothing is set *)
                         end
                       else None
                     | _ => None
                     end
                   | _, _ => None
                   end
                 end) cases)
      end
    end.

  Fixpoint mp_run (b : list mstmt) (en : menv) (st : mstate) {struct b} : option (menv * mstate) :=
    match b with
    | [] => Some (en, st)
    | s :: b' => match mp_exec s en st with Some (en', st') => mp_run b' en' st' | None => None end
    end.
End MRun.

(* the closure applied to input.Message = v:  x == nil -> Buf unchanged (no bytes);  otherwise run the body, settle,
   and return the bytes written (dAtA[i:]) *)
Definition run_marshal (sch : schema) (det : bool) (mid : nat) (p : list mstmt) (v : val) : option (list byte) :=
  match v with
  | VNil => Some []
  | VMsg slots unk =>
    match get_msg sch mid with
    | Some md =>
      match mp_run sch det (m_fields md) slots unk p menv_init mstate_init with
      | Some (_, st) => match mp_settle st with Some st' => Some (ms_out st') | None => None end
      | None => None
      end
    | None => None
    end
  | _ => None
  end.

(* the whole closure, prologue and epilogue included (Codec.pulsar_marshal with the bytes the program writes in place of
   emit): dAtA := make([]byte, size) with size = options.Size(x) = msg_size; writing more than size bytes is an index-out-of-range
   panic, writing fewer leaves leading zero bytes *)
Definition run_marshal_closure (sch : schema) (det : bool) (mid : nat) (p : list mstmt) (v : val) : option (outcome (list byte)) :=
  match run_marshal sch det mid p v with
  | Some bs =>
    let n := msg_size sch mid v in
    let l := mp_len bs in
    Some (if l =? n then Ok bs else if n <? l then Panic else Ok (repeat x00 (N.to_nat (n - l)) ++ bs))
  | None => None
  end.

(* ---- the program the template emits (proto_marshal.go, proto3; groups are rejected by the generator) ------- *)
(* encodeKey: keybuf (= Codec.key_bytes) printed from its last byte to its first, each as `i--; dAtA[i] = 0x..` *)
Definition mp_key (num wt : N) : list mstmt :=
  concat (map (fun b => [MsDec; MsByte (b2n b)]) (rev (key_bytes num wt))).
Definition mp_guard (oneof : bool) (c : mcond) (body : list mstmt) : list mstmt := if oneof then body else [MsIf c body].

(* encodeFixed64 / encodeFixed32 *)
Definition mp_put64 (e : mexpr) : list mstmt := [MsSub (MeNum 8); MsPut64 e].
Definition mp_put32 (e : mexpr) : list mstmt := [MsSub (MeNum 4); MsPut32 e].
(* the bool byte *)
Definition mp_putb (r : mref) : list mstmt := [MsDec; MsIfElse (McTrue r) [MsByte 1] [MsByte 0]].
(* string / bytes payload with its length *)
Definition mp_putbytes (r : mref) : list mstmt := [MsSub (MeLen r); MsCopy r; MsVarint (MeLen r)].
(* marshalBackward(r, true, _) *)
Definition mp_backward (r : mref) : list mstmt := MsMarshal r :: mp_putbytes MrEnc.
Definition mp_zz (k : kind) (r : mref) : mexpr :=
  match k with KSint32 => MeZig true r 31 | _ => MeZig false r 63 end.

(* marshalField(): the part inside the `if len(x.F) > 0 {` / `if x.F != nil {` wrapper, for a non-map field *)
Definition mp_field_inner (i : nat) (f : field) (oneof : bool) : list mstmt :=
  let r := MrF i in
  let x := MrIdx i in
  let packed := match f_shape f with Rep true => true | _ => false end in
  let repeated := match f_shape f with Rep _ | MapOf _ => true | _ => false end in
  let wt := if packed then WT_BYTES else ftype_wt (f_ty f) in
  let key := mp_key (f_num f) wt in
  match f_ty f with
  | TMsg _ =>
    if repeated then [MsForRev i (mp_backward x ++ key)]
    else mp_backward r ++ key
  | TScalar k =>
    match k with
    | KDouble =>
      if packed then [MsForRev i (MsDecl MvF (MeBits64 x) :: mp_put64 (MeLoc MvF)); MsVarint (MeMul (MeLen r) (MeNum 8))] ++ key
      else if repeated then [MsForRev i (MsDecl MvF (MeBits64 x) :: mp_put64 (MeLoc MvF) ++ key)]
      else mp_guard oneof (McNonZeroOrSign r) (mp_put64 (MeBits64 r) ++ key)
    | KFloat =>
      if packed then [MsForRev i (MsDecl MvF (MeBits32 x) :: mp_put32 (MeLoc MvF)); MsVarint (MeMul (MeLen r) (MeNum 4))] ++ key
      else if repeated then [MsForRev i (MsDecl MvF (MeBits32 x) :: mp_put32 (MeLoc MvF) ++ key)]
      else mp_guard oneof (McNonZeroOrSign r) (mp_put32 (MeBits32 r) ++ key)
    | KInt64 | KUint64 | KInt32 | KUint32 | KEnum =>
      if packed then
        [MsVarPk; MsFor MvNum r [MsAddPk (MeSov (MeC64 (MrV MvNum)))]; MsSub MePk; MsDeclJ;
         match k with
         | KUint64 | KUint32 => MsFor MvNum r [MsPutVarintJ MvNum false]
         | _ => MsFor MvNum1 r [MsDecl MvNum (MeC64 (MrV MvNum1)); MsPutVarintJ MvNum false]
         end;
         MsVarint MePk] ++ key
      else if repeated then [MsForRev i (MsVarint (MeC64 x) :: key)]
      else mp_guard oneof (McNonZero r) (MsVarint (MeC64 r) :: key)
    | KFixed64 | KSfixed64 =>
      if packed then [MsForRev i (mp_put64 (MeC64 x)); MsVarint (MeMul (MeLen r) (MeNum 8))] ++ key
      else if repeated then [MsForRev i (mp_put64 (MeC64 x) ++ key)]
      else mp_guard oneof (McNonZero r) (mp_put64 (MeC64 r) ++ key)
    | KFixed32 | KSfixed32 =>
      if packed then [MsForRev i (mp_put32 (MeC32 x)); MsVarint (MeMul (MeLen r) (MeNum 4))] ++ key
      else if repeated then [MsForRev i (mp_put32 (MeC32 x) ++ key)]
      else mp_guard oneof (McNonZero r) (mp_put32 (MeC32 r) ++ key)
    | KBool =>
      if packed then [MsForRev i (mp_putb x); MsVarint (MeLen r)] ++ key
      else if repeated then [MsForRev i (mp_putb x ++ key)]
      else mp_guard oneof (McTrue r) (mp_putb r ++ key)
    | KString | KBytes =>
      if repeated then [MsForRev i (mp_putbytes x ++ key)]
      else mp_guard oneof (McLenPos r) (mp_putbytes r ++ key)
    | KSint32 | KSint64 =>
      if packed then
        [MsVarPk; MsFor MvNum r [MsAddPk (MeSoz (MeC64 (MrV MvNum)))]; MsSub MePk; MsDeclJ;
         MsFor MvNum r [MsDecl MvX (mp_zz k (MrV MvNum)); MsPutVarintJ MvX true];
         MsVarint MePk] ++ key
      else if repeated then [MsForRev i (MsDecl MvX (mp_zz k x) :: MsVarint (MeLoc MvX) :: key)]
      else mp_guard oneof (McNonZero r) (MsVarint (mp_zz k r) :: key)
    end
  end.

(* mapField(kvField, varName) *)
Definition mp_mapfield (t : ftype) (r : mref) : list mstmt :=
  match t with
  | TMsg _ => mp_backward r
  | TScalar k =>
    match k with
    | KDouble => mp_put64 (MeBits64 r)
    | KFloat => mp_put32 (MeBits32 r)
    | KInt64 | KUint64 | KInt32 | KUint32 | KEnum => [MsVarint (MeC64 r)]
    | KFixed64 | KSfixed64 => mp_put64 (MeC64 r)
    | KFixed32 | KSfixed32 => mp_put32 (MeC32 r)
    | KBool => mp_putb r
    | KString | KBytes => mp_putbytes r
    | KSint32 | KSint64 => [MsVarint (mp_zz k r)]
    end
  end.

(* the MaRsHaLmAp closure body of a map field (without its final `return protoiface.MarshalOutput{}, nil`) *)
Definition mp_map_body (f : field) (kk : kind) : list mstmt :=
  MsBaseI ::
  mp_mapfield (f_ty f) (MrV MvV) ++ mp_key 2 (ftype_wt (f_ty f)) ++
  mp_mapfield (TScalar kk) (MrV MvK) ++ mp_key 1 (kind_wt kk) ++
  MsVarint MeBase :: mp_key (f_num f) WT_BYTES.
Definition mp_cmp (kk : kind) : mcmp := match kk with KBool => MkBool | _ => MkLt end.

(* marshalField(proto3, numGen, field, oneof) *)
Definition mp_field (i : nat) (f : field) (oneof : bool) : list mstmt :=
  let r := MrF i in
  let repeated := match f_shape f with Rep _ | MapOf _ => true | _ => false end in
  let nullable := match f_ty f with TMsg _ => true | TScalar _ => false end in
  let inner := match f_shape f with
               | MapOf kk => [MsMapFn i (mp_cmp kk) (mp_map_body f kk)]
               | _ => mp_field_inner i f oneof
               end in
  if oneof then inner
  else if repeated then [MsIf (McLenPos r) inner]
  else if nullable then [MsIf (McNotNil r) inner]
  else inner.

(* the case clauses of oneof o: its members in declaration order *)
Definition mp_cases (fs : list field) (o : nat) : list (nat * list mstmt) :=
  map (fun jf => (fst jf, mp_field (fst jf) (snd jf) true))
      (filter (fun jf => member_of o (snd jf)) (sp_indexed 0 fs)).

(* genMarshalMethod: unknownFields first; then one switch per oneof, from the last declared oneof to the first; then the
   fields outside oneofs from the highest field number to the lowest (sort.Slice by Desc.Number(), walked backwards: the
   same sort as Codec.assemble, reversed) *)
Definition mp_unk : list mstmt := [MsIf McUnkNotNil [MsSub (MeLen MrUnk); MsCopy MrUnk]].
Definition mp_oneofs (md : msgdesc) : list mstmt :=
  map (fun o => MsSwitch o (mp_cases (m_fields md) o)) (rev (seq 0 (m_oneofs md))).
Definition mp_plain (fs : list field) : list mstmt :=
  concat (map (fun jf => mp_field (fst jf) (snd jf) false)
              (rev (isort (fun a b => f_num (snd a) <? f_num (snd b))
                          (filter (fun jf => negb (is_member (snd jf))) (sp_indexed 0 fs))))).

Definition canon_marshal (sch : schema) (mid : nat) : list mstmt :=
  match get_msg sch mid with
  | Some md => mp_unk ++ mp_oneofs md ++ mp_plain (m_fields md)
  | None => []
  end.

(* ---- the statement the proof task proves (it becomes a Theorem in Properties/C02.v) ---------------------- *)
Definition marshal_prog_correct_stmt : Prop :=
  forall sch det mid v, wf sch = true -> wt_msg sch mid v = true ->
    run_marshal sch det mid (canon_marshal sch mid) v = Some (emit sch det mid v).

(* the same statement on one case, for the driver (evaluated as a law on every case of a run) *)
Fixpoint mp_bytes_eqb (a b : list byte) : bool :=
  match a, b with
  | [], [] => true
  | x :: a', y :: b' => Byte.eqb x y && mp_bytes_eqb a' b'
  | _, _ => false
  end.
Definition marshal_prog_law (sch : schema) (det : bool) (mid : nat) (v : val) : bool :=
  negb (wf sch && wt_msg sch mid v) ||
  match run_marshal sch det mid (canon_marshal sch mid) v with
  | Some bs => mp_bytes_eqb bs (emit sch det mid v)
  | None => false
  end.
