(* Model/GenProg.v — translator tie for the HAND-WRITTEN decision logic of the plugin (task T17):
     /repo/cmd/protoc-gen-go-pulsar/main.go   reservedFieldNames, rewriteMessageField, main (the loop over plugin.Files), generateAllFiles
     /repo/generator/features.go              defaultFeatures, findFeatures, RegisterFeature
   whose hand-written models are Model/GenNames.v (reserved, rewrite_field) and Model/GenOrder.v (find_features, generated).

   A statement language that is a literal image of what these functions are made of, an interpreter, the CANONICAL programs (the
   current source transcribed once; the engine "genprog" re-translates both files on every run and the driver compares, declaration
   by declaration, with these constants) and the statements that tie the canonical programs to GenNames.v / GenOrder.v
   (Definitions here; proofs in Proofs/GenProgProofs.v, theorems in Properties/C12.v and C13.v).

   Reading guide
   * Values [gpvalue]: strings, bools, ints (slice indexes of the sort comparator only), struct{}{} , slices (by value: append
     returns a new slice, no capacity, no aliasing), structs of a locally declared struct type, Go maps with string keys
     (REFERENCES: a nil map or a cell of the map heap [gp_maps]; `required = defaultFeatures` aliases), errors (nil or the format of
     fmt.Errorf with its string operands), feature values (opaque tokens [GpvFeat]), and the protogen objects — POINTERS into the
     plugin's object tree, which is part of the state: [GpvPlugin], [GpvFile i] = plugin.Files[i], [GpvMsg i p] = the message
     reached from file i by the path p of positions in .Messages, [GpvField i p k] / [GpvOneof i p k] = its k-th field / oneof.
     A write `field.GoName = s` changes the tree; every pointer to that object sees it (a path denotes one object: the tree of
     declarations has no sharing). [GpvZero] is the zero value of a type the interpreter does not know (the value next to
     ok = false in a comma-ok lookup): every use of it is stuck.
   * `range` over a map visits the entries in ANY order: the interpreter takes the order as a parameter [perm] (applied to the
     entries at loop entry; the statements quantify over every [perm] that permutes). `sort.Slice(x, func(i, j int) bool { return e })`
     takes the sort algorithm as a parameter [sorter]; the comparator is the printed expression evaluated with x bound to the two
     elements compared; the statements hold for every sorter that returns a sorted permutation whenever the comparator is a strict
     total order on the elements (stable or not: feature names are distinct map keys, so the sorted order is unique).
   * Library calls are one constructor each. Three of them stand for code of /repo that is NOT translated and are given the
     meaning of Model/GenOrder.v: `generator.NewGenerator(files, names, ext)` = call the TRANSLATED findFeatures and keep its
     features or hand its error on (generator.go lines 28-33); `gen.GenerateFile(plugin, gf, file)` = the file is proto3 and some
     feature of gen reports "generated" ([feat_gen], GenOrder.generated); `gf.P(…)` appends a line, `gf.Skip()` marks the file.
     `log.Printf` evaluates its operands and does nothing.
   * main: `var f flag.FlagSet; f.Var(poolable, "pool", …); f.StringVar(&features, "features", "all", …);
     protogen.Options{ParamFunc: f.Set}.Run(func(plugin *protogen.Plugin) error {…})` are three statement forms; Run hands every
     request parameter (those protogen does not consume itself) to the flag set — a string flag assigns its variable, an unknown
     flag ends the process [GpExit], a flag.Value flag would call a method that is not translated (stuck) — then runs the closure
     in the scope of main with the plugin bound; the error it returns is the response's error [gp_err].
   * What Go's compiler would reject is "stuck" [GpStuck]; a nil-map assignment and an index out of range are [GpPanic]. Only calls
     consume fuel (the interpreter is structurally recursive on the syntax; loops run over the finite list they range over).
   * Names: extracted into the same OCaml module as the other models: constructors carry prefixes of their own (Gpx… expressions,
     Gps… statements, Gpd… declarations, Gpv… values, gp_… functions).
   Executable definitions only. *)
From CP Require Import Bytes GenNames GenOrder.
From CP Require Import GoFun.     (* gname (names and string literals: a byte list with a string notation), str_eq *)
From Coq Require Import Permutation Sorted.
Local Open Scope nat_scope.

(* ---- the protogen objects the functions read and write --------------------------------------------------------------- *)
Record pfield := { pf_go : name; pf_full : name }.                                (* field.GoName, field.Desc.FullName() *)
Record poneof := { po_go : name; po_syn : bool; po_full : name }.                 (* oneof.GoName, oneof.Desc.IsSynthetic(), .FullName() *)
Inductive pmsg := PMsg (full : name) (mapentry : bool) (fields : list pfield) (oneofs : list poneof) (msgs : list pmsg).
Definition pm_full (m : pmsg) : name := match m with PMsg a _ _ _ _ => a end.
Definition pm_mapentry (m : pmsg) : bool := match m with PMsg _ b _ _ _ => b end.
Definition pm_fields (m : pmsg) : list pfield := match m with PMsg _ _ c _ _ => c end.
Definition pm_oneofs (m : pmsg) : list poneof := match m with PMsg _ _ _ d _ => d end.
Definition pm_msgs (m : pmsg) : list pmsg := match m with PMsg _ _ _ _ e => e end.
Record pfile := { fi_generate : bool; fi_proto3 : bool; fi_prefix : name; fi_import : name; fi_pkg : name; fi_msgs : list pmsg }.
(* a file made with plugin.NewGeneratedFile: its name, import path, the lines printed so far, skipped? *)
Record pout := { ou_name : name; ou_import : name; ou_lines : list name; ou_skip : bool }.

(* ---- syntax -------------------------------------------------------------------------------------------------------- *)
Inductive gpexpr :=
| GpxNil                                                      (* nil *)
| GpxVar (x : gname)                                          (* a local, a parameter, else a package-level variable of the two files *)
| GpxStr (s : gname)                                          (* "…" *)
| GpxUnit                                                     (* struct{}{}  (and the elided {} of a map literal's value) *)
| GpxConcat (a b : gpexpr)                                    (* a + b  (strings) *)
| GpxEq (a b : gpexpr) | GpxNe (a b : gpexpr)                 (* a == b   a != b *)
| GpxLt (a b : gpexpr)                                        (* a < b  (strings) *)
| GpxNot (e : gpexpr)                                         (* !e *)
| GpxOr (a b : gpexpr)                                        (* a || b : b is not evaluated when a is true *)
| GpxSel (e : gpexpr) (f : gname)                             (* e.f *)
| GpxIndex (e i : gpexpr)                                     (* e[i], single-valued *)
| GpxIndexOk (m k : gpexpr)                                   (* m[k], comma-ok form : (value, bool) *)
| GpxMakeMap (ty : gname)                                     (* make(T), T a map type *)
| GpxMapLit (ty : gname) (kvs : list (gname * gpexpr))        (* T{"k": e, …}, T a map type with string keys *)
| GpxStruct (ty : gname) (es : list gpexpr)                   (* T{e, …}, T a struct type declared in the function *)
| GpxAppend (s e : gpexpr)                                    (* append(s, e) *)
| GpxSplit (s : gpexpr) (sep : gname)                         (* strings.Split(s, "sep") *)
| GpxErrorf (f : gname) (args : list gpexpr)                  (* fmt.Errorf("f", args…) *)
| GpxCall (f : gname) (args : list gpexpr)                    (* f(args…), f a function of the two files *)
| GpxFullName (e : gpexpr)                                    (* e.Desc.FullName() *)
| GpxIsMapEntry (e : gpexpr)                                  (* e.Desc.IsMapEntry() *)
| GpxIsSynthetic (e : gpexpr)                                 (* e.Desc.IsSynthetic() *)
| GpxExtensions (e : gpexpr)                                  (* &generator.Extensions{Poolable: e} *)
| GpxNewGenerator (files names ext : gpexpr)                  (* generator.NewGenerator(files, names, ext) : ( *Generator, error) *)
| GpxNewGeneratedFile (p n path : gpexpr)                     (* p.NewGeneratedFile(n, path) *)
| GpxGenerateFile (g p gf f : gpexpr)                         (* g.GenerateFile(p, gf, f) : bool *)
| GpxConv (ty : gname) (e : gpexpr)                           (* T(e), T a predeclared numeric type: opaque *)
| GpxQual (pkg n : gname).                                    (* pkg.Name, a constant of an imported package: opaque *)

Inductive gpstmt :=
| GpsDefine (xs : list gname) (e : gpexpr)                    (* x, y := e *)
| GpsAssign (xs : list gname) (e : gpexpr)                    (* x, y = e  (variables only) *)
| GpsVar (x ty : gname)                                       (* var x T *)
| GpsTypeStruct (ty : gname) (fields : list (gname * gname))  (* type T struct { f T1; … } *)
| GpsSetIndex (m k v : gpexpr)                                (* m[k] = v *)
| GpsSetField (e : gpexpr) (f : gname) (v : gpexpr)           (* e.f = v *)
| GpsIf (init : list gpstmt) (c : gpexpr) (a b : list gpstmt) (* if init; c {a} else {b}: init has zero or one statement; no else: b = [] *)
| GpsRange (k v : gname) (e : gpexpr) (body : list gpstmt)    (* for k, v := range e {body} *)
| GpsBreak | GpsContinue
| GpsReturn (es : list gpexpr)
| GpsExpr (e : gpexpr)                                        (* e  (a call whose results are dropped) *)
| GpsSortSlice (x i j : gname) (less : gpexpr)                (* sort.Slice(x, func(i, j int) bool { return less }) *)
| GpsLog (f : gname) (args : list gpexpr)                     (* log.Printf("f", args…) *)
| GpsP (gf : gpexpr) (args : list gpexpr)                     (* gf.P(args…) *)
| GpsSkip (gf : gpexpr)                                       (* gf.Skip() *)
| GpsFlagVar (f : gname) (e : gpexpr) (n u : gname)           (* f.Var(e, "n", "u") *)
| GpsFlagStringVar (f x n d u : gname)                        (* f.StringVar(&x, "n", "d", "u") *)
| GpsRun (f plugin : gname) (body : list gpstmt).             (* protogen.Options{ParamFunc: f.Set}.Run(func(plugin *protogen.Plugin) error {body}) *)

Inductive gpdecl :=
| GpdFunc (f : gname) (params : list (gname * gname)) (results : list gname) (body : list gpstmt)   (* types as their text *)
| GpdVar (x : gname) (e : gpexpr)                              (* var x = e *)
| GpdType (t : gname) (text : gname)                           (* type t <text> *)
| GpdMethod (recv m : gname).                                  (* a method: not translated, recorded by name *)

Definition gpd_name (d : gpdecl) : gname :=
  match d with GpdFunc f _ _ _ => f | GpdVar x _ => x | GpdType t _ => t | GpdMethod _ m => m end.

(* ---- decidable equality of programs --------------------------------------------------------------------------------- *)
Fixpoint gp_names_eqb (a b : list gname) : bool :=
  match a, b with
  | [], [] => true
  | x :: a', y :: b' => str_eq x y && gp_names_eqb a' b'
  | _, _ => false
  end.

Fixpoint gp_pairs_eqb (a b : list (gname * gname)) : bool :=
  match a, b with
  | [], [] => true
  | (x, t) :: a', (y, u) :: b' => str_eq x y && str_eq t u && gp_pairs_eqb a' b'
  | _, _ => false
  end.

Fixpoint gpexpr_eqb (a b : gpexpr) {struct a} : bool :=
  let leq := fix leq (l l' : list gpexpr) {struct l} : bool :=
      match l, l' with
      | [], [] => true
      | x :: t, y :: t' => gpexpr_eqb x y && leq t t'
      | _, _ => false
      end in
  let kveq := fix kveq (l l' : list (gname * gpexpr)) {struct l} : bool :=
      match l, l' with
      | [], [] => true
      | (k, x) :: t, (k', y) :: t' => str_eq k k' && gpexpr_eqb x y && kveq t t'
      | _, _ => false
      end in
  match a, b with
  | GpxNil, GpxNil => true
  | GpxVar x, GpxVar y => str_eq x y
  | GpxStr x, GpxStr y => str_eq x y
  | GpxUnit, GpxUnit => true
  | GpxConcat x y, GpxConcat x' y' => gpexpr_eqb x x' && gpexpr_eqb y y'
  | GpxEq x y, GpxEq x' y' => gpexpr_eqb x x' && gpexpr_eqb y y'
  | GpxNe x y, GpxNe x' y' => gpexpr_eqb x x' && gpexpr_eqb y y'
  | GpxLt x y, GpxLt x' y' => gpexpr_eqb x x' && gpexpr_eqb y y'
  | GpxNot e, GpxNot e' => gpexpr_eqb e e'
  | GpxOr x y, GpxOr x' y' => gpexpr_eqb x x' && gpexpr_eqb y y'
  | GpxSel e f, GpxSel e' f' => gpexpr_eqb e e' && str_eq f f'
  | GpxIndex x y, GpxIndex x' y' => gpexpr_eqb x x' && gpexpr_eqb y y'
  | GpxIndexOk x y, GpxIndexOk x' y' => gpexpr_eqb x x' && gpexpr_eqb y y'
  | GpxMakeMap t, GpxMakeMap t' => str_eq t t'
  | GpxMapLit t l, GpxMapLit t' l' => str_eq t t' && kveq l l'
  | GpxStruct t l, GpxStruct t' l' => str_eq t t' && leq l l'
  | GpxAppend x y, GpxAppend x' y' => gpexpr_eqb x x' && gpexpr_eqb y y'
  | GpxSplit e s, GpxSplit e' s' => gpexpr_eqb e e' && str_eq s s'
  | GpxErrorf f l, GpxErrorf f' l' => str_eq f f' && leq l l'
  | GpxCall f l, GpxCall f' l' => str_eq f f' && leq l l'
  | GpxFullName e, GpxFullName e' => gpexpr_eqb e e'
  | GpxIsMapEntry e, GpxIsMapEntry e' => gpexpr_eqb e e'
  | GpxIsSynthetic e, GpxIsSynthetic e' => gpexpr_eqb e e'
  | GpxExtensions e, GpxExtensions e' => gpexpr_eqb e e'
  | GpxNewGenerator x y z, GpxNewGenerator x' y' z' => gpexpr_eqb x x' && gpexpr_eqb y y' && gpexpr_eqb z z'
  | GpxNewGeneratedFile x y z, GpxNewGeneratedFile x' y' z' => gpexpr_eqb x x' && gpexpr_eqb y y' && gpexpr_eqb z z'
  | GpxGenerateFile x y z w, GpxGenerateFile x' y' z' w' => gpexpr_eqb x x' && gpexpr_eqb y y' && gpexpr_eqb z z' && gpexpr_eqb w w'
  | GpxConv t e, GpxConv t' e' => str_eq t t' && gpexpr_eqb e e'
  | GpxQual p n, GpxQual p' n' => str_eq p p' && str_eq n n'
  | _, _ => false
  end.

Fixpoint gpexprs_eqb (l l' : list gpexpr) {struct l} : bool :=
  match l, l' with
  | [], [] => true
  | x :: t, y :: t' => gpexpr_eqb x y && gpexprs_eqb t t'
  | _, _ => false
  end.

Fixpoint gpstmt_eqb (a b : gpstmt) {struct a} : bool :=
  let leq := fix leq (l l' : list gpstmt) {struct l} : bool :=
      match l, l' with
      | [], [] => true
      | x :: t, y :: t' => gpstmt_eqb x y && leq t t'
      | _, _ => false
      end in
  match a, b with
  | GpsDefine xs e, GpsDefine xs' e' => gp_names_eqb xs xs' && gpexpr_eqb e e'
  | GpsAssign xs e, GpsAssign xs' e' => gp_names_eqb xs xs' && gpexpr_eqb e e'
  | GpsVar x t, GpsVar x' t' => str_eq x x' && str_eq t t'
  | GpsTypeStruct t fs, GpsTypeStruct t' fs' => str_eq t t' && gp_pairs_eqb fs fs'
  | GpsSetIndex x y z, GpsSetIndex x' y' z' => gpexpr_eqb x x' && gpexpr_eqb y y' && gpexpr_eqb z z'
  | GpsSetField e f v, GpsSetField e' f' v' => gpexpr_eqb e e' && str_eq f f' && gpexpr_eqb v v'
  | GpsIf i c x y, GpsIf i' c' x' y' => leq i i' && gpexpr_eqb c c' && leq x x' && leq y y'
  | GpsRange k v e l, GpsRange k' v' e' l' => str_eq k k' && str_eq v v' && gpexpr_eqb e e' && leq l l'
  | GpsBreak, GpsBreak => true
  | GpsContinue, GpsContinue => true
  | GpsReturn l, GpsReturn l' => gpexprs_eqb l l'
  | GpsExpr e, GpsExpr e' => gpexpr_eqb e e'
  | GpsSortSlice x i j e, GpsSortSlice x' i' j' e' => str_eq x x' && str_eq i i' && str_eq j j' && gpexpr_eqb e e'
  | GpsLog f l, GpsLog f' l' => str_eq f f' && gpexprs_eqb l l'
  | GpsP g l, GpsP g' l' => gpexpr_eqb g g' && gpexprs_eqb l l'
  | GpsSkip g, GpsSkip g' => gpexpr_eqb g g'
  | GpsFlagVar f e n u, GpsFlagVar f' e' n' u' => str_eq f f' && gpexpr_eqb e e' && str_eq n n' && str_eq u u'
  | GpsFlagStringVar f x n d u, GpsFlagStringVar f' x' n' d' u' => str_eq f f' && str_eq x x' && str_eq n n' && str_eq d d' && str_eq u u'
  | GpsRun f p l, GpsRun f' p' l' => str_eq f f' && str_eq p p' && leq l l'
  | _, _ => false
  end.

Fixpoint gpstmts_eqb (l l' : list gpstmt) {struct l} : bool :=
  match l, l' with
  | [], [] => true
  | x :: t, y :: t' => gpstmt_eqb x y && gpstmts_eqb t t'
  | _, _ => false
  end.

Definition gpdecl_eqb (a b : gpdecl) : bool :=
  match a, b with
  | GpdFunc f ps rs l, GpdFunc f' ps' rs' l' => str_eq f f' && gp_pairs_eqb ps ps' && gp_names_eqb rs rs' && gpstmts_eqb l l'
  | GpdVar x e, GpdVar x' e' => str_eq x x' && gpexpr_eqb e e'
  | GpdType t s, GpdType t' s' => str_eq t t' && str_eq s s'
  | GpdMethod r m, GpdMethod r' m' => str_eq r r' && str_eq m m'
  | _, _ => false
  end.

Fixpoint gp_find_decl (p : list gpdecl) (x : gname) : option gpdecl :=
  match p with
  | [] => None
  | d :: t => if str_eq (gpd_name d) x then Some d else gp_find_decl t x
  end.

(* ---- values and the state ------------------------------------------------------------------------------------------- *)
Inductive gpflag := GpfString (x : gname) | GpfValue.          (* f.StringVar(&x, …)   f.Var(v, …) *)

Inductive gpvalue :=
| GpvNil                                        (* untyped nil (the literal) *)
| GpvZero                                       (* the zero value of a type the interpreter does not know *)
| GpvStr (s : name)
| GpvBool (b : bool)
| GpvInt (n : nat)
| GpvUnit                                       (* struct{}{} *)
| GpvSlice (l : list gpvalue)
| GpvStruct (ty : gname) (fs : list (gname * gpvalue))
| GpvType (fields : list gname)                 (* a struct type declared in the function: what its name is bound to *)
| GpvMap (p : option nat)                       (* a Go map: nil or cell p of the map heap *)
| GpvErr (e : option (gname * list name))       (* error: nil, or fmt.Errorf's format and string operands *)
| GpvFeat (n : name)                            (* a generator.Feature: opaque token *)
| GpvPlugin                                     (* *protogen.Plugin *)
| GpvFile (i : nat)                             (* plugin.Files[i] *)
| GpvMsg (i : nat) (p : list nat)               (* the message of file i at path p (positions in .Messages, outermost first) *)
| GpvField (i : nat) (p : list nat) (k : nat)   (* its k-th field *)
| GpvOneof (i : nat) (p : list nat) (k : nat)   (* its k-th oneof *)
| GpvExt                                        (* *generator.Extensions *)
| GpvGen (feats : list gpvalue)                 (* *generator.Generator: its features, in order *)
| GpvOut (o : nat)                              (* *protogen.GeneratedFile: the o-th file made *)
| GpvFlags (fl : list (name * gpflag))          (* flag.FlagSet *)
| GpvOpaque (t : gname).                        (* a value the model does not look into *)

Definition gpframe := list (gname * gpvalue).
Definition gpmap := list (name * gpvalue).

Record gpstate := {
  gp_env : list gpframe;                        (* the scopes of the running function, innermost first *)
  gp_glob : gpframe;                            (* package-level variables of the two files *)
  gp_maps : list gpmap;                         (* the heap of Go maps *)
  gp_files : list pfile;                        (* plugin.Files *)
  gp_outs : list pout;                          (* the files made with plugin.NewGeneratedFile, in order *)
  gp_params : list (name * name);               (* the request's parameters handed to ParamFunc *)
  gp_err : option (gname * list name) }.        (* the error the Run closure returned *)

Definition gp_with_env (st : gpstate) (en : list gpframe) : gpstate :=
  {| gp_env := en; gp_glob := gp_glob st; gp_maps := gp_maps st; gp_files := gp_files st; gp_outs := gp_outs st;
     gp_params := gp_params st; gp_err := gp_err st |}.
Definition gp_with_glob (st : gpstate) (g : gpframe) : gpstate :=
  {| gp_env := gp_env st; gp_glob := g; gp_maps := gp_maps st; gp_files := gp_files st; gp_outs := gp_outs st;
     gp_params := gp_params st; gp_err := gp_err st |}.
Definition gp_with_maps (st : gpstate) (m : list gpmap) : gpstate :=
  {| gp_env := gp_env st; gp_glob := gp_glob st; gp_maps := m; gp_files := gp_files st; gp_outs := gp_outs st;
     gp_params := gp_params st; gp_err := gp_err st |}.
Definition gp_with_files (st : gpstate) (f : list pfile) : gpstate :=
  {| gp_env := gp_env st; gp_glob := gp_glob st; gp_maps := gp_maps st; gp_files := f; gp_outs := gp_outs st;
     gp_params := gp_params st; gp_err := gp_err st |}.
Definition gp_with_outs (st : gpstate) (o : list pout) : gpstate :=
  {| gp_env := gp_env st; gp_glob := gp_glob st; gp_maps := gp_maps st; gp_files := gp_files st; gp_outs := o;
     gp_params := gp_params st; gp_err := gp_err st |}.
Definition gp_with_err (st : gpstate) (e : option (gname * list name)) : gpstate :=
  {| gp_env := gp_env st; gp_glob := gp_glob st; gp_maps := gp_maps st; gp_files := gp_files st; gp_outs := gp_outs st;
     gp_params := gp_params st; gp_err := e |}.

Inductive gpres (A : Type) :=
| GpOk (a : A) (st : gpstate)
| GpPanic                                       (* a run-time panic of Go *)
| GpExit                                        (* the process ends with an error before the plugin function runs *)
| GpFuel
| GpStuck.                                      (* not Go, or outside the modelled subset *)
Arguments GpOk {A} a st.
Arguments GpPanic {A}.
Arguments GpExit {A}.
Arguments GpFuel {A}.
Arguments GpStuck {A}.

Definition gp_bind {A B} (r : gpres A) (k : A -> gpstate -> gpres B) : gpres B :=
  match r with GpOk a st => k a st | GpPanic => GpPanic | GpExit => GpExit | GpFuel => GpFuel | GpStuck => GpStuck end.
(* a single-valued operand *)
Definition gp_bind1 {B} (r : gpres (list gpvalue)) (k : gpvalue -> gpstate -> gpres B) : gpres B :=
  gp_bind r (fun vs st => match vs with [v] => k v st | _ => GpStuck end).

(* ---- variables ------------------------------------------------------------------------------------------------------ *)
Definition gp_blank (x : gname) : bool := str_eq x "_".

Fixpoint gp_frame_get (x : gname) (fr : gpframe) : option gpvalue :=
  match fr with
  | [] => None
  | (y, v) :: t => if str_eq x y then Some v else gp_frame_get x t
  end.
Fixpoint gp_frame_set (x : gname) (v : gpvalue) (fr : gpframe) : option gpframe :=
  match fr with
  | [] => None
  | (y, w) :: t =>
    if str_eq x y then Some ((y, v) :: t)
    else match gp_frame_set x v t with Some t' => Some ((y, w) :: t') | None => None end
  end.
Fixpoint gp_env_get (x : gname) (en : list gpframe) : option gpvalue :=
  match en with
  | [] => None
  | fr :: rest => match gp_frame_get x fr with Some v => Some v | None => gp_env_get x rest end
  end.
(* package-level variables, the map heap (names of their own: the proofs keep these lookups folded) *)
Definition gp_glob_get (x : gname) (g : gpframe) : option gpvalue := gp_frame_get x g.
Definition gp_heap_get (h : list (list (name * gpvalue))) (c : nat) : option (list (name * gpvalue)) := nth_error h c.
Definition gp_get (x : gname) (st : gpstate) : option gpvalue :=
  match gp_env_get x (gp_env st) with Some v => Some v | None => gp_glob_get x (gp_glob st) end.

(* x := v declares x in the innermost scope (a variable already declared THERE is re-used); _ is the blank identifier *)
Definition gp_define1 (x : gname) (v : gpvalue) (st : gpstate) : option gpstate :=
  if gp_blank x then Some st
  else match gp_env st with
       | [] => None
       | fr :: rest =>
         match gp_frame_set x v fr with
         | Some fr' => Some (gp_with_env st (fr' :: rest))
         | None => Some (gp_with_env st (((x, v) :: fr) :: rest))
         end
       end.
Fixpoint gp_define (xs : list gname) (vs : list gpvalue) (st : gpstate) : option gpstate :=
  match xs, vs with
  | [], [] => Some st
  | x :: xs', v :: vs' => match gp_define1 x v st with Some st' => gp_define xs' vs' st' | None => None end
  | _, _ => None
  end.
(* x = v: the innermost declaration of x, else the package-level variable *)
Fixpoint gp_env_set (x : gname) (v : gpvalue) (en : list gpframe) : option (list gpframe) :=
  match en with
  | [] => None
  | fr :: rest =>
    match gp_frame_set x v fr with
    | Some fr' => Some (fr' :: rest)
    | None => match gp_env_set x v rest with Some rest' => Some (fr :: rest') | None => None end
    end
  end.
Definition gp_assign1 (x : gname) (v : gpvalue) (st : gpstate) : option gpstate :=
  if gp_blank x then Some st
  else match gp_env_set x v (gp_env st) with
       | Some en => Some (gp_with_env st en)
       | None => match gp_frame_set x v (gp_glob st) with Some g => Some (gp_with_glob st g) | None => None end
       end.
Fixpoint gp_assign (xs : list gname) (vs : list gpvalue) (st : gpstate) : option gpstate :=
  match xs, vs with
  | [], [] => Some st
  | x :: xs', v :: vs' => match gp_assign1 x v st with Some st' => gp_assign xs' vs' st' | None => None end
  | _, _ => None
  end.
Definition gp_push (fr : gpframe) (st : gpstate) : gpstate := gp_with_env st (fr :: gp_env st).
Definition gp_pop (st : gpstate) : gpstate := gp_with_env st (tl (gp_env st)).

(* ---- Go maps with string keys: association lists; m[k] = v replaces or adds ------------------------------------------ *)
Fixpoint gp_map_get (k : name) (m : gpmap) : option gpvalue :=
  match m with
  | [] => None
  | (k', v) :: t => if name_eqb k k' then Some v else gp_map_get k t
  end.
Fixpoint gp_map_set (k : name) (v : gpvalue) (m : gpmap) : gpmap :=
  match m with
  | [] => [(k, v)]
  | (k', w) :: t => if name_eqb k k' then (k', v) :: t else (k', w) :: gp_map_set k v t
  end.
Fixpoint gp_list_set {A} (n : nat) (a : A) (l : list A) : list A :=
  match l, n with
  | [], _ => []
  | _ :: t, O => a :: t
  | x :: t, S n' => x :: gp_list_set n' a t
  end.

(* ---- the object tree ------------------------------------------------------------------------------------------------- *)
Fixpoint gp_forest_get (ms : list pmsg) (p : list nat) : option pmsg :=
  match p with
  | [] => None
  | i :: p' =>
    match nth_error ms i with
    | None => None
    | Some m => match p' with [] => Some m | _ :: _ => gp_forest_get (pm_msgs m) p' end
    end
  end.
Fixpoint gp_forest_set (ms : list pmsg) (p : list nat) (m' : pmsg) : list pmsg :=
  match p with
  | [] => ms
  | i :: p' =>
    match nth_error ms i with
    | None => ms
    | Some m =>
      match p' with
      | [] => gp_list_set i m' ms
      | _ :: _ => gp_list_set i (PMsg (pm_full m) (pm_mapentry m) (pm_fields m) (pm_oneofs m) (gp_forest_set (pm_msgs m) p' m')) ms
      end
    end
  end.
Definition gp_file_with_msgs (f : pfile) (ms : list pmsg) : pfile :=
  {| fi_generate := fi_generate f; fi_proto3 := fi_proto3 f; fi_prefix := fi_prefix f; fi_import := fi_import f; fi_pkg := fi_pkg f;
     fi_msgs := ms |}.
Definition gp_get_msg (fs : list pfile) (i : nat) (p : list nat) : option pmsg :=
  match nth_error fs i with Some f => gp_forest_get (fi_msgs f) p | None => None end.
Definition gp_set_msg (fs : list pfile) (i : nat) (p : list nat) (m' : pmsg) : list pfile :=
  match nth_error fs i with
  | Some f => gp_list_set i (gp_file_with_msgs f (gp_forest_set (fi_msgs f) p m')) fs
  | None => fs
  end.

Definition gp_refs {A} (mk : nat -> gpvalue) (l : list A) : gpvalue := GpvSlice (map mk (seq 0 (length l))).

(* e.f *)
Definition gp_sel (v : gpvalue) (f : gname) (st : gpstate) : option gpvalue :=
  match v with
  | GpvStruct _ fs => gp_frame_get f fs
  | GpvPlugin => if str_eq f "Files" then Some (gp_refs GpvFile (gp_files st)) else None
  | GpvFile i =>
    match nth_error (gp_files st) i with
    | None => None
    | Some fl =>
      if str_eq f "Generate" then Some (GpvBool (fi_generate fl))
      else if str_eq f "Messages" then Some (gp_refs (fun k => GpvMsg i [k]) (fi_msgs fl))
      else if str_eq f "GeneratedFilenamePrefix" then Some (GpvStr (fi_prefix fl))
      else if str_eq f "GoImportPath" then Some (GpvStr (fi_import fl))
      else if str_eq f "GoPackageName" then Some (GpvStr (fi_pkg fl))
      else None
    end
  | GpvMsg i p =>
    match gp_get_msg (gp_files st) i p with
    | None => None
    | Some m =>
      if str_eq f "Fields" then Some (gp_refs (GpvField i p) (pm_fields m))
      else if str_eq f "Oneofs" then Some (gp_refs (GpvOneof i p) (pm_oneofs m))
      else if str_eq f "Messages" then Some (gp_refs (fun k => GpvMsg i (p ++ [k])) (pm_msgs m))
      else None
    end
  | GpvField i p k =>
    match gp_get_msg (gp_files st) i p with
    | None => None
    | Some m => match nth_error (pm_fields m) k with
                | Some fd => if str_eq f "GoName" then Some (GpvStr (pf_go fd)) else None
                | None => None
                end
    end
  | GpvOneof i p k =>
    match gp_get_msg (gp_files st) i p with
    | None => None
    | Some m => match nth_error (pm_oneofs m) k with
                | Some oo => if str_eq f "GoName" then Some (GpvStr (po_go oo)) else None
                | None => None
                end
    end
  | _ => None
  end.

(* e.f = s *)
Definition gp_set_sel (v : gpvalue) (f : gname) (s : name) (st : gpstate) : option gpstate :=
  if negb (str_eq f "GoName") then None
  else match v with
       | GpvField i p k =>
         match gp_get_msg (gp_files st) i p with
         | None => None
         | Some m =>
           match nth_error (pm_fields m) k with
           | None => None
           | Some fd =>
             Some (gp_with_files st (gp_set_msg (gp_files st) i p
                    (PMsg (pm_full m) (pm_mapentry m) (gp_list_set k {| pf_go := s; pf_full := pf_full fd |} (pm_fields m)) (pm_oneofs m) (pm_msgs m))))
           end
         end
       | GpvOneof i p k =>
         match gp_get_msg (gp_files st) i p with
         | None => None
         | Some m =>
           match nth_error (pm_oneofs m) k with
           | None => None
           | Some oo =>
             Some (gp_with_files st (gp_set_msg (gp_files st) i p
                    (PMsg (pm_full m) (pm_mapentry m) (pm_fields m)
                          (gp_list_set k {| po_go := s; po_syn := po_syn oo; po_full := po_full oo |} (pm_oneofs m)) (pm_msgs m))))
           end
         end
       | _ => None
       end.

(* ---- comparisons, strings --------------------------------------------------------------------------------------------- *)
Definition gp_equal (a b : gpvalue) : option bool :=
  match a, b with
  | GpvStr x, GpvStr y => Some (name_eqb x y)
  | GpvBool x, GpvBool y => Some (Bool.eqb x y)
  | GpvErr e, GpvNil | GpvNil, GpvErr e => Some (match e with None => true | Some _ => false end)
  | GpvMap p, GpvNil | GpvNil, GpvMap p => Some (match p with None => true | Some _ => false end)
  | _, _ => None
  end.
(* Go's < on strings: bytewise lexicographic *)
Definition gp_str_lt (a b : name) : bool := negb (name_leb b a).

(* strings.Split(s, sep) for a one-byte separator *)
Fixpoint gp_split_aux (c : byte) (s cur : name) : list name :=
  match s with
  | [] => [rev cur]
  | x :: t => if Byte.eqb x c then rev cur :: gp_split_aux c t [] else gp_split_aux c t (x :: cur)
  end.
Definition gp_split (c : byte) (s : name) : list name := gp_split_aux c s [].

Fixpoint gp_all_strs (vs : list gpvalue) : option (list name) :=
  match vs with
  | [] => Some []
  | GpvStr s :: t => match gp_all_strs t with Some l => Some (s :: l) | None => None end
  | _ :: _ => None
  end.
Fixpoint gp_all_files (vs : list gpvalue) : bool :=
  match vs with [] => true | GpvFile _ :: t => gp_all_files t | _ :: _ => false end.
Fixpoint gp_keys_distinct (ks : list name) : bool :=
  match ks with [] => true | k :: t => negb (existsb (name_eqb k) t) && gp_keys_distinct t end.

(* the zero value of `var x T`, from the text of T *)
Definition gp_zero (ty : gname) : gpvalue :=
  if str_eq ty "string" then GpvStr []
  else if str_eq ty "bool" then GpvBool false
  else if str_eq ty "flag.FlagSet" then GpvFlags []
  else match gname_bytes ty with
       | "["%byte :: "]"%byte :: _ => GpvSlice []
       | _ => GpvZero
       end.

Fixpoint gp_zip {A B} (a : list A) (b : list B) : list (A * B) :=
  match a, b with x :: a', y :: b' => (x, y) :: gp_zip a' b' | _, _ => [] end.
Fixpoint gp_flag_get (k : name) (fl : list (name * gpflag)) : option gpflag :=
  match fl with [] => None | (k', f) :: t => if name_eqb k k' then Some f else gp_flag_get k t end.

Inductive gpsig := GsgNext | GsgBreak | GsgContinue | GsgRet (vs : list gpvalue).

(* for … range: the items in the order visited; break leaves the loop, return leaves the function *)
Fixpoint gp_loop (step : gpvalue * gpvalue -> gpstate -> gpres gpsig) (items : list (gpvalue * gpvalue)) (st : gpstate) : gpres gpsig :=
  match items with
  | [] => GpOk GsgNext st
  | it :: rest =>
    match step it st with
    | GpOk GsgNext st' | GpOk GsgContinue st' => gp_loop step rest st'
    | GpOk GsgBreak st' => GpOk GsgNext st'
    | r => r
    end
  end.

Fixpoint gp_index_items (i : nat) (l : list gpvalue) : list (gpvalue * gpvalue) :=
  match l with [] => [] | v :: t => (GpvInt i, v) :: gp_index_items (S i) t end.

Section Interp.
  Variable perm : gpmap -> gpmap.                                               (* the order a `range` visits a map's entries in *)
  Variable sorter : (gpvalue -> gpvalue -> bool) -> list gpvalue -> list gpvalue.   (* sort.Slice's algorithm *)
  Variable feat_gen : gpvalue -> bool.                                          (* does this feature's GenerateFile report "generated"? *)
  (* a call of a function of the two files *)
  Variable call : gname -> list gpvalue -> gpstate -> gpres (list gpvalue).

  (* ---- expressions ------------------------------------------------------------------------------------------------- *)
  Fixpoint gp_eval (e : gpexpr) (st : gpstate) {struct e} : gpres (list gpvalue) :=
    let evs := fix evs (l : list gpexpr) (st : gpstate) {struct l} : gpres (list gpvalue) :=
        match l with
        | [] => GpOk [] st
        | x :: t => gp_bind1 (gp_eval x st) (fun v st1 => gp_bind (evs t st1) (fun vs st2 => GpOk (v :: vs) st2))
        end in
    let evkvs := fix evkvs (l : list (gname * gpexpr)) (st : gpstate) {struct l} : gpres gpmap :=
        match l with
        | [] => GpOk [] st
        | (k, x) :: t => gp_bind1 (gp_eval x st) (fun v st1 => gp_bind (evkvs t st1) (fun m st2 => GpOk ((gname_bytes k, v) :: m) st2))
        end in
    match e with
    | GpxNil => GpOk [GpvNil] st
    | GpxVar x => match gp_get x st with Some v => GpOk [v] st | None => GpStuck end
    | GpxStr s => GpOk [GpvStr (gname_bytes s)] st
    | GpxUnit => GpOk [GpvUnit] st
    | GpxConcat a b =>
      gp_bind1 (gp_eval a st) (fun va st1 => gp_bind1 (gp_eval b st1) (fun vb st2 =>
        match va, vb with GpvStr x, GpvStr y => GpOk [GpvStr (x ++ y)] st2 | _, _ => GpStuck end))
    | GpxEq a b =>
      gp_bind1 (gp_eval a st) (fun va st1 => gp_bind1 (gp_eval b st1) (fun vb st2 =>
        match gp_equal va vb with Some r => GpOk [GpvBool r] st2 | None => GpStuck end))
    | GpxNe a b =>
      gp_bind1 (gp_eval a st) (fun va st1 => gp_bind1 (gp_eval b st1) (fun vb st2 =>
        match gp_equal va vb with Some r => GpOk [GpvBool (negb r)] st2 | None => GpStuck end))
    | GpxLt a b =>
      gp_bind1 (gp_eval a st) (fun va st1 => gp_bind1 (gp_eval b st1) (fun vb st2 =>
        match va, vb with GpvStr x, GpvStr y => GpOk [GpvBool (gp_str_lt x y)] st2 | _, _ => GpStuck end))
    | GpxNot e1 =>
      gp_bind1 (gp_eval e1 st) (fun v st1 => match v with GpvBool b => GpOk [GpvBool (negb b)] st1 | _ => GpStuck end)
    | GpxOr a b =>
      gp_bind1 (gp_eval a st) (fun va st1 =>
        match va with
        | GpvBool true => GpOk [GpvBool true] st1
        | GpvBool false => gp_bind1 (gp_eval b st1) (fun vb st2 => match vb with GpvBool r => GpOk [GpvBool r] st2 | _ => GpStuck end)
        | _ => GpStuck
        end)
    | GpxSel e1 f =>
      gp_bind1 (gp_eval e1 st) (fun v st1 => match gp_sel v f st1 with Some r => GpOk [r] st1 | None => GpStuck end)
    | GpxIndex e1 i =>
      gp_bind1 (gp_eval e1 st) (fun v st1 => gp_bind1 (gp_eval i st1) (fun vi st2 =>
        match v, vi with
        | GpvSlice l, GpvInt n => match nth_error l n with Some r => GpOk [r] st2 | None => GpPanic end   (* index out of range *)
        | GpvMap (Some c), GpvStr k =>
          match gp_heap_get (gp_maps st2) c with
          | Some m => match gp_map_get k m with Some r => GpOk [r] st2 | None => GpOk [GpvZero] st2 end
          | None => GpStuck
          end
        | GpvMap None, GpvStr _ => GpOk [GpvZero] st2
        | _, _ => GpStuck
        end))
    | GpxIndexOk m k =>
      gp_bind1 (gp_eval m st) (fun vm st1 => gp_bind1 (gp_eval k st1) (fun vk st2 =>
        match vm, vk with
        | GpvMap (Some c), GpvStr s =>
          match gp_heap_get (gp_maps st2) c with
          | Some mm => match gp_map_get s mm with Some r => GpOk [r; GpvBool true] st2 | None => GpOk [GpvZero; GpvBool false] st2 end
          | None => GpStuck
          end
        | GpvMap None, GpvStr _ => GpOk [GpvZero; GpvBool false] st2
        | _, _ => GpStuck
        end))
    | GpxMakeMap _ => GpOk [GpvMap (Some (length (gp_maps st)))] (gp_with_maps st (gp_maps st ++ [[]]))
    | GpxMapLit _ kvs =>
      gp_bind (evkvs kvs st) (fun m st1 =>
        if gp_keys_distinct (map fst m) then GpOk [GpvMap (Some (length (gp_maps st1)))] (gp_with_maps st1 (gp_maps st1 ++ [m]))
        else GpStuck)                                                        (* duplicate key in map literal: does not compile *)
    | GpxStruct ty es =>
      match gp_get ty st with
      | Some (GpvType fields) =>
        gp_bind (evs es st) (fun vs st1 =>
          if Nat.eqb (length vs) (length fields) then GpOk [GpvStruct ty (gp_zip fields vs)] st1 else GpStuck)
      | _ => GpStuck
      end
    | GpxAppend s e1 =>
      gp_bind1 (gp_eval s st) (fun vs st1 => gp_bind1 (gp_eval e1 st1) (fun v st2 =>
        match vs with GpvSlice l => GpOk [GpvSlice (l ++ [v])] st2 | _ => GpStuck end))
    | GpxSplit s sep =>
      gp_bind1 (gp_eval s st) (fun v st1 =>
        match v, gname_bytes sep with
        | GpvStr x, [c] => GpOk [GpvSlice (map GpvStr (gp_split c x))] st1
        | _, _ => GpStuck
        end)
    | GpxErrorf f args =>
      gp_bind (evs args st) (fun vs st1 => match gp_all_strs vs with Some l => GpOk [GpvErr (Some (f, l))] st1 | None => GpStuck end)
    | GpxCall f args => gp_bind (evs args st) (fun vs st1 => call f vs st1)
    | GpxFullName e1 =>
      gp_bind1 (gp_eval e1 st) (fun v st1 =>
        match v with
        | GpvMsg i p => match gp_get_msg (gp_files st1) i p with Some m => GpOk [GpvStr (pm_full m)] st1 | None => GpStuck end
        | GpvField i p k =>
          match gp_get_msg (gp_files st1) i p with
          | Some m => match nth_error (pm_fields m) k with Some fd => GpOk [GpvStr (pf_full fd)] st1 | None => GpStuck end
          | None => GpStuck
          end
        | GpvOneof i p k =>
          match gp_get_msg (gp_files st1) i p with
          | Some m => match nth_error (pm_oneofs m) k with Some oo => GpOk [GpvStr (po_full oo)] st1 | None => GpStuck end
          | None => GpStuck
          end
        | _ => GpStuck
        end)
    | GpxIsMapEntry e1 =>
      gp_bind1 (gp_eval e1 st) (fun v st1 =>
        match v with
        | GpvMsg i p => match gp_get_msg (gp_files st1) i p with Some m => GpOk [GpvBool (pm_mapentry m)] st1 | None => GpStuck end
        | _ => GpStuck
        end)
    | GpxIsSynthetic e1 =>
      gp_bind1 (gp_eval e1 st) (fun v st1 =>
        match v with
        | GpvOneof i p k =>
          match gp_get_msg (gp_files st1) i p with
          | Some m => match nth_error (pm_oneofs m) k with Some oo => GpOk [GpvBool (po_syn oo)] st1 | None => GpStuck end
          | None => GpStuck
          end
        | _ => GpStuck
        end)
    | GpxExtensions e1 =>
      gp_bind1 (gp_eval e1 st) (fun v st1 => match v with GpvMap _ => GpOk [GpvExt] st1 | _ => GpStuck end)
    | GpxNewGenerator files names ext =>
      gp_bind1 (gp_eval files st) (fun vf st1 => gp_bind1 (gp_eval names st1) (fun vn st2 => gp_bind1 (gp_eval ext st2) (fun vx st3 =>
        match vf, vn, vx with
        | GpvSlice fl, GpvSlice _, GpvExt =>
          if gp_all_files fl then
            (* generator.go: features, err := findFeatures(featureNames); if err != nil { return nil, err }; … return &Generator{…, features: features, …}, nil *)
            gp_bind (call "findFeatures"%gname [vn] st3) (fun rs st4 =>
              match rs with
              | [GpvSlice feats; GpvErr None] => GpOk [GpvGen feats; GpvErr None] st4
              | [_; GpvErr (Some er)] => GpOk [GpvNil; GpvErr (Some er)] st4
              | _ => GpStuck
              end)
          else GpStuck
        | _, _, _ => GpStuck
        end)))
    | GpxNewGeneratedFile p n path =>
      gp_bind1 (gp_eval p st) (fun vp st1 => gp_bind1 (gp_eval n st1) (fun vn st2 => gp_bind1 (gp_eval path st2) (fun vpa st3 =>
        match vp, vn, vpa with
        | GpvPlugin, GpvStr nm, GpvStr pa =>
          GpOk [GpvOut (length (gp_outs st3))]
               (gp_with_outs st3 (gp_outs st3 ++ [{| ou_name := nm; ou_import := pa; ou_lines := []; ou_skip := false |}]))
        | _, _, _ => GpStuck
        end)))
    | GpxGenerateFile g p gf f =>
      gp_bind1 (gp_eval g st) (fun vg st1 => gp_bind1 (gp_eval p st1) (fun vp st2 => gp_bind1 (gp_eval gf st2) (fun vgf st3 =>
        gp_bind1 (gp_eval f st3) (fun vf st4 =>
          match vg, vp, vgf, vf with
          | GpvGen feats, GpvPlugin, GpvOut o, GpvFile i =>
            match nth_error (gp_outs st4) o, nth_error (gp_files st4) i with
            | Some _, Some fl => GpOk [GpvBool (fi_proto3 fl && existsb feat_gen feats)] st4
            | _, _ => GpStuck
            end
          | _, _, _, _ => GpStuck
          end))))
    | GpxConv ty e1 => gp_bind1 (gp_eval e1 st) (fun _ st1 => GpOk [GpvOpaque ty] st1)
    | GpxQual p n => GpOk [GpvOpaque n] st
    end.

  Fixpoint gp_evals (l : list gpexpr) (st : gpstate) {struct l} : gpres (list gpvalue) :=
    match l with
    | [] => GpOk [] st
    | x :: t => gp_bind1 (gp_eval x st) (fun v st1 => gp_bind (gp_evals t st1) (fun vs st2 => GpOk (v :: vs) st2))
    end.

  (* ---- statements -------------------------------------------------------------------------------------------------- *)
  (* a block in a scope of its own, opened with the given bindings *)
  Definition gp_scoped (blk : list gpstmt -> gpstate -> gpres gpsig) (fr : gpframe) (l : list gpstmt) (st : gpstate) : gpres gpsig :=
    match blk l (gp_push fr st) with GpOk sg st' => GpOk sg (gp_pop st') | r => r end.

  Definition gp_bind_item (k v : gname) (it : gpvalue * gpvalue) : gpframe :=
    (if gp_blank k then [] else [(k, fst it)]) ++ (if gp_blank v then [] else [(v, snd it)]).

  (* the comparator of sort.Slice on two elements: the printed expression with the slice variable holding just these two *)
  Definition gp_less (x i j : gname) (less : gpexpr) (st : gpstate) (a b : gpvalue) : option bool :=
    match gp_eval less (gp_push [(x, GpvSlice [a; b]); (i, GpvInt 0); (j, GpvInt 1)] st) with
    | GpOk [GpvBool r] _ => Some r
    | _ => None
    end.

  Definition gp_run_params (fl : list (name * gpflag)) : list (name * name) -> gpstate -> gpres unit :=
    fix go (ps : list (name * name)) (st : gpstate) : gpres unit :=
      match ps with
      | [] => GpOk tt st
      | (k, v) :: rest =>
        match gp_flag_get k fl with
        | None => GpExit                                                       (* flag provided but not defined *)
        | Some (GpfString x) => match gp_assign1 x (GpvStr v) st with Some st' => go rest st' | None => GpStuck end
        | Some GpfValue => GpStuck                                             (* calls the flag.Value's Set method: not translated *)
        end
      end.

  Fixpoint gp_exec (s : gpstmt) (st : gpstate) {struct s} : gpres gpsig :=
    let block := fix block (l : list gpstmt) (st : gpstate) {struct l} : gpres gpsig :=
        match l with
        | [] => GpOk GsgNext st
        | s1 :: t => match gp_exec s1 st with GpOk GsgNext st' => block t st' | r => r end
        end in
    match s with
    | GpsDefine xs e =>
      gp_bind (gp_eval e st) (fun vs st1 => match gp_define xs vs st1 with Some st2 => GpOk GsgNext st2 | None => GpStuck end)
    | GpsAssign xs e =>
      gp_bind (gp_eval e st) (fun vs st1 => match gp_assign xs vs st1 with Some st2 => GpOk GsgNext st2 | None => GpStuck end)
    | GpsVar x ty => match gp_define1 x (gp_zero ty) st with Some st1 => GpOk GsgNext st1 | None => GpStuck end
    | GpsTypeStruct ty fields => match gp_define1 ty (GpvType (map fst fields)) st with Some st1 => GpOk GsgNext st1 | None => GpStuck end
    | GpsSetIndex m k v =>
      gp_bind1 (gp_eval m st) (fun vm st1 => gp_bind1 (gp_eval k st1) (fun vk st2 => gp_bind1 (gp_eval v st2) (fun vv st3 =>
        match vm, vk with
        | GpvMap (Some c), GpvStr key =>
          match gp_heap_get (gp_maps st3) c with
          | Some mm => GpOk GsgNext (gp_with_maps st3 (gp_list_set c (gp_map_set key vv mm) (gp_maps st3)))
          | None => GpStuck
          end
        | GpvMap None, GpvStr _ => GpPanic                                     (* assignment to entry in nil map *)
        | _, _ => GpStuck
        end)))
    | GpsSetField e f v =>
      gp_bind1 (gp_eval e st) (fun ve st1 => gp_bind1 (gp_eval v st1) (fun vv st2 =>
        match vv with
        | GpvStr s1 => match gp_set_sel ve f s1 st2 with Some st3 => GpOk GsgNext st3 | None => GpStuck end
        | _ => GpStuck
        end))
    | GpsIf init c a b =>
      match block init (gp_push [] st) with
      | GpOk GsgNext st1 =>
        match gp_bind1 (gp_eval c st1) (fun vc st2 =>
                match vc with
                | GpvBool true => gp_scoped block [] a st2
                | GpvBool false => gp_scoped block [] b st2
                | _ => GpStuck
                end) with
        | GpOk sg st3 => GpOk sg (gp_pop st3)
        | r => r
        end
      | GpOk _ _ => GpStuck
      | r => r
      end
    | GpsRange k v e body =>
      gp_bind1 (gp_eval e st) (fun ve st1 =>
        match ve with
        | GpvSlice l => gp_loop (fun it st2 => gp_scoped block (gp_bind_item k v it) body st2) (gp_index_items 0 l) st1
        | GpvMap None => GpOk GsgNext st1
        | GpvMap (Some c) =>
          match gp_heap_get (gp_maps st1) c with
          | Some m => gp_loop (fun it st2 => gp_scoped block (gp_bind_item k v it) body st2) (map (fun kv => (GpvStr (fst kv), snd kv)) (perm m)) st1
          | None => GpStuck
          end
        | _ => GpStuck
        end)
    | GpsBreak => GpOk GsgBreak st
    | GpsContinue => GpOk GsgContinue st
    | GpsReturn es => gp_bind (gp_evals es st) (fun vs st1 => GpOk (GsgRet vs) st1)
    | GpsExpr e => gp_bind (gp_eval e st) (fun _ st1 => GpOk GsgNext st1)
    | GpsSortSlice x i j less =>
      match gp_get x st with
      | Some (GpvSlice l) =>
        if forallb (fun a => forallb (fun b => match gp_less x i j less st a b with Some _ => true | None => false end) l) l then
          match gp_assign1 x (GpvSlice (sorter (fun a b => match gp_less x i j less st a b with Some r => r | None => false end) l)) st with
          | Some st1 => GpOk GsgNext st1
          | None => GpStuck
          end
        else GpStuck
      | _ => GpStuck
      end
    | GpsLog _ args => gp_bind (gp_evals args st) (fun _ st1 => GpOk GsgNext st1)
    | GpsP gf args =>
      gp_bind1 (gp_eval gf st) (fun vg st1 => gp_bind (gp_evals args st1) (fun vs st2 =>
        match vg, gp_all_strs vs with
        | GpvOut o, Some l =>
          match nth_error (gp_outs st2) o with
          | Some ou => GpOk GsgNext (gp_with_outs st2 (gp_list_set o {| ou_name := ou_name ou; ou_import := ou_import ou;
                                                                      ou_lines := ou_lines ou ++ [concat l]; ou_skip := ou_skip ou |} (gp_outs st2)))
          | None => GpStuck
          end
        | _, _ => GpStuck
        end))
    | GpsSkip gf =>
      gp_bind1 (gp_eval gf st) (fun vg st1 =>
        match vg with
        | GpvOut o =>
          match nth_error (gp_outs st1) o with
          | Some ou => GpOk GsgNext (gp_with_outs st1 (gp_list_set o {| ou_name := ou_name ou; ou_import := ou_import ou;
                                                                      ou_lines := ou_lines ou; ou_skip := true |} (gp_outs st1)))
          | None => GpStuck
          end
        | _ => GpStuck
        end)
    | GpsFlagVar f e n _ =>
      gp_bind1 (gp_eval e st) (fun _ st1 =>
        match gp_get f st1 with
        | Some (GpvFlags fl) =>
          match gp_assign1 f (GpvFlags (fl ++ [(gname_bytes n, GpfValue)])) st1 with Some st2 => GpOk GsgNext st2 | None => GpStuck end
        | _ => GpStuck
        end)
    | GpsFlagStringVar f x n d _ =>
      match gp_get f st, gp_get x st with
      | Some (GpvFlags fl), Some (GpvStr _) =>
        match gp_assign1 x (GpvStr (gname_bytes d)) st with
        | Some st1 =>
          match gp_assign1 f (GpvFlags (fl ++ [(gname_bytes n, GpfString x)])) st1 with Some st2 => GpOk GsgNext st2 | None => GpStuck end
        | None => GpStuck
        end
      | _, _ => GpStuck
      end
    | GpsRun f plugin body =>
      match gp_get f st with
      | Some (GpvFlags fl) =>
        gp_bind (gp_run_params fl (gp_params st) st) (fun _ st1 =>
          match gp_scoped block [(plugin, GpvPlugin)] body st1 with
          | GpOk (GsgRet [GpvErr er]) st2 => GpOk GsgNext (gp_with_err st2 er)
          | GpOk _ _ => GpStuck
          | GpPanic => GpPanic | GpExit => GpExit | GpFuel => GpFuel | GpStuck => GpStuck
          end)
      | _ => GpStuck
      end
    end.

  Fixpoint gp_block (l : list gpstmt) (st : gpstate) {struct l} : gpres gpsig :=
    match l with
    | [] => GpOk GsgNext st
    | s1 :: t => match gp_exec s1 st with GpOk GsgNext st' => gp_block t st' | r => r end
    end.
End Interp.

(* ---- calls, initialisation -------------------------------------------------------------------------------------------- *)
(* the implicit conversion of the literal nil to the declared result type *)
Definition gp_coerce (ty : gname) (v : gpvalue) : gpvalue :=
  match v with
  | GpvNil =>
    if str_eq ty "error" then GpvErr None
    else match gname_bytes ty with
         | "["%byte :: "]"%byte :: _ => GpvSlice []
         | _ => GpvNil
         end
  | _ => v
  end.
Fixpoint gp_coerce_all (tys : list gname) (vs : list gpvalue) : list gpvalue :=
  match tys, vs with
  | t :: tys', v :: vs' => gp_coerce t v :: gp_coerce_all tys' vs'
  | _, _ => []
  end.

Section Run.
  Variable perm : gpmap -> gpmap.
  Variable sorter : (gpvalue -> gpvalue -> bool) -> list gpvalue -> list gpvalue.
  Variable feat_gen : gpvalue -> bool.
  Variable prog : list gpdecl.

  (* f(args): the body runs in a scope holding the parameters; the caller's scopes come back afterwards; package-level variables,
     the map heap, the object tree and the files made are shared. Every call costs one unit of fuel. *)
  Fixpoint gp_call (fuel : nat) (f : gname) (args : list gpvalue) (st : gpstate) {struct fuel} : gpres (list gpvalue) :=
    match fuel with
    | O => GpFuel
    | S fuel' =>
      match gp_find_decl prog f with
      | Some (GpdFunc _ params results body) =>
        if Nat.eqb (length params) (length args) then
          match gp_block perm sorter feat_gen (gp_call fuel') body (gp_with_env st [gp_zip (map fst params) args]) with
          | GpOk (GsgRet vs) st' =>
            if Nat.eqb (length vs) (length results) then GpOk (gp_coerce_all results vs) (gp_with_env st' (gp_env st)) else GpStuck
          | GpOk GsgNext st' => match results with [] => GpOk [] (gp_with_env st' (gp_env st)) | _ :: _ => GpStuck end
          | GpOk _ _ => GpStuck
          | GpPanic => GpPanic | GpExit => GpExit | GpFuel => GpFuel | GpStuck => GpStuck
          end
        else GpStuck
      | _ => GpStuck
      end
    end.

  (* package-level variables, in source order (none of them depends on another) *)
  Fixpoint gp_init_vars (fuel : nat) (ds : list gpdecl) (st : gpstate) : gpres unit :=
    match ds with
    | [] => GpOk tt st
    | GpdVar x e :: t =>
      gp_bind1 (gp_eval feat_gen (gp_call fuel) e st) (fun v st1 => gp_init_vars fuel t (gp_with_glob st1 (gp_glob st1 ++ [(x, v)])))
    | _ :: t => gp_init_vars fuel t st
    end.
  (* the init functions of the feature packages: generator.RegisterFeature(name, feature) *)
  Fixpoint gp_register (fuel : nat) (reg : gpmap) (st : gpstate) : gpres unit :=
    match reg with
    | [] => GpOk tt st
    | (n, v) :: t => gp_bind (gp_call fuel "RegisterFeature" [GpvStr n; v] st) (fun _ st1 => gp_register fuel t st1)
    end.

  Definition gp_state0 (files : list pfile) (params : list (name * name)) : gpstate :=
    {| gp_env := [[]]; gp_glob := []; gp_maps := []; gp_files := files; gp_outs := []; gp_params := params; gp_err := None |}.
  Definition gp_boot (fuel : nat) (reg : gpmap) (files : list pfile) (params : list (name * name)) : gpres unit :=
    gp_bind (gp_init_vars fuel prog (gp_state0 files params)) (fun _ st => gp_register fuel reg st).

  (* the whole plugin: initialise, run main; what is left: the response's error, the object tree, the files made *)
  Definition gp_run_main (fuel : nat) (reg : gpmap) (files : list pfile) (params : list (name * name))
    : gpres (option (gname * list name) * list pfile * list pout) :=
    gp_bind (gp_boot fuel reg files params) (fun _ st =>
      gp_bind (gp_call fuel "main" [] st) (fun _ st' => GpOk (gp_err st', gp_files st', gp_outs st') st')).
  (* findFeatures alone, on the registered features *)
  Definition gp_run_find_features (fuel : nat) (reg : gpmap) (names : list name) : gpres (list gpvalue) :=
    gp_bind (gp_boot fuel reg [] []) (fun _ st => gp_call fuel "findFeatures" [GpvSlice (map GpvStr names)] st).
End Run.

(* two sort algorithms for the driver (the statements hold for every one that returns a sorted permutation) *)
Fixpoint gp_insert (less : gpvalue -> gpvalue -> bool) (x : gpvalue) (l : list gpvalue) : list gpvalue :=
  match l with
  | [] => [x]
  | y :: t => if less y x then y :: gp_insert less x t else x :: l
  end.
Definition gp_isort (less : gpvalue -> gpvalue -> bool) (l : list gpvalue) : list gpvalue := fold_right (gp_insert less) [] l.
(* the same from the other end: equal elements come out in the opposite order (not stable) *)
Definition gp_isort_rev (less : gpvalue -> gpvalue -> bool) (l : list gpvalue) : list gpvalue := fold_right (gp_insert less) [] (rev l).

(* ---- the canonical programs ------------------------------------------------------------------------------------------- *)
Local Open Scope gname_scope.
(* generator/features.go *)
Definition canon_ff_names_body : list gpstmt :=
  [ GpsIf [] (GpxEq (GpxVar "name") (GpxStr "all"))
          [ GpsAssign ["required"] (GpxVar "defaultFeatures"); GpsBreak ] [];
    GpsDefine ["feat"; "ok"] (GpxIndexOk (GpxVar "defaultFeatures") (GpxVar "name"));
    GpsIf [] (GpxNot (GpxVar "ok"))
          [ GpsReturn [GpxNil; GpxErrorf "unknown feature: %q" [GpxVar "name"]] ] [];
    GpsSetIndex (GpxVar "required") (GpxVar "name") (GpxVar "feat") ].
Definition canon_ff_required_body : list gpstmt :=
  [ GpsAssign ["sorted"] (GpxAppend (GpxVar "sorted") (GpxStruct "namefeat" [GpxVar "name"; GpxVar "feat"])) ].
Definition canon_ff_less : gpexpr :=
  GpxLt (GpxSel (GpxIndex (GpxVar "sorted") (GpxVar "i")) "name") (GpxSel (GpxIndex (GpxVar "sorted") (GpxVar "j")) "name").
Definition canon_ff_sorted_body : list gpstmt :=
  [ GpsAssign ["features"] (GpxAppend (GpxVar "features") (GpxSel (GpxVar "sp") "feat")) ].
Definition canon_findFeatures_body : list gpstmt :=
  [ GpsDefine ["required"] (GpxMakeMap "map[string]Feature");
    GpsRange "_" "name" (GpxVar "featureNames") canon_ff_names_body;
    GpsTypeStruct "namefeat" [("name", "string"); ("feat", "Feature")];
    GpsVar "sorted" "[]namefeat";
    GpsRange "name" "feat" (GpxVar "required") canon_ff_required_body;
    GpsSortSlice "sorted" "i" "j" canon_ff_less;
    GpsVar "features" "[]Feature";
    GpsRange "_" "sp" (GpxVar "sorted") canon_ff_sorted_body;
    GpsReturn [GpxVar "features"; GpxNil] ].

Definition canon_features_go : list gpdecl :=
  [ GpdVar "defaultFeatures" (GpxMakeMap "map[string]Feature");
    GpdFunc "findFeatures" [("featureNames", "[]string")] ["[]Feature"; "error"] canon_findFeatures_body;
    GpdFunc "RegisterFeature" [("name", "string"); ("feat", "Feature")] []
      [ GpsSetIndex (GpxVar "defaultFeatures") (GpxVar "name") (GpxVar "feat") ];
    GpdType "Feature" "func(gen *GeneratedFile, plugin *protogen.Plugin) FeatureGenerator";
    GpdType "FeatureGenerator" "interface{GenerateFile(file *protogen.File, plugin *protogen.Plugin) bool; GenerateHelpers()}" ].
Definition canon_features_go_imports : list gname := [ "fmt"; "google.golang.org/protobuf/compiler/protogen"; "sort" ].

(* cmd/protoc-gen-go-pulsar/main.go *)
Definition canon_reservedFieldNames : gpexpr :=
  GpxMapLit "map[string]struct{}"
    [ ("Descriptor", GpxUnit); ("Type", GpxUnit); ("New", GpxUnit); ("Interface", GpxUnit); ("Range", GpxUnit); ("Has", GpxUnit);
      ("Clear", GpxUnit); ("Get", GpxUnit); ("Set", GpxUnit); ("Mutable", GpxUnit); ("NewField", GpxUnit); ("WhichOneof", GpxUnit);
      ("GetUnknown", GpxUnit); ("SetUnknown", GpxUnit); ("IsValid", GpxUnit); ("ProtoMethods", GpxUnit) ].

Definition canon_rw_fields_body : list gpstmt :=
  [ GpsDefine ["_"; "reserved"] (GpxIndexOk (GpxVar "reservedFieldNames") (GpxSel (GpxVar "field") "GoName"));
    GpsIf [] (GpxNot (GpxVar "reserved")) [ GpsContinue ] [];
    GpsLog "Message %s contains the reserved field name %s which conflicts with protoreflect.Message interface implementation.
This field will be suffixed with an underscore '_'.
If you can change the message field name, please do so.
In a future iteration of pulsar we may make a breaking change to this practice in order to be compliant with field naming of the original golang protobuf implementation."
      [GpxFullName (GpxVar "message"); GpxFullName (GpxVar "field")];
    GpsSetField (GpxVar "field") "GoName" (GpxConcat (GpxSel (GpxVar "field") "GoName") (GpxStr "_")) ].
Definition canon_rw_oneofs_body : list gpstmt :=
  [ GpsIf [ GpsDefine ["_"; "reserved"] (GpxIndexOk (GpxVar "reservedFieldNames") (GpxSel (GpxVar "oneof") "GoName")) ]
          (GpxOr (GpxNot (GpxVar "reserved")) (GpxIsSynthetic (GpxVar "oneof"))) [ GpsContinue ] [];
    GpsLog "Message %s contains the reserved oneof name %s which conflicts with protoreflect.Message interface implementation.
This oneof will be suffixed with an underscore '_'."
      [GpxFullName (GpxVar "message"); GpxFullName (GpxVar "oneof")];
    GpsSetField (GpxVar "oneof") "GoName" (GpxConcat (GpxSel (GpxVar "oneof") "GoName") (GpxStr "_")) ].
Definition canon_rw_nested_body : list gpstmt :=
  [ GpsExpr (GpxCall "rewriteMessageField" [GpxVar "nestedMessage"; GpxVar "processed"]) ].
Definition canon_rewriteMessageField_body : list gpstmt :=
  [ GpsIf [ GpsDefine ["_"; "done"] (GpxIndexOk (GpxVar "processed") (GpxFullName (GpxVar "message"))) ] (GpxVar "done")
          [ GpsReturn [] ] [];
    GpsIf [] (GpxIsMapEntry (GpxVar "message")) [ GpsReturn [] ] [];
    GpsRange "_" "field" (GpxSel (GpxVar "message") "Fields") canon_rw_fields_body;
    GpsRange "_" "oneof" (GpxSel (GpxVar "message") "Oneofs") canon_rw_oneofs_body;
    GpsSetIndex (GpxVar "processed") (GpxFullName (GpxVar "message")) GpxUnit;
    GpsRange "_" "nestedMessage" (GpxSel (GpxVar "message") "Messages") canon_rw_nested_body ].

Definition canon_gen_files_body : list gpstmt :=
  [ GpsIf [] (GpxNot (GpxSel (GpxVar "file") "Generate")) [ GpsContinue ] [];
    GpsDefine ["gf"] (GpxNewGeneratedFile (GpxVar "plugin")
                        (GpxConcat (GpxSel (GpxVar "file") "GeneratedFilenamePrefix") (GpxStr ".pulsar.go"))
                        (GpxSel (GpxVar "file") "GoImportPath"));
    GpsP (GpxVar "gf") [GpxStr "// Code generated by protoc-gen-go-pulsar. DO NOT EDIT."];
    GpsP (GpxVar "gf") [GpxStr "package "; GpxSel (GpxVar "file") "GoPackageName"];
    GpsIf [] (GpxNot (GpxGenerateFile (GpxVar "gen") (GpxVar "plugin") (GpxVar "gf") (GpxVar "file"))) [ GpsSkip (GpxVar "gf") ] [] ].
Definition canon_generateAllFiles_body : list gpstmt :=
  [ GpsDefine ["ext"] (GpxExtensions (GpxVar "poolable"));
    GpsDefine ["gen"; "err"] (GpxNewGenerator (GpxSel (GpxVar "plugin") "Files") (GpxVar "featureNames") (GpxVar "ext"));
    GpsIf [] (GpxNe (GpxVar "err") GpxNil) [ GpsReturn [GpxVar "err"] ] [];
    GpsRange "_" "file" (GpxSel (GpxVar "plugin") "Files") canon_gen_files_body;
    GpsReturn [GpxNil] ].

Definition canon_main_messages_body : list gpstmt :=
  [ GpsExpr (GpxCall "rewriteMessageField" [GpxVar "message"; GpxVar "processedMessages"]) ].
Definition canon_main_files_body : list gpstmt :=
  [ GpsIf [] (GpxNot (GpxSel (GpxVar "file") "Generate")) [ GpsContinue ] [];
    GpsRange "_" "message" (GpxSel (GpxVar "file") "Messages") canon_main_messages_body ].
Definition canon_main_closure : list gpstmt :=
  [ GpsDefine ["processedMessages"] (GpxMakeMap "map[protoreflect.FullName]struct{}");
    GpsRange "_" "file" (GpxSel (GpxVar "plugin") "Files") canon_main_files_body;
    GpsReturn [GpxCall "generateAllFiles" [GpxVar "plugin"; GpxSplit (GpxVar "features") "+"; GpxVar "poolable"]] ].
Definition canon_main_body : list gpstmt :=
  [ GpsVar "features" "string";
    GpsDefine ["poolable"] (GpxMakeMap "ObjectSet");
    GpsVar "f" "flag.FlagSet";
    GpsFlagVar "f" (GpxVar "poolable") "pool" "use memory pooling for this object";
    GpsFlagStringVar "f" "features" "features" "all" "list of features to generate (separated by '+')";
    GpsRun "f" "plugin" canon_main_closure ].

Definition canon_main_go : list gpdecl :=
  [ GpdType "ObjectSet" "map[protogen.GoIdent]bool";
    GpdMethod "ObjectSet" "String";
    GpdMethod "ObjectSet" "Set";
    GpdFunc "main" [] [] canon_main_body;
    GpdVar "SupportedFeatures" (GpxConv "uint64" (GpxQual "pluginpb" "CodeGeneratorResponse_FEATURE_PROTO3_OPTIONAL"));
    GpdFunc "generateAllFiles" [("plugin", "*protogen.Plugin"); ("featureNames", "[]string"); ("poolable", "ObjectSet")] ["error"]
      canon_generateAllFiles_body;
    GpdVar "reservedFieldNames" canon_reservedFieldNames;
    GpdFunc "rewriteMessageField" [("message", "*protogen.Message"); ("processed", "map[protoreflect.FullName]struct{}")] []
      canon_rewriteMessageField_body ].
Definition canon_main_go_imports : list gname :=
  [ "_=github.com/cosmos/cosmos-proto/features/fastreflection";
    "_=github.com/cosmos/cosmos-proto/features/protoc";
    "flag"; "fmt";
    "github.com/cosmos/cosmos-proto/generator";
    "google.golang.org/protobuf/compiler/protogen";
    "google.golang.org/protobuf/reflect/protoreflect";
    "google.golang.org/protobuf/types/pluginpb";
    "log"; "strings" ].

(* the program the interpreter runs: both files (one flat name space: the files declare no name twice) *)
Definition canon_genprog : list gpdecl := canon_features_go ++ canon_main_go.

(* ---- what the programs compute, in the words of GenNames.v / GenOrder.v --------------------------------------------------- *)
Local Close Scope gname_scope.
Local Open Scope byte_scope.
Definition s_pulsar_go : name := ["."; "p"; "u"; "l"; "s"; "a"; "r"; "."; "g"; "o"].
Definition s_package : name := ["p"; "a"; "c"; "k"; "a"; "g"; "e"; " "].
Definition s_features : name := ["f"; "e"; "a"; "t"; "u"; "r"; "e"; "s"].
Local Close Scope byte_scope.
Definition s_header : name := gname_bytes "// Code generated by protoc-gen-go-pulsar. DO NOT EDIT."%gname.
Definition s_unknown_feature : gname := "unknown feature: %q"%gname.

(* rewriteMessageField on the tree: GenNames.rewrite_field on every field and every real oneof of every message visited;
   [done] is the `processed` map (only its keys matter) *)
Definition gp_rw_field (f : pfield) : pfield := {| pf_go := rewrite_field (pf_go f); pf_full := pf_full f |}.
Definition gp_rw_oneof (o : poneof) : poneof :=
  if po_syn o then o else {| po_go := rewrite_field (po_go o); po_syn := po_syn o; po_full := po_full o |}.
Fixpoint gp_rw_msg (m : pmsg) (done : gpmap) {struct m} : pmsg * gpmap :=
  match m with
  | PMsg full me fs os ms =>
    match gp_map_get full done with
    | Some _ => (m, done)                                            (* already processed *)
    | None =>
      if me then (m, done)                                           (* a map entry *)
      else
        let r := (fix go (l : list pmsg) (d : gpmap) {struct l} : list pmsg * gpmap :=
                    match l with
                    | [] => ([], d)
                    | c :: t => let r1 := gp_rw_msg c d in let r2 := go t (snd r1) in (fst r1 :: fst r2, snd r2)
                    end) ms (gp_map_set full GpvUnit done) in
        (PMsg full me (map gp_rw_field fs) (map gp_rw_oneof os) (fst r), snd r)
    end
  end.
Fixpoint gp_rw_forest (l : list pmsg) (d : gpmap) : list pmsg * gpmap :=
  match l with
  | [] => ([], d)
  | c :: t => let r1 := gp_rw_msg c d in let r2 := gp_rw_forest t (snd r1) in (fst r1 :: fst r2, snd r2)
  end.
(* the loop over plugin.Files in main *)
Fixpoint gp_rw_files (fs : list pfile) (d : gpmap) : list pfile * gpmap :=
  match fs with
  | [] => ([], d)
  | f :: t =>
    if fi_generate f then
      let r1 := gp_rw_forest (fi_msgs f) d in let r2 := gp_rw_files t (snd r1) in (gp_file_with_msgs f (fst r1) :: fst r2, snd r2)
    else let r2 := gp_rw_files t d in (f :: fst r2, snd r2)
  end.

(* the nesting depth of a message: the calls rewriteMessageField makes *)
Fixpoint pm_depth (m : pmsg) : nat :=
  match m with PMsg _ _ _ _ ms => S (fold_right (fun c a => Nat.max (pm_depth c) a) 0 ms) end.
Definition pm_forest_depth (ms : list pmsg) : nat := fold_right (fun c a => Nat.max (pm_depth c) a) 0 ms.

(* findFeatures: GenOrder.find_features names, each name replaced by the value registered under it; the error names the first
   unknown feature *)
Fixpoint gp_first_unknown (names : list name) : option name :=
  match names with
  | [] => None
  | n :: rest =>
    if name_eqb n s_all then None
    else match lookup n with None => Some n | Some _ => gp_first_unknown rest end
  end.
Definition gp_feat_value (reg : gpmap) (n : name) : gpvalue := match gp_map_get n reg with Some v => v | None => GpvZero end.
Definition gp_find_features_spec (reg : gpmap) (names : list name) : list gpvalue :=
  match find_features names with
  | Some fs => [GpvSlice (map (gp_feat_value reg) fs); GpvErr None]
  | None => [GpvSlice []; GpvErr (match gp_first_unknown names with Some n => Some (s_unknown_feature, [n]) | None => None end)]
  end.

(* generateAllFiles: one file per plugin file with Generate = true, in order; skipped unless proto3 and some feature generated *)
Definition gp_out_of (gen_ok : bool) (f : pfile) : pout :=
  {| ou_name := fi_prefix f ++ s_pulsar_go; ou_import := fi_import f; ou_lines := [s_header; s_package ++ fi_pkg f];
     ou_skip := negb (fi_proto3 f && gen_ok) |}.
Definition gp_outs_spec (fs : list name) (files : list pfile) : list pout :=
  map (gp_out_of (generated fs)) (filter fi_generate files).
(* the names of the files of the response *)
Definition gp_emitted (outs : list pout) : list name := map ou_name (filter (fun o => negb (ou_skip o)) outs).

(* the whole plugin, for the request parameter features=<feats> (None: the flag's default "all") *)
Definition gp_main_spec (feats : option name) (files : list pfile) : option (gname * list name) * list pfile * list pout :=
  let names := split_plus (match feats with Some s => s | None => s_all end) in
  let files' := fst (gp_rw_files files []) in
  match find_features names with
  | Some fs => (None, files', gp_outs_spec fs files')
  | None => (match gp_first_unknown names with Some n => Some (s_unknown_feature, [n]) | None => None end, files', [])
  end.

(* ---- the statements (proved in Proofs/GenProgProofs.v; theorems in Properties/C12.v, C13.v) ------------------------------- *)
Definition gp_perm_ok (perm : gpmap -> gpmap) : Prop := forall m, Permutation (perm m) m.
(* sort.Slice: the result is a permutation; when the comparator is a strict total order on the elements, no element is less than one before it *)
Definition gp_strict_total (less : gpvalue -> gpvalue -> bool) (l : list gpvalue) : Prop :=
  (forall a, In a l -> less a a = false) /\
  (forall a b c, In a l -> In b l -> In c l -> less a b = true -> less b c = true -> less a c = true) /\
  (forall a b, In a l -> In b l -> a <> b -> less a b = true \/ less b a = true).
Definition gp_sorter_ok (sorter : (gpvalue -> gpvalue -> bool) -> list gpvalue -> list gpvalue) : Prop :=
  forall less l, Permutation (sorter less l) l /\
                 (gp_strict_total less l -> StronglySorted (fun a b => less b a = false) (sorter less l)).
(* the features registered are those of GenOrder.registry, and [feat_gen] answers as that table does *)
Definition gp_registry_ok (feat_gen : gpvalue -> bool) (reg : gpmap) : Prop :=
  Permutation (map fst reg) (map fst registry) /\
  forall n v, gp_map_get n reg = Some v -> feat_gen v = match lookup n with Some g => g | None => false end.
(* a state in which defaultFeatures is the map [reg] *)
Definition gp_features_state (st : gpstate) (reg : gpmap) : Prop :=
  exists c, gp_glob_get "defaultFeatures"%gname (gp_glob st) = Some (GpvMap (Some c)) /\ gp_heap_get (gp_maps st) c = Some reg.
(* a state in which reservedFieldNames is a map with exactly GenNames.reserved as keys, in cell r *)
Definition gp_reserved_state (st : gpstate) (r : nat) : Prop :=
  gp_glob_get "reservedFieldNames"%gname (gp_glob st) = Some (GpvMap (Some r)) /\
  exists rm, gp_heap_get (gp_maps st) r = Some rm /\ forall g, (gp_map_get g rm <> None <-> is_reserved g = true).

(* (a) findFeatures interpreted = GenOrder.find_features, whatever order the map of required features is iterated in and whatever
       sort algorithm sort.Slice uses; it leaves one new map behind and nothing else *)
Definition find_features_prog_stmt : Prop :=
  forall perm sorter feat_gen fuel st reg names,
    gp_perm_ok perm -> gp_sorter_ok sorter -> gp_features_state st reg -> Permutation (map fst reg) (map fst registry) ->
    exists m, gp_call perm sorter feat_gen canon_genprog (S fuel) "findFeatures"%gname [GpvSlice (map GpvStr names)] st
              = GpOk (gp_find_features_spec reg names) (gp_with_maps st (gp_maps st ++ [m])).

(* (c) the reservedFieldNames literal evaluates to a map whose keys are GenNames.reserved *)
Definition reserved_literal_stmt : Prop :=
  forall perm sorter feat_gen st,
    exists m, gp_eval feat_gen (gp_call perm sorter feat_gen canon_genprog 0) canon_reservedFieldNames st
              = GpOk [GpvMap (Some (length (gp_maps st)))] (gp_with_maps st (gp_maps st ++ [m])) /\
              map fst m = reserved /\ forall g, (gp_map_get g m <> None <-> is_reserved g = true).

(* (b) rewriteMessageField interpreted on the message at (i, p) = gp_rw_msg on that subtree; the rest of the tree, the other maps,
       the variables are untouched *)
Definition rewrite_prog_stmt : Prop :=
  forall perm sorter feat_gen fuel st r q i p t done,
    gp_reserved_state st r -> q <> r -> gp_heap_get (gp_maps st) q = Some done -> gp_get_msg (gp_files st) i p = Some t ->
    pm_depth t <= fuel ->
    gp_call perm sorter feat_gen canon_genprog fuel "rewriteMessageField"%gname [GpvMsg i p; GpvMap (Some q)] st
    = GpOk [] (gp_with_maps (gp_with_files st (gp_set_msg (gp_files st) i p (fst (gp_rw_msg t done))))
                            (gp_list_set q (snd (gp_rw_msg t done)) (gp_maps st))).

(* (d) generateAllFiles interpreted: an unknown feature is returned as the error and no file is made; otherwise one file
       <prefix>.pulsar.go per plugin file with Generate = true, skipped unless the file is proto3 and some feature generated *)
Definition generate_all_files_prog_stmt : Prop :=
  forall perm sorter feat_gen fuel st reg names pool,
    gp_perm_ok perm -> gp_sorter_ok sorter -> gp_features_state st reg -> gp_registry_ok feat_gen reg ->
    exists m,
      gp_call perm sorter feat_gen canon_genprog (S (S fuel)) "generateAllFiles"%gname
              [GpvPlugin; GpvSlice (map GpvStr names); GpvMap pool] st
      = match find_features names with
        | Some fs => GpOk [GpvErr None] (gp_with_outs (gp_with_maps st (gp_maps st ++ [m])) (gp_outs st ++ gp_outs_spec fs (gp_files st)))
        | None => GpOk [GpvErr (match gp_first_unknown names with Some n => Some (s_unknown_feature, [n]) | None => None end)]
                       (gp_with_maps st (gp_maps st ++ [m]))
        end.

(* (e) the whole plugin: for every iteration order, sort algorithm, request (features= given or not) and plugin object tree, main
       renames the members of the files to generate and makes the files of (d) *)
Definition main_prog_stmt : Prop :=
  forall perm sorter feat_gen fuel reg files feats,
    gp_perm_ok perm -> gp_sorter_ok sorter -> gp_registry_ok feat_gen reg ->
    fold_right (fun f a => Nat.max (pm_forest_depth (fi_msgs f)) a) 0 files + 3 <= fuel ->
    exists st',
      gp_run_main perm sorter feat_gen canon_genprog fuel reg files (match feats with Some s => [(s_features, s)] | None => [] end)
      = GpOk (gp_main_spec feats files) st'.
