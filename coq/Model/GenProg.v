(* Model/GenProg.v — translator tie for the HAND-WRITTEN decision logic of the plugin (task T17):
     /repo/cmd/protoc-gen-go-pulsar/main.go   reservedFieldNames, rewriteMessageField, main (the loop over plugin.Files), generateAllFiles
     /repo/generator/features.go              defaultFeatures, findFeatures, RegisterFeature
   whose hand-written models are Model/GenNames.v (reserved, rewrite_field) and Model/GenOrder.v (find_features, generated).

   A statement language that is a literal image of what these functions are made of, an interpreter, the CANONICAL programs (the
   current source transcribed once; the engine "genprog" re-translates both files on every run and the driver compares, declaration
   by declaration, with these constants) and the statements that tie the canonical programs to GenNames.v / GenOrder.v
   (Definitions here; proofs in Proofs/GenProgProofs.v, theorems in Properties/C12.v and C13.v).

   Reading guide
   * Values [gpvalue]: strings, bools, ints (slice indexes of the sort comparator only), struct{}{} , slices (by value: append
     returns a new slice, no capacity, no aliasing), structs of a locally declared struct type, Go maps with string keys
     (REFERENCES: a nil map or a cell of the map heap [gpp_maps]; `required = defaultFeatures` aliases), errors (nil or the format of
     fmt.Errorf with its string operands), feature values (opaque tokens [GpvFeat]), and the protogen objects — POINTERS into the
     plugin's object tree, which is part of the state: [GpvPlugin], [GpvFile i] = plugin.Files[i], [GpvMsg i p] = the message
     reached from file i by the path p of positions in .Messages, [GpvField i p k] / [GpvOneof i p k] = its k-th field / oneof.
     A write `field.GoName = s` changes the tree; every pointer to that object sees it (a path denotes one object: the tree of
     declarations has no sharing). [GpvZero] is the zero value of a type the interpreter does not know (the value next to
     ok = false in a comma-ok lookup): every use of it is stuck.
   * `range` over a map visits the entries in ANY order: the interpreter takes the order as a parameter [perm] (applied to the
     entries at loop entry; the statements quantify over every [perm] that permutes). `sort.Slice(x, func(i, j int) bool { return e })`
     takes the sort algorithm as a parameter [sorter]; the comparator is the printed expression evaluated with x bound to the two
     elements compared; the statements hold for every sorter that returns a sorted permutation whenever the comparator is a strict
     total order on the elements (stable or not: feature names are distinct map keys, so the sorted order is unique).
   * Library calls are one constructor each. Three of them stand for code of /repo that is NOT translated and are given the
     meaning of Model/GenOrder.v: `generator.NewGenerator(files, names, ext)` = call the TRANSLATED findFeatures and keep its
     features or hand its error on (generator.go lines 28-33); `gen.GenerateFile(plugin, gf, file)` = the file is proto3 and some
     feature of gen reports "generated" ([feat_gen], GenOrder.generated); `gf.P(…)` appends a line, `gf.Skip()` marks the file.
     `log.Printf` evaluates its operands and does nothing.
   * main: `var f flag.FlagSet; f.Var(poolable, "pool", …); f.StringVar(&features, "features", "all", …);
     protogen.Options{ParamFunc: f.Set}.Run(func(plugin *protogen.Plugin) error {…})` are three statement forms; Run hands every
     request parameter (those protogen does not consume itself) to the flag set — a string flag assigns its variable, an unknown
     flag ends the process [GpExit], a flag.Value flag would call a method that is not translated (stuck) — then runs the closure
     in the scope of main with the plugin bound; the error it returns is the response's error [gpp_err].
   * What Go's compiler would reject is "stuck" [GpStuck]; a nil-map assignment and an index out of range are [GpPanic]. Only calls
     consume fuel (the interpreter is structurally recursive on the syntax; loops run over the finite list they range over).
   * Names: extracted into the same OCaml module as the other models: constructors carry prefixes of their own (Gpx… expressions,
     Gps… statements, Gpd… declarations, Gpv… values, gpp_… functions).
   Executable definitions only. *)
From CP Require Import Bytes GenNames GenOrder.
From CP Require Import GoFun.     (* gname (names and string literals: a byte list with a string notation), str_eq *)
From Coq Require Import Permutation Sorted.
Local Open Scope nat_scope.

(* ---- the protogen objects the functions read and write --------------------------------------------------------------- *)
Record pfield := { pf_go : name; pf_full : name }.                                (* field.GoName, field.Desc.FullName() *)
Record poneof := { po_go : name; po_syn : bool; po_full : name }.                 (* oneof.GoName, oneof.Desc.IsSynthetic(), .FullName() *)
Inductive pmsg := GpMsg (full : name) (mapentry : bool) (fields : list pfield) (oneofs : list poneof) (msgs : list pmsg).
Definition pm_full (m : pmsg) : name := match m with GpMsg a _ _ _ _ => a end.
Definition pm_mapentry (m : pmsg) : bool := match m with GpMsg _ b _ _ _ => b end.
Definition pm_fields (m : pmsg) : list pfield := match m with GpMsg _ _ c _ _ => c end.
Definition pm_oneofs (m : pmsg) : list poneof := match m with GpMsg _ _ _ d _ => d end.
Definition pm_msgs (m : pmsg) : list pmsg := match m with GpMsg _ _ _ _ e => e end.
Record pfile := { fi_generate : bool; fi_proto3 : bool; fi_prefix : name; fi_import : name; fi_pkg : name; fi_msgs : list pmsg }.
(* a file made with plugin.NewGeneratedFile: its name, import path, the lines printed so far, skipped? *)
Record pout := { ou_name : name; ou_import : name; ou_lines : list name; ou_skip : bool }.

(* ---- syntax -------------------------------------------------------------------------------------------------------- *)
Inductive gpexpr :=
| GpxNil                                                      (* nil *)
| GpxVar (x : gname)                                          (* a local, a parameter, else a package-level variable of the two files *)
| GpxStr (s : gname)                                          (* "…" *)
| GpxUnit                                                     (* struct{}{}  (and the elided {} of a map literal's value) *)
| GpxConcat (a b : gpexpr)                                    (* a + b  (strings) *)
| GpxEq (a b : gpexpr) | GpxNe (a b : gpexpr)                 (* a == b   a != b *)
| GpxLt (a b : gpexpr)                                        (* a < b  (strings) *)
| GpxNot (e : gpexpr)                                         (* !e *)
| GpxOr (a b : gpexpr)                                        (* a || b : b is not evaluated when a is true *)
| GpxSel (e : gpexpr) (f : gname)                             (* e.f *)
| GpxIndex (e i : gpexpr)                                     (* e[i], single-valued *)
| GpxIndexOk (m k : gpexpr)                                   (* m[k], comma-ok form : (value, bool) *)
| GpxMakeMap (ty : gname)                                     (* make(T), T a map type *)
| GpxMapLit (ty : gname) (kvs : list (gname * gpexpr))        (* T{"k": e, …}, T a map type with string keys *)
| GpxStruct (ty : gname) (es : list gpexpr)                   (* T{e, …}, T a struct type declared in the function *)
| GpxAppend (s e : gpexpr)                                    (* append(s, e) *)
| GpxSplit (s : gpexpr) (sep : gname)                         (* strings.Split(s, "sep") *)
| GpxErrorf (f : gname) (args : list gpexpr)                  (* fmt.Errorf("f", args…) *)
| GpxCall (f : gname) (args : list gpexpr)                    (* f(args…), f a function of the two files *)
| GpxFullName (e : gpexpr)                                    (* e.Desc.FullName() *)
| GpxIsMapEntry (e : gpexpr)                                  (* e.Desc.IsMapEntry() *)
| GpxIsSynthetic (e : gpexpr)                                 (* e.Desc.IsSynthetic() *)
| GpxExtensions (e : gpexpr)                                  (* &generator.Extensions{Poolable: e} *)
| GpxNewGenerator (files names ext : gpexpr)                  (* generator.NewGenerator(files, names, ext) : ( *Generator, error) *)
| GpxNewGeneratedFile (p n path : gpexpr)                     (* p.NewGeneratedFile(n, path) *)
| GpxGenerateFile (g p gf f : gpexpr)                         (* g.GenerateFile(p, gf, f) : bool *)
| GpxConv (ty : gname) (e : gpexpr)                           (* T(e), T a predeclared numeric type: opaque *)
| GpxQual (pkg n : gname).                                    (* pkg.Name, a constant of an imported package: opaque *)

Inductive gpstmt :=
| GpsDefine (xs : list gname) (e : gpexpr)                    (* x, y := e *)
| GpsAssign (xs : list gname) (e : gpexpr)                    (* x, y = e  (variables only) *)
| GpsVar (x ty : gname)                                       (* var x T *)
| GpsTypeStruct (ty : gname) (fields : list (gname * gname))  (* type T struct { f T1; … } *)
| GpsSetIndex (m k v : gpexpr)                                (* m[k] = v *)
| GpsSetField (e : gpexpr) (f : gname) (v : gpexpr)           (* e.f = v *)
| GpsIf (init : list gpstmt) (c : gpexpr) (a b : list gpstmt) (* if init; c {a} else {b}: init has zero or one statement; no else: b = [] *)
| GpsRange (k v : gname) (e : gpexpr) (body : list gpstmt)    (* for k, v := range e {body} *)
| GpsBreak | GpsContinue
| GpsReturn (es : list gpexpr)
| GpsExpr (e : gpexpr)                                        (* e  (a call whose results are dropped) *)
| GpsSortSlice (x i j : gname) (less : gpexpr)                (* sort.Slice(x, func(i, j int) bool { return less }) *)
| GpsLog (f : gname) (args : list gpexpr)                     (* log.Printf("f", args…) *)
| GpsP (gf : gpexpr) (args : list gpexpr)                     (* gf.P(args…) *)
| GpsSkip (gf : gpexpr)                                       (* gf.Skip() *)
| GpsFlagVar (f : gname) (e : gpexpr) (n u : gname)           (* f.Var(e, "n", "u") *)
| GpsFlagStringVar (f x n d u : gname)                        (* f.StringVar(&x, "n", "d", "u") *)
| GpsRun (f plugin : gname) (body : list gpstmt).             (* protogen.Options{ParamFunc: f.Set}.Run(func(plugin *protogen.Plugin) error {body}) *)

Inductive gpdecl :=
| GpdFunc (f : gname) (params : list (gname * gname)) (results : list gname) (body : list gpstmt)   (* types as their text *)
| GpdVar (x : gname) (e : gpexpr)                              (* var x = e *)
| GpdType (t : gname) (text : gname)                           (* type t <text> *)
| GpdMethod (recv m : gname).                                  (* a method: not translated, recorded by name *)

Definition gpd_name (d : gpdecl) : gname :=
  match d with GpdFunc f _ _ _ => f | GpdVar x _ => x | GpdType t _ => t | GpdMethod _ m => m end.

(* ---- decidable equality of programs --------------------------------------------------------------------------------- *)
Fixpoint gpp_names_eqb (a b : list gname) : bool :=
  match a, b with
  | [], [] => true
  | x :: a', y :: b' => str_eq x y && gpp_names_eqb a' b'
  | _, _ => false
  end.

Fixpoint gpp_pairs_eqb (a b : list (gname * gname)) : bool :=
  match a, b with
  | [], [] => true
  | (x, t) :: a', (y, u) :: b' => str_eq x y && str_eq t u && gpp_pairs_eqb a' b'
  | _, _ => false
  end.

Fixpoint gpexpr_eqb (a b : gpexpr) {struct a} : bool :=
  let leq := fix leq (l l' : list gpexpr) {struct l} : bool :=
      match l, l' with
      | [], [] => true
      | x :: t, y :: t' => gpexpr_eqb x y && leq t t'
      | _, _ => false
      end in
  let kveq := fix kveq (l l' : list (gname * gpexpr)) {struct l} : bool :=
      match l, l' with
      | [], [] => true
      | (k, x) :: t, (k', y) :: t' => str_eq k k' && gpexpr_eqb x y && kveq t t'
      | _, _ => false
      end in
  match a, b with
  | GpxNil, GpxNil => true
  | GpxVar x, GpxVar y => str_eq x y
  | GpxStr x, GpxStr y => str_eq x y
  | GpxUnit, GpxUnit => true
  | GpxConcat x y, GpxConcat x' y' => gpexpr_eqb x x' && gpexpr_eqb y y'
  | GpxEq x y, GpxEq x' y' => gpexpr_eqb x x' && gpexpr_eqb y y'
  | GpxNe x y, GpxNe x' y' => gpexpr_eqb x x' && gpexpr_eqb y y'
  | GpxLt x y, GpxLt x' y' => gpexpr_eqb x x' && gpexpr_eqb y y'
  | GpxNot e, GpxNot e' => gpexpr_eqb e e'
  | GpxOr x y, GpxOr x' y' => gpexpr_eqb x x' && gpexpr_eqb y y'
  | GpxSel e f, GpxSel e' f' => gpexpr_eqb e e' && str_eq f f'
  | GpxIndex x y, GpxIndex x' y' => gpexpr_eqb x x' && gpexpr_eqb y y'
  | GpxIndexOk x y, GpxIndexOk x' y' => gpexpr_eqb x x' && gpexpr_eqb y y'
  | GpxMakeMap t, GpxMakeMap t' => str_eq t t'
  | GpxMapLit t l, GpxMapLit t' l' => str_eq t t' && kveq l l'
  | GpxStruct t l, GpxStruct t' l' => str_eq t t' && leq l l'
  | GpxAppend x y, GpxAppend x' y' => gpexpr_eqb x x' && gpexpr_eqb y y'
  | GpxSplit e s, GpxSplit e' s' => gpexpr_eqb e e' && str_eq s s'
  | GpxErrorf f l, GpxErrorf f' l' => str_eq f f' && leq l l'
  | GpxCall f l, GpxCall f' l' => str_eq f f' && leq l l'
  | GpxFullName e, GpxFullName e' => gpexpr_eqb e e'
  | GpxIsMapEntry e, GpxIsMapEntry e' => gpexpr_eqb e e'
  | GpxIsSynthetic e, GpxIsSynthetic e' => gpexpr_eqb e e'
  | GpxExtensions e, GpxExtensions e' => gpexpr_eqb e e'
  | GpxNewGenerator x y z, GpxNewGenerator x' y' z' => gpexpr_eqb x x' && gpexpr_eqb y y' && gpexpr_eqb z z'
  | GpxNewGeneratedFile x y z, GpxNewGeneratedFile x' y' z' => gpexpr_eqb x x' && gpexpr_eqb y y' && gpexpr_eqb z z'
  | GpxGenerateFile x y z w, GpxGenerateFile x' y' z' w' => gpexpr_eqb x x' && gpexpr_eqb y y' && gpexpr_eqb z z' && gpexpr_eqb w w'
  | GpxConv t e, GpxConv t' e' => str_eq t t' && gpexpr_eqb e e'
  | GpxQual p n, GpxQual p' n' => str_eq p p' && str_eq n n'
  | _, _ => false
  end.

Fixpoint gpexprs_eqb (l l' : list gpexpr) {struct l} : bool :=
  match l, l' with
  | [], [] => true
  | x :: t, y :: t' => gpexpr_eqb x y && gpexprs_eqb t t'
  | _, _ => false
  end.

Fixpoint gpstmt_eqb (a b : gpstmt) {struct a} : bool :=
  let leq := fix leq (l l' : list gpstmt) {struct l} : bool :=
      match l, l' with
      | [], [] => true
      | x :: t, y :: t' => gpstmt_eqb x y && leq t t'
      | _, _ => false
      end in
  match a, b with
  | GpsDefine xs e, GpsDefine xs' e' => gpp_names_eqb xs xs' && gpexpr_eqb e e'
  | GpsAssign xs e, GpsAssign xs' e' => gpp_names_eqb xs xs' && gpexpr_eqb e e'
  | GpsVar x t, GpsVar x' t' => str_eq x x' && str_eq t t'
  | GpsTypeStruct t fs, GpsTypeStruct t' fs' => str_eq t t' && gpp_pairs_eqb fs fs'
  | GpsSetIndex x y z, GpsSetIndex x' y' z' => gpexpr_eqb x x' && gpexpr_eqb y y' && gpexpr_eqb z z'
  | GpsSetField e f v, GpsSetField e' f' v' => gpexpr_eqb e e' && str_eq f f' && gpexpr_eqb v v'
  | GpsIf i c x y, GpsIf i' c' x' y' => leq i i' && gpexpr_eqb c c' && leq x x' && leq y y'
  | GpsRange k v e l, GpsRange k' v' e' l' => str_eq k k' && str_eq v v' && gpexpr_eqb e e' && leq l l'
  | GpsBreak, GpsBreak => true
  | GpsContinue, GpsContinue => true
  | GpsReturn l, GpsReturn l' => gpexprs_eqb l l'
  | GpsExpr e, GpsExpr e' => gpexpr_eqb e e'
  | GpsSortSlice x i j e, GpsSortSlice x' i' j' e' => str_eq x x' && str_eq i i' && str_eq j j' && gpexpr_eqb e e'
  | GpsLog f l, GpsLog f' l' => str_eq f f' && gpexprs_eqb l l'
  | GpsP g l, GpsP g' l' => gpexpr_eqb g g' && gpexprs_eqb l l'
  | GpsSkip g, GpsSkip g' => gpexpr_eqb g g'
  | GpsFlagVar f e n u, GpsFlagVar f' e' n' u' => str_eq f f' && gpexpr_eqb e e' && str_eq n n' && str_eq u u'
  | GpsFlagStringVar f x n d u, GpsFlagStringVar f' x' n' d' u' => str_eq f f' && str_eq x x' && str_eq n n' && str_eq d d' && str_eq u u'
  | GpsRun f p l, GpsRun f' p' l' => str_eq f f' && str_eq p p' && leq l l'
  | _, _ => false
  end.

Fixpoint gpstmts_eqb (l l' : list gpstmt) {struct l} : bool :=
  match l, l' with
  | [], [] => true
  | x :: t, y :: t' => gpstmt_eqb x y && gpstmts_eqb t t'
  | _, _ => false
  end.

Definition gpdecl_eqb (a b : gpdecl) : bool :=
  match a, b with
  | GpdFunc f ps rs l, GpdFunc f' ps' rs' l' => str_eq f f' && gpp_pairs_eqb ps ps' && gpp_names_eqb rs rs' && gpstmts_eqb l l'
  | GpdVar x e, GpdVar x' e' => str_eq x x' && gpexpr_eqb e e'
  | GpdType t s, GpdType t' s' => str_eq t t' && str_eq s s'
  | GpdMethod r m, GpdMethod r' m' => str_eq r r' && str_eq m m'
  | _, _ => false
  end.

Fixpoint gpp_find_decl (p : list gpdecl) (x : gname) : option gpdecl :=
  match p with
  | [] => None
  | d :: t => if str_eq (gpd_name d) x then Some d else gpp_find_decl t x
  end.

(* ---- values and the state ------------------------------------------------------------------------------------------- *)
Inductive gpflag := GpfString (x : gname) | GpfValue.          (* f.StringVar(&x, …)   f.Var(v, …) *)

Inductive gpvalue :=
| GpvNil                                        (* untyped nil (the literal) *)
| GpvZero                                       (* the zero value of a type the interpreter does not know *)
| GpvStr (s : name)
| GpvBool (b : bool)
| GpvInt (n : nat)
| GpvUnit                                       (* struct{}{} *)
| GpvSlice (l : list gpvalue)
| GpvStruct (ty : gname) (fs : list (gname * gpvalue))
| GpvType (fields : list gname)                 (* a struct type declared in the function: what its name is bound to *)
| GpvMap (p : option nat)                       (* a Go map: nil or cell p of the map heap *)
| GpvErr (e : option (gname * list name))       (* error: nil, or fmt.Errorf's format and string operands *)
| GpvFeat (n : name)                            (* a generator.Feature: opaque token *)
| GpvPlugin                                     (* *protogen.Plugin *)
| GpvFile (i : nat)                             (* plugin.Files[i] *)
| GpvMsg (i : nat) (p : list nat)               (* the message of file i at path p (positions in .Messages, outermost first) *)
| GpvField (i : nat) (p : list nat) (k : nat)   (* its k-th field *)
| GpvOneof (i : nat) (p : list nat) (k : nat)   (* its k-th oneof *)
| GpvExt                                        (* *generator.Extensions *)
| GpvGen (feats : list gpvalue)                 (* *generator.Generator: its features, in order *)
| GpvOut (o : nat)                              (* *protogen.GeneratedFile: the o-th file made *)
| GpvFlags (fl : list (name * gpflag))          (* flag.FlagSet *)
| GpvOpaque (t : gname).                        (* a value the model does not look into *)

Definition gpframe := list (gname * gpvalue).
Definition gpmap := list (name * gpvalue).

Record gpstate := {
  gpp_env : list gpframe;                        (* the scopes of the running function, innermost first *)
  gpp_glob : gpframe;                            (* package-level variables of the two files *)
  gpp_maps : list gpmap;                         (* the heap of Go maps *)
  gpp_files : list pfile;                        (* plugin.Files *)
  gpp_outs : list pout;                          (* the files made with plugin.NewGeneratedFile, in order *)
  gpp_params : list (name * name);               (* the request's parameters handed to ParamFunc *)
  gpp_err : option (gname * list name) }.        (* the error the Run closure returned *)

Definition gpp_with_env (st : gpstate) (en : list gpframe) : gpstate :=
  {| gpp_env := en; gpp_glob := gpp_glob st; gpp_maps := gpp_maps st; gpp_files := gpp_files st; gpp_outs := gpp_outs st;
     gpp_params := gpp_params st; gpp_err := gpp_err st |}.
Definition gpp_with_glob (st : gpstate) (g : gpframe) : gpstate :=
  {| gpp_env := gpp_env st; gpp_glob := g; gpp_maps := gpp_maps st; gpp_files := gpp_files st; gpp_outs := gpp_outs st;
     gpp_params := gpp_params st; gpp_err := gpp_err st |}.
Definition gpp_with_maps (st : gpstate) (m : list gpmap) : gpstate :=
  {| gpp_env := gpp_env st; gpp_glob := gpp_glob st; gpp_maps := m; gpp_files := gpp_files st; gpp_outs := gpp_outs st;
     gpp_params := gpp_params st; gpp_err := gpp_err st |}.
Definition gpp_with_files (st : gpstate) (f : list pfile) : gpstate :=
  {| gpp_env := gpp_env st; gpp_glob := gpp_glob st; gpp_maps := gpp_maps st; gpp_files := f; gpp_outs := gpp_outs st;
     gpp_params := gpp_params st; gpp_err := gpp_err st |}.
Definition gpp_with_outs (st : gpstate) (o : list pout) : gpstate :=
  {| gpp_env := gpp_env st; gpp_glob := gpp_glob st; gpp_maps := gpp_maps st; gpp_files := gpp_files st; gpp_outs := o;
     gpp_params := gpp_params st; gpp_err := gpp_err st |}.
Definition gpp_with_err (st : gpstate) (e : option (gname * list name)) : gpstate :=
  {| gpp_env := gpp_env st; gpp_glob := gpp_glob st; gpp_maps := gpp_maps st; gpp_files := gpp_files st; gpp_outs := gpp_outs st;
     gpp_params := gpp_params st; gpp_err := e |}.

Inductive gpres (A : Type) :=
| GpOk (a : A) (st : gpstate)
| GpPanic                                       (* a run-time panic of Go *)
| GpExit                                        (* the process ends with an error before the plugin function runs *)
| GpFuel
| GpStuck.                                      (* not Go, or outside the modelled subset *)
Arguments GpOk {A} a st.
Arguments GpPanic {A}.
Arguments GpExit {A}.
Arguments GpFuel {A}.
Arguments GpStuck {A}.

Definition gpp_bind {A B} (r : gpres A) (k : A -> gpstate -> gpres B) : gpres B :=
  match r with GpOk a st => k a st | GpPanic => GpPanic | GpExit => GpExit | GpFuel => GpFuel | GpStuck => GpStuck end.
(* a single-valued operand *)
Definition gpp_bind1 {B} (r : gpres (list gpvalue)) (k : gpvalue -> gpstate -> gpres B) : gpres B :=
  gpp_bind r (fun vs st => match vs with [v] => k v st | _ => GpStuck end).

(* ---- variables ------------------------------------------------------------------------------------------------------ *)
Definition gpp_blank (x : gname) : bool := str_eq x "_".

Fixpoint gpp_frame_get (x : gname) (fr : gpframe) : option gpvalue :=
  match fr with
  | [] => None
  | (y, v) :: t => if str_eq x y then Some v else gpp_frame_get x t
  end.
Fixpoint gpp_frame_set (x : gname) (v : gpvalue) (fr : gpframe) : option gpframe :=
  match fr with
  | [] => None
  | (y, w) :: t =>
    if str_eq x y then Some ((y, v) :: t)
    else match gpp_frame_set x v t with Some t' => Some ((y, w) :: t') | None => None end
  end.
Fixpoint gpp_env_get (x : gname) (en : list gpframe) : option gpvalue :=
  match en with
  | [] => None
  | fr :: rest => match gpp_frame_get x fr with Some v => Some v | None => gpp_env_get x rest end
  end.
(* package-level variables, the map heap (names of their own: the proofs keep these lookups folded) *)
Definition gpp_glob_get (x : gname) (g : gpframe) : option gpvalue := gpp_frame_get x g.
Definition gpp_heap_get (h : list (list (name * gpvalue))) (c : nat) : option (list (name * gpvalue)) := nth_error h c.
Definition gpp_get (x : gname) (st : gpstate) : option gpvalue :=
  match gpp_env_get x (gpp_env st) with Some v => Some v | None => gpp_glob_get x (gpp_glob st) end.

(* x := v declares x in the innermost scope (a variable already declared THERE is re-used); _ is the blank identifier *)
Definition gpp_define1 (x : gname) (v : gpvalue) (st : gpstate) : option gpstate :=
  if gpp_blank x then Some st
  else match gpp_env st with
       | [] => None
       | fr :: rest =>
         match gpp_frame_set x v fr with
         | Some fr' => Some (gpp_with_env st (fr' :: rest))
         | None => Some (gpp_with_env st (((x, v) :: fr) :: rest))
         end
       end.
Fixpoint gpp_define (xs : list gname) (vs : list gpvalue) (st : gpstate) : option gpstate :=
  match xs, vs with
  | [], [] => Some st
  | x :: xs', v :: vs' => match gpp_define1 x v st with Some st' => gpp_define xs' vs' st' | None => None end
  | _, _ => None
  end.
(* x = v: the innermost declaration of x, else the package-level variable *)
Fixpoint gpp_env_set (x : gname) (v : gpvalue) (en : list gpframe) : option (list gpframe) :=
  match en with
  | [] => None
  | fr :: rest =>
    match gpp_frame_set x v fr with
    | Some fr' => Some (fr' :: rest)
    | None => match gpp_env_set x v rest with Some rest' => Some (fr :: rest') | None => None end
    end
  end.
Definition gpp_assign1 (x : gname) (v : gpvalue) (st : gpstate) : option gpstate :=
  if gpp_blank x then Some st
  else match gpp_env_set x v (gpp_env st) with
       | Some en => Some (gpp_with_env st en)
       | None => match gpp_frame_set x v (gpp_glob st) with Some g => Some (gpp_with_glob st g) | None => None end
       end.
Fixpoint gpp_assign (xs : list gname) (vs : list gpvalue) (st : gpstate) : option gpstate :=
  match xs, vs with
  | [], [] => Some st
  | x :: xs', v :: vs' => match gpp_assign1 x v st with Some st' => gpp_assign xs' vs' st' | None => None end
  | _, _ => None
  end.
Definition gpp_push (fr : gpframe) (st : gpstate) : gpstate := gpp_with_env st (fr :: gpp_env st).
Definition gpp_pop (st : gpstate) : gpstate := gpp_with_env st (tl (gpp_env st)).

(* ---- Go maps with string keys: association lists; m[k] = v replaces or adds ------------------------------------------ *)
Fixpoint gpp_map_get (k : name) (m : gpmap) : option gpvalue :=
  match m with
  | [] => None
  | (k', v) :: t => if name_eqb k k' then Some v else gpp_map_get k t
  end.
Fixpoint gpp_map_set (k : name) (v : gpvalue) (m : gpmap) : gpmap :=
  match m with
  | [] => [(k, v)]
  | (k', w) :: t => if name_eqb k k' then (k', v) :: t else (k', w) :: gpp_map_set k v t
  end.
Fixpoint gpp_list_set {A} (n : nat) (a : A) (l : list A) : list A :=
  match l, n with
  | [], _ => []
  | _ :: t, O => a :: t
  | x :: t, S n' => x :: gpp_list_set n' a t
  end.

(* ---- the object tree ------------------------------------------------------------------------------------------------- *)
Fixpoint gpp_forest_get (ms : list pmsg) (p : list nat) : option pmsg :=
  match p with
  | [] => None
  | i :: p' =>
    match nth_error ms i with
    | None => None
    | Some m => match p' with [] => Some m | _ :: _ => gpp_forest_get (pm_msgs m) p' end
    end
  end.
Fixpoint gpp_forest_set (ms : list pmsg) (p : list nat) (m' : pmsg) : list pmsg :=
  match p with
  | [] => ms
  | i :: p' =>
    match nth_error ms i with
    | None => ms
    | Some m =>
      match p' with
      | [] => gpp_list_set i m' ms
      | _ :: _ => gpp_list_set i (GpMsg (pm_full m) (pm_mapentry m) (pm_fields m) (pm_oneofs m) (gpp_forest_set (pm_msgs m) p' m')) ms
      end
    end
  end.
Definition gpp_file_with_msgs (f : pfile) (ms : list pmsg) : pfile :=
  {| fi_generate := fi_generate f; fi_proto3 := fi_proto3 f; fi_prefix := fi_prefix f; fi_import := fi_import f; fi_pkg := fi_pkg f;
     fi_msgs := ms |}.
Definition gpp_get_msg (fs : list pfile) (i : nat) (p : list nat) : option pmsg :=
  match nth_error fs i with Some f => gpp_forest_get (fi_msgs f) p | None => None end.
Definition gpp_set_msg (fs : list pfile) (i : nat) (p : list nat) (m' : pmsg) : list pfile :=
  match nth_error fs i with
  | Some f => gpp_list_set i (gpp_file_with_msgs f (gpp_forest_set (fi_msgs f) p m')) fs
  | None => fs
  end.

Definition gpp_refs {A} (mk : nat -> gpvalue) (l : list A) : gpvalue := GpvSlice (map mk (seq 0 (length l))).

(* e.f *)
Definition gpp_sel (v : gpvalue) (f : gname) (st : gpstate) : option gpvalue :=
  match v with
  | GpvStruct _ fs => gpp_frame_get f fs
  | GpvPlugin => if str_eq f "Files" then Some (gpp_refs GpvFile (gpp_files st)) else None
  | GpvFile i =>
    match nth_error (gpp_files st) i with
    | None => None
    | Some fl =>
      if str_eq f "Generate" then Some (GpvBool (fi_generate fl))
      else if str_eq f "Messages" then Some (gpp_refs (fun k => GpvMsg i [k]) (fi_msgs fl))
      else if str_eq f "GeneratedFilenamePrefix" then Some (GpvStr (fi_prefix fl))
      else if str_eq f "GoImportPath" then Some (GpvStr (fi_import fl))
      else if str_eq f "GoPackageName" then Some (GpvStr (fi_pkg fl))
      else None
    end
  | GpvMsg i p =>
    match gpp_get_msg (gpp_files st) i p with
    | None => None
    | Some m =>
      if str_eq f "Fields" then Some (gpp_refs (GpvField i p) (pm_fields m))
      else if str_eq f "Oneofs" then Some (gpp_refs (GpvOneof i p) (pm_oneofs m))
      else if str_eq f "Messages" then Some (gpp_refs (fun k => GpvMsg i (p ++ [k])) (pm_msgs m))
      else None
    end
  | GpvField i p k =>
    match gpp_get_msg (gpp_files st) i p with
    | None => None
    | Some m => match nth_error (pm_fields m) k with
                | Some fd => if str_eq f "GoName" then Some (GpvStr (pf_go fd)) else None
                | None => None
                end
    end
  | GpvOneof i p k =>
    match gpp_get_msg (gpp_files st) i p with
    | None => None
    | Some m => match nth_error (pm_oneofs m) k with
                | Some oo => if str_eq f "GoName" then Some (GpvStr (po_go oo)) else None
                | None => None
                end
    end
  | _ => None
  end.

(* e.f = s *)
Definition gpp_set_sel (v : gpvalue) (f : gname) (s : name) (st : gpstate) : option gpstate :=
  if negb (str_eq f "GoName") then None
  else match v with
       | GpvField i p k =>
         match gpp_get_msg (gpp_files st) i p with
         | None => None
         | Some m =>
           match nth_error (pm_fields m) k with
           | None => None
           | Some fd =>
             Some (gpp_with_files st (gpp_set_msg (gpp_files st) i p
                    (GpMsg (pm_full m) (pm_mapentry m) (gpp_list_set k {| pf_go := s; pf_full := pf_full fd |} (pm_fields m)) (pm_oneofs m) (pm_msgs m))))
           end
         end
       | GpvOneof i p k =>
         match gpp_get_msg (gpp_files st) i p with
         | None => None
         | Some m =>
           match nth_error (pm_oneofs m) k with
           | None => None
           | Some oo =>
             Some (gpp_with_files st (gpp_set_msg (gpp_files st) i p
                    (GpMsg (pm_full m) (pm_mapentry m) (pm_fields m)
                          (gpp_list_set k {| po_go := s; po_syn := po_syn oo; po_full := po_full oo |} (pm_oneofs m)) (pm_msgs m))))
           end
         end
       | _ => None
       end.

(* ---- comparisons, strings --------------------------------------------------------------------------------------------- *)
Definition gpp_equal (a b : gpvalue) : option bool :=
  match a, b with
  | GpvStr x, GpvStr y => Some (name_eqb x y)
  | GpvBool x, GpvBool y => Some (Bool.eqb x y)
  | GpvErr e, GpvNil | GpvNil, GpvErr e => Some (match e with None => true | Some _ => false end)
  | GpvMap p, GpvNil | GpvNil, GpvMap p => Some (match p with None => true | Some _ => false end)
  | _, _ => None
  end.
(* Go's < on strings: bytewise lexicographic *)
Definition gpp_str_lt (a b : name) : bool := negb (name_leb b a).

(* strings.Split(s, sep) for a one-byte separator *)
Fixpoint gpp_split_aux (c : byte) (s cur : name) : list name :=
  match s with
  | [] => [rev cur]
  | x :: t => if Byte.eqb x c then rev cur :: gpp_split_aux c t [] else gpp_split_aux c t (x :: cur)
  end.
Definition gpp_split (c : byte) (s : name) : list name := gpp_split_aux c s [].

Fixpoint gpp_all_strs (vs : list gpvalue) : option (list name) :=
  match vs with
  | [] => Some []
  | GpvStr s :: t => match gpp_all_strs t with Some l => Some (s :: l) | None => None end
  | _ :: _ => None
  end.
Fixpoint gpp_all_files (vs : list gpvalue) : bool :=
  match vs with [] => true | GpvFile _ :: t => gpp_all_files t | _ :: _ => false end.
Fixpoint gpp_keys_distinct (ks : list name) : bool :=
  match ks with [] => true | k :: t => negb (existsb (name_eqb k) t) && gpp_keys_distinct t end.

(* the zero value of `var x T`, from the text of T *)
Definition gpp_zero (ty : gname) : gpvalue :=
  if str_eq ty "string" then GpvStr []
  else if str_eq ty "bool" then GpvBool false
  else if str_eq ty "flag.FlagSet" then GpvFlags []
  else match gname_bytes ty with
       | "["%byte :: "]"%byte :: _ => GpvSlice []
       | _ => GpvZero
       end.

Fixpoint gpp_zip {A B} (a : list A) (b : list B) : list (A * B) :=
  match a, b with x :: a', y :: b' => (x, y) :: gpp_zip a' b' | _, _ => [] end.
Fixpoint gpp_flag_get (k : name) (fl : list (name * gpflag)) : option gpflag :=
  match fl with [] => None | (k', f) :: t => if name_eqb k k' then Some f else gpp_flag_get k t end.

Inductive gpsig := GsgNext | GsgBreak | GsgContinue | GsgRet (vs : list gpvalue).

(* for … range: the items in the order visited; break leaves the loop, return leaves the function *)
Fixpoint gpp_loop (step : gpvalue * gpvalue -> gpstate -> gpres gpsig) (items : list (gpvalue * gpvalue)) (st : gpstate) : gpres gpsig :=
  match items with
  | [] => GpOk GsgNext st
  | it :: rest =>
    match step it st with
    | GpOk GsgNext st' | GpOk GsgContinue st' => gpp_loop step rest st'
    | GpOk GsgBreak st' => GpOk GsgNext st'
    | r => r
    end
  end.

Fixpoint gpp_index_items (i : nat) (l : list gpvalue) : list (gpvalue * gpvalue) :=
  match l with [] => [] | v :: t => (GpvInt i, v) :: gpp_index_items (S i) t end.

Section Interp.
  Variable perm : gpmap -> gpmap.                                               (* the order a `range` visits a map's entries in *)
  Variable sorter : (gpvalue -> gpvalue -> bool) -> list gpvalue -> list gpvalue.   (* sort.Slice's algorithm *)
  Variable feat_gen : gpvalue -> bool.                                          (* does this feature's GenerateFile report "generated"? *)
  (* a call of a function of the two files *)
  Variable call : gname -> list gpvalue -> gpstate -> gpres (list gpvalue).

  (* ---- expressions ------------------------------------------------------------------------------------------------- *)
  Fixpoint gpp_eval (e : gpexpr) (st : gpstate) {struct e} : gpres (list gpvalue) :=
    let evs := fix evs (l : list gpexpr) (st : gpstate) {struct l} : gpres (list gpvalue) :=
        match l with
        | [] => GpOk [] st
        | x :: t => gpp_bind1 (gpp_eval x st) (fun v st1 => gpp_bind (evs t st1) (fun vs st2 => GpOk (v :: vs) st2))
        end in
    let evkvs := fix evkvs (l : list (gname * gpexpr)) (st : gpstate) {struct l} : gpres gpmap :=
        match l with
        | [] => GpOk [] st
        | (k, x) :: t => gpp_bind1 (gpp_eval x st) (fun v st1 => gpp_bind (evkvs t st1) (fun m st2 => GpOk ((gname_bytes k, v) :: m) st2))
        end in
    match e with
    | GpxNil => GpOk [GpvNil] st
    | GpxVar x => match gpp_get x st with Some v => GpOk [v] st | None => GpStuck end
    | GpxStr s => GpOk [GpvStr (gname_bytes s)] st
    | GpxUnit => GpOk [GpvUnit] st
    | GpxConcat a b =>
      gpp_bind1 (gpp_eval a st) (fun va st1 => gpp_bind1 (gpp_eval b st1) (fun vb st2 =>
        match va, vb with GpvStr x, GpvStr y => GpOk [GpvStr (x ++ y)] st2 | _, _ => GpStuck end))
    | GpxEq a b =>
      gpp_bind1 (gpp_eval a st) (fun va st1 => gpp_bind1 (gpp_eval b st1) (fun vb st2 =>
        match gpp_equal va vb with Some r => GpOk [GpvBool r] st2 | None => GpStuck end))
    | GpxNe a b =>
      gpp_bind1 (gpp_eval a st) (fun va st1 => gpp_bind1 (gpp_eval b st1) (fun vb st2 =>
        match gpp_equal va vb with Some r => GpOk [GpvBool (negb r)] st2 | None => GpStuck end))
    | GpxLt a b =>
      gpp_bind1 (gpp_eval a st) (fun va st1 => gpp_bind1 (gpp_eval b st1) (fun vb st2 =>
        match va, vb with GpvStr x, GpvStr y => GpOk [GpvBool (gpp_str_lt x y)] st2 | _, _ => GpStuck end))
    | GpxNot e1 =>
      gpp_bind1 (gpp_eval e1 st) (fun v st1 => match v with GpvBool b => GpOk [GpvBool (negb b)] st1 | _ => GpStuck end)
    | GpxOr a b =>
      gpp_bind1 (gpp_eval a st) (fun va st1 =>
        match va with
        | GpvBool true => GpOk [GpvBool true] st1
        | GpvBool false => gpp_bind1 (gpp_eval b st1) (fun vb st2 => match vb with GpvBool r => GpOk [GpvBool r] st2 | _ => GpStuck end)
        | _ => GpStuck
        end)
    | GpxSel e1 f =>
      gpp_bind1 (gpp_eval e1 st) (fun v st1 => match gpp_sel v f st1 with Some r => GpOk [r] st1 | None => GpStuck end)
    | GpxIndex e1 i =>
      gpp_bind1 (gpp_eval e1 st) (fun v st1 => gpp_bind1 (gpp_eval i st1) (fun vi st2 =>
        match v, vi with
        | GpvSlice l, GpvInt n => match nth_error l n with Some r => GpOk [r] st2 | None => GpPanic end   (* index out of range *)
        | GpvMap (Some c), GpvStr k =>
          match gpp_heap_get (gpp_maps st2) c with
          | Some m => match gpp_map_get k m with Some r => GpOk [r] st2 | None => GpOk [GpvZero] st2 end
          | None => GpStuck
          end
        | GpvMap None, GpvStr _ => GpOk [GpvZero] st2
        | _, _ => GpStuck
        end))
    | GpxIndexOk m k =>
      gpp_bind1 (gpp_eval m st) (fun vm st1 => gpp_bind1 (gpp_eval k st1) (fun vk st2 =>
        match vm, vk with
        | GpvMap (Some c), GpvStr s =>
          match gpp_heap_get (gpp_maps st2) c with
          | Some mm => match gpp_map_get s mm with Some r => GpOk [r; GpvBool true] st2 | None => GpOk [GpvZero; GpvBool false] st2 end
          | None => GpStuck
          end
        | GpvMap None, GpvStr _ => GpOk [GpvZero; GpvBool false] st2
        | _, _ => GpStuck
        end))
    | GpxMakeMap _ => GpOk [GpvMap (Some (length (gpp_maps st)))] (gpp_with_maps st (gpp_maps st ++ [[]]))
    | GpxMapLit _ kvs =>
      gpp_bind (evkvs kvs st) (fun m st1 =>
        if gpp_keys_distinct (map fst m) then GpOk [GpvMap (Some (length (gpp_maps st1)))] (gpp_with_maps st1 (gpp_maps st1 ++ [m]))
        else GpStuck)                                                        (* duplicate key in map literal: does not compile *)
    | GpxStruct ty es =>
      match gpp_get ty st with
      | Some (GpvType fields) =>
        gpp_bind (evs es st) (fun vs st1 =>
          if Nat.eqb (length vs) (length fields) then GpOk [GpvStruct ty (gpp_zip fields vs)] st1 else GpStuck)
      | _ => GpStuck
      end
    | GpxAppend s e1 =>
      gpp_bind1 (gpp_eval s st) (fun vs st1 => gpp_bind1 (gpp_eval e1 st1) (fun v st2 =>
        match vs with GpvSlice l => GpOk [GpvSlice (l ++ [v])] st2 | _ => GpStuck end))
    | GpxSplit s sep =>
      gpp_bind1 (gpp_eval s st) (fun v st1 =>
        match v, gname_bytes sep with
        | GpvStr x, [c] => GpOk [GpvSlice (map GpvStr (gpp_split c x))] st1
        | _, _ => GpStuck
        end)
    | GpxErrorf f args =>
      gpp_bind (evs args st) (fun vs st1 => match gpp_all_strs vs with Some l => GpOk [GpvErr (Some (f, l))] st1 | None => GpStuck end)
    | GpxCall f args => gpp_bind (evs args st) (fun vs st1 => call f vs st1)
    | GpxFullName e1 =>
      gpp_bind1 (gpp_eval e1 st) (fun v st1 =>
        match v with
        | GpvMsg i p => match gpp_get_msg (gpp_files st1) i p with Some m => GpOk [GpvStr (pm_full m)] st1 | None => GpStuck end
        | GpvField i p k =>
          match gpp_get_msg (gpp_files st1) i p with
          | Some m => match nth_error (pm_fields m) k with Some fd => GpOk [GpvStr (pf_full fd)] st1 | None => GpStuck end
          | None => GpStuck
          end
        | GpvOneof i p k =>
          match gpp_get_msg (gpp_files st1) i p with
          | Some m => match nth_error (pm_oneofs m) k with Some oo => GpOk [GpvStr (po_full oo)] st1 | None => GpStuck end
          | None => GpStuck
          end
        | _ => GpStuck
        end)
    | GpxIsMapEntry e1 =>
      gpp_bind1 (gpp_eval e1 st) (fun v st1 =>
        match v with
        | GpvMsg i p => match gpp_get_msg (gpp_files st1) i p with Some m => GpOk [GpvBool (pm_mapentry m)] st1 | None => GpStuck end
        | _ => GpStuck
        end)
    | GpxIsSynthetic e1 =>
      gpp_bind1 (gpp_eval e1 st) (fun v st1 =>
        match v with
        | GpvOneof i p k =>
          match gpp_get_msg (gpp_files st1) i p with
          | Some m => match nth_error (pm_oneofs m) k with Some oo => GpOk [GpvBool (po_syn oo)] st1 | None => GpStuck end
          | None => GpStuck
          end
        | _ => GpStuck
        end)
    | GpxExtensions e1 =>
      gpp_bind1 (gpp_eval e1 st) (fun v st1 => match v with GpvMap _ => GpOk [GpvExt] st1 | _ => GpStuck end)
    | GpxNewGenerator files names ext =>
      gpp_bind1 (gpp_eval files st) (fun vf st1 => gpp_bind1 (gpp_eval names st1) (fun vn st2 => gpp_bind1 (gpp_eval ext st2) (fun vx st3 =>
        match vf, vn, vx with
        | GpvSlice fl, GpvSlice _, GpvExt =>
          if gpp_all_files fl then
            (* generator.go: features, err := findFeatures(featureNames); if err != nil { return nil, err }; … return &Generator{…, features: features, …}, nil *)
            gpp_bind (call "findFeatures"%gname [vn] st3) (fun rs st4 =>
              match rs with
              | [GpvSlice feats; GpvErr None] => GpOk [GpvGen feats; GpvErr None] st4
              | [_; GpvErr (Some er)] => GpOk [GpvNil; GpvErr (Some er)] st4
              | _ => GpStuck
              end)
          else GpStuck
        | _, _, _ => GpStuck
        end)))
    | GpxNewGeneratedFile p n path =>
      gpp_bind1 (gpp_eval p st) (fun vp st1 => gpp_bind1 (gpp_eval n st1) (fun vn st2 => gpp_bind1 (gpp_eval path st2) (fun vpa st3 =>
        match vp, vn, vpa with
        | GpvPlugin, GpvStr nm, GpvStr pa =>
          GpOk [GpvOut (length (gpp_outs st3))]
               (gpp_with_outs st3 (gpp_outs st3 ++ [{| ou_name := nm; ou_import := pa; ou_lines := []; ou_skip := false |}]))
        | _, _, _ => GpStuck
        end)))
    | GpxGenerateFile g p gf f =>
      gpp_bind1 (gpp_eval g st) (fun vg st1 => gpp_bind1 (gpp_eval p st1) (fun vp st2 => gpp_bind1 (gpp_eval gf st2) (fun vgf st3 =>
        gpp_bind1 (gpp_eval f st3) (fun vf st4 =>
          match vg, vp, vgf, vf with
          | GpvGen feats, GpvPlugin, GpvOut o, GpvFile i =>
            match nth_error (gpp_outs st4) o, nth_error (gpp_files st4) i with
            | Some _, Some fl => GpOk [GpvBool (fi_proto3 fl && existsb feat_gen feats)] st4
            | _, _ => GpStuck
            end
          | _, _, _, _ => GpStuck
          end))))
    | GpxConv ty e1 => gpp_bind1 (gpp_eval e1 st) (fun _ st1 => GpOk [GpvOpaque ty] st1)
    | GpxQual p n => GpOk [GpvOpaque n] st
    end.

  Fixpoint gpp_evals (l : list gpexpr) (st : gpstate) {struct l} : gpres (list gpvalue) :=
    match l with
    | [] => GpOk [] st
    | x :: t => gpp_bind1 (gpp_eval x st) (fun v st1 => gpp_bind (gpp_evals t st1) (fun vs st2 => GpOk (v :: vs) st2))
    end.

  (* ---- statements -------------------------------------------------------------------------------------------------- *)
  (* a block in a scope of its own, opened with the given bindings *)
  Definition gpp_scoped (blk : list gpstmt -> gpstate -> gpres gpsig) (fr : gpframe) (l : list gpstmt) (st : gpstate) : gpres gpsig :=
    match blk l (gpp_push fr st) with GpOk sg st' => GpOk sg (gpp_pop st') | r => r end.

  Definition gpp_bind_item (k v : gname) (it : gpvalue * gpvalue) : gpframe :=
    (if gpp_blank k then [] else [(k, fst it)]) ++ (if gpp_blank v then [] else [(v, snd it)]).

  (* the comparator of sort.Slice on two elements: the printed expression with the slice variable holding just these two *)
  Definition gpp_less (x i j : gname) (less : gpexpr) (st : gpstate) (a b : gpvalue) : option bool :=
    match gpp_eval less (gpp_push [(x, GpvSlice [a; b]); (i, GpvInt 0); (j, GpvInt 1)] st) with
    | GpOk [GpvBool r] _ => Some r
    | _ => None
    end.

  Definition gpp_run_params (fl : list (name * gpflag)) : list (name * name) -> gpstate -> gpres unit :=
    fix go (ps : list (name * name)) (st : gpstate) : gpres unit :=
      match ps with
      | [] => GpOk tt st
      | (k, v) :: rest =>
        match gpp_flag_get k fl with
        | None => GpExit                                                       (* flag provided but not defined *)
        | Some (GpfString x) => match gpp_assign1 x (GpvStr v) st with Some st' => go rest st' | None => GpStuck end
        | Some GpfValue => GpStuck                                             (* calls the flag.Value's Set method: not translated *)
        end
      end.

  Fixpoint gpp_exec (s : gpstmt) (st : gpstate) {struct s} : gpres gpsig :=
    let block := fix block (l : list gpstmt) (st : gpstate) {struct l} : gpres gpsig :=
        match l with
        | [] => GpOk GsgNext st
        | s1 :: t => match gpp_exec s1 st with GpOk GsgNext st' => block t st' | r => r end
        end in
    match s with
    | GpsDefine xs e =>
      gpp_bind (gpp_eval e st) (fun vs st1 => match gpp_define xs vs st1 with Some st2 => GpOk GsgNext st2 | None => GpStuck end)
    | GpsAssign xs e =>
      gpp_bind (gpp_eval e st) (fun vs st1 => match gpp_assign xs vs st1 with Some st2 => GpOk GsgNext st2 | None => GpStuck end)
    | GpsVar x ty => match gpp_define1 x (gpp_zero ty) st with Some st1 => GpOk GsgNext st1 | None => GpStuck end
    | GpsTypeStruct ty fields => match gpp_define1 ty (GpvType (map fst fields)) st with Some st1 => GpOk GsgNext st1 | None => GpStuck end
    | GpsSetIndex m k v =>
      gpp_bind1 (gpp_eval m st) (fun vm st1 => gpp_bind1 (gpp_eval k st1) (fun vk st2 => gpp_bind1 (gpp_eval v st2) (fun vv st3 =>
        match vm, vk with
        | GpvMap (Some c), GpvStr key =>
          match gpp_heap_get (gpp_maps st3) c with
          | Some mm => GpOk GsgNext (gpp_with_maps st3 (gpp_list_set c (gpp_map_set key vv mm) (gpp_maps st3)))
          | None => GpStuck
          end
        | GpvMap None, GpvStr _ => GpPanic                                     (* assignment to entry in nil map *)
        | _, _ => GpStuck
        end)))
    | GpsSetField e f v =>
      gpp_bind1 (gpp_eval e st) (fun ve st1 => gpp_bind1 (gpp_eval v st1) (fun vv st2 =>
        match vv with
        | GpvStr s1 => match gpp_set_sel ve f s1 st2 with Some st3 => GpOk GsgNext st3 | None => GpStuck end
        | _ => GpStuck
        end))
    | GpsIf init c a b =>
      match block init (gpp_push [] st) with
      | GpOk GsgNext st1 =>
        match gpp_bind1 (gpp_eval c st1) (fun vc st2 =>
                match vc with
                | GpvBool true => gpp_scoped block [] a st2
                | GpvBool false => gpp_scoped block [] b st2
                | _ => GpStuck
                end) with
        | GpOk sg st3 => GpOk sg (gpp_pop st3)
        | r => r
        end
      | GpOk _ _ => GpStuck
      | r => r
      end
    | GpsRange k v e body =>
      gpp_bind1 (gpp_eval e st) (fun ve st1 =>
        match ve with
        | GpvSlice l => gpp_loop (fun it st2 => gpp_scoped block (gpp_bind_item k v it) body st2) (gpp_index_items 0 l) st1
        | GpvMap None => GpOk GsgNext st1
        | GpvMap (Some c) =>
          match gpp_heap_get (gpp_maps st1) c with
          | Some m => gpp_loop (fun it st2 => gpp_scoped block (gpp_bind_item k v it) body st2) (map (fun kv => (GpvStr (fst kv), snd kv)) (perm m)) st1
          | None => GpStuck
          end
        | _ => GpStuck
        end)
    | GpsBreak => GpOk GsgBreak st
    | GpsContinue => GpOk GsgContinue st
    | GpsReturn es => gpp_bind (gpp_evals es st) (fun vs st1 => GpOk (GsgRet vs) st1)
    | GpsExpr e => gpp_bind (gpp_eval e st) (fun _ st1 => GpOk GsgNext st1)
    | GpsSortSlice x i j less =>
      match gpp_get x st with
      | Some (GpvSlice l) =>
        if forallb (fun a => forallb (fun b => match gpp_less x i j less st a b with Some _ => true | None => false end) l) l then
          match gpp_assign1 x (GpvSlice (sorter (fun a b => match gpp_less x i j less st a b with Some r => r | None => false end) l)) st with
          | Some st1 => GpOk GsgNext st1
          | None => GpStuck
          end
        else GpStuck
      | _ => GpStuck
      end
    | GpsLog _ args => gpp_bind (gpp_evals args st) (fun _ st1 => GpOk GsgNext st1)
    | GpsP gf args =>
      gpp_bind1 (gpp_eval gf st) (fun vg st1 => gpp_bind (gpp_evals args st1) (fun vs st2 =>
        match vg, gpp_all_strs vs with
        | GpvOut o, Some l =>
          match nth_error (gpp_outs st2) o with
          | Some ou => GpOk GsgNext (gpp_with_outs st2 (gpp_list_set o {| ou_name := ou_name ou; ou_import := ou_import ou;
                                                                      ou_lines := ou_lines ou ++ [concat l]; ou_skip := ou_skip ou |} (gpp_outs st2)))
          | None => GpStuck
          end
        | _, _ => GpStuck
        end))
    | GpsSkip gf =>
      gpp_bind1 (gpp_eval gf st) (fun vg st1 =>
        match vg with
        | GpvOut o =>
          match nth_error (gpp_outs st1) o with
          | Some ou => GpOk GsgNext (gpp_with_outs st1 (gpp_list_set o {| ou_name := ou_name ou; ou_import := ou_import ou;
                                                                      ou_lines := ou_lines ou; ou_skip := true |} (gpp_outs st1)))
          | None => GpStuck
          end
        | _ => GpStuck
        end)
    | GpsFlagVar f e n _ =>
      gpp_bind1 (gpp_eval e st) (fun _ st1 =>
        match gpp_get f st1 with
        | Some (GpvFlags fl) =>
          match gpp_assign1 f (GpvFlags (fl ++ [(gname_bytes n, GpfValue)])) st1 with Some st2 => GpOk GsgNext st2 | None => GpStuck end
        | _ => GpStuck
        end)
    | GpsFlagStringVar f x n d _ =>
      match gpp_get f st, gpp_get x st with
      | Some (GpvFlags fl), Some (GpvStr _) =>
        match gpp_assign1 x (GpvStr (gname_bytes d)) st with
        | Some st1 =>
          match gpp_assign1 f (GpvFlags (fl ++ [(gname_bytes n, GpfString x)])) st1 with Some st2 => GpOk GsgNext st2 | None => GpStuck end
        | None => GpStuck
        end
      | _, _ => GpStuck
      end
    | GpsRun f plugin body =>
      match gpp_get f st with
      | Some (GpvFlags fl) =>
        gpp_bind (gpp_run_params fl (gpp_params st) st) (fun _ st1 =>
          match gpp_scoped block [(plugin, GpvPlugin)] body st1 with
          | GpOk (GsgRet [GpvErr er]) st2 => GpOk GsgNext (gpp_with_err st2 er)
          | GpOk _ _ => GpStuck
          | GpPanic => GpPanic | GpExit => GpExit | GpFuel => GpFuel | GpStuck => GpStuck
          end)
      | _ => GpStuck
      end
    end.

  Fixpoint gpp_block (l : list gpstmt) (st : gpstate) {struct l} : gpres gpsig :=
    match l with
    | [] => GpOk GsgNext st
    | s1 :: t => match gpp_exec s1 st with GpOk GsgNext st' => gpp_block t st' | r => r end
    end.
End Interp.

(* ---- calls, initialisation -------------------------------------------------------------------------------------------- *)
(* the implicit conversion of the literal nil to the declared result type *)
Definition gpp_coerce (ty : gname) (v : gpvalue) : gpvalue :=
  match v with
  | GpvNil =>
    if str_eq ty "error" then GpvErr None
    else match gname_bytes ty with
         | "["%byte :: "]"%byte :: _ => GpvSlice []
         | _ => GpvNil
         end
  | _ => v
  end.
Fixpoint gpp_coerce_all (tys : list gname) (vs : list gpvalue) : list gpvalue :=
  match tys, vs with
  | t :: tys', v :: vs' => gpp_coerce t v :: gpp_coerce_all tys' vs'
  | _, _ => []
  end.

Section Run.
  Variable perm : gpmap -> gpmap.
  Variable sorter : (gpvalue -> gpvalue -> bool) -> list gpvalue -> list gpvalue.
  Variable feat_gen : gpvalue -> bool.
  Variable prog : list gpdecl.

  (* f(args): the body runs in a scope holding the parameters; the caller's scopes come back afterwards; package-level variables,
     the map heap, the object tree and the files made are shared. Every call costs one unit of fuel. *)
  Fixpoint gpp_call (fuel : nat) (f : gname) (args : list gpvalue) (st : gpstate) {struct fuel} : gpres (list gpvalue) :=
    match fuel with
    | O => GpFuel
    | S fuel' =>
      match gpp_find_decl prog f with
      | Some (GpdFunc _ params results body) =>
        if Nat.eqb (length params) (length args) then
          match gpp_block perm sorter feat_gen (gpp_call fuel') body (gpp_with_env st [gpp_zip (map fst params) args]) with
          | GpOk (GsgRet vs) st' =>
            if Nat.eqb (length vs) (length results) then GpOk (gpp_coerce_all results vs) (gpp_with_env st' (gpp_env st)) else GpStuck
          | GpOk GsgNext st' => match results with [] => GpOk [] (gpp_with_env st' (gpp_env st)) | _ :: _ => GpStuck end
          | GpOk _ _ => GpStuck
          | GpPanic => GpPanic | GpExit => GpExit | GpFuel => GpFuel | GpStuck => GpStuck
          end
        else GpStuck
      | _ => GpStuck
      end
    end.

  (* package-level variables, in source order (none of them depends on another) *)
  Fixpoint gpp_init_vars (fuel : nat) (ds : list gpdecl) (st : gpstate) : gpres unit :=
    match ds with
    | [] => GpOk tt st
    | GpdVar x e :: t =>
      gpp_bind1 (gpp_eval feat_gen (gpp_call fuel) e st) (fun v st1 => gpp_init_vars fuel t (gpp_with_glob st1 (gpp_glob st1 ++ [(x, v)])))
    | _ :: t => gpp_init_vars fuel t st
    end.
  (* the init functions of the feature packages: generator.RegisterFeature(name, feature) *)
  Fixpoint gpp_register (fuel : nat) (reg : gpmap) (st : gpstate) : gpres unit :=
    match reg with
    | [] => GpOk tt st
    | (n, v) :: t => gpp_bind (gpp_call fuel "RegisterFeature" [GpvStr n; v] st) (fun _ st1 => gpp_register fuel t st1)
    end.

  Definition gpp_state0 (files : list pfile) (params : list (name * name)) : gpstate :=
    {| gpp_env := [[]]; gpp_glob := []; gpp_maps := []; gpp_files := files; gpp_outs := []; gpp_params := params; gpp_err := None |}.
  Definition gpp_boot (fuel : nat) (reg : gpmap) (files : list pfile) (params : list (name * name)) : gpres unit :=
    gpp_bind (gpp_init_vars fuel prog (gpp_state0 files params)) (fun _ st => gpp_register fuel reg st).

  (* the whole plugin: initialise, run main; what is left: the response's error, the object tree, the files made *)
  Definition gpp_run_main (fuel : nat) (reg : gpmap) (files : list pfile) (params : list (name * name))
    : gpres (option (gname * list name) * list pfile * list pout) :=
    gpp_bind (gpp_boot fuel reg files params) (fun _ st =>
      gpp_bind (gpp_call fuel "main" [] st) (fun _ st' => GpOk (gpp_err st', gpp_files st', gpp_outs st') st')).
  (* findFeatures alone, on the registered features *)
  Definition gpp_run_find_features (fuel : nat) (reg : gpmap) (names : list name) : gpres (list gpvalue) :=
    gpp_bind (gpp_boot fuel reg [] []) (fun _ st => gpp_call fuel "findFeatures" [GpvSlice (map GpvStr names)] st).
End Run.

(* two sort algorithms for the driver (the statements hold for every one that returns a sorted permutation) *)
Fixpoint gpp_insert (less : gpvalue -> gpvalue -> bool) (x : gpvalue) (l : list gpvalue) : list gpvalue :=
  match l with
  | [] => [x]
  | y :: t => if less y x then y :: gpp_insert less x t else x :: l
  end.
Definition gpp_isort (less : gpvalue -> gpvalue -> bool) (l : list gpvalue) : list gpvalue := fold_right (gpp_insert less) [] l.
(* the same from the other end: equal elements come out in the opposite order (not stable) *)
Definition gpp_isort_rev (less : gpvalue -> gpvalue -> bool) (l : list gpvalue) : list gpvalue := fold_right (gpp_insert less) [] (rev l).

(* ---- the canonical programs ------------------------------------------------------------------------------------------- *)
Local Open Scope gname_scope.
(* generator/features.go *)
Definition canon_ff_names_body : list gpstmt :=
  [ GpsIf [] (GpxEq (GpxVar "name") (GpxStr "all"))
          [ GpsAssign ["required"] (GpxVar "defaultFeatures"); GpsBreak ] [];
    GpsDefine ["feat"; "ok"] (GpxIndexOk (GpxVar "defaultFeatures") (GpxVar "name"));
    GpsIf [] (GpxNot (GpxVar "ok"))
          [ GpsReturn [GpxNil; GpxErrorf "unknown feature: %q" [GpxVar "name"]] ] [];
    GpsSetIndex (GpxVar "required") (GpxVar "name") (GpxVar "feat") ].
Definition canon_ff_required_body : list gpstmt :=
  [ GpsAssign ["sorted"] (GpxAppend (GpxVar "sorted") (GpxStruct "namefeat" [GpxVar "name"; GpxVar "feat"])) ].
Definition canon_ff_less : gpexpr :=
  GpxLt (GpxSel (GpxIndex (GpxVar "sorted") (GpxVar "i")) "name") (GpxSel (GpxIndex (GpxVar "sorted") (GpxVar "j")) "name").
Definition canon_ff_sorted_body : list gpstmt :=
  [ GpsAssign ["features"] (GpxAppend (GpxVar "features") (GpxSel (GpxVar "sp") "feat")) ].
Definition canon_findFeatures_body : list gpstmt :=
  [ GpsDefine ["required"] (GpxMakeMap "map[string]Feature");
    GpsRange "_" "name" (GpxVar "featureNames") canon_ff_names_body;
    GpsTypeStruct "namefeat" [("name", "string"); ("feat", "Feature")];
    GpsVar "sorted" "[]namefeat";
    GpsRange "name" "feat" (GpxVar "required") canon_ff_required_body;
    GpsSortSlice "sorted" "i" "j" canon_ff_less;
    GpsVar "features" "[]Feature";
    GpsRange "_" "sp" (GpxVar "sorted") canon_ff_sorted_body;
    GpsReturn [GpxVar "features"; GpxNil] ].

Definition canon_features_go : list gpdecl :=
  [ GpdVar "defaultFeatures" (GpxMakeMap "map[string]Feature");
    GpdFunc "findFeatures" [("featureNames", "[]string")] ["[]Feature"; "error"] canon_findFeatures_body;
    GpdFunc "RegisterFeature" [("name", "string"); ("feat", "Feature")] []
      [ GpsSetIndex (GpxVar "defaultFeatures") (GpxVar "name") (GpxVar "feat") ];
    GpdType "Feature" "func(gen *GeneratedFile, plugin *protogen.Plugin) FeatureGenerator";
    GpdType "FeatureGenerator" "interface{GenerateFile(file *protogen.File, plugin *protogen.Plugin) bool; GenerateHelpers()}" ].
Definition canon_features_go_imports : list gname := [ "fmt"; "google.golang.org/protobuf/compiler/protogen"; "sort" ].

(* cmd/protoc-gen-go-pulsar/main.go *)
Definition canon_reservedFieldNames : gpexpr :=
  GpxMapLit "map[string]struct{}"
    [ ("Descriptor", GpxUnit); ("Type", GpxUnit); ("New", GpxUnit); ("Interface", GpxUnit); ("Range", GpxUnit); ("Has", GpxUnit);
      ("Clear", GpxUnit); ("Get", GpxUnit); ("Set", GpxUnit); ("Mutable", GpxUnit); ("NewField", GpxUnit); ("WhichOneof", GpxUnit);
      ("GetUnknown", GpxUnit); ("SetUnknown", GpxUnit); ("IsValid", GpxUnit); ("ProtoMethods", GpxUnit) ].

Definition canon_rw_fields_body : list gpstmt :=
  [ GpsDefine ["_"; "reserved"] (GpxIndexOk (GpxVar "reservedFieldNames") (GpxSel (GpxVar "field") "GoName"));
    GpsIf [] (GpxNot (GpxVar "reserved")) [ GpsContinue ] [];
    GpsLog "Message %s contains the reserved field name %s which conflicts with protoreflect.Message interface implementation.
This field will be suffixed with an underscore '_'.
If you can change the message field name, please do so.
In a future iteration of pulsar we may make a breaking change to this practice in order to be compliant with field naming of the original golang protobuf implementation."
      [GpxFullName (GpxVar "message"); GpxFullName (GpxVar "field")];
    GpsSetField (GpxVar "field") "GoName" (GpxConcat (GpxSel (GpxVar "field") "GoName") (GpxStr "_")) ].
Definition canon_rw_oneofs_body : list gpstmt :=
  [ GpsIf [ GpsDefine ["_"; "reserved"] (GpxIndexOk (GpxVar "reservedFieldNames") (GpxSel (GpxVar "oneof") "GoName")) ]
          (GpxOr (GpxNot (GpxVar "reserved")) (GpxIsSynthetic (GpxVar "oneof"))) [ GpsContinue ] [];
    GpsLog "Message %s contains the reserved oneof name %s which conflicts with protoreflect.Message interface implementation.
This oneof will be suffixed with an underscore '_'."
      [GpxFullName (GpxVar "message"); GpxFullName (GpxVar "oneof")];
    GpsSetField (GpxVar "oneof") "GoName" (GpxConcat (GpxSel (GpxVar "oneof") "GoName") (GpxStr "_")) ].
Definition canon_rw_nested_body : list gpstmt :=
  [ GpsExpr (GpxCall "rewriteMessageField" [GpxVar "nestedMessage"; GpxVar "processed"]) ].
Definition canon_rewriteMessageField_body : list gpstmt :=
  [ GpsIf [ GpsDefine ["_"; "done"] (GpxIndexOk (GpxVar "processed") (GpxFullName (GpxVar "message"))) ] (GpxVar "done")
          [ GpsReturn [] ] [];
    GpsIf [] (GpxIsMapEntry (GpxVar "message")) [ GpsReturn [] ] [];
    GpsRange "_" "field" (GpxSel (GpxVar "message") "Fields") canon_rw_fields_body;
    GpsRange "_" "oneof" (GpxSel (GpxVar "message") "Oneofs") canon_rw_oneofs_body;
    GpsSetIndex (GpxVar "processed") (GpxFullName (GpxVar "message")) GpxUnit;
    GpsRange "_" "nestedMessage" (GpxSel (GpxVar "message") "Messages") canon_rw_nested_body ].

Definition canon_gen_files_body : list gpstmt :=
  [ GpsIf [] (GpxNot (GpxSel (GpxVar "file") "Generate")) [ GpsContinue ] [];
    GpsDefine ["gf"] (GpxNewGeneratedFile (GpxVar "plugin")
                        (GpxConcat (GpxSel (GpxVar "file") "GeneratedFilenamePrefix") (GpxStr ".pulsar.go"))
                        (GpxSel (GpxVar "file") "GoImportPath"));
    GpsP (GpxVar "gf") [GpxStr "// Code generated by protoc-gen-go-pulsar. DO NOT EDIT."];
    GpsP (GpxVar "gf") [GpxStr "package "; GpxSel (GpxVar "file") "GoPackageName"];
    GpsIf [] (GpxNot (GpxGenerateFile (GpxVar "gen") (GpxVar "plugin") (GpxVar "gf") (GpxVar "file"))) [ GpsSkip (GpxVar "gf") ] [] ].
Definition canon_generateAllFiles_body : list gpstmt :=
  [ GpsDefine ["ext"] (GpxExtensions (GpxVar "poolable"));
    GpsDefine ["gen"; "err"] (GpxNewGenerator (GpxSel (GpxVar "plugin") "Files") (GpxVar "featureNames") (GpxVar "ext"));
    GpsIf [] (GpxNe (GpxVar "err") GpxNil) [ GpsReturn [GpxVar "err"] ] [];
    GpsRange "_" "file" (GpxSel (GpxVar "plugin") "Files") canon_gen_files_body;
    GpsReturn [GpxNil] ].

Definition canon_main_messages_body : list gpstmt :=
  [ GpsExpr (GpxCall "rewriteMessageField" [GpxVar "message"; GpxVar "processedMessages"]) ].
Definition canon_main_files_body : list gpstmt :=
  [ GpsIf [] (GpxNot (GpxSel (GpxVar "file") "Generate")) [ GpsContinue ] [];
    GpsRange "_" "message" (GpxSel (GpxVar "file") "Messages") canon_main_messages_body ].
Definition canon_main_closure : list gpstmt :=
  [ GpsDefine ["processedMessages"] (GpxMakeMap "map[protoreflect.FullName]struct{}");
    GpsRange "_" "file" (GpxSel (GpxVar "plugin") "Files") canon_main_files_body;
    GpsReturn [GpxCall "generateAllFiles" [GpxVar "plugin"; GpxSplit (GpxVar "features") "+"; GpxVar "poolable"]] ].
Definition canon_main_body : list gpstmt :=
  [ GpsVar "features" "string";
    GpsDefine ["poolable"] (GpxMakeMap "ObjectSet");
    GpsVar "f" "flag.FlagSet";
    GpsFlagVar "f" (GpxVar "poolable") "pool" "use memory pooling for this object";
    GpsFlagStringVar "f" "features" "features" "all" "list of features to generate (separated by '+')";
    GpsRun "f" "plugin" canon_main_closure ].

Definition canon_main_go : list gpdecl :=
  [ GpdType "ObjectSet" "map[protogen.GoIdent]bool";
    GpdMethod "ObjectSet" "String";
    GpdMethod "ObjectSet" "Set";
    GpdFunc "main" [] [] canon_main_body;
    GpdVar "SupportedFeatures" (GpxConv "uint64" (GpxQual "pluginpb" "CodeGeneratorResponse_FEATURE_PROTO3_OPTIONAL"));
    GpdFunc "generateAllFiles" [("plugin", "*protogen.Plugin"); ("featureNames", "[]string"); ("poolable", "ObjectSet")] ["error"]
      canon_generateAllFiles_body;
    GpdVar "reservedFieldNames" canon_reservedFieldNames;
    GpdFunc "rewriteMessageField" [("message", "*protogen.Message"); ("processed", "map[protoreflect.FullName]struct{}")] []
      canon_rewriteMessageField_body ].
Definition canon_main_go_imports : list gname :=
  [ "_=github.com/cosmos/cosmos-proto/features/fastreflection";
    "_=github.com/cosmos/cosmos-proto/features/protoc";
    "flag"; "fmt";
    "github.com/cosmos/cosmos-proto/generator";
    "google.golang.org/protobuf/compiler/protogen";
    "google.golang.org/protobuf/reflect/protoreflect";
    "google.golang.org/protobuf/types/pluginpb";
    "log"; "strings" ].

(* the program the interpreter runs: both files (one flat name space: the files declare no name twice) *)
Definition canon_genprog : list gpdecl := canon_features_go ++ canon_main_go.

(* ---- what the programs compute, in the words of GenNames.v / GenOrder.v --------------------------------------------------- *)
Local Close Scope gname_scope.
Local Open Scope byte_scope.
Definition s_pulsar_go : name := ["."; "p"; "u"; "l"; "s"; "a"; "r"; "."; "g"; "o"].
Definition s_package : name := ["p"; "a"; "c"; "k"; "a"; "g"; "e"; " "].
Definition s_features : name := ["f"; "e"; "a"; "t"; "u"; "r"; "e"; "s"].
Local Close Scope byte_scope.
Definition s_header : name := gname_bytes "// Code generated by protoc-gen-go-pulsar. DO NOT EDIT."%gname.
Definition s_unknown_feature : gname := "unknown feature: %q"%gname.

(* rewriteMessageField on the tree: GenNames.rewrite_field on every field and every real oneof of every message visited;
   [done] is the `processed` map (only its keys matter) *)
Definition gpp_rw_field (f : pfield) : pfield := {| pf_go := rewrite_field (pf_go f); pf_full := pf_full f |}.
Definition gpp_rw_oneof (o : poneof) : poneof :=
  if po_syn o then o else {| po_go := rewrite_field (po_go o); po_syn := po_syn o; po_full := po_full o |}.
Fixpoint gpp_rw_msg (m : pmsg) (done : gpmap) {struct m} : pmsg * gpmap :=
  match m with
  | GpMsg full me fs os ms =>
    match gpp_map_get full done with
    | Some _ => (m, done)                                            (* already processed *)
    | None =>
      if me then (m, done)                                           (* a map entry *)
      else
        let r := (fix go (l : list pmsg) (d : gpmap) {struct l} : list pmsg * gpmap :=
                    match l with
                    | [] => ([], d)
                    | c :: t => let r1 := gpp_rw_msg c d in let r2 := go t (snd r1) in (fst r1 :: fst r2, snd r2)
                    end) ms (gpp_map_set full GpvUnit done) in
        (GpMsg full me (map gpp_rw_field fs) (map gpp_rw_oneof os) (fst r), snd r)
    end
  end.
Fixpoint gpp_rw_forest (l : list pmsg) (d : gpmap) : list pmsg * gpmap :=
  match l with
  | [] => ([], d)
  | c :: t => let r1 := gpp_rw_msg c d in let r2 := gpp_rw_forest t (snd r1) in (fst r1 :: fst r2, snd r2)
  end.
(* the loop over plugin.Files in main *)
Fixpoint gpp_rw_files (fs : list pfile) (d : gpmap) : list pfile * gpmap :=
  match fs with
  | [] => ([], d)
  | f :: t =>
    if fi_generate f then
      let r1 := gpp_rw_forest (fi_msgs f) d in let r2 := gpp_rw_files t (snd r1) in (gpp_file_with_msgs f (fst r1) :: fst r2, snd r2)
    else let r2 := gpp_rw_files t d in (f :: fst r2, snd r2)
  end.

(* the nesting depth of a message: the calls rewriteMessageField makes *)
Fixpoint pm_depth (m : pmsg) : nat :=
  match m with GpMsg _ _ _ _ ms => S (fold_right (fun c a => Nat.max (pm_depth c) a) 0 ms) end.
Definition pm_forest_depth (ms : list pmsg) : nat := fold_right (fun c a => Nat.max (pm_depth c) a) 0 ms.

(* findFeatures: GenOrder.find_features names, each name replaced by the value registered under it; the error names the first
   unknown feature *)
Fixpoint gpp_first_unknown (names : list name) : option name :=
  match names with
  | [] => None
  | n :: rest =>
    if name_eqb n s_all then None
    else match lookup n with None => Some n | Some _ => gpp_first_unknown rest end
  end.
Definition gpp_feat_value (reg : gpmap) (n : name) : gpvalue := match gpp_map_get n reg with Some v => v | None => GpvZero end.
Definition gpp_find_features_spec (reg : gpmap) (names : list name) : list gpvalue :=
  match find_features names with
  | Some fs => [GpvSlice (map (gpp_feat_value reg) fs); GpvErr None]
  | None => [GpvSlice []; GpvErr (match gpp_first_unknown names with Some n => Some (s_unknown_feature, [n]) | None => None end)]
  end.

(* generateAllFiles: one file per plugin file with Generate = true, in order; skipped unless proto3 and some feature generated *)
Definition gpp_out_of (gen_ok : bool) (f : pfile) : pout :=
  {| ou_name := fi_prefix f ++ s_pulsar_go; ou_import := fi_import f; ou_lines := [s_header; s_package ++ fi_pkg f];
     ou_skip := negb (fi_proto3 f && gen_ok) |}.
Definition gpp_outs_spec (fs : list name) (files : list pfile) : list pout :=
  map (gpp_out_of (generated fs)) (filter fi_generate files).
(* the names of the files of the response *)
Definition gpp_emitted (outs : list pout) : list name := map ou_name (filter (fun o => negb (ou_skip o)) outs).

(* the whole plugin, for the request parameter features=<feats> (None: the flag's default "all") *)
Definition gpp_main_spec (feats : option name) (files : list pfile) : option (gname * list name) * list pfile * list pout :=
  let names := split_plus (match feats with Some s => s | None => s_all end) in
  let files' := fst (gpp_rw_files files []) in
  match find_features names with
  | Some fs => (None, files', gpp_outs_spec fs files')
  | None => (match gpp_first_unknown names with Some n => Some (s_unknown_feature, [n]) | None => None end, files', [])
  end.

(* what the driver runs the interpreter with: the features the plugin registers (GenOrder.registry), as opaque tokens *)
Definition gpp_default_registry : gpmap := map (fun p => (fst p, GpvFeat (fst p))) registry.
Definition gpp_default_feat_gen (v : gpvalue) : bool :=
  match v with GpvFeat n => match lookup n with Some g => g | None => false end | _ => false end.
Definition gpp_feature_names (feats : option name) : list name := split_plus (match feats with Some s => s | None => s_all end).

(* ---- the statements (proved in Proofs/GenProgProofs.v; theorems in Properties/C12.v, C13.v) ------------------------------- *)
Definition gpp_perm_ok (perm : gpmap -> gpmap) : Prop := forall m, Permutation (perm m) m.
(* sort.Slice: the result is a permutation; when the comparator is a strict total order on the elements, no element is less than one before it *)
Definition gpp_strict_total (less : gpvalue -> gpvalue -> bool) (l : list gpvalue) : Prop :=
  (forall a, In a l -> less a a = false) /\
  (forall a b c, In a l -> In b l -> In c l -> less a b = true -> less b c = true -> less a c = true) /\
  (forall a b, In a l -> In b l -> a <> b -> less a b = true \/ less b a = true).
Definition gpp_sorter_ok (sorter : (gpvalue -> gpvalue -> bool) -> list gpvalue -> list gpvalue) : Prop :=
  forall less l, Permutation (sorter less l) l /\
                 (gpp_strict_total less l -> StronglySorted (fun a b => less b a = false) (sorter less l)).
(* the features registered are those of GenOrder.registry, and [feat_gen] answers as that table does *)
Definition gpp_registry_ok (feat_gen : gpvalue -> bool) (reg : gpmap) : Prop :=
  Permutation (map fst reg) (map fst registry) /\
  forall n v, gpp_map_get n reg = Some v -> feat_gen v = match lookup n with Some g => g | None => false end.
(* a state in which defaultFeatures is the map [reg] *)
Definition gpp_features_state (st : gpstate) (reg : gpmap) : Prop :=
  exists c, gpp_glob_get "defaultFeatures"%gname (gpp_glob st) = Some (GpvMap (Some c)) /\ gpp_heap_get (gpp_maps st) c = Some reg.
(* a state in which reservedFieldNames is a map with exactly GenNames.reserved as keys, in cell r *)
Definition gpp_reserved_state (st : gpstate) (r : nat) : Prop :=
  gpp_glob_get "reservedFieldNames"%gname (gpp_glob st) = Some (GpvMap (Some r)) /\
  exists rm, gpp_heap_get (gpp_maps st) r = Some rm /\ forall g, (gpp_map_get g rm <> None <-> is_reserved g = true).

(* (a) findFeatures interpreted = GenOrder.find_features, whatever order the map of required features is iterated in and whatever
       sort algorithm sort.Slice uses; it leaves one new map behind and nothing else *)
Definition find_features_prog_stmt : Prop :=
  forall perm sorter feat_gen fuel st reg names,
    gpp_perm_ok perm -> gpp_sorter_ok sorter -> gpp_features_state st reg -> Permutation (map fst reg) (map fst registry) ->
    exists m, gpp_call perm sorter feat_gen canon_genprog (S fuel) "findFeatures"%gname [GpvSlice (map GpvStr names)] st
              = GpOk (gpp_find_features_spec reg names) (gpp_with_maps st (gpp_maps st ++ [m])).

(* (c) the reservedFieldNames literal evaluates to a map whose keys are GenNames.reserved *)
Definition reserved_literal_stmt : Prop :=
  forall perm sorter feat_gen st,
    exists m, gpp_eval feat_gen (gpp_call perm sorter feat_gen canon_genprog 0) canon_reservedFieldNames st
              = GpOk [GpvMap (Some (length (gpp_maps st)))] (gpp_with_maps st (gpp_maps st ++ [m])) /\
              map fst m = reserved /\ forall g, (gpp_map_get g m <> None <-> is_reserved g = true).

(* (b) rewriteMessageField interpreted on the message at (i, p) = gpp_rw_msg on that subtree; the rest of the tree, the other maps,
       the variables are untouched *)
Definition rewrite_prog_stmt : Prop :=
  forall perm sorter feat_gen fuel st r q i p t done,
    gpp_reserved_state st r -> q <> r -> gpp_heap_get (gpp_maps st) q = Some done -> gpp_get_msg (gpp_files st) i p = Some t ->
    pm_depth t <= fuel ->
    gpp_call perm sorter feat_gen canon_genprog fuel "rewriteMessageField"%gname [GpvMsg i p; GpvMap (Some q)] st
    = GpOk [] (gpp_with_maps (gpp_with_files st (gpp_set_msg (gpp_files st) i p (fst (gpp_rw_msg t done))))
                            (gpp_list_set q (snd (gpp_rw_msg t done)) (gpp_maps st))).

(* (d) generateAllFiles interpreted: an unknown feature is returned as the error and no file is made; otherwise one file
       <prefix>.pulsar.go per plugin file with Generate = true, skipped unless the file is proto3 and some feature generated *)
Definition generate_all_files_prog_stmt : Prop :=
  forall perm sorter feat_gen fuel st reg names pool,
    gpp_perm_ok perm -> gpp_sorter_ok sorter -> gpp_features_state st reg -> gpp_registry_ok feat_gen reg ->
    exists m,
      gpp_call perm sorter feat_gen canon_genprog (S (S fuel)) "generateAllFiles"%gname
              [GpvPlugin; GpvSlice (map GpvStr names); GpvMap pool] st
      = match find_features names with
        | Some fs => GpOk [GpvErr None] (gpp_with_outs (gpp_with_maps st (gpp_maps st ++ [m])) (gpp_outs st ++ gpp_outs_spec fs (gpp_files st)))
        | None => GpOk [GpvErr (match gpp_first_unknown names with Some n => Some (s_unknown_feature, [n]) | None => None end)]
                       (gpp_with_maps st (gpp_maps st ++ [m]))
        end.

(* (e) the whole plugin: for every iteration order, sort algorithm, request (features= given or not) and plugin object tree, main
       renames the members of the files to generate and makes the files of (d) *)
Definition main_prog_stmt : Prop :=
  forall perm sorter feat_gen fuel reg files feats,
    gpp_perm_ok perm -> gpp_sorter_ok sorter -> gpp_registry_ok feat_gen reg ->
    fold_right (fun f a => Nat.max (pm_forest_depth (fi_msgs f)) a) 0 files + 3 <= fuel ->
    exists st',
      gpp_run_main perm sorter feat_gen canon_genprog fuel reg files (match feats with Some s => [(s_features, s)] | None => [] end)
      = GpOk (gpp_main_spec feats files) st'.
