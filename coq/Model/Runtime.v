(* Model/Runtime.v — faithful model of /repo/runtime/runtime.go: Sov, Soz, EncodeVarint, Skip.
   uint64 arguments are N (callers pass values < 2^64); Go `int` is Z wrapped to 64 bits. *)
From CP Require Export Bytes.
Local Open Scope N_scope.

(* bits.Len64 *)
Definition len64 (x : N) : N := if x =? 0 then 0 else N.log2 x + 1.

(* func Sov(x uint64) int { return (bits.Len64(x|1) + 6) / 7 } *)
Definition Sov (x : N) : N := (len64 (N.lor x 1) + 6) / 7.

(* func Soz(x uint64) int { return Sov((x << 1) ^ uint64(int64(x)>>63)) } *)
Definition Soz (x : N) : N := Sov (zigzag64 x).

(* protowire.SizeVarint: int(9*uint32(bits.Len64(v))+64) / 64 *)
Definition protowire_size (x : N) : N := (9 * len64 x + 64) / 64.

(* --- EncodeVarint(dAtA []byte, offset int, v uint64) int, at buffer level ------------- *)
Fixpoint upd (buf : list byte) (i : nat) (b : byte) : list byte :=
  match buf, i with
  | [], _ => []
  | _ :: t, O => b :: t
  | h :: t, S i' => h :: upd t i' b
  end.

Definition in_range (buf : list byte) (off : Z) : bool :=
  ((0 <=? off)%Z && (off <? Z.of_nat (length buf))%Z)%bool.

Fixpoint ev_loop (fuel : nat) (buf : list byte) (off : Z) (v : N) : outcome (list byte) :=
  match fuel with
  | O => OutOfFuel
  | S f =>
    if 128 <=? v then
      if in_range buf off
      then ev_loop f (upd buf (Z.to_nat off) (n2b (N.lor (N.land v 127) 128))) (off + 1)%Z (N.shiftr v 7)
      else Panic
    else
      if in_range buf off then Ok (upd buf (Z.to_nat off) (n2b v)) else Panic
  end.

Definition EncodeVarint (buf : list byte) (off : Z) (v : N) : outcome (list byte * Z) :=
  let base := (off - Z.of_N (Sov v))%Z in
  match ev_loop 10 buf base v with
  | Ok b => Ok (b, base)
  | Err => Err | Panic => Panic | OutOfFuel => OutOfFuel
  end.

(* --- Skip(dAtA []byte) (n int, err error) ------------------------------------------------
   State: the suffix dAtA[iNdEx:] (empty once iNdEx >= l) and iNdEx itself as a wrapped int. *)

(* varint of wire type 0: only the continuation bits matter *)
Fixpoint skip_varint_aux (fuel : nat) (n : nat) (bs : list byte) : option (nat * list byte) :=
  match fuel with
  | O => None
  | S f => match bs with
           | [] => None
           | b :: rest => if b2n b <? 128 then Some (S n, rest) else skip_varint_aux f (S n) rest
           end
  end.
Definition skip_varint bs := skip_varint_aux 10 0%nat bs.

(* one iteration of the outer loop, up to the `if iNdEx < 0` / `if depth == 0` epilogue *)
Inductive step_res := SErr | SNext (rest : list byte) (idx : Z) (depth : N).

Definition skip_step (rest : list byte) (idx : Z) (depth : N) : step_res :=
  match dec_varint rest with
  | None => SErr
  | Some (wire, n, rest1) =>
    let idx1 := (idx + Z.of_nat n)%Z in
    let wt := N.land (u64 wire) 7 in
    if wt =? 0 then
      match skip_varint rest1 with
      | None => SErr
      | Some (n2, rest2) => SNext rest2 (idx1 + Z.of_nat n2)%Z depth
      end
    else if wt =? 1 then SNext (zskipn 8 rest1) (idx1 + 8)%Z depth
    else if wt =? 2 then
      match dec_varint rest1 with
      | None => SErr
      | Some (raw, n2, rest2) =>
        let len := s64 raw in                              (* length |= (int(b)&0x7F) << shift *)
        if (len <? 0)%Z then SErr
        else SNext (zskipn len rest2) (wrap64 (idx1 + Z.of_nat n2 + len)) depth
      end
    else if wt =? 3 then SNext rest1 idx1 (depth + 1)
    else if wt =? 4 then (if depth =? 0 then SErr else SNext rest1 idx1 (depth - 1))
    else if wt =? 5 then SNext (zskipn 4 rest1) (idx1 + 4)%Z depth
    else SErr                                              (* illegal wireType 6, 7 *)
  end.

Fixpoint skip_loop (fuel : nat) (rest : list byte) (idx : Z) (depth : N) : outcome Z :=
  match fuel with
  | O => OutOfFuel
  | S f =>
    match rest with
    | [] => Err                                             (* `for iNdEx < l` exits: UnexpectedEOF *)
    | _ =>
      match skip_step rest idx depth with
      | SErr => Err
      | SNext rest' idx' depth' =>
        if (idx' <? 0)%Z then Err                           (* ErrInvalidLength *)
        else if depth' =? 0 then Ok idx'
        else skip_loop f rest' idx' depth'
      end
    end
  end.

Definition Skip (bs : list byte) : outcome Z := skip_loop (S (length bs)) bs 0%Z 0.
