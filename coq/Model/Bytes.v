(* Model/Bytes.v — bytes, outcomes, machine-integer wraps, varints.
   Executable definitions only; lemmas live in Proofs/. *)
From Coq Require Export List NArith ZArith Bool.
From Coq.Strings Require Export Byte.
Export ListNotations.

Inductive outcome (A : Type) : Type :=
| Ok (a : A)
| Err            (* the Go code returned a non-nil error *)
| Panic          (* the Go code would panic (index out of range, nil dereference, ...) *)
| OutOfFuel.     (* artefact of the model; every theorem excludes it *)
Arguments Ok {A} a.
Arguments Err {A}.
Arguments Panic {A}.
Arguments OutOfFuel {A}.

Definition obind {A B} (o : outcome A) (f : A -> outcome B) : outcome B :=
  match o with Ok a => f a | Err => Err | Panic => Panic | OutOfFuel => OutOfFuel end.

Definition is_ok {A} (o : outcome A) : bool := match o with Ok _ => true | _ => false end.

Local Open Scope N_scope.

Definition b2n (b : byte) : N := Byte.to_N b.
Definition n2b (n : N) : byte :=
  match Byte.of_N (n mod 256) with Some b => b | None => x00 end.

(* --- machine integers: unsigned N / signed Z with explicit wraps ----------------- *)
Definition two64 : N := 18446744073709551616.
Definition two63 : N := 9223372036854775808.
Definition two32 : N := 4294967296.
Definition two31 : N := 2147483648.

Definition u64 (x : N) : N := x mod two64.
Definition u32 (x : N) : N := x mod two32.
(* signed reinterpretation of an unsigned w-bit pattern *)
Definition s64 (x : N) : Z :=
  let y := x mod two64 in if y <? two63 then Z.of_N y else (Z.of_N y - Z.of_N two64)%Z.
Definition s32 (x : N) : Z :=
  let y := x mod two32 in if y <? two31 then Z.of_N y else (Z.of_N y - Z.of_N two32)%Z.
(* unsigned 64-bit pattern of a signed value (Go: uint64(intN)) — sign extension *)
Definition z2u64 (z : Z) : N := Z.to_N (z mod Z.of_N two64)%Z.
Definition z2u32 (z : Z) : N := Z.to_N (z mod Z.of_N two32)%Z.
(* wrap a mathematical integer into Go's int / int64 *)
Definition wrap64 (z : Z) : Z := s64 (z2u64 z).
Definition wrap32 (z : Z) : Z := s32 (z2u32 z).

(* --- varint encoding: Go `for v >= 1<<7 { put(v&0x7f|0x80); v >>= 7 }; put(v)` ---- *)
Fixpoint enc_varint_aux (fuel : nat) (v : N) : list byte :=
  match fuel with
  | O => []
  | S f => if v <? 128 then [n2b v]
           else n2b (N.lor (N.land v 127) 128) :: enc_varint_aux f (N.shiftr v 7)
  end.
Definition enc_varint (v : N) : list byte := enc_varint_aux 10 v.

(* --- varint decoding as every generated loop does it:
       for shift := 0; ; shift += 7 { if shift >= 64 {overflow}; if i >= l {EOF};
                                      b := d[i]; i++; v |= T(b&0x7F) << shift; if b < 0x80 {break} }
   The accumulated value is returned un-truncated (at most 70 bits); callers truncate to T,
   which is the same thing because `|` and `<<` commute with truncation. --------------- *)
Fixpoint dec_varint_aux (fuel : nat) (shift : N) (acc : N) (n : nat) (bs : list byte)
  : option (N * nat * list byte) :=
  match fuel with
  | O => None                                   (* shift >= 64: ErrIntOverflow *)
  | S f =>
    match bs with
    | [] => None                                (* io.ErrUnexpectedEOF *)
    | b :: rest =>
      let acc' := N.lor acc (N.shiftl (N.land (b2n b) 127) shift) in
      if b2n b <? 128 then Some (acc', S n, rest)
      else dec_varint_aux f (shift + 7) acc' (S n) rest
    end
  end.
Definition dec_varint (bs : list byte) : option (N * nat * list byte) :=
  dec_varint_aux 10 0 0 0%nat bs.

(* little-endian fixed width *)
Definition enc_fixed32 (v : N) : list byte :=
  [n2b v; n2b (N.shiftr v 8); n2b (N.shiftr v 16); n2b (N.shiftr v 24)].
Definition enc_fixed64 (v : N) : list byte :=
  enc_fixed32 v ++ enc_fixed32 (N.shiftr v 32).
Definition dec_le (bs : list byte) : N :=
  fold_right (fun b acc => b2n b + 256 * acc) 0 bs.

(* zig-zag, on the unsigned bit pattern *)
Definition zigzag64 (x : N) : N :=    (* (x << 1) ^ uint64(int64(x) >> 63) *)
  N.lxor (u64 (N.shiftl x 1)) (if u64 x <? two63 then 0 else two64 - 1).
Definition zigzag32 (x : N) : N :=    (* (uint32(x) << 1) ^ uint32(x >> 31), x an int32 pattern *)
  N.lxor (u32 (N.shiftl x 1)) (if u32 x <? two31 then 0 else two32 - 1).
Definition unzigzag64 (v : N) : N :=  (* (v >> 1) ^ uint64((int64(v&1) << 63) >> 63) *)
  N.lxor (N.shiftr v 1) (if N.land v 1 =? 0 then 0 else two64 - 1).
Definition unzigzag32 (v : N) : N :=  (* (uint32(v) >> 1) ^ uint32(((v&1)<<31)>>31), v int32 *)
  N.lxor (N.shiftr (u32 v) 1) (if N.land v 1 =? 0 then 0 else two32 - 1).

(* safe skipn for possibly huge counts (never builds a big nat) *)
Definition zskipn {A} (k : Z) (l : list A) : list A :=
  if (k <=? 0)%Z then l
  else if (Z.of_nat (length l) <=? k)%Z then [] else skipn (Z.to_nat k) l.
Definition zfirstn {A} (k : Z) (l : list A) : list A :=
  if (k <=? 0)%Z then []
  else if (Z.of_nat (length l) <=? k)%Z then l else firstn (Z.to_nat k) l.
