(* Model/ReflectProg.v — "ReflectProg": statement / expression languages that are the literal image of what the eight
   fast-reflection templates (features/fastreflection/{has,clear,get,set,mutable,new_field,which_oneof,range}.go) print
   into the methods  (x *fastReflection_T) Has, Clear, Get, Set, Mutable, NewField, WhichOneof, Range  of every generated
   message type; their interpreters over the heap of Go objects of Model/Reflect.v; and [canon_has] … [canon_range], the
   method bodies the templates emit for a message type, computed from the schema alone.

   Use (DESIGN 12.7: translator tie). On every run the Go runner (engine "reflectprog") parses every generated *.pulsar.go
   with go/parser, checks the frame of each of the eight methods literally (nil guard, `switch fd.FullName()`, the case labels
   = the full names of the fields / oneofs, the `default:` tail) and translates every case body, purely syntactically, into
   the syntax below (or fails: "untranslatable"). The driver compares the translated methods with the canonical ones
   ([rprogs_eqb], case by case) and runs the interpreter on the TRANSLATED methods against the running code (REFLECTRUN).
   The statements at the end of the file ([has_prog_stmt] … [range_prog_stmt], [reflect_prog_correct_stmt]; to be proved in
   Proofs/ by another task) tie the canonical methods to Reflect.step for all schemas, heaps and operands.

   Conventions
   * One constructor per printed form; what varies inside a form (field, oneof, wrapper, the protoreflect.ValueOf…
     constructor, the zero literal, the conversion applied to `value`, the message type of new(T) / &T{} / ( *T)(nil) /
     .( *T)) is a parameter, so that a template change in any of them changes the translation. Names are indexes: field i
     = x.<GoName of field i> / the wrapper type of member i / its payload field / the descriptor variable fd_T_<name of
     field i>; oneof o = x.<GoName of oneof o>; message m = the Go type of message m of the schema.
   * An interpreter answers None ("stuck") for a program Go's type checker would reject or that is not one of the shapes
     it knows the meaning of (x.F of a field that does not exist in this scope, a zero literal or ValueOf… constructor that
     does not fit the field's Go type, a wrapper of another oneof …). The canonical programs never get stuck.
   * The receiver is Reflect.v's [PMsg mid p]: p = None is the typed nil pointer (the read-only empty message). What the
     nil guard printed at the top of the method makes of it is part of the program ([rguard]): none (the first x.F
     dereferences nil: panic), `x = &T{}` (a temporary empty struct; views into it are never handed out: [own] = None),
     `return` (Range). A receiver that is not an object of its type in the heap (impossible in Go) panics on the first
     dereference, as in Reflect.step.
   * Fixed library calls are given Reflect.v's meaning by construction: value.Bool()/Int()/…/Interface().(string)/
     Message().Interface().( *T) = [pval_to_elem] (a protoreflect.Value of the wrong Go type panics), protoreflect.ValueOf…
     (x) = [elem_to_pval] / PScalar, v.ProtoReflect() of a nil pointer = PMsg m None. The type assertions
     lv.( *_T_N_list) / mv.( *_T_N_map) are read as "value is a list (map) view whose element (key, value) type is the field's":
     a pval view does not carry the field it was made for (see [set_arg_okb]).
   * In the comments of this file a Go pointer type in parentheses is written with a space, `( *T)` (otherwise a Coq comment would nest).
   * Range: the callback is a parameter ([f : nat -> pval -> bool]); the result is PRange of the calls made, in order.
   Executable definitions only. *)
From CP Require Export Reflect.
Local Open Scope nat_scope.

(* ---- literals and constructor names ----------------------------------------------------------------------------- *)
(* zero literals, as zeroValueForField prints them *)
Inductive rzero :=
| ZLNum      (* 0            (enum: the number of the first value) *)
| ZLFalse    (* false *)
| ZLI32      (* int32(0) *)
| ZLU32      (* uint32(0) *)
| ZLI64      (* int64(0) *)
| ZLU64      (* uint64(0) *)
| ZLF32      (* float32(0) *)
| ZLF64      (* float64(0) *)
| ZLStr      (* "" *)
| ZLNil.     (* nil *)

(* protoreflect.ValueOf<…>, as kindToValueConstructor chooses them *)
Inductive rctor :=
| VCBool | VCEnum | VCInt32 | VCUint32 | VCInt64 | VCUint64 | VCFloat32 | VCFloat64 | VCString | VCBytes | VCMessage.

(* conversions of the argument `value` of Set *)
Inductive rconv :=
| CVBool           (* value.Bool() *)
| CVEnum           (* (E)(value.Enum()), E the field's Go enum type *)
| CVInt32          (* int32(value.Int()) *)
| CVUint32         (* uint32(value.Uint()) *)
| CVInt64          (* value.Int() *)
| CVUint64         (* value.Uint() *)
| CVFloat32        (* float32(value.Float()) *)
| CVFloat64        (* value.Float() *)
| CVString         (* value.Interface().(string) *)
| CVBytes          (* value.Bytes() *)
| CVMsg (m : nat). (* value.Message().Interface().( *T), T = message m *)

Definition zero_lit (k : kind) : rzero :=
  match k with
  | KBool => ZLFalse
  | KEnum => ZLNum
  | KInt32 | KSint32 | KSfixed32 => ZLI32
  | KUint32 | KFixed32 => ZLU32
  | KInt64 | KSint64 | KSfixed64 => ZLI64
  | KUint64 | KFixed64 => ZLU64
  | KFloat => ZLF32
  | KDouble => ZLF64
  | KString => ZLStr
  | KBytes => ZLNil
  end.
Definition ctor_of (k : kind) : rctor :=
  match k with
  | KBool => VCBool
  | KEnum => VCEnum
  | KInt32 | KSint32 | KSfixed32 => VCInt32
  | KUint32 | KFixed32 => VCUint32
  | KInt64 | KSint64 | KSfixed64 => VCInt64
  | KUint64 | KFixed64 => VCUint64
  | KFloat => VCFloat32
  | KDouble => VCFloat64
  | KString => VCString
  | KBytes => VCBytes
  end.
Definition conv_of (t : ftype) : rconv :=
  match t with
  | TMsg m => CVMsg m
  | TScalar k =>
    match k with
    | KBool => CVBool
    | KEnum => CVEnum
    | KInt32 | KSint32 | KSfixed32 => CVInt32
    | KUint32 | KFixed32 => CVUint32
    | KInt64 | KSint64 | KSfixed64 => CVInt64
    | KUint64 | KFixed64 => CVUint64
    | KFloat => CVFloat32
    | KDouble => CVFloat64
    | KString => CVString
    | KBytes => CVBytes
    end
  end.
(* the Go value a zero literal denotes *)
Definition zero_lit_val (z : rzero) : val :=
  match z with
  | ZLFalse => VBool false
  | ZLF32 | ZLF64 => VBits 0%N
  | ZLStr => VBytes []
  | ZLNil => VNil
  | ZLNum | ZLI32 | ZLU32 | ZLI64 | ZLU64 => VInt 0%Z
  end.

Definition rzero_eqb (a b : rzero) : bool :=
  match a, b with
  | ZLNum, ZLNum | ZLFalse, ZLFalse | ZLI32, ZLI32 | ZLU32, ZLU32 | ZLI64, ZLI64 | ZLU64, ZLU64
  | ZLF32, ZLF32 | ZLF64, ZLF64 | ZLStr, ZLStr | ZLNil, ZLNil => true
  | _, _ => false
  end.
Definition rctor_eqb (a b : rctor) : bool :=
  match a, b with
  | VCBool, VCBool | VCEnum, VCEnum | VCInt32, VCInt32 | VCUint32, VCUint32 | VCInt64, VCInt64 | VCUint64, VCUint64
  | VCFloat32, VCFloat32 | VCFloat64, VCFloat64 | VCString, VCString | VCBytes, VCBytes | VCMessage, VCMessage => true
  | _, _ => false
  end.
Definition rconv_eqb (a b : rconv) : bool :=
  match a, b with
  | CVBool, CVBool | CVEnum, CVEnum | CVInt32, CVInt32 | CVUint32, CVUint32 | CVInt64, CVInt64 | CVUint64, CVUint64
  | CVFloat32, CVFloat32 | CVFloat64, CVFloat64 | CVString, CVString | CVBytes, CVBytes => true
  | CVMsg m, CVMsg m' => Nat.eqb m m'
  | _, _ => false
  end.
(* the literal z is the zero value the templates print for the Go type of kind k *)
Definition zero_ok (k : kind) (z : rzero) : bool := rzero_eqb z (zero_lit k).
(* ValueOf<c>(<z>) type-checks: the literal is the zero of the constructor's parameter type *)
Definition ctor_zero_ok (c : rctor) (z : rzero) : bool :=
  match c, z with
  | VCBool, ZLFalse | VCEnum, ZLNum | VCInt32, ZLI32 | VCUint32, ZLU32 | VCInt64, ZLI64 | VCUint64, ZLU64
  | VCFloat32, ZLF32 | VCFloat64, ZLF64 | VCString, ZLStr | VCBytes, ZLNil => true
  | _, _ => false
  end.

(* ---- syntax -------------------------------------------------------------------------------------------------------- *)
(* boolean expressions: what Has returns and what Range guards a field with *)
Inductive rbexpr :=
| BXNe (i : nat) (z : rzero)          (* x.F != <z> *)
| BXNeSign32 (i : nat) (z : rzero)    (* x.F != <z> || math.Signbit(float64(x.F)) *)
| BXNeSign64 (i : nat) (z : rzero)    (* x.F != <z> || math.Signbit(x.F) *)
| BXLenNe0 (i : nat).                 (* len(x.F) != 0 *)

Inductive rhas :=
| HBRet (b : rbexpr)                  (* return <b> *)
| HBOneof (o j : nat).                (* if x.O == nil { return false } else if _, ok := x.O.( *W_j); ok { return true } else { return false } *)

Inductive rclear :=
| CBAssign (i : nat) (z : rzero)      (* x.F = <z> *)
| CBOneof (o j : nat).                (* if _, ok := x.O.( *W_j); ok { x.O = nil } *)

(* what one branch of the oneof getter returns *)
Inductive roneval :=
| OVZero (c : rctor) (z : rzero)      (* protoreflect.ValueOf<c>(<z>) *)
| OVNilMsg (m : nat)                  (* protoreflect.ValueOfMessage(( *T)(nil).ProtoReflect()), T = message m *)
| OVPay (c : rctor)                   (* protoreflect.ValueOf<c>(v.F) *)
| OVPayEnum                           (* protoreflect.ValueOfEnum((protoreflect.EnumNumber)(v.F)) *)
| OVPayMsg.                           (* protoreflect.ValueOfMessage(v.F.ProtoReflect()) *)

Inductive rget :=
| GBScalar (i : nat) (c : rctor)      (* value := x.F; return protoreflect.ValueOf<c>(value) *)
| GBEnum (i : nat)                    (* value := x.F; return protoreflect.ValueOfEnum((protoreflect.EnumNumber)(value)) *)
| GBMsg (i : nat)                     (* value := x.F; return protoreflect.ValueOfMessage(value.ProtoReflect()) *)
| GBList (i : nat)                    (* if len(x.F) == 0 { return protoreflect.ValueOfList(&_T_N_list{}) };
                                         listValue := &_T_N_list{list: &x.F}; return protoreflect.ValueOfList(listValue) *)
| GBMap (i : nat)                     (* the same with _T_N_map{m: &x.F}, mapValue, ValueOfMap *)
| GBOneof (o j : nat) (d1 hit d2 : roneval).
      (* if x.O == nil { return <d1> } else if v, ok := x.O.( *W_j); ok { return <hit> } else { return <d2> } *)

Inductive rset :=
| SBAssign (i : nat) (cv : rconv)     (* x.F = <cv> *)
| SBMsg (i m : nat)                   (* if !value.Message().IsValid() { panic(…) }; x.F = value.Message().Interface().( *T) *)
| SBList (i : nat)                    (* lv := value.List(); clv := lv.( *_T_N_list); x.F = *clv.list *)
| SBMap (i : nat)                     (* mv := value.Map(); cmv := mv.( *_T_N_map); x.F = *cmv.m *)
| SBOneof (o j : nat) (cv : rconv).   (* cv := <cv>; x.O = &W_j{F: cv} *)

Inductive rmut :=
| MBMsg (i m : nat)                   (* if x.F == nil { x.F = new(T) }; return protoreflect.ValueOfMessage(x.F.ProtoReflect()) *)
| MBMap (i : nat)                     (* if x.F == nil { x.F = make(map[K]V) }; value := &_T_N_map{m: &x.F}; return protoreflect.ValueOfMap(value) *)
| MBList (i : nat)                    (* if x.F == nil { x.F = []E{} }; value := &_T_N_list{list: &x.F}; return protoreflect.ValueOfList(value) *)
| MBOneof (o j m : nat)
      (* if x.O == nil { value := &T{}; oneofValue := &W_j{F: value}; x.O = oneofValue; return ValueOfMessage(value.ProtoReflect()) }
         switch m := x.O.(type) {
         case *W_j: if m.F == nil { m.F = new(T) }; return ValueOfMessage(m.F.ProtoReflect())
         default:   value := &T{}; oneofValue := &W_j{F: value}; x.O = oneofValue; return ValueOfMessage(value.ProtoReflect()) } *)
| MBPanic.                            (* panic(fmt.Errorf("field <name> of message <M> is not mutable")) *)

Inductive rnewf :=
| NBScalar (c : rctor) (z : rzero)    (* return protoreflect.ValueOf<c>(<z>) *)
| NBMsg (m : nat)                     (* m := new(T); return protoreflect.ValueOfMessage(m.ProtoReflect()) *)
| NBMap (i : nat)                     (* m := make(map[K]V); return protoreflect.ValueOfMap(&_T_N_map{m: &m}) *)
| NBList (i : nat)                    (* list := []E{}; return protoreflect.ValueOfList(&_T_N_list{list: &list}) *)
| NBOneofMsg (m : nat).               (* value := &T{}; return protoreflect.ValueOfMessage(value.ProtoReflect()) *)

Inductive rwhich :=
| WBOneof (o : nat) (cases : list (nat * nat)).
      (* if x.O == nil { return nil }; switch x.O.(type) { case *W_j: return x.Descriptor().Fields().ByName("<name of field r>") … }
         — one pair (j, r) per case clause; leaving the switch reaches the method's final panic("unreachable") *)

(* Range: the `value := …` line of a plain field / of a case clause of the oneof switch *)
Inductive rrval :=
| RGVOf (c : rctor) (i : nat)         (* value := protoreflect.ValueOf<c>(x.F) *)
| RGVEnum (i : nat)                   (* value := protoreflect.ValueOfEnum((protoreflect.EnumNumber)(x.F)) *)
| RGVMsg (i : nat)                    (* value := protoreflect.ValueOfMessage(x.F.ProtoReflect()) *)
| RGVList (i : nat)                   (* value := protoreflect.ValueOfList(&_T_N_list{list: &x.F}) *)
| RGVMap (i : nat).                   (* value := protoreflect.ValueOfMap(&_T_N_map{m: &x.F}) *)
Inductive rrcase :=
| RGCOf (c : rctor)                   (* v := o.F; value := protoreflect.ValueOf<c>(v) *)
| RGCEnum                             (* v := o.F; value := protoreflect.ValueOfEnum((protoreflect.EnumNumber)(v)) *)
| RGCMsg.                             (* v := o.F; value := protoreflect.ValueOfMessage(v.ProtoReflect()) *)
Inductive rrange :=
| RGField (g : rbexpr) (v : rrval) (fdi : nat)
      (* if <g> { <v>; if !f(fd_T_<name of field fdi>, value) { return } } *)
| RGOneof (o : nat) (cases : list (nat * (rrcase * nat))).
      (* if x.O != nil { switch o := x.O.(type) { case *W_j: <form>; if !f(fd_T_<name of field fdi>, value) { return } … } }
         — one (j, (form, fdi)) per case clause *)

(* the frame of a method *)
Inductive rguard :=
| NGNone       (* nothing before the switch *)
| NGAlloc      (* if x == nil { x = &fastReflection_T{} } *)
| NGReturn.    (* if x == nil { return } *)
Inductive rtail :=
| TLField      (* default: if fd.IsExtension() { panic(fmt.Errorf("proto3 declared messages do not support extensions: <M>")) }
                           panic(fmt.Errorf("message <M> does not contain field %s", fd.FullName())) *)
| TLOneof.     (* default: panic(fmt.Errorf("%s is not a oneof field in <M>", d.FullName()))   …}  panic("unreachable") *)
(* switch fd.FullName() { case "<full name of field / oneof n>": body … default: tail } *)
Record rmeth (B : Type) := mkMeth { rm_guard : rguard; rm_cases : list (nat * B); rm_tail : rtail }.
Arguments mkMeth {B}. Arguments rm_guard {B}. Arguments rm_cases {B}. Arguments rm_tail {B}.
Record rrangem := mkRange { rr_guard : rguard; rr_body : list rrange }.

Record rprogs := mkProgs {
  p_has : rmeth rhas; p_clear : rmeth rclear; p_get : rmeth rget; p_set : rmeth rset;
  p_mut : rmeth rmut; p_newf : rmeth rnewf; p_which : rmeth rwhich; p_range : rrangem }.

(* ---- decidable equality ----------------------------------------------------------------------------------------- *)
Definition rbexpr_eqb (a b : rbexpr) : bool :=
  match a, b with
  | BXNe i z, BXNe i' z' | BXNeSign32 i z, BXNeSign32 i' z' | BXNeSign64 i z, BXNeSign64 i' z' => Nat.eqb i i' && rzero_eqb z z'
  | BXLenNe0 i, BXLenNe0 i' => Nat.eqb i i'
  | _, _ => false
  end.
Definition rhas_eqb (a b : rhas) : bool :=
  match a, b with
  | HBRet x, HBRet y => rbexpr_eqb x y
  | HBOneof o j, HBOneof o' j' => Nat.eqb o o' && Nat.eqb j j'
  | _, _ => false
  end.
Definition rclear_eqb (a b : rclear) : bool :=
  match a, b with
  | CBAssign i z, CBAssign i' z' => Nat.eqb i i' && rzero_eqb z z'
  | CBOneof o j, CBOneof o' j' => Nat.eqb o o' && Nat.eqb j j'
  | _, _ => false
  end.
Definition roneval_eqb (a b : roneval) : bool :=
  match a, b with
  | OVZero c z, OVZero c' z' => rctor_eqb c c' && rzero_eqb z z'
  | OVNilMsg m, OVNilMsg m' => Nat.eqb m m'
  | OVPay c, OVPay c' => rctor_eqb c c'
  | OVPayEnum, OVPayEnum | OVPayMsg, OVPayMsg => true
  | _, _ => false
  end.
Definition rget_eqb (a b : rget) : bool :=
  match a, b with
  | GBScalar i c, GBScalar i' c' => Nat.eqb i i' && rctor_eqb c c'
  | GBEnum i, GBEnum i' | GBMsg i, GBMsg i' | GBList i, GBList i' | GBMap i, GBMap i' => Nat.eqb i i'
  | GBOneof o j x y z, GBOneof o' j' x' y' z' =>
    Nat.eqb o o' && Nat.eqb j j' && roneval_eqb x x' && roneval_eqb y y' && roneval_eqb z z'
  | _, _ => false
  end.
Definition rset_eqb (a b : rset) : bool :=
  match a, b with
  | SBAssign i c, SBAssign i' c' => Nat.eqb i i' && rconv_eqb c c'
  | SBMsg i m, SBMsg i' m' => Nat.eqb i i' && Nat.eqb m m'
  | SBList i, SBList i' | SBMap i, SBMap i' => Nat.eqb i i'
  | SBOneof o j c, SBOneof o' j' c' => Nat.eqb o o' && Nat.eqb j j' && rconv_eqb c c'
  | _, _ => false
  end.
Definition rmut_eqb (a b : rmut) : bool :=
  match a, b with
  | MBMsg i m, MBMsg i' m' => Nat.eqb i i' && Nat.eqb m m'
  | MBMap i, MBMap i' | MBList i, MBList i' => Nat.eqb i i'
  | MBOneof o j m, MBOneof o' j' m' => Nat.eqb o o' && Nat.eqb j j' && Nat.eqb m m'
  | MBPanic, MBPanic => true
  | _, _ => false
  end.
Definition rnewf_eqb (a b : rnewf) : bool :=
  match a, b with
  | NBScalar c z, NBScalar c' z' => rctor_eqb c c' && rzero_eqb z z'
  | NBMsg m, NBMsg m' | NBOneofMsg m, NBOneofMsg m' => Nat.eqb m m'
  | NBMap i, NBMap i' | NBList i, NBList i' => Nat.eqb i i'
  | _, _ => false
  end.
Fixpoint rp_list_eqb {A} (eqb : A -> A -> bool) (a b : list A) : bool :=
  match a, b with
  | [], [] => true
  | x :: a', y :: b' => eqb x y && rp_list_eqb eqb a' b'
  | _, _ => false
  end.
Definition rwhich_eqb (a b : rwhich) : bool :=
  match a, b with
  | WBOneof o cs, WBOneof o' cs' =>
    Nat.eqb o o' && rp_list_eqb (fun x y => Nat.eqb (fst x) (fst y) && Nat.eqb (snd x) (snd y)) cs cs'
  end.
Definition rrval_eqb (a b : rrval) : bool :=
  match a, b with
  | RGVOf c i, RGVOf c' i' => rctor_eqb c c' && Nat.eqb i i'
  | RGVEnum i, RGVEnum i' | RGVMsg i, RGVMsg i' | RGVList i, RGVList i' | RGVMap i, RGVMap i' => Nat.eqb i i'
  | _, _ => false
  end.
Definition rrcase_eqb (a b : rrcase) : bool :=
  match a, b with
  | RGCOf c, RGCOf c' => rctor_eqb c c'
  | RGCEnum, RGCEnum | RGCMsg, RGCMsg => true
  | _, _ => false
  end.
Definition rrange_eqb (a b : rrange) : bool :=
  match a, b with
  | RGField g v i, RGField g' v' i' => rbexpr_eqb g g' && rrval_eqb v v' && Nat.eqb i i'
  | RGOneof o cs, RGOneof o' cs' =>
    Nat.eqb o o' &&
    rp_list_eqb (fun x y => Nat.eqb (fst x) (fst y) && rrcase_eqb (fst (snd x)) (fst (snd y)) && Nat.eqb (snd (snd x)) (snd (snd y))) cs cs'
  | _, _ => false
  end.
Definition rguard_eqb (a b : rguard) : bool :=
  match a, b with NGNone, NGNone | NGAlloc, NGAlloc | NGReturn, NGReturn => true | _, _ => false end.
Definition rtail_eqb (a b : rtail) : bool :=
  match a, b with TLField, TLField | TLOneof, TLOneof => true | _, _ => false end.
Definition rcase_eqb {B} (eqb : B -> B -> bool) (x y : nat * B) : bool := Nat.eqb (fst x) (fst y) && eqb (snd x) (snd y).
Definition rmeth_eqb {B} (eqb : B -> B -> bool) (a b : rmeth B) : bool :=
  rguard_eqb (rm_guard a) (rm_guard b) && rp_list_eqb (rcase_eqb eqb) (rm_cases a) (rm_cases b) && rtail_eqb (rm_tail a) (rm_tail b).
Definition rrangem_eqb (a b : rrangem) : bool :=
  rguard_eqb (rr_guard a) (rr_guard b) && rp_list_eqb rrange_eqb (rr_body a) (rr_body b).
Definition rprogs_eqb (a b : rprogs) : bool :=
  rmeth_eqb rhas_eqb (p_has a) (p_has b) && rmeth_eqb rclear_eqb (p_clear a) (p_clear b) &&
  rmeth_eqb rget_eqb (p_get a) (p_get b) && rmeth_eqb rset_eqb (p_set a) (p_set b) &&
  rmeth_eqb rmut_eqb (p_mut a) (p_mut b) && rmeth_eqb rnewf_eqb (p_newf a) (p_newf b) &&
  rmeth_eqb rwhich_eqb (p_which a) (p_which b) && rrangem_eqb (p_range a) (p_range b).

(* ---- interpreters ----------------------------------------------------------------------------------------------- *)
Fixpoint rp_assoc {B} (l : list (nat * B)) (n : nat) : option B :=
  match l with
  | [] => None
  | (k, b) :: t => if Nat.eqb k n then Some b else rp_assoc t n
  end.

Definition rp_ftype_eqb (a b : ftype) : bool :=
  match a, b with
  | TScalar k, TScalar k' => kind_eqb k k'
  | TMsg m, TMsg m' => Nat.eqb m m'
  | _, _ => false
  end.
Definition is_enum (k : kind) : bool := match k with KEnum => true | _ => false end.

(* what x is when the switch is reached *)
Inductive xst :=
| XNil                                   (* the nil pointer *)
| XObj (own : option nat) (ob : obj)     (* a struct: heap object [own], or the temporary &T{} of the nil guard (None) *)
| XBad.                                  (* not an object of the type in the heap (impossible in Go): dereferencing panics *)

Section Interp.
  Variable sch : schema.

  (* None: the method returns before the switch (NGReturn on the nil receiver) *)
  Definition xst_of (h : heap) (g : rguard) (mid : nat) (p : option nat) : option xst :=
    match p with
    | None => match g with
              | NGNone => Some XNil
              | NGAlloc => Some (XObj None (new_obj sch mid))
              | NGReturn => None
              end
    | Some id => Some (match recv_obj sch h mid (Some id) with Some ob => XObj (Some id) ob | None => XBad end)
    end.

  Definition slot_at (ob : obj) (o : nat) : option (nat * elem) := nth o (o_oneofs ob) None.
  Definition member_in (fs : list field) (j o : nat) : option field :=        (* field j, when it is a member of oneof o *)
    match nth_error fs j with
    | Some fd => match f_shape fd with Member o' => if Nat.eqb o' o then Some fd else None | _ => None end
    | None => None
    end.
  (* write the struct back (nothing to write for the temporary) *)
  Definition put_obj (h : heap) (own : option nat) (ob : obj) : heap :=
    match own with Some id => hset h id (HObj ob) | None => h end.
  (* &x.F as a view target *)
  Definition view_ref (own : option nat) (i : nat) : cref := match own with Some id => RField id i | None => RNil end.

  (* -- boolean expressions -- *)
  Definition eval_bexpr (fs : list field) (ob : obj) (b : rbexpr) : option bool :=
    match b with
    | BXNe i z =>
      match nth_error fs i, nth_error (o_cells ob) i with
      | Some fd, Some c =>
        match f_shape fd, f_ty fd, c with
        | Singular, TScalar k, CScalar v =>
          match k with
          | KFloat | KDouble | KBytes => None                   (* not a form the templates print; NaN / nil-vs-empty matter *)
          | _ => if zero_ok k z then Some (present k v) else None
          end
        | Singular, TMsg _, CMsg p => match z with ZLNil => Some (match p with Some _ => true | None => false end) | _ => None end
        | _, _, _ => None
        end
      | _, _ => None
      end
    | BXNeSign32 i z =>
      match nth_error fs i, nth_error (o_cells ob) i with
      | Some fd, Some (CScalar v) =>
        match f_shape fd, f_ty fd with
        | Singular, TScalar KFloat => if zero_ok KFloat z then Some (present KFloat v) else None     (* anything but +0 *)
        | _, _ => None
        end
      | _, _ => None
      end
    | BXNeSign64 i z =>
      match nth_error fs i, nth_error (o_cells ob) i with
      | Some fd, Some (CScalar v) =>
        match f_shape fd, f_ty fd with
        | Singular, TScalar KDouble => if zero_ok KDouble z then Some (present KDouble v) else None
        | _, _ => None
        end
      | _, _ => None
      end
    | BXLenNe0 i =>
      match nth_error fs i, nth_error (o_cells ob) i with
      | Some fd, Some c =>
        match f_shape fd, f_ty fd, c with
        | Singular, TScalar KBytes, CScalar v => Some (present KBytes v)
        | Singular, TScalar KString, CScalar v => Some (present KString v)
        | Rep _, _, CList l => Some (negb (Nat.eqb (olen l) 0))
        | MapOf _, _, CMap m => Some (negb (Nat.eqb (olen m) 0))
        | _, _, _ => None
        end
      | _, _ => None
      end
    end.

  (* -- Has -- *)
  Definition eval_has (fs : list field) (h : heap) (x : xst) (b : rhas) : option (heap * pval) :=
    match x with
    | XObj _ ob =>
      match b with
      | HBRet e => option_map (fun r => (h, PBool r)) (eval_bexpr fs ob e)
      | HBOneof o j =>
        match member_in fs j o with
        | Some _ => Some (h, PBool (match slot_at ob o with Some (f', _) => Nat.eqb f' j | None => false end))
        | None => None
        end
      end
    | _ => Some (h, PPanic)
    end.

  (* -- Clear -- *)
  Definition eval_clear (fs : list field) (h : heap) (x : xst) (b : rclear) : option (heap * pval) :=
    match x with
    | XObj own ob =>
      match b with
      | CBAssign i z =>
        match nth_error fs i with
        | Some fd =>
          match f_shape fd, f_ty fd with
          | Singular, TScalar k => if zero_ok k z then Some (put_obj h own (set_cell ob i (CScalar (zero_lit_val z))), PUnit) else None
          | Singular, TMsg _ => match z with ZLNil => Some (put_obj h own (set_cell ob i (CMsg None)), PUnit) | _ => None end
          | Rep _, _ => match z with ZLNil => Some (put_obj h own (set_cell ob i (CList None)), PUnit) | _ => None end
          | MapOf _, _ => match z with ZLNil => Some (put_obj h own (set_cell ob i (CMap None)), PUnit) | _ => None end
          | Member _, _ => None
          end
        | None => None
        end
      | CBOneof o j =>
        match member_in fs j o with
        | Some _ =>
          let ob' := match slot_at ob o with
                     | Some (f', _) => if Nat.eqb f' j then set_oneof ob o None else ob
                     | None => ob
                     end in
          Some (put_obj h own ob', PUnit)
        | None => None
        end
      end
    | _ => Some (h, PPanic)
    end.

  (* -- Get -- *)
  (* [fd]: the member the case is about; [e]: the wrapper's payload, when a wrapper of that member is bound to v *)
  Definition eval_oneval (fd : field) (e : option elem) (ov : roneval) : option pval :=
    match ov with
    | OVZero c z => if ctor_zero_ok c z then Some (PScalar (zero_lit_val z)) else None
    | OVNilMsg m => Some (PMsg m None)
    | OVPay c =>
      match e, f_ty fd with
      | Some el, TScalar k => if negb (is_enum k) && rctor_eqb c (ctor_of k) then Some (elem_to_pval (f_ty fd) el) else None
      | _, _ => None
      end
    | OVPayEnum =>
      match e, f_ty fd with
      | Some el, TScalar KEnum => Some (elem_to_pval (f_ty fd) el)
      | _, _ => None
      end
    | OVPayMsg =>
      match e, f_ty fd with
      | Some el, TMsg _ => Some (elem_to_pval (f_ty fd) el)
      | _, _ => None
      end
    end.

  Definition eval_get (fs : list field) (h : heap) (x : xst) (b : rget) : option (heap * pval) :=
    match x with
    | XObj own ob =>
      let ret (r : option pval) := option_map (fun v => (h, v)) r in
      match b with
      | GBScalar i c =>
        match nth_error fs i, nth_error (o_cells ob) i with
        | Some fd, Some (CScalar v) =>
          match f_shape fd, f_ty fd with
          | Singular, TScalar k => if negb (is_enum k) && rctor_eqb c (ctor_of k) then Some (h, PScalar v) else None
          | _, _ => None
          end
        | _, _ => None
        end
      | GBEnum i =>
        match nth_error fs i, nth_error (o_cells ob) i with
        | Some fd, Some (CScalar v) =>
          match f_shape fd, f_ty fd with
          | Singular, TScalar KEnum => Some (h, PScalar v)
          | _, _ => None
          end
        | _, _ => None
        end
      | GBMsg i =>
        match nth_error fs i, nth_error (o_cells ob) i with
        | Some fd, Some (CMsg p) =>
          match f_shape fd, f_ty fd with
          | Singular, TMsg m => Some (h, PMsg m p)
          | _, _ => None
          end
        | _, _ => None
        end
      | GBList i =>
        match nth_error fs i, nth_error (o_cells ob) i with
        | Some fd, Some (CList l) =>
          match f_shape fd with
          | Rep _ => Some (h, PList (f_ty fd) (if Nat.eqb (olen l) 0 then RNil else view_ref own i))
          | _ => None
          end
        | _, _ => None
        end
      | GBMap i =>
        match nth_error fs i, nth_error (o_cells ob) i with
        | Some fd, Some (CMap m) =>
          match f_shape fd with
          | MapOf kk => Some (h, PMap kk (f_ty fd) (if Nat.eqb (olen m) 0 then RNil else view_ref own i))
          | _ => None
          end
        | _, _ => None
        end
      | GBOneof o j d1 hit d2 =>
        match member_in fs j o with
        | Some fd =>
          match slot_at ob o with
          | None => ret (eval_oneval fd None d1)
          | Some (f', el) => if Nat.eqb f' j then ret (eval_oneval fd (Some el) hit) else ret (eval_oneval fd None d2)
          end
        | None => None
        end
      end
    | _ => Some (h, PPanic)
    end.

  (* -- Set -- *)
  (* outer None: the conversion is not the one for a Go variable of type t; inner None: the library call panics *)
  Definition eval_conv (t : ftype) (cv : rconv) (v : pval) : option (option elem) :=
    if rconv_eqb cv (conv_of t) then Some (pval_to_elem t v) else None.

  Definition eval_set (fs : list field) (h : heap) (x : xst) (b : rset) (v : pval) : option (heap * pval) :=
    match x with
    | XObj own ob =>
      match b with
      | SBAssign i cv =>
        match nth_error fs i with
        | Some fd =>
          match f_shape fd with
          | Singular =>
            match eval_conv (f_ty fd) cv v with
            | Some (Some (EScalar s)) => Some (put_obj h own (set_cell ob i (CScalar s)), PUnit)
            | Some (Some (EPtr p)) => Some (put_obj h own (set_cell ob i (CMsg p)), PUnit)      (* no validity guard in this form *)
            | Some None => Some (h, PPanic)
            | None => None
            end
          | _ => None
          end
        | None => None
        end
      | SBMsg i m =>
        match nth_error fs i with
        | Some fd =>
          match f_shape fd, f_ty fd with
          | Singular, TMsg m' =>
            if Nat.eqb m m' then
              match v with
              | PMsg m'' (Some q) => if Nat.eqb m'' m then Some (put_obj h own (set_cell ob i (CMsg (Some q))), PUnit) else Some (h, PPanic)
              | _ => Some (h, PPanic)                              (* not a message, or the invalid (nil) message *)
              end
            else None
          | _, _ => None
          end
        | None => None
        end
      | SBList i =>
        match nth_error fs i with
        | Some fd =>
          match f_shape fd with
          | Rep _ =>
            match v with
            | PList t r =>
              if rp_ftype_eqb t (f_ty fd) then
                match read_list h r with
                | Some l => Some (put_obj h own (set_cell ob i (CList l)), PUnit)
                | None => Some (h, PPanic)                          (* *clv.list of the invalid view *)
                end
              else Some (h, PPanic)
            | _ => Some (h, PPanic)
            end
          | _ => None
          end
        | None => None
        end
      | SBMap i =>
        match nth_error fs i with
        | Some fd =>
          match f_shape fd with
          | MapOf kk =>
            match v with
            | PMap kk' t r =>
              if kind_eqb kk' kk && rp_ftype_eqb t (f_ty fd) then
                match read_map h r with
                | Some m => Some (put_obj h own (set_cell ob i (CMap m)), PUnit)
                | None => Some (h, PPanic)
                end
              else Some (h, PPanic)
            | _ => Some (h, PPanic)
            end
          | _ => None
          end
        | None => None
        end
      | SBOneof o j cv =>
        match member_in fs j o with
        | Some fd =>
          match eval_conv (f_ty fd) cv v with
          | Some (Some e) => Some (put_obj h own (set_oneof ob o (Some (j, e))), PUnit)
          | Some None => Some (h, PPanic)
          | None => None
          end
        | None => None
        end
      end
    | _ => Some (h, PPanic)
    end.

  (* -- Mutable -- *)
  Definition eval_mut (fs : list field) (h : heap) (x : xst) (b : rmut) : option (heap * pval) :=
    match b with
    | MBPanic => Some (h, PPanic)
    | _ =>
      match x with
      | XObj own ob =>
        match b with
        | MBPanic => Some (h, PPanic)
        | MBMsg i m =>
          match nth_error fs i, nth_error (o_cells ob) i with
          | Some fd, Some (CMsg p) =>
            match f_shape fd, f_ty fd with
            | Singular, TMsg m' =>
              if Nat.eqb m m' then
                match p with
                | Some q => Some (h, PMsg m (Some q))
                | None => let (h1, q) := halloc h (HObj (new_obj sch m)) in
                          Some (put_obj h1 own (set_cell ob i (CMsg (Some q))), PMsg m (Some q))
                end
              else None
            | _, _ => None
            end
          | _, _ => None
          end
        | MBList i =>
          match nth_error fs i, nth_error (o_cells ob) i with
          | Some fd, Some (CList l) =>
            match f_shape fd with
            | Rep _ =>
              Some (match l with
                    | None => put_obj h own (set_cell ob i (CList (Some [])))
                    | Some _ => h
                    end, PList (f_ty fd) (view_ref own i))
            | _ => None
            end
          | _, _ => None
          end
        | MBMap i =>
          match nth_error fs i, nth_error (o_cells ob) i with
          | Some fd, Some (CMap mp) =>
            match f_shape fd with
            | MapOf kk =>
              Some (match mp with
                    | None => put_obj h own (set_cell ob i (CMap (Some [])))
                    | Some _ => h
                    end, PMap kk (f_ty fd) (view_ref own i))
            | _ => None
            end
          | _, _ => None
          end
        | MBOneof o j m =>
          match member_in fs j o with
          | Some fd =>
            match f_ty fd with
            | TMsg m' =>
              if Nat.eqb m m' then
                let fresh := let (h1, q) := halloc h (HObj (new_obj sch m)) in
                             Some (put_obj h1 own (set_oneof ob o (Some (j, EPtr (Some q)))), PMsg m (Some q)) in
                match slot_at ob o with
                | None => fresh                                              (* x.O == nil *)
                | Some (f', el) =>
                  if Nat.eqb f' j then
                    match el with
                    | EPtr (Some q) => Some (h, PMsg m (Some q))             (* case *W_j, payload set *)
                    | _ => fresh                                             (* case *W_j holding nil: m.F = new(T), in place *)
                    end
                  else fresh                                                 (* default: *)
                end
              else None
            | TScalar _ => None
            end
          | None => None
          end
        end
      | _ => Some (h, PPanic)
      end
    end.

  (* -- NewField (never looks at x) -- *)
  Definition eval_newf (fs : list field) (h : heap) (b : rnewf) : option (heap * pval) :=
    match b with
    | NBScalar c z => if ctor_zero_ok c z then Some (h, PScalar (zero_lit_val z)) else None
    | NBMsg m | NBOneofMsg m => let (h', id) := halloc h (HObj (new_obj sch m)) in Some (h', PMsg m (Some id))
    | NBList i =>
      match nth_error fs i with
      | Some fd => match f_shape fd with
                   | Rep _ => let (h', id) := halloc h (HListVar (Some [])) in Some (h', PList (f_ty fd) (RVar id))
                   | _ => None
                   end
      | None => None
      end
    | NBMap i =>
      match nth_error fs i with
      | Some fd => match f_shape fd with
                   | MapOf kk => let (h', id) := halloc h (HMapVar (Some [])) in Some (h', PMap kk (f_ty fd) (RVar id))
                   | _ => None
                   end
      | None => None
      end
    end.

  (* -- WhichOneof -- *)
  Definition eval_which (fs : list field) (h : heap) (x : xst) (b : rwhich) : option (heap * pval) :=
    match x with
    | XObj _ ob =>
      match b with
      | WBOneof o cases =>
        if forallb (fun c => match member_in fs (fst c) o with Some _ => true | None => false end) cases then
          match slot_at ob o with
          | None => Some (h, PField None)
          | Some (f', _) =>
            match rp_assoc cases f' with
            | Some r => Some (h, PField (Some r))
            | None => Some (h, PPanic)                                     (* no clause: panic("unreachable") *)
            end
          end
        else None
      end
    | _ => Some (h, PPanic)
    end.

  (* -- Range -- *)
  Definition eval_rrval (fs : list field) (own : option nat) (ob : obj) (v : rrval) : option pval :=
    match v with
    | RGVOf c i =>
      match nth_error fs i, nth_error (o_cells ob) i with
      | Some fd, Some (CScalar s) =>
        match f_shape fd, f_ty fd with
        | Singular, TScalar k => if negb (is_enum k) && rctor_eqb c (ctor_of k) then Some (PScalar s) else None
        | _, _ => None
        end
      | _, _ => None
      end
    | RGVEnum i =>
      match nth_error fs i, nth_error (o_cells ob) i with
      | Some fd, Some (CScalar s) =>
        match f_shape fd, f_ty fd with
        | Singular, TScalar KEnum => Some (PScalar s)
        | _, _ => None
        end
      | _, _ => None
      end
    | RGVMsg i =>
      match nth_error fs i, nth_error (o_cells ob) i with
      | Some fd, Some (CMsg p) =>
        match f_shape fd, f_ty fd with
        | Singular, TMsg m => Some (PMsg m p)
        | _, _ => None
        end
      | _, _ => None
      end
    | RGVList i =>
      match nth_error fs i, nth_error (o_cells ob) i, own with
      | Some fd, Some (CList _), Some id =>
        match f_shape fd with Rep _ => Some (PList (f_ty fd) (RField id i)) | _ => None end
      | _, _, _ => None
      end
    | RGVMap i =>
      match nth_error fs i, nth_error (o_cells ob) i, own with
      | Some fd, Some (CMap _), Some id =>
        match f_shape fd with MapOf kk => Some (PMap kk (f_ty fd) (RField id i)) | _ => None end
      | _, _, _ => None
      end
    end.
  Definition eval_rrcase (fd : field) (el : elem) (c : rrcase) : option pval :=
    match c, f_ty fd with
    | RGCOf ct, TScalar k => if negb (is_enum k) && rctor_eqb ct (ctor_of k) then Some (elem_to_pval (f_ty fd) el) else None
    | RGCEnum, TScalar KEnum => Some (elem_to_pval (f_ty fd) el)
    | RGCMsg, TMsg _ => Some (elem_to_pval (f_ty fd) el)
    | _, _ => None
    end.

  (* the calls of f made by the statements, in order; the flag says whether the method is still running *)
  Fixpoint eval_range (f : nat -> pval -> bool) (fs : list field) (own : option nat) (ob : obj) (l : list rrange)
           (acc : list (nat * pval)) : option (list (nat * pval)) :=
    match l with
    | [] => Some acc
    | RGField g v fdi :: l' =>
      match eval_bexpr fs ob g with
      | Some true =>
        match eval_rrval fs own ob v with
        | Some pv => if f fdi pv then eval_range f fs own ob l' (acc ++ [(fdi, pv)]) else Some (acc ++ [(fdi, pv)])
        | None => None
        end
      | Some false => eval_range f fs own ob l' acc
      | None => None
      end
    | RGOneof o cases :: l' =>
      if forallb (fun c => match member_in fs (fst c) o with Some _ => true | None => false end) cases then
        match slot_at ob o with
        | None => eval_range f fs own ob l' acc
        | Some (f', el) =>
          match rp_assoc cases f', nth_error fs f' with
          | Some (form, fdi), Some fd =>
            match eval_rrcase fd el form with
            | Some pv => if f fdi pv then eval_range f fs own ob l' (acc ++ [(fdi, pv)]) else Some (acc ++ [(fdi, pv)])
            | None => None
            end
          | _, _ => eval_range f fs own ob l' acc                          (* no clause for the wrapper held *)
          end
        end
      else None
    end.

  (* ---- the methods ------------------------------------------------------------------------------------------------- *)
  (* switch fd.FullName(): the case of field n, else the default tail (both tails panic) *)
  Definition run_meth {B} (m : rmeth B) (h : heap) (mid : nat) (p : option nat) (n : nat)
             (body : list field -> heap -> xst -> B -> option (heap * pval)) : option (heap * pval) :=
    match xst_of h (rm_guard m) mid p with
    | None => None                                       (* `return` without a value: does not compile *)
    | Some x =>
      match rp_assoc (rm_cases m) n with
      | Some b => body (fields_of sch mid) h x b
      | None => Some (h, PPanic)
      end
    end.

  Definition run_has (m : rmeth rhas) (h : heap) (r : pval) (f : nat) : option (heap * pval) :=
    match r with PMsg mid p => run_meth m h mid p f eval_has | _ => Some (h, PPanic) end.
  Definition run_clear (m : rmeth rclear) (h : heap) (r : pval) (f : nat) : option (heap * pval) :=
    match r with PMsg mid p => run_meth m h mid p f eval_clear | _ => Some (h, PPanic) end.
  Definition run_get (m : rmeth rget) (h : heap) (r : pval) (f : nat) : option (heap * pval) :=
    match r with PMsg mid p => run_meth m h mid p f eval_get | _ => Some (h, PPanic) end.
  Definition run_set (m : rmeth rset) (h : heap) (r : pval) (f : nat) (v : pval) : option (heap * pval) :=
    match r with PMsg mid p => run_meth m h mid p f (fun fs h x b => eval_set fs h x b v) | _ => Some (h, PPanic) end.
  Definition run_mut (m : rmeth rmut) (h : heap) (r : pval) (f : nat) : option (heap * pval) :=
    match r with PMsg mid p => run_meth m h mid p f eval_mut | _ => Some (h, PPanic) end.
  Definition run_newf (m : rmeth rnewf) (h : heap) (r : pval) (f : nat) : option (heap * pval) :=
    match r with PMsg mid p => run_meth m h mid p f (fun fs h _ b => eval_newf fs h b) | _ => Some (h, PPanic) end.
  Definition run_which (m : rmeth rwhich) (h : heap) (r : pval) (j : nat) : option (heap * pval) :=
    match r with PMsg mid p => run_meth m h mid p j eval_which | _ => Some (h, PPanic) end.
  Definition run_range (f : nat -> pval -> bool) (m : rrangem) (h : heap) (r : pval) : option (heap * pval) :=
    match r with
    | PMsg mid p =>
      match xst_of h (rr_guard m) mid p with
      | None => Some (h, PRange [])                       (* if x == nil { return } *)
      | Some (XObj own ob) => option_map (fun l => (h, PRange l)) (eval_range f (fields_of sch mid) own ob (rr_body m) [])
      | Some XNil => match rr_body m with [] => Some (h, PRange []) | _ => Some (h, PPanic) end   (* every statement reads x.… *)
      | Some XBad => Some (h, PPanic)
      end
    | _ => Some (h, PPanic)
    end.

  (* one operation with the eight methods taken from [progs] (message type -> its translated methods; a type without
     translated methods — not generated by the plugin — and every other operation: Reflect.step) *)
  Definition rp_step (progs : nat -> option rprogs) (h : heap) (o : op) : option (heap * pval) :=
    let on (r : pval) (k : rprogs -> option (heap * pval)) :=
      match r with
      | PMsg mid _ => match progs mid with Some ps => k ps | None => Some (step sch h o) end
      | _ => Some (step sch h o)
      end in
    match o with
    | OHas r f => on r (fun ps => run_has (p_has ps) h r f)
    | OClear r f => on r (fun ps => run_clear (p_clear ps) h r f)
    | OGet r f => on r (fun ps => run_get (p_get ps) h r f)
    | OSet r f v => on r (fun ps => run_set (p_set ps) h r f v)
    | OMutable r f => on r (fun ps => run_mut (p_mut ps) h r f)
    | ONewField r f => on r (fun ps => run_newf (p_newf ps) h r f)
    | OWhichOneof r j => on r (fun ps => run_which (p_which ps) h r j)
    | ORange r => on r (fun ps => run_range (fun _ _ => true) (p_range ps) h r)
    | _ => Some (step sch h o)
    end.
End Interp.

(* ---- the methods the templates emit (proto3; groups and extensions are rejected by the generator) --------------------- *)
Fixpoint rp_indexed {A} (i : nat) (l : list A) : list (nat * A) :=
  match l with [] => [] | a :: t => (i, a) :: rp_indexed (S i) t end.
Definition rp_member_of (o : nat) (f : field) : bool :=
  match f_shape f with Member o' => Nat.eqb o' o | _ => false end.

(* has.go: genField / genNullable *)
Definition canon_has_body (i : nat) (f : field) : rhas :=
  match f_shape f with
  | Member o => HBOneof o i
  | Rep _ | MapOf _ => HBRet (BXLenNe0 i)
  | Singular =>
    match f_ty f with
    | TMsg _ => HBRet (BXNe i ZLNil)
    | TScalar KBytes => HBRet (BXLenNe0 i)
    | TScalar KFloat => HBRet (BXNeSign32 i (zero_lit KFloat))
    | TScalar KDouble => HBRet (BXNeSign64 i (zero_lit KDouble))
    | TScalar k => HBRet (BXNe i (zero_lit k))
    end
  end.
(* clear.go *)
Definition canon_clear_body (i : nat) (f : field) : rclear :=
  match f_shape f with
  | Member o => CBOneof o i
  | Rep _ | MapOf _ => CBAssign i ZLNil
  | Singular => match f_ty f with TMsg _ => CBAssign i ZLNil | TScalar k => CBAssign i (zero_lit k) end
  end.
(* get.go: genFieldGetter / genOneofGetter / genMap / genList *)
Definition canon_get_body (i : nat) (f : field) : rget :=
  match f_shape f with
  | Member o =>
    match f_ty f with
    | TMsg m => GBOneof o i (OVNilMsg m) OVPayMsg (OVNilMsg m)
    | TScalar k =>
      let d := OVZero (ctor_of k) (zero_lit k) in
      GBOneof o i d (if is_enum k then OVPayEnum else OVPay (ctor_of k)) d
    end
  | MapOf _ => GBMap i
  | Rep _ => GBList i
  | Singular =>
    match f_ty f with
    | TMsg _ => GBMsg i
    | TScalar k => if is_enum k then GBEnum i else GBScalar i (ctor_of k)
    end
  end.
(* set.go: genField / genOneof / genMap / genList *)
Definition canon_set_body (i : nat) (f : field) : rset :=
  match f_shape f with
  | Member o => SBOneof o i (conv_of (f_ty f))
  | MapOf _ => SBMap i
  | Rep _ => SBList i
  | Singular => match f_ty f with TMsg m => SBMsg i m | TScalar k => SBAssign i (conv_of (TScalar k)) end
  end.
(* mutable.go: mutable() *)
Definition rp_mutable (f : field) : bool :=
  match f_shape f, f_ty f with
  | MapOf _, _ | Rep _, _ | _, TMsg _ => true
  | _, _ => false
  end.
Definition canon_mut_body (i : nat) (f : field) : rmut :=
  match f_shape f, f_ty f with
  | Member o, TMsg m => MBOneof o i m
  | MapOf _, _ => MBMap i
  | Rep _, _ => MBList i
  | Singular, TMsg m => MBMsg i m
  | _, _ => MBPanic
  end.
(* new_field.go: genField / genMutable / genOneof *)
Definition canon_newf_body (i : nat) (f : field) : rnewf :=
  match f_shape f, f_ty f with
  | Member _, TMsg m => NBOneofMsg m
  | MapOf _, _ => NBMap i
  | Rep _, _ => NBList i
  | Singular, TMsg m => NBMsg m
  | _, TScalar k => NBScalar (ctor_of k) (zero_lit k)
  end.

Definition canon_cases {B} (body : nat -> field -> B) (fs : list field) : list (nat * B) :=
  map (fun jf => (fst jf, body (fst jf) (snd jf))) (rp_indexed 0 fs).

(* range.go: genField / genOneof; a oneof is emitted once, where its first member stands, with all its members *)
Definition canon_range_case (j : nat) (f : field) : nat * (rrcase * nat) :=
  (j, (match f_ty f with
       | TMsg _ => RGCMsg
       | TScalar k => if is_enum k then RGCEnum else RGCOf (ctor_of k)
       end, j)).
Definition canon_range_field (fs : list field) (i : nat) (f : field) : list rrange :=
  match f_shape f with
  | Member o =>
    if existsb (rp_member_of o) (firstn i fs) then []
    else [RGOneof o (map (fun jf => canon_range_case (fst jf) (snd jf))
                         (filter (fun jf => rp_member_of o (snd jf)) (rp_indexed 0 fs)))]
  | MapOf _ => [RGField (BXLenNe0 i) (RGVMap i) i]
  | Rep _ => [RGField (BXLenNe0 i) (RGVList i) i]
  | Singular =>
    match f_ty f with
    | TMsg _ => [RGField (BXNe i ZLNil) (RGVMsg i) i]
    | TScalar KBytes => [RGField (BXLenNe0 i) (RGVOf VCBytes i) i]
    | TScalar KDouble => [RGField (BXNeSign64 i (zero_lit KDouble)) (RGVOf VCFloat64 i) i]
    | TScalar KFloat => [RGField (BXNeSign32 i (zero_lit KFloat)) (RGVOf VCFloat32 i) i]
    | TScalar k => [RGField (BXNe i (zero_lit k)) (if is_enum k then RGVEnum i else RGVOf (ctor_of k) i) i]
    end
  end.

Definition rp_fields (sch : schema) (mid : nat) : list field := fields_of sch mid.
Definition rp_noneofs (sch : schema) (mid : nat) : nat :=
  match get_msg sch mid with Some md => m_oneofs md | None => 0 end.

Definition canon_has (sch : schema) (mid : nat) : rmeth rhas := mkMeth NGAlloc (canon_cases canon_has_body (rp_fields sch mid)) TLField.
Definition canon_clear (sch : schema) (mid : nat) : rmeth rclear := mkMeth NGNone (canon_cases canon_clear_body (rp_fields sch mid)) TLField.
Definition canon_get (sch : schema) (mid : nat) : rmeth rget := mkMeth NGAlloc (canon_cases canon_get_body (rp_fields sch mid)) TLField.
Definition canon_set (sch : schema) (mid : nat) : rmeth rset := mkMeth NGNone (canon_cases canon_set_body (rp_fields sch mid)) TLField.
(* mutable.go: the mutable fields first, then the others, each group in declaration order *)
Definition canon_mut (sch : schema) (mid : nat) : rmeth rmut :=
  let all := rp_indexed 0 (rp_fields sch mid) in
  mkMeth NGNone
         (map (fun jf => (fst jf, canon_mut_body (fst jf) (snd jf)))
              (filter (fun jf => rp_mutable (snd jf)) all ++ filter (fun jf => negb (rp_mutable (snd jf))) all))
         TLField.
Definition canon_newf (sch : schema) (mid : nat) : rmeth rnewf := mkMeth NGNone (canon_cases canon_newf_body (rp_fields sch mid)) TLField.
(* which_oneof.go: one case per oneof, its members in declaration order *)
Definition canon_which (sch : schema) (mid : nat) : rmeth rwhich :=
  let fs := rp_fields sch mid in
  mkMeth NGAlloc
         (map (fun o => (o, WBOneof o (map (fun jf => (fst jf, fst jf)) (filter (fun jf => rp_member_of o (snd jf)) (rp_indexed 0 fs)))))
              (seq 0 (rp_noneofs sch mid)))
         TLOneof.
Definition canon_range (sch : schema) (mid : nat) : rrangem :=
  let fs := rp_fields sch mid in
  mkRange NGReturn (concat (map (fun jf => canon_range_field fs (fst jf) (snd jf)) (rp_indexed 0 fs))).

Definition canon_progs (sch : schema) (mid : nat) : rprogs :=
  mkProgs (canon_has sch mid) (canon_clear sch mid) (canon_get sch mid) (canon_set sch mid)
          (canon_mut sch mid) (canon_newf sch mid) (canon_which sch mid) (canon_range sch mid).

(* ---- hypotheses of the statements (executable) --------------------------------------------------------------------- *)
(* the shape invariant of heaps (Proofs/ReflectLaws.v heap_ok: cells aligned with the declared fields and of their shape,
   one slot per oneof), plus: a oneof slot holds a member of THAT oneof, with a payload of the member's kind (a Go
   interface field can only hold one of its wrappers). Established by load / new_obj and kept by every step. *)
Definition cell_fitsb (fd : field) (c : cell) : bool :=
  match f_shape fd, f_ty fd, c with
  | Singular, TScalar _, CScalar _ => true
  | Singular, TMsg _, CMsg _ => true
  | Rep _, _, CList _ => true
  | MapOf _, _, CMap _ => true
  | Member _, _, CMember => true
  | _, _, _ => false
  end.
Fixpoint cells_fitb (fs : list field) (cs : list cell) : bool :=
  match fs, cs with
  | [], [] => true
  | fd :: ft, c :: ct => cell_fitsb fd c && cells_fitb ft ct
  | _, _ => false
  end.
Definition slot_fitsb (fs : list field) (o : nat) (s : option (nat * elem)) : bool :=
  match s with
  | None => true
  | Some (f', e) =>
    match nth_error fs f' with
    | Some fd => rp_member_of o fd &&
                 match f_ty fd, e with TScalar _, EScalar _ | TMsg _, EPtr _ => true | _, _ => false end
    | None => false
    end
  end.
Fixpoint slots_fitb (fs : list field) (o : nat) (ss : list (option (nat * elem))) : bool :=
  match ss with
  | [] => true
  | s :: st => slot_fitsb fs o s && slots_fitb fs (S o) st
  end.
Definition rp_obj_okb (sch : schema) (o : obj) : bool :=
  match get_msg sch (o_mid o) with
  | Some md => cells_fitb (m_fields md) (o_cells o) && Nat.eqb (length (o_oneofs o)) (m_oneofs md) &&
               slots_fitb (m_fields md) 0 (o_oneofs o)
  | None => true
  end.
Definition rp_heap_okb (sch : schema) (h : heap) : bool :=
  forallb (fun e => match e with HObj o => rp_obj_okb sch o | _ => true end) h.

(* the members of every oneof are declared consecutively (protodesc.NewFile: "must have consecutively declared fields";
   true of every descriptor protoc builds). Range emits the oneof's switch where its first member stands, Reflect.step
   lists every field at its own position: without it the ORDER of the calls differs — counterexample: fields
   [a: member of oneof 0; b: int32; c: member of oneof 0], b = 1 and c set: the generated Range calls f(c) then f(b),
   range_from lists b then c. *)
Fixpoint contig_from (prev : option nat) (seen : list nat) (fs : list field) : bool :=
  match fs with
  | [] => true
  | f :: t =>
    match f_shape f with
    | Member o =>
      if match prev with Some o' => Nat.eqb o' o | None => false end then contig_from (Some o) seen t
      else if existsb (Nat.eqb o) seen then false
      else contig_from (Some o) (o :: seen) t
    | _ => contig_from None seen t
    end
  end.
Definition rp_contigb (sch : schema) : bool := forallb (fun md => contig_from None [] (m_fields md)) sch.

(* the list / map view passed to Set is of the field's element (key, value) type. The generated code asserts the view's
   concrete Go type (lv.( *_T_N_list)): a view made for another field panics; Reflect.step stores whatever the view points to.
   Counterexample: field 0 repeated int32, field 1 repeated string, h = [new T; HListVar (Some [EScalar (VBytes "a")])],
   OSet (PMsg T (Some 0)) 0 (PList (TScalar KString) (RVar 1)): step stores the list of strings in the int32 field; the
   code panics. (A pval view carries the element type, not the field: a view of ANOTHER field of the same element type
   is accepted by both models, the Go code panics: see the report.) *)
Definition set_arg_okb (sch : schema) (o : op) : bool :=
  match o with
  | OSet (PMsg mid _) f v =>
    match nth_error (rp_fields sch mid) f with
    | Some fd =>
      match f_shape fd, v with
      | Rep _, PList t _ => rp_ftype_eqb t (f_ty fd)
      | MapOf kk, PMap kk' t _ => kind_eqb kk' kk && rp_ftype_eqb t (f_ty fd)
      | _, _ => true
      end
    | None => true
    end
  | _ => true
  end.

(* ---- the statements another task proves ---------------------------------------------------------------------------- *)
Definition has_prog_stmt : Prop :=
  forall sch h r f, wf sch = true -> rp_heap_okb sch h = true ->
    match r with PMsg mid _ => run_has sch (canon_has sch mid) h r f = Some (step sch h (OHas r f)) | _ => True end.
Definition clear_prog_stmt : Prop :=
  forall sch h r f, wf sch = true -> rp_heap_okb sch h = true ->
    match r with PMsg mid _ => run_clear sch (canon_clear sch mid) h r f = Some (step sch h (OClear r f)) | _ => True end.
Definition get_prog_stmt : Prop :=
  forall sch h r f, wf sch = true -> rp_heap_okb sch h = true ->
    match r with PMsg mid _ => run_get sch (canon_get sch mid) h r f = Some (step sch h (OGet r f)) | _ => True end.
Definition set_prog_stmt : Prop :=
  forall sch h r f v, wf sch = true -> rp_heap_okb sch h = true -> set_arg_okb sch (OSet r f v) = true ->
    match r with PMsg mid _ => run_set sch (canon_set sch mid) h r f v = Some (step sch h (OSet r f v)) | _ => True end.
Definition mutable_prog_stmt : Prop :=
  forall sch h r f, wf sch = true -> rp_heap_okb sch h = true ->
    match r with PMsg mid _ => run_mut sch (canon_mut sch mid) h r f = Some (step sch h (OMutable r f)) | _ => True end.
Definition newfield_prog_stmt : Prop :=
  forall sch h r f, wf sch = true -> rp_heap_okb sch h = true ->
    match r with PMsg mid _ => run_newf sch (canon_newf sch mid) h r f = Some (step sch h (ONewField r f)) | _ => True end.
Definition whichoneof_prog_stmt : Prop :=
  forall sch h r j, wf sch = true -> rp_heap_okb sch h = true ->
    match r with PMsg mid _ => run_which sch (canon_which sch mid) h r j = Some (step sch h (OWhichOneof r j)) | _ => True end.
Definition range_prog_stmt : Prop :=
  forall sch h r, wf sch = true -> rp_heap_okb sch h = true -> rp_contigb sch = true ->
    match r with PMsg mid _ => run_range sch (fun _ _ => true) (canon_range sch mid) h r = Some (step sch h (ORange r)) | _ => True end.

(* Range with any callback: exactly the calls of the full iteration up to and including the first one answered false *)
Fixpoint cut_calls (f : nat -> pval -> bool) (l : list (nat * pval)) : list (nat * pval) :=
  match l with
  | [] => []
  | c :: t => if f (fst c) (snd c) then c :: cut_calls f t else [c]
  end.
Definition range_stop_prog_stmt : Prop :=
  forall sch h mid p f, wf sch = true -> rp_heap_okb sch h = true -> rp_contigb sch = true ->
    run_range sch f (canon_range sch mid) h (PMsg mid p) =
    Some (match step sch h (ORange (PMsg mid p)) with
          | (h', PRange l) => (h', PRange (cut_calls f l))
          | other => other
          end).

(* all eight at once: an operation executed with the canonical methods of every message type is Reflect.step *)
Definition reflect_prog_correct_stmt : Prop :=
  forall sch h o, wf sch = true -> rp_heap_okb sch h = true -> rp_contigb sch = true -> set_arg_okb sch o = true ->
    rp_step sch (fun mid => Some (canon_progs sch mid)) h o = Some (step sch h o).

(* the invariant is one: established by the empty heap and kept by every step (so that the statements apply along every history) *)
Definition rp_heap_ok_kept_stmt : Prop :=
  forall sch h o, wf sch = true -> rp_heap_okb sch h = true -> rp_heap_okb sch (fst (step sch h o)) = true.

(* ---- the same statements on one case, for the driver ------------------------------------------------------------------ *)
Fixpoint rp_val_eqb (a b : val) {struct a} : bool :=
  match a, b with
  | VInt x, VInt y => Z.eqb x y
  | VBool x, VBool y => Bool.eqb x y
  | VBits x, VBits y => N.eqb x y
  | VBytes x, VBytes y => rp_list_eqb Byte.eqb x y
  | VNil, VNil => true
  | VSome x, VSome y => rp_val_eqb x y
  | VMsg xs xu, VMsg ys yu =>
    (fix go (l1 l2 : list val) {struct l1} : bool :=
       match l1, l2 with
       | [], [] => true
       | x :: t1, y :: t2 => rp_val_eqb x y && go t1 t2
       | _, _ => false
       end) xs ys && rp_list_eqb Byte.eqb xu yu
  | VList xs, VList ys =>
    (fix go (l1 l2 : list val) {struct l1} : bool :=
       match l1, l2 with
       | [], [] => true
       | x :: t1, y :: t2 => rp_val_eqb x y && go t1 t2
       | _, _ => false
       end) xs ys
  | VMap xs, VMap ys =>
    (fix go (l1 l2 : list (val * val)) {struct l1} : bool :=
       match l1, l2 with
       | [], [] => true
       | (k1, v1) :: t1, (k2, v2) :: t2 => rp_val_eqb k1 k2 && rp_val_eqb v1 v2 && go t1 t2
       | _, _ => false
       end) xs ys
  | _, _ => false
  end.
Definition rp_onat_eqb (a b : option nat) : bool :=
  match a, b with Some x, Some y => Nat.eqb x y | None, None => true | _, _ => false end.
Definition rp_elem_eqb (a b : elem) : bool :=
  match a, b with
  | EScalar x, EScalar y => rp_val_eqb x y
  | EPtr p, EPtr q => rp_onat_eqb p q
  | _, _ => false
  end.
Definition rp_opt_eqb {A} (eqb : A -> A -> bool) (a b : option A) : bool :=
  match a, b with Some x, Some y => eqb x y | None, None => true | _, _ => false end.
Definition rp_entry_eqb (a b : val * elem) : bool := rp_val_eqb (fst a) (fst b) && rp_elem_eqb (snd a) (snd b).
Definition rp_cell_eqb (a b : cell) : bool :=
  match a, b with
  | CScalar x, CScalar y => rp_val_eqb x y
  | CMsg p, CMsg q => rp_onat_eqb p q
  | CList x, CList y => rp_opt_eqb (rp_list_eqb rp_elem_eqb) x y
  | CMap x, CMap y => rp_opt_eqb (rp_list_eqb rp_entry_eqb) x y
  | CMember, CMember => true
  | _, _ => false
  end.
Definition rp_obj_eqb (a b : obj) : bool :=
  Nat.eqb (o_mid a) (o_mid b) && rp_list_eqb rp_cell_eqb (o_cells a) (o_cells b) &&
  rp_list_eqb (rp_opt_eqb (fun x y => Nat.eqb (fst x) (fst y) && rp_elem_eqb (snd x) (snd y))) (o_oneofs a) (o_oneofs b) &&
  rp_opt_eqb (rp_list_eqb Byte.eqb) (o_unk a) (o_unk b).
Definition rp_hent_eqb (a b : hent) : bool :=
  match a, b with
  | HObj x, HObj y => rp_obj_eqb x y
  | HListVar x, HListVar y => rp_opt_eqb (rp_list_eqb rp_elem_eqb) x y
  | HMapVar x, HMapVar y => rp_opt_eqb (rp_list_eqb rp_entry_eqb) x y
  | _, _ => false
  end.
Definition rp_heap_eqb (a b : heap) : bool := rp_list_eqb rp_hent_eqb a b.
Definition rp_cref_eqb (a b : cref) : bool :=
  match a, b with
  | RField o f, RField o' f' => Nat.eqb o o' && Nat.eqb f f'
  | RVar i, RVar j => Nat.eqb i j
  | RNil, RNil => true
  | _, _ => false
  end.
Fixpoint rp_pval_eqb (a b : pval) {struct a} : bool :=
  match a, b with
  | PScalar x, PScalar y => rp_val_eqb x y
  | PMsg m p, PMsg m' p' => Nat.eqb m m' && rp_onat_eqb p p'
  | PList t r, PList t' r' => rp_ftype_eqb t t' && rp_cref_eqb r r'
  | PMap k t r, PMap k' t' r' => kind_eqb k k' && rp_ftype_eqb t t' && rp_cref_eqb r r'
  | PField f, PField f' => rp_onat_eqb f f'
  | PUnit, PUnit | PInvalid, PInvalid | PPanic, PPanic => true
  | PBool x, PBool y => Bool.eqb x y
  | PBytes x, PBytes y => rp_list_eqb Byte.eqb x y
  | PRange xs, PRange ys =>
    (fix go (l1 l2 : list (nat * pval)) {struct l1} : bool :=
       match l1, l2 with
       | [], [] => true
       | (i, x) :: t1, (j, y) :: t2 => Nat.eqb i j && rp_pval_eqb x y && go t1 t2
       | _, _ => false
       end) xs ys
  | PMapRange xs, PMapRange ys =>
    (fix go (l1 l2 : list (val * pval)) {struct l1} : bool :=
       match l1, l2 with
       | [], [] => true
       | (i, x) :: t1, (j, y) :: t2 => rp_val_eqb i j && rp_pval_eqb x y && go t1 t2
       | _, _ => false
       end) xs ys
  | _, _ => false
  end.
Definition rp_res_eqb (a b : heap * pval) : bool := rp_heap_eqb (fst a) (fst b) && rp_pval_eqb (snd a) (snd b).

(* reflect_prog_correct_stmt on one heap and operation *)
Definition reflect_prog_law (sch : schema) (h : heap) (o : op) : bool :=
  negb (wf sch && rp_heap_okb sch h && rp_contigb sch && set_arg_okb sch o) ||
  match rp_step sch (fun mid => Some (canon_progs sch mid)) h o with
  | Some r => rp_res_eqb r (step sch h o)
  | None => false
  end.
(* range_stop_prog_stmt on one case: the callback answers false at its k-th call *)
Definition range_stop_law (sch : schema) (h : heap) (mid : nat) (p : option nat) (k : nat) : bool :=
  negb (wf sch && rp_heap_okb sch h && rp_contigb sch) ||
  match step sch h (ORange (PMsg mid p)) with
  | (h', PRange l) =>
    (* a callback that counts: false at the k-th call = true on the calls whose position is below k-1; the positions are
       recovered from the full iteration (the fields called are distinct) *)
    let f := fun i (_ : pval) =>
               (fix pos (l : list (nat * pval)) (n : nat) {struct l} : bool :=
                  match l with
                  | [] => true
                  | c :: t => if Nat.eqb (fst c) i then Nat.ltb (S n) k else pos t (S n)
                  end) l 0 in
    match run_range sch f (canon_range sch mid) h (PMsg mid p) with
    | Some r => rp_res_eqb r (h', PRange (cut_calls f l))
    | None => false
    end
  | _ => true
  end.
(* rp_heap_ok_kept_stmt on one case *)
Definition rp_heap_ok_kept_law (sch : schema) (h : heap) (o : op) : bool :=
  negb (wf sch && rp_heap_okb sch h) || rp_heap_okb sch (fst (step sch h o)).
