(* Model/ReflectAbs.v — the abstraction from the heap of Go objects of Model/Reflect.v (the generated code's state)
   to the reference state of Model/RefReflect.v, and the two executable side conditions of the refinement theorem
   (Proofs/ReflectRefine.v):
     abs / abs_out   forget what the protoreflect API cannot tell apart: nil vs empty containers and bytes, zero-valued
                     scalars outside a oneof (-> unpopulated), the oneof slot (-> its member's entry); ids are kept.
     tidyb           the representation invariant of heaps built through the API: cells fit their field's shape, scalar
                     cells are of their kind, list elements / map values / oneof payloads fit the field's type and are
                     never nil pointers (nil elements, nil map values and oneof wrappers holding nil are states only a Go
                     struct literal or an operation outside [well_scopedb] produces; the references cannot hold them).
     well_scopedb    the part of the API contract the refinement needs (the history generator of the reflect engine
                     enforces more: liveness of every handle, freshness of message arguments):
                       - a view is used at the type of the container it points to (true of every handle the API returns);
                       - a Map view is not written through after its field was cleared (then the Go map is nil: the
                         generated code panics where a reference that keeps views attached would store);
                       - map keys are of the map's key kind;
                       - the read-only (invalid) message is not passed to Set of a ONEOF member, List.Set/Append, Map.Set:
                         the two reference implementations disagree there (struct-based: accepts and stores a nil pointer,
                         dynamicpb: panics) and the generated code follows the struct-based one. (Set of a SINGULAR message
                         field with it panics everywhere and is inside the theorem.)
   Definitions only. *)
From CP Require Export RefReflect.
Local Open Scope nat_scope.

Definition abs_elem (e : elem) : aelem :=
  match e with
  | EScalar v => AEScalar (nscalar v)
  | EPtr (Some q) => AEMsg q
  | EPtr None => AEMsg 0                         (* excluded by tidyb *)
  end.

Definition abs_field (o : obj) (i : nat) (fd : field) : option aval :=
  match f_shape fd with
  | Member j =>
    match nth j (o_oneofs o) None with
    | Some (f', e) => if Nat.eqb f' i then Some (aval_of_elem (abs_elem e)) else None
    | None => None
    end
  | Singular =>
    match nth_error (o_cells o) i with
    | Some (CScalar v) =>
      match f_ty fd with
      | TScalar k => if ref_populated k (nscalar v) then Some (AScalar (nscalar v)) else None
      | TMsg _ => None
      end
    | Some (CMsg (Some q)) => Some (AMsg q)
    | _ => None
    end
  | Rep _ =>
    match nth_error (o_cells o) i with
    | Some (CList (Some l)) => norm_list (map abs_elem l)
    | _ => None
    end
  | MapOf _ =>
    match nth_error (o_cells o) i with
    | Some (CMap (Some m)) => norm_map (map (fun kv => (fst kv, abs_elem (snd kv))) m)
    | _ => None
    end
  end.

Section Abs.
  Variable sch : schema.

  Definition abs_obj (o : obj) : aobj :=
    mkAObj (o_mid o) (mapi_from (abs_field o) 0 (afields_of sch (o_mid o))) (olist (o_unk o)).

  Definition abs_ent (e : hent) : aent :=
    match e with
    | HObj o => AObj (abs_obj o)
    | HListVar l => AListVar (map abs_elem (olist l))
    | HMapVar m => AMapVar (map (fun kv => (fst kv, abs_elem (snd kv))) (olist m))
    end.

  Definition abs (h : heap) : aheap := map abs_ent h.

  Fixpoint abs_out (v : pval) : aout :=
    match v with
    | PScalar s => AOScalar (nscalar s)
    | PMsg m p => AOMsg m p
    | PList t r => AOList t r
    | PMap kk t r => AOMap kk t r
    | PField f => AOField f
    | PUnit => AOUnit
    | PBool b => AOBool b
    | PBytes l => AOBytes l
    | PRange l => AORange (map (fun iv => (fst iv, abs_out (snd iv))) l)
    | PMapRange l => AOMapRange (map (fun kv => (fst kv, abs_out (snd kv))) l)
    | PInvalid => AOInvalid
    | PPanic => AOPanic
    end.

  (* ---- the representation invariant -------------------------------------------------------------------- *)
  Definition elem_fitsb (t : ftype) (e : elem) : bool :=
    match t, e with
    | TScalar _, EScalar _ => true
    | TMsg _, EPtr (Some _) => true
    | _, _ => false
    end.

  Definition cell_tidyb (fd : field) (c : cell) : bool :=
    match f_shape fd, c with
    | Singular, CScalar v => match f_ty fd with TScalar k => wt_scalar k v | TMsg _ => false end
    | Singular, CMsg _ => match f_ty fd with TMsg _ => true | TScalar _ => false end
    | Rep _, CList l => forallb (elem_fitsb (f_ty fd)) (olist l)
    | MapOf _, CMap m => forallb (fun kv => elem_fitsb (f_ty fd) (snd kv)) (olist m)
    | Member _, CMember => true
    | _, _ => false
    end.

  Fixpoint cells_tidyb (fs : list field) (cs : list cell) : bool :=
    match fs, cs with
    | [], [] => true
    | fd :: ft, c :: ct => cell_tidyb fd c && cells_tidyb ft ct
    | _, _ => false
    end.

  Definition slot_tidyb (fs : list field) (j : nat) (s : option (nat * elem)) : bool :=
    match s with
    | None => true
    | Some (f', e) =>
      match nth_error fs f' with
      | Some fd => is_member fd j && elem_fitsb (f_ty fd) e
      | None => false
      end
    end.

  Fixpoint slots_tidyb (fs : list field) (j : nat) (ss : list (option (nat * elem))) : bool :=
    match ss with
    | [] => true
    | s :: st => slot_tidyb fs j s && slots_tidyb fs (S j) st
    end.

  Definition obj_tidyb (o : obj) : bool :=
    match get_msg sch (o_mid o) with
    | Some md => cells_tidyb (m_fields md) (o_cells o) && Nat.eqb (length (o_oneofs o)) (m_oneofs md) &&
                 slots_tidyb (m_fields md) 0 (o_oneofs o)
    | None => match o_cells o, o_oneofs o with [], [] => true | _, _ => false end
    end.

  Definition tidyb (h : heap) : bool :=
    forallb (fun e => match e with HObj o => obj_tidyb o | _ => true end) h.

  (* ---- the contract ---------------------------------------------------------------------------------------- *)
  Definition ftype_eqb (a b : ftype) : bool :=
    match a, b with
    | TScalar k, TScalar k' => kind_eqb k k'
    | TMsg m, TMsg m' => Nat.eqb m m'
    | _, _ => false
    end.
  Definition is_nil_msg (v : pval) : bool := match v with PMsg _ None => true | _ => false end.

  (* the type a field view must be used at *)
  Definition field_view_okb (h : heap) (t : ftype) (id f : nat) : bool :=
    match get_obj h id with
    | Some ob => match afield_of sch (o_mid ob) f with Some fd => ftype_eqb (f_ty fd) t | None => true end
    | None => true
    end.
  Definition lview_okb (h : heap) (t : ftype) (r : cref) : bool :=
    match read_list h r with
    | Some l => forallb (elem_fitsb t) (olist l) && match r with RField id f => field_view_okb h t id f | _ => true end
    | None => true
    end.
  Definition mview_okb (h : heap) (t : ftype) (r : cref) : bool :=
    match read_map h r with
    | Some m => forallb (fun kv => elem_fitsb t (snd kv)) (olist m) && match r with RField id f => field_view_okb h t id f | _ => true end
    | None => true
    end.
  Definition map_liveb (h : heap) (r : cref) : bool :=
    match read_map h r with Some None => false | _ => true end.

  Definition well_scopedb (h : heap) (o : op) : bool :=
    match o with
    | OSet (PMsg mid (Some _)) f v =>
      match afield_of sch mid f with
      | Some fd =>
        match f_shape fd with
        | Member _ => negb (is_nil_msg v)
        | Rep _ => match v with PList t r => ftype_eqb t (f_ty fd) && lview_okb h t r | _ => true end
        | MapOf _ => match v with PMap _ t r => ftype_eqb t (f_ty fd) && mview_okb h t r | _ => true end
        | Singular => true
        end
      | None => true
      end
    | OLSet (PList t r) _ v | OLAppend (PList t r) v => lview_okb h t r && negb (is_nil_msg v)
    | OLLen (PList t r) | OLGet (PList t r) _ | OLAppendMutable (PList t r) | OLTruncate (PList t r) _ => lview_okb h t r
    | OMSet (PMap kk t r) k v => wt_scalar kk k && mview_okb h t r && negb (is_nil_msg v) && map_liveb h r
    | OMMutable (PMap kk t r) k => wt_scalar kk k && mview_okb h t r && map_liveb h r
    | OMHas (PMap kk t r) k | OMGet (PMap kk t r) k | OMClear (PMap kk t r) k => wt_scalar kk k && mview_okb h t r
    | OMLen (PMap _ t r) | OMRange (PMap _ t r) => mview_okb h t r
    | _ => true
    end.

  (* the operations of a history, executed in order (Reflect.run draws them from earlier results) *)
  Definition exec (os : list op) : heap * list pval :=
    fold_left (fun (st : heap * list pval) (o : op) =>
                 let (h, outs) := st in
                 let (h', r) := step sch h o in (h', outs ++ [r]))
              os ([], []).
  Fixpoint scoped_from (h : heap) (os : list op) : bool :=
    match os with
    | [] => true
    | o :: t => well_scopedb h o && scoped_from (fst (step sch h o)) t
    end.
  (* the operations Reflect.run executes when it draws the operands from the earlier results *)
  Definition trace_step (st : heap * list pval * list op) (mk : list pval -> op) : heap * list pval * list op :=
    let '(h, outs, os) := st in
    let o := mk outs in
    let (h', r) := step sch h o in (h', outs ++ [r], os ++ [o]).
  Definition trace (ops : list (list pval -> op)) : list op := snd (fold_left trace_step ops ([], [], [])).
End Abs.
