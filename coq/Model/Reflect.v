(* Model/Reflect.v — faithful model of the fast-reflection code printed by
   features/fastreflection/{has,get,set,clear,mutable,new_field,which_oneof,range,list,map}.go
   (+ GetUnknown/SetUnknown/IsValid of proto_message.go).

   State = a heap of Go objects: generated structs (cells aligned with the descriptor's field
   list, one interface slot per oneof, unknownFields) and the stand-alone slices / maps that
   NewField allocates.  protoreflect.Value results are [pval]s: scalars, message pointers
   (nil = the typed-nil read-only message), list and map views (a pointer to a struct field, to a
   stand-alone variable, or nil = the invalid view that Get returns for an empty container).
   Go nil is kept distinct from empty everywhere.  Definitions only. *)
From CP Require Export Schema Codec Decode WF.
Local Open Scope N_scope.

Inductive elem := EScalar (v : val) | EPtr (p : option nat).

Inductive cell :=
| CScalar (v : val)
| CMsg (p : option nat)
| CList (l : option (list elem))
| CMap (m : option (list (val * elem)))
| CMember.                                   (* the field lives in a oneof interface slot *)

Record obj := mkObj {
  o_mid : nat;
  o_cells : list cell;
  o_oneofs : list (option (nat * elem));      (* per oneof: index of the member set, wrapper payload *)
  o_unk : option (list byte) }.

Inductive hent :=
| HObj (o : obj)
| HListVar (l : option (list elem))
| HMapVar (m : option (list (val * elem))).
Definition heap := list hent.

(* where a list / map view points *)
Inductive cref := RField (owner fidx : nat) | RVar (id : nat) | RNil.

Inductive pval :=
| PScalar (v : val)
| PMsg (mid : nat) (p : option nat)
| PList (t : ftype) (r : cref)
| PMap (kk : kind) (t : ftype) (r : cref)
| PField (f : option nat)
| PUnit
| PBool (b : bool)
| PBytes (l : list byte)
| PRange (l : list (nat * pval))
| PMapRange (l : list (val * pval))
| PInvalid                                   (* protoreflect.Value{} *)
| PPanic.

(* ---- heap access -------------------------------------------------------------------------- *)
Definition hget (h : heap) (id : nat) : option hent := nth_error h id.
Definition hset (h : heap) (id : nat) (e : hent) : heap := set_nth h id e.
Definition halloc (h : heap) (e : hent) : heap * nat := (h ++ [e], length h).

Definition new_cell (f : field) : cell :=
  match f_shape f, f_ty f with
  | Singular, TScalar k => CScalar (zero_scalar k)
  | Singular, TMsg _ => CMsg None
  | Rep _, _ => CList None
  | MapOf _, _ => CMap None
  | Member _, _ => CMember
  end.
Definition new_obj (sch : schema) (mid : nat) : obj :=
  match get_msg sch mid with
  | Some md => mkObj mid (map new_cell (m_fields md)) (repeat None (m_oneofs md)) None
  | None => mkObj mid [] [] None
  end.

Definition get_obj (h : heap) (id : nat) : option obj :=
  match hget h id with Some (HObj o) => Some o | _ => None end.

Definition set_cell (o : obj) (i : nat) (c : cell) : obj :=
  mkObj (o_mid o) (set_nth (o_cells o) i c) (o_oneofs o) (o_unk o).
Definition set_oneof (o : obj) (j : nat) (x : option (nat * elem)) : obj :=
  mkObj (o_mid o) (o_cells o) (set_nth (o_oneofs o) j x) (o_unk o).
Definition set_unk (o : obj) (u : option (list byte)) : obj :=
  mkObj (o_mid o) (o_cells o) (o_oneofs o) u.

(* ---- conversions between protoreflect values and stored elements --------------------------- *)
Definition elem_to_pval (t : ftype) (e : elem) : pval :=
  match t, e with
  | TMsg m, EPtr p => PMsg m p
  | TMsg m, EScalar _ => PMsg m None
  | TScalar _, EScalar v => PScalar v
  | TScalar _, EPtr _ => PInvalid
  end.
(* value.Int(), value.Message().Interface() type assertion ...: a wrongly typed Value panics *)
Definition pval_to_elem (t : ftype) (v : pval) : option elem :=
  match t, v with
  | TScalar k, PScalar s => if wt_scalar k s then Some (EScalar s) else None
  | TMsg m, PMsg m' p => if Nat.eqb m m' then Some (EPtr p) else None
  | _, _ => None
  end.
Definition zero_elem (t : ftype) : pval :=
  match t with TScalar k => PScalar (zero_scalar k) | TMsg m => PMsg m None end.

(* read / write the slice or map a view points at *)
Definition read_list (h : heap) (r : cref) : option (option (list elem)) :=
  match r with
  | RNil => None
  | RVar id => match hget h id with Some (HListVar l) => Some l | _ => None end
  | RField o f => match get_obj h o with
                  | Some ob => match nth_error (o_cells ob) f with Some (CList l) => Some l | _ => None end
                  | None => None
                  end
  end.
Definition write_list (h : heap) (r : cref) (l : option (list elem)) : heap :=
  match r with
  | RNil => h
  | RVar id => hset h id (HListVar l)
  | RField o f => match get_obj h o with Some ob => hset h o (HObj (set_cell ob f (CList l))) | None => h end
  end.
Definition read_map (h : heap) (r : cref) : option (option (list (val * elem))) :=
  match r with
  | RNil => None
  | RVar id => match hget h id with Some (HMapVar m) => Some m | _ => None end
  | RField o f => match get_obj h o with
                  | Some ob => match nth_error (o_cells ob) f with Some (CMap m) => Some m | _ => None end
                  | None => None
                  end
  end.
Definition write_map (h : heap) (r : cref) (m : option (list (val * elem))) : heap :=
  match r with
  | RNil => h
  | RVar id => hset h id (HMapVar m)
  | RField o f => match get_obj h o with Some ob => hset h o (HObj (set_cell ob f (CMap m))) | None => h end
  end.

Definition olen {A} (l : option (list A)) : nat := match l with Some x => length x | None => 0%nat end.
Definition olist {A} (l : option (list A)) : list A := match l with Some x => x | None => [] end.

Fixpoint massoc (m : list (val * elem)) (k : val) : option elem :=
  match m with
  | [] => None
  | (k', e) :: t => if val_key_eqb k' k then Some e else massoc t k
  end.
Fixpoint mput (m : list (val * elem)) (k : val) (e : elem) : list (val * elem) :=
  match m with
  | [] => [(k, e)]
  | (k', e') :: t => if val_key_eqb k' k then (k, e) :: t else (k', e') :: mput t k e
  end.
Fixpoint mdel (m : list (val * elem)) (k : val) : list (val * elem) :=
  match m with
  | [] => []
  | (k', e') :: t => if val_key_eqb k' k then t else (k', e') :: mdel t k
  end.

(* ---- operations ------------------------------------------------------------------------------ *)
Inductive op :=
(* protoreflect.Message methods: receiver, field index (position in the declared field list) *)
| OHas (r : pval) (f : nat)
| OGet (r : pval) (f : nat)
| OSet (r : pval) (f : nat) (v : pval)
| OClear (r : pval) (f : nat)
| OMutable (r : pval) (f : nat)
| ONewField (r : pval) (f : nat)
| OWhichOneof (r : pval) (j : nat)
| ORange (r : pval)
| OGetUnknown (r : pval)
| OSetUnknown (r : pval) (u : list byte)
| OIsValid (r : pval)
| ONew (mid : nat)                            (* new(T).ProtoReflect() *)
| ONil (mid : nat)                            (* ProtoReflect of a typed nil pointer, MessageType.Zero: the read-only empty message *)
(* protoreflect.List methods *)
| OLLen (r : pval)
| OLGet (r : pval) (i : Z)
| OLSet (r : pval) (i : Z) (v : pval)
| OLAppend (r : pval) (v : pval)
| OLAppendMutable (r : pval)
| OLTruncate (r : pval) (n : Z)
| OLNewElement (r : pval)
(* protoreflect.Map methods *)
| OMLen (r : pval)
| OMHas (r : pval) (k : val)
| OMGet (r : pval) (k : val)
| OMSet (r : pval) (k : val) (v : pval)
| OMClear (r : pval) (k : val)
| OMMutable (r : pval) (k : val)
| OMNewValue (r : pval)
| OMRange (r : pval).

Section Step.
  Variable sch : schema.

  Definition field_of (mid f : nat) : option field :=
    match get_msg sch mid with Some md => nth_error (m_fields md) f | None => None end.

  (* Has / Get / Range read a nil receiver as an empty struct (`if x == nil { x = &T{} }`) *)
  Definition recv_obj (h : heap) (mid : nat) (p : option nat) : option obj :=
    match p with
    | None => Some (new_obj sch mid)
    | Some id => match get_obj h id with
                 | Some o => if Nat.eqb (o_mid o) mid then Some o else None
                 | None => None
                 end
    end.

  Definition has_field (o : obj) (f : nat) (fd : field) : bool :=
    match f_shape fd with
    | Member j => match nth j (o_oneofs o) None with Some (f', _) => Nat.eqb f' f | None => false end
    | _ =>
      match nth_error (o_cells o) f with
      | Some (CScalar v) => match f_ty fd with TScalar k => present k v | _ => false end
      | Some (CMsg p) => match p with Some _ => true | None => false end
      | Some (CList l) => negb (Nat.eqb (olen l) 0)
      | Some (CMap m) => negb (Nat.eqb (olen m) 0)
      | _ => false
      end
    end.

  (* [own]: Some id when the receiver is a real object (views point into it); None for the nil receiver *)
  Definition get_field (o : obj) (own : option nat) (f : nat) (fd : field) : pval :=
    match f_shape fd with
    | Member j =>
      match nth j (o_oneofs o) None with
      | Some (f', e) => if Nat.eqb f' f then elem_to_pval (f_ty fd) e else zero_elem (f_ty fd)
      | None => zero_elem (f_ty fd)
      end
    | _ =>
      match nth_error (o_cells o) f with
      | Some (CScalar v) => PScalar v
      | Some (CMsg p) => match f_ty fd with TMsg m => PMsg m p | _ => PInvalid end
      | Some (CList l) =>
        PList (f_ty fd) (if Nat.eqb (olen l) 0 then RNil else match own with Some id => RField id f | None => RNil end)
      | Some (CMap m) =>
        match f_shape fd with
        | MapOf kk => PMap kk (f_ty fd) (if Nat.eqb (olen m) 0 then RNil else match own with Some id => RField id f | None => RNil end)
        | _ => PInvalid
        end
      | _ => PInvalid
      end
    end.

  (* the value Range passes for a populated field: like Get, but containers are always attached *)
  Definition range_field (o : obj) (own : option nat) (f : nat) (fd : field) : pval :=
    match f_shape fd with
    | Member _ => get_field o own f fd
    | _ =>
      match nth_error (o_cells o) f, own with
      | Some (CList _), Some id => PList (f_ty fd) (RField id f)
      | Some (CMap _), Some id => match f_shape fd with MapOf kk => PMap kk (f_ty fd) (RField id f) | _ => PInvalid end
      | _, _ => get_field o own f fd
      end
    end.

  Definition fields_of (mid : nat) : list field :=
    match get_msg sch mid with Some md => m_fields md | None => [] end.

  Fixpoint range_from (o : obj) (own : option nat) (i : nat) (fs : list field) : list (nat * pval) :=
    match fs with
    | [] => []
    | fd :: t => (if has_field o i fd then [(i, range_field o own i fd)] else []) ++ range_from o own (S i) t
    end.

  Definition in_bounds (i : Z) (n : nat) : bool := ((0 <=? i) && (i <? Z.of_nat n))%Z.

  Definition step (h : heap) (o : op) : heap * pval :=
    match o with
    | ONew mid => let (h', id) := halloc h (HObj (new_obj sch mid)) in (h', PMsg mid (Some id))
    | ONil mid => (h, PMsg mid None)

    | OHas (PMsg mid p) f =>
      match field_of mid f, recv_obj h mid p with
      | Some fd, Some ob => (h, PBool (has_field ob f fd))
      | _, _ => (h, PPanic)
      end
    | OGet (PMsg mid p) f =>
      match field_of mid f, recv_obj h mid p with
      | Some fd, Some ob => (h, get_field ob p f fd)
      | _, _ => (h, PPanic)
      end
    | OWhichOneof (PMsg mid p) j =>
      match get_msg sch mid, recv_obj h mid p with
      | Some md, Some ob =>
        if (j <? m_oneofs md)%nat
        then (h, PField (match nth j (o_oneofs ob) None with Some (f, _) => Some f | None => None end))
        else (h, PPanic)
      | _, _ => (h, PPanic)
      end
    | ORange (PMsg mid p) =>
      match recv_obj h mid p with
      | Some ob => (h, PRange (range_from ob p 0 (fields_of mid)))
      | None => (h, PPanic)
      end
    | OIsValid (PMsg _ p) => (h, PBool (match p with Some _ => true | None => false end))
    | OGetUnknown (PMsg mid p) =>
      match recv_obj h mid p with
      | Some ob => (h, PBytes (olist (o_unk ob)))
      | None => (h, PPanic)
      end
    | ONewField (PMsg mid _) f =>                               (* never dereferences the receiver *)
      match field_of mid f with
      | None => (h, PPanic)
      | Some fd =>
        match f_shape fd, f_ty fd with
        | Rep _, t => let (h', id) := halloc h (HListVar (Some [])) in (h', PList t (RVar id))
        | MapOf kk, t => let (h', id) := halloc h (HMapVar (Some [])) in (h', PMap kk t (RVar id))
        | _, TScalar k => (h, PScalar (zero_scalar k))
        | _, TMsg m => let (h', id) := halloc h (HObj (new_obj sch m)) in (h', PMsg m (Some id))
        end
      end

    (* writers dereference the receiver: nil panics *)
    | OSetUnknown (PMsg mid (Some id)) u =>
      match recv_obj h mid (Some id) with
      | Some ob => (hset h id (HObj (set_unk ob (Some u))), PUnit)
      | None => (h, PPanic)
      end
    | OClear (PMsg mid (Some id)) f =>
      match field_of mid f, recv_obj h mid (Some id) with
      | Some fd, Some ob =>
        let ob' :=
          match f_shape fd, f_ty fd with
          | Member j, _ =>
            match nth j (o_oneofs ob) None with
            | Some (f', _) => if Nat.eqb f' f then set_oneof ob j None else ob     (* only the member that is set *)
            | None => ob
            end
          | Singular, TScalar k => set_cell ob f (CScalar (match k with KBytes => VNil | _ => zero_scalar k end))
          | Singular, TMsg _ => set_cell ob f (CMsg None)
          | Rep _, _ => set_cell ob f (CList None)
          | MapOf _, _ => set_cell ob f (CMap None)
          end in
        (hset h id (HObj ob'), PUnit)
      | _, _ => (h, PPanic)
      end
    | OSet (PMsg mid (Some id)) f v =>
      match field_of mid f, recv_obj h mid (Some id) with
      | Some fd, Some ob =>
        match f_shape fd with
        | Member j =>
          match pval_to_elem (f_ty fd) v with
          (* no validity guard in the oneof branch of set.go: an invalid (nil) message is stored as a
             wrapper holding nil (Has = true, Get = invalid message); the two references disagree
             here (struct-based: accepts, dynamicpb: panics), so the contract is unspecified *)
          | Some e => (hset h id (HObj (set_oneof ob j (Some (f, e)))), PUnit)
          | None => (h, PPanic)
          end
        | Singular =>
          match pval_to_elem (f_ty fd) v with
          | Some (EScalar s) => (hset h id (HObj (set_cell ob f (CScalar s))), PUnit)
          | Some (EPtr (Some q)) => (hset h id (HObj (set_cell ob f (CMsg (Some q)))), PUnit)
          | _ => (h, PPanic)                                      (* wrong type, or an invalid message *)
          end
        | Rep _ =>
          match v with
          | PList _ r => match read_list h r with
                         | Some l => (hset h id (HObj (set_cell ob f (CList l))), PUnit)    (* copies the slice header out of the view *)
                         | None => (h, PPanic)
                         end
          | _ => (h, PPanic)
          end
        | MapOf _ =>
          match v with
          | PMap _ _ r => match read_map h r with
                          | Some m => (hset h id (HObj (set_cell ob f (CMap m))), PUnit)
                          | None => (h, PPanic)
                          end
          | _ => (h, PPanic)
          end
        end
      | _, _ => (h, PPanic)
      end
    | OMutable (PMsg mid (Some id)) f =>
      match field_of mid f, recv_obj h mid (Some id) with
      | Some fd, Some ob =>
        match f_shape fd, f_ty fd with
        | Singular, TMsg m =>
          match nth_error (o_cells ob) f with
          | Some (CMsg (Some q)) => (h, PMsg m (Some q))
          | _ => let (h1, q) := halloc h (HObj (new_obj sch m)) in
                 (hset h1 id (HObj (set_cell ob f (CMsg (Some q)))), PMsg m (Some q))
          end
        | Rep _, t =>
          match nth_error (o_cells ob) f with
          | Some (CList None) => (hset h id (HObj (set_cell ob f (CList (Some [])))), PList t (RField id f))
          | _ => (h, PList t (RField id f))
          end
        | MapOf kk, t =>
          match nth_error (o_cells ob) f with
          | Some (CMap None) => (hset h id (HObj (set_cell ob f (CMap (Some [])))), PMap kk t (RField id f))
          | _ => (h, PMap kk t (RField id f))
          end
        | Member j, TMsg m =>
          match nth j (o_oneofs ob) None with
          | Some (f', EPtr q) =>
            if Nat.eqb f' f then
              match q with
              | Some _ => (h, PMsg m q)
              | None =>                                       (* the wrapper holds a nil message: allocated in place *)
                let (h1, q') := halloc h (HObj (new_obj sch m)) in
                (hset h1 id (HObj (set_oneof ob j (Some (f, EPtr (Some q'))))), PMsg m (Some q'))
              end
            else let (h1, q') := halloc h (HObj (new_obj sch m)) in
                 (hset h1 id (HObj (set_oneof ob j (Some (f, EPtr (Some q'))))), PMsg m (Some q'))
          | _ => let (h1, q') := halloc h (HObj (new_obj sch m)) in
                 (hset h1 id (HObj (set_oneof ob j (Some (f, EPtr (Some q'))))), PMsg m (Some q'))
          end
        | _, _ => (h, PPanic)                                     (* scalars are not mutable *)
        end
      | _, _ => (h, PPanic)
      end

    (* ---- lists ---- *)
    | OLLen (PList _ r) => (h, PScalar (VInt (Z.of_nat (match read_list h r with Some l => olen l | None => 0%nat end))))
    | OLGet (PList t r) i =>
      match read_list h r with
      | Some l => if in_bounds i (olen l) then (h, elem_to_pval t (nth (Z.to_nat i) (olist l) (EPtr None))) else (h, PPanic)
      | None => (h, PPanic)
      end
    | OLSet (PList t r) i v =>
      match read_list h r, pval_to_elem t v with
      | Some l, Some e =>
        if in_bounds i (olen l) then (write_list h r (Some (set_nth (olist l) (Z.to_nat i) e)), PUnit) else (h, PPanic)
      | _, _ => (h, PPanic)
      end
    | OLAppend (PList t r) v =>
      match read_list h r, pval_to_elem t v with
      | Some l, Some e => (write_list h r (Some (olist l ++ [e])), PUnit)
      | _, _ => (h, PPanic)
      end
    | OLAppendMutable (PList t r) =>
      match t, read_list h r with
      | TMsg m, Some l =>
        let (h1, q) := halloc h (HObj (new_obj sch m)) in
        (write_list h1 r (Some (olist l ++ [EPtr (Some q)])), PMsg m (Some q))
      | _, _ => (h, PPanic)
      end
    | OLTruncate (PList t r) n =>
      match read_list h r with
      | Some l =>
        if ((0 <=? n) && (n <=? Z.of_nat (olen l)))%Z
        then (write_list h r (match l with None => None | Some x => Some (firstn (Z.to_nat n) x) end), PUnit)
        else (h, PPanic)
      | None => (h, PPanic)
      end
    | OLNewElement (PList t _) =>
      match t with
      | TScalar k => (h, PScalar (zero_scalar k))
      | TMsg m => let (h', id) := halloc h (HObj (new_obj sch m)) in (h', PMsg m (Some id))
      end
    | OIsValid (PList _ r) => (h, PBool (match r with RNil => false | _ => true end))

    (* ---- maps ---- *)
    | OMLen (PMap _ _ r) => (h, PScalar (VInt (Z.of_nat (match read_map h r with Some m => olen m | None => 0%nat end))))
    | OMHas (PMap kk _ r) k =>
      match r with
      | RNil => (h, PBool false)                                  (* `if x.m == nil` comes before the key is unwrapped *)
      | _ =>
        if wt_scalar kk k then
          (h, PBool (match read_map h r with Some m => match massoc (olist m) k with Some _ => true | None => false end | None => false end))
        else (h, PPanic)
      end
    | OMGet (PMap kk t r) k =>
      match r with
      | RNil => (h, PInvalid)
      | _ =>
        if wt_scalar kk k then
          (h, match read_map h r with
              | Some m => match massoc (olist m) k with Some e => elem_to_pval t e | None => PInvalid end
              | None => PInvalid
              end)
        else (h, PPanic)
      end
    | OMSet (PMap kk t r) k v =>
      match read_map h r, pval_to_elem t v with
      | Some (Some m), Some e => if wt_scalar kk k then (write_map h r (Some (mput m k e)), PUnit) else (h, PPanic)
      | _, _ => (h, PPanic)                                       (* nil view, nil map, or wrong type *)
      end
    | OMClear (PMap kk _ r) k =>
      match r with
      | RNil => (h, PUnit)
      | _ =>
        if wt_scalar kk k then
          match read_map h r with
          | Some (Some m) => (write_map h r (Some (mdel m k)), PUnit)
          | _ => (h, PUnit)                                       (* delete on a nil map is a no-op *)
          end
        else (h, PPanic)
      end
    | OMMutable (PMap kk t r) k =>
      match t, read_map h r with
      | TMsg mm, Some (Some m) =>
        if wt_scalar kk k then
          match massoc m k with
          | Some e => (h, elem_to_pval t e)
          | None => let (h1, q) := halloc h (HObj (new_obj sch mm)) in
                    (write_map h1 r (Some (mput m k (EPtr (Some q)))), PMsg mm (Some q))
          end
        else (h, PPanic)
      | _, _ => (h, PPanic)
      end
    | OMNewValue (PMap _ t _) =>
      match t with
      | TScalar k => (h, PScalar (zero_scalar k))
      | TMsg m => let (h', id) := halloc h (HObj (new_obj sch m)) in (h', PMsg m (Some id))
      end
    | OMRange (PMap _ t r) =>
      (h, PMapRange (match read_map h r with Some m => map (fun kv => (fst kv, elem_to_pval t (snd kv))) (olist m) | None => [] end))
    | OIsValid (PMap _ _ r) => (h, PBool (match r with RNil => false | _ => true end))

    | _ => (h, PPanic)                                            (* wrong receiver kind / write to nil *)
    end.

  (* a history: operands are given as earlier results *)
  Definition run (ops : list (list pval -> op)) : heap * list pval :=
    fold_left (fun (st : heap * list pval) (mk : list pval -> op) =>
                 let (h, outs) := st in
                 let (h', r) := step h (mk outs) in (h', outs ++ [r]))
              ops ([], []).

  (* ---- rendering of a heap object as a message value (the codec's [val]), with fuel ---------- *)
  Fixpoint render (fuel : nat) (h : heap) (p : option nat) {struct fuel} : val :=
    match fuel with
    | O => VNil
    | S fu =>
      match p with
      | None => VNil
      | Some id =>
        match get_obj h id with
        | None => VNil
        | Some o =>
          let rel (t : ftype) (e : elem) : val :=
            match e with EScalar v => v | EPtr q => render fu h q end in
          let fs := fields_of (o_mid o) in
          VMsg (map (fun ic =>
                       let '(i, c) := ic in
                       let fd := nth i fs {| f_num := 0; f_ty := TScalar KBool; f_shape := Singular |} in
                       match c with
                       | CScalar v => v
                       | CMsg q => render fu h q
                       | CList None => VNil
                       | CList (Some l) => VList (map (rel (f_ty fd)) l)
                       | CMap None => VNil
                       | CMap (Some m) => VMap (map (fun kv => (fst kv, rel (f_ty fd) (snd kv))) m)
                       | CMember =>
                         match f_shape fd with
                         | Member j => match nth j (o_oneofs o) None with
                                       | Some (f', e) => if Nat.eqb f' i then VSome (rel (f_ty fd) e) else VNil
                                       | None => VNil
                                       end
                         | _ => VNil
                         end
                       end)
                    (combine (seq 0 (length (o_cells o))) (o_cells o)))
               (olist (o_unk o))
        end
      end
    end.

  (* ---- loading a message value (the codec's [val]) into the heap: the struct the harness builds with
     package reflect before a history starts (HISTV case lines). Nil pointers, nil slices / maps and oneof
     wrappers holding nil are kept. The object is allocated before its children, so the root of a load
     into the empty heap is object 0. ------------------------------------------------------------------ *)
  Definition load_elem (ld : heap -> nat -> val -> heap * option nat) (h : heap) (t : ftype) (v : val) : heap * elem :=
    match t with
    | TScalar _ => (h, EScalar v)
    | TMsg m => match v with
                | VNil => (h, EPtr None)
                | _ => let (h', p) := ld h m v in (h', EPtr p)
                end
    end.
  Fixpoint load_list (ld : heap -> nat -> val -> heap * option nat) (h : heap) (t : ftype) (l : list val) : heap * list elem :=
    match l with
    | [] => (h, [])
    | x :: tl => let (h1, e) := load_elem ld h t x in
                 let (h2, es) := load_list ld h1 t tl in (h2, e :: es)
    end.
  Fixpoint load_map (ld : heap -> nat -> val -> heap * option nat) (h : heap) (t : ftype) (l : list (val * val)) : heap * list (val * elem) :=
    match l with
    | [] => (h, [])
    | (k, x) :: tl => let (h1, e) := load_elem ld h t x in
                      let (h2, es) := load_map ld h1 t tl in (h2, (k, e) :: es)
    end.
  Fixpoint load_slots (ld : heap -> nat -> val -> heap * option nat) (h : heap) (fs : list field) (ss : list val) (i : nat)
           (ones : list (option (nat * elem))) : heap * list cell * list (option (nat * elem)) :=
    match fs, ss with
    | fd :: ft, s :: st =>
      let '(h1, c, ones1) :=
        match f_shape fd with
        | Singular =>
          match f_ty fd with
          | TScalar _ => (h, CScalar s, ones)
          | TMsg m => match s with
                      | VNil => (h, CMsg None, ones)
                      | _ => let (h', p) := ld h m s in (h', CMsg p, ones)
                      end
          end
        | Rep _ => match s with
                   | VList l => let (h', es) := load_list ld h (f_ty fd) l in (h', CList (Some es), ones)
                   | _ => (h, CList None, ones)
                   end
        | MapOf _ => match s with
                     | VMap kvs => let (h', m) := load_map ld h (f_ty fd) kvs in (h', CMap (Some m), ones)
                     | _ => (h, CMap None, ones)
                     end
        | Member j => match s with
                      | VSome p => let (h', e) := load_elem ld h (f_ty fd) p in (h', CMember, set_nth ones j (Some (i, e)))
                      | _ => (h, CMember, ones)
                      end
        end in
      let '(h2, cs, ones2) := load_slots ld h1 ft st (S i) ones1 in
      (h2, c :: cs, ones2)
    | _, _ => (h, [], ones)
    end.
  Fixpoint load (fuel : nat) (h : heap) (mid : nat) (v : val) {struct fuel} : heap * option nat :=
    match fuel with
    | O => (h, None)
    | S fu =>
      match v with
      | VMsg slots unk =>
        let id := length h in
        let h0 := h ++ [HObj (new_obj sch mid)] in
        let '(h1, cells, ones) :=
          load_slots (load fu) h0 (fields_of mid) slots 0
                     (repeat None (match get_msg sch mid with Some md => m_oneofs md | None => 0%nat end)) in
        (hset h1 id (HObj (mkObj mid cells ones (match unk with [] => None | _ => Some unk end))), Some id)
      | _ => (h, None)
      end
    end.
End Step.
