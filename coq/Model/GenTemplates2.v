(* Model/GenTemplates2.v — brace skeletons of the other per-field templates of features/fastreflection:
   has.go, clear.go, get.go, set.go, mutable.go, new_field.go, range.go, which_oneof.go, proto_marshal.go,
   proto_unmarshal.go (the size template is in GenTemplates.v). For every template: the `{` / `}` lines it prints for one
   field, in order, as a function of (kind, cardinality/container, oneof membership), and the number of lines ending in
   `{` of the whole generated method. Executable definitions only; lemmas in Proofs/GenTemplates2Proofs.v. *)
From CP Require Import Bytes Schema GenTemplates.
Local Open Scope N_scope.

Inductive tmpl := THas | TClear | TGet | TSet | TMutable | TNewField | TRange | TWhichOneof | TMarshal | TUnmarshal.
Definition all_tmpls : list tmpl := [THas; TClear; TGet; TSet; TMutable; TNewField; TRange; TWhichOneof; TMarshal; TUnmarshal].

Definition ib : list tok := [LB; RB].                       (* if ... { ... } *)
Definition is_list (s : fshape) : bool := match s with SPacked | SUnpacked => true | _ => false end.
Definition is_map (s : fshape) : bool := match s with SMap _ => true | _ => false end.

Inductive kclass := CFixed | CVarint | CBool | CString | CBytes.
Definition kclass_of (k : kind) : kclass :=
  match k with
  | KDouble | KFloat | KFixed64 | KSfixed64 | KFixed32 | KSfixed32 => CFixed
  | KInt64 | KUint64 | KInt32 | KUint32 | KEnum | KSint32 | KSint64 => CVarint
  | KBool => CBool | KString => CString | KBytes => CBytes
  end.

(* ---- proto_marshal.go: marshalField ------------------------------------------------------------------------ *)
Definition mback : list tok := [LB; LB; RB; RB].            (* marshalBackward: if err != nil { return MarshalOutput { }, err } *)
Definition m_mapf (fk : fkind) : list tok :=
  match fk with FK KBool => [LB; RB; LB; RB] | FMsg => mback | _ => [] end.
Definition m_body (fk : fkind) (s : fshape) (oneof : bool) : option (list tok) :=
  let packed := is_packed s in let repeated := is_repeated s in let nul := nullable fk s in
  match fk with
  | FGroup => None
  | FMsg =>
    Some (match s with
          | SPacked | SUnpacked => [LB] ++ mback ++ [RB]
          | _ => mback
          end)
  | FK k =>
    Some (match kclass_of k with
          | CFixed => if packed then ib else if repeated then ib else if nul then [] else guarded oneof []
          | CVarint => if packed then [LB; RB; LB; LB; RB; RB] else if repeated then ib else if nul then [] else guarded oneof []
          | CBool => if packed || repeated then [LB; LB; RB; LB; RB; RB] else if nul then [LB; RB; LB; RB] else guarded oneof [LB; RB; LB; RB]
          | CString => if repeated then ib else if nul then [] else guarded oneof []
          | CBytes => if repeated then ib else guarded oneof []
          end)
  end.
(* MaRsHaLmAp := func(k, v) { value; key; }  if options.Deterministic { for { } sort.Slice(func { }) for { if err { } } } else { for { if err { } } } *)
Definition m_map (key : kind) (v : fkind) : list tok :=
  [LB] ++ m_mapf v ++ m_mapf (FK key) ++ [RB] ++ [LB; LB; RB; LB; RB; LB; LB; RB; RB; RB; LB; LB; LB; RB; RB; RB].
Definition m_field (fk : fkind) (s : fshape) (oneof : bool) : option (list tok) :=
  let sw := match s with SMap _ => FMsg | _ => fk end in
  let pre := if is_repeated s && negb oneof then [LB] else if nullable sw s && negb oneof then [LB] else [] in
  let post := if (is_repeated s || nullable sw s) && negb oneof then [RB] else [] in
  match s, fk with
  | _, FGroup => None
  | SMap key, _ => Some (pre ++ m_map key fk ++ post)
  | _, _ => match m_body fk s oneof with Some b => Some (pre ++ b ++ post) | None => None end
  end.

(* ---- proto_unmarshal.go: unmarshalField / fieldItem ------------------------------------------------------------ *)
Definition uV : list tok := [LB; LB; RB; LB; RB; LB; RB; RB].   (* decodeVarint: for { if shift { } if iNdEx { } if b { } } *)
Definition uL3 : list tok := [LB; RB; LB; RB; LB; RB].          (* the three length checks *)
Definition u_mapf (fk : fkind) : option (list tok) :=
  match fk with
  | FGroup => None
  | FMsg => Some (uV ++ uL3 ++ ib)
  | FK k => Some (match kclass_of k with CFixed => ib | CVarint | CBool => uV | CString | CBytes => uV ++ uL3 end)
  end.
Definition u_item (fk : fkind) (s : fshape) (oneof : bool) : option (list tok) :=
  match fk with
  | FGroup => None
  | FK k =>
    Some (match kclass_of k with
          | CFixed => ib
          | CVarint | CBool => uV
          | CString => uV ++ uL3
          | CBytes => uV ++ uL3 ++ (if oneof || is_repeated s then [] else ib)
          end)
  | FMsg => Some (uV ++ uL3 ++ (if oneof then ib ++ ib else if is_list s then ib else ib ++ ib))
  end.
Definition u_map (key : kind) (v : fkind) : option (list tok) :=
  match u_mapf (FK key), u_mapf v with
  | Some kt, Some vt =>
    Some (uV ++ uL3 ++ ib ++ [LB] ++ uV ++ [LB] ++ kt ++ [RB; LB] ++ vt ++ [RB; LB] ++ [LB; RB; LB; RB; LB; RB] ++ [RB] ++ ib ++ [RB])
  | _, _ => None
  end.
Definition u_count (fk : fkind) : list tok :=
  match fk with
  | FK KInt64 | FK KUint64 | FK KInt32 | FK KUint32 | FK KSint32 | FK KSint64 => [LB; LB; RB; RB]
  | _ => []
  end.
Definition u_field (fk : fkind) (s : fshape) (oneof : bool) : option (list tok) :=
  match s with
  | SMap key => match u_map key fk with Some b => Some (ib ++ b) | None => None end
  | _ =>
    match u_item fk s oneof with
    | None => None
    | Some item =>
      if is_list s && packable_fk fk
      then Some ([LB] ++ item ++ [RB; LB] ++ uV ++ uL3 ++ u_count fk ++ ib ++ [LB] ++ item ++ [RB] ++ [RB; LB] ++ [RB])
      else Some (ib ++ item)
    end
  end.

(* ---- the reflection accessors ------------------------------------------------------------------------------------ *)
Definition if3 : list tok := [LB; RB; LB; RB; LB; RB].       (* if { } else if { } else { } *)
Definition field_toks (t : tmpl) (fk : fkind) (s : fshape) (oneof : bool) : option (list tok) :=
  match fk with FGroup => None | _ =>
    match t with
    | THas => Some (if oneof then if3 else [])
    | TClear => Some (if oneof then ib else [])
    | TGet => Some (if oneof then if3 else if is_repeated s then ib else [])
    | TSet => Some (if oneof then [] else if is_repeated s then [] else match fk with FMsg => ib | _ => [] end)
    | TMutable => Some (if oneof then match fk with FMsg => [LB; RB; LB; LB; RB; RB] | _ => [] end
                        else if is_repeated s then ib else match fk with FMsg => ib | _ => [] end)
    | TNewField => Some []
    | TRange => Some (if oneof then ib else [LB; LB; RB; RB])
    | TWhichOneof => Some []
    | TMarshal => m_field fk s oneof
    | TUnmarshal => u_field fk s oneof
    end
  end.

(* whole method: lines ending in '{' outside the per-field parts, per real oneof, and per field *)
Definition fixed_opens (t : tmpl) : N :=
  match t with
  | THas => 4 | TClear => 3 | TGet => 4 | TSet => 3 | TMutable => 3 | TNewField => 3 | TRange => 2 | TWhichOneof => 3
  | TMarshal => 7 | TUnmarshal => 17
  end.
Definition per_oneof_opens (t : tmpl) : N :=
  match t with TRange => 2 | TWhichOneof => 2 | TMarshal => 1 | _ => 0 end.

Fixpoint fields_opens (t : tmpl) (l : list fspec) : option N :=
  match l with
  | [] => Some 0
  | (fk, s, o) :: r =>
    match field_toks t fk s (match o with Some _ => true | None => false end), fields_opens t r with
    | Some b, Some n => Some (opens b + n)
    | _, _ => None
    end
  end.
Definition method_opens (t : tmpl) (l : list fspec) : option N :=
  match fields_opens t l with
  | Some n => Some (fixed_opens t + per_oneof_opens t * distinct_oneofs l [] + n)
  | None => None
  end.

(* the combinations of the supported subset: no groups, no proto3 optional *)
Definition valid_combo2 (fk : fkind) (s : fshape) (oneof : bool) : bool :=
  match s with SOptional => false | _ => valid_combo fk s oneof end.
