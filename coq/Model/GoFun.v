(* Model/GoFun.v — translator tie for the HAND-WRITTEN Go of /repo/runtime/runtime.go and /repo/support/timepb/cmp.go (task T10).

   A small first-order imperative language that is a literal image of the Go subset these two files use, a fuelled
   big-step interpreter with Go's machine arithmetic, the CANONICAL programs (one constant per function / package-level
   const / var: the current source transcribed once; the engine "gofun" re-translates the source on every run and the
   driver compares, declaration by declaration, with these constants) and the target statements that tie the canonical
   programs to the hand-written models Runtime.v / TimePb.v (Definitions here; the proofs are another task).

   Reading guide
   * Types [gotype]: the sized integer types [ity] (int and uint are 64 bits wide; byte is uint8), bool, []byte, error, a
     named type pkg.T and a pointer *pkg.T.
   * Values [gvalue]: an UNTYPED integer constant (arbitrary precision, as in Go: literals and constant expressions such as
     1<<7), a typed integer (the Z is always inside the range of its type: every operation re-normalises with [ity_norm]),
     bool, untyped nil, a byte slice, a struct value (field list), a pointer to a struct (nil or a snapshot of the
     pointee), an error (nil or its message), a time.Time (the instant in ns, exact) and an opaque value handed through.
   * What Go's type checker would reject is "stuck" ([GStuck]): operands of different integer types, an untyped constant
     that does not fit the type it is converted to, an unbound identifier, a missing return. The interpreter never guesses.
   * Panics ([GPanic]): index out of range, nil dereference, integer division by zero, negative shift count, `panic(…)`
     (the panic VALUE is not modelled: the argument is kept in the syntax, for the comparison, but not evaluated).
   * Errors are ordinary return values: `return 0, ErrIntOverflow` = GOk [GvInt TInt 0; GvErr (Some "proto: integer overflow")].
   * Fuel: every `for` statement may run [lfuel] iterations (then [GFuel]); calls may nest [depth] deep. Nothing else
     consumes fuel, so "enough fuel" is a function of the input: see the target statements at the end of the file.
   * Slices: a []byte variable holds its contents; `s[i] = e` updates the variable. The result of a run carries the
     final values of the function's PARAMETERS, so the caller of EncodeVarint sees the written buffer. Aliasing is not
     modelled and therefore excluded: a slice can be neither copied (`a := b`, `a = b`) nor passed to another translated
     function (stuck). `&x` is a snapshot of x; writes through pointers are not modelled (stuck); the translator
     additionally refuses a function that writes to x after `&x` was taken.
   * Library: bits.Len64; fmt.Errorf (format with %d only); io.ErrUnexpectedEOF; time.Second;
     protoiface.MarshalDeterministic / MarshalUseCachedSize / UnmarshalDiscardUnknown; and for AddStd
     `tspb.New(t.AsTime().Add(d))`: AsTime = the instant secs*10^9+nanos, Time.Add = exact addition, tspb.New = floor
     division by 10^9 — defined only while the seconds fit int64 (stuck otherwise: time.Time saturates / wraps there).
   * Names: this file is extracted into the same OCaml module as the other models, so its constructors and functions carry
     prefixes of their own (Ex… expressions, St… statements, Gv… values, Go… types, B… binary operators, go_… functions).
   Executable definitions only. *)
From CP Require Export Bytes Runtime TimePb.
Local Open Scope Z_scope.

(* ---- names and string literals: a byte list with a string notation of its own (Coq's [string] is avoided on purpose: extracted
        next to the other models it would shadow OCaml's string type in the driver) ------------------------------------- *)
Inductive gname := GName (l : list byte).
Definition gname_of_bytes (l : list byte) : gname := GName l.
Definition gname_bytes (n : gname) : list byte := match n with GName l => l end.
Declare Scope gname_scope.
Delimit Scope gname_scope with gname.
Bind Scope gname_scope with gname.
String Notation gname gname_of_bytes gname_bytes : gname_scope.

Fixpoint gf_bytes_eqb (a b : list byte) : bool :=
  match a, b with
  | [], [] => true
  | x :: a', y :: b' => Byte.eqb x y && gf_bytes_eqb a' b'
  | _, _ => false
  end.
Definition str_eq (a b : gname) : bool := gf_bytes_eqb (gname_bytes a) (gname_bytes b).

(* ---- types --------------------------------------------------------------------------------------------------------- *)
Inductive ity := TInt | TInt8 | TInt16 | TInt32 | TInt64 | TUint | TUint8 | TUint16 | TUint32 | TUint64.

Definition ity_bits (t : ity) : Z :=
  match t with
  | TInt | TInt64 | TUint | TUint64 => 64
  | TInt32 | TUint32 => 32
  | TInt16 | TUint16 => 16
  | TInt8 | TUint8 => 8
  end.
Definition ity_signed (t : ity) : bool :=
  match t with TInt | TInt8 | TInt16 | TInt32 | TInt64 => true | _ => false end.
(* 2^bits *)
Definition ity_mod (t : ity) : Z :=
  match t with
  | TInt | TInt64 | TUint | TUint64 => 18446744073709551616
  | TInt32 | TUint32 => 4294967296
  | TInt16 | TUint16 => 65536
  | TInt8 | TUint8 => 256
  end.
(* the value of type t congruent to z modulo 2^bits: Go's wrap-around *)
Definition ity_norm (t : ity) (z : Z) : Z :=
  let m := ity_mod t in
  let r := z mod m in
  if ity_signed t then (if r <? m / 2 then r else r - m) else r.
Definition ity_in (t : ity) (z : Z) : bool := z =? ity_norm t z.

Inductive gotype :=
| GoInt (t : ity)
| GoBool
| GoBytes                      (* []byte *)
| GoError
| GoNamed (q : gname)         (* T or pkg.T *)
| GoPtr (q : gname).          (* *T or *pkg.T *)

(* ---- syntax -------------------------------------------------------------------------------------------------------- *)
Inductive unop := UNeg | UNot | UCompl.                                   (* -e  !e  ^e *)
Inductive binop :=
| BAdd | BSub | BMul | BDiv | BRem | BShl | BShr | BAnd | BOr | BXor | BAndNot      (* + - * / % << >> & | ^ &^ *)
| BEq | BNe | BLt | BLe | BGt | BGe | BLAnd | BLOr.                                  (* == != < <= > >= && || *)

Inductive gexpr :=
| ExConst (z : Z)                                      (* integer literal: an untyped constant *)
| ExStr (s : gname)                                   (* string literal (only as the format of fmt.Errorf / inside panic(…)) *)
| ExTrue | ExFalse | ExNil
| ExVar (x : gname)                                   (* a local, else a package-level const / var of the file *)
| ExQual (pkg name : gname)                           (* pkg.Name of an imported package *)
| ExSel (e : gexpr) (f : gname)                        (* e.f: a struct field (through a pointer: nil panics) *)
| ExUn (op : unop) (e : gexpr)
| ExBin (op : binop) (a b : gexpr)
| ExConv (t : ity) (e : gexpr)                          (* T(e), T a predeclared integer type *)
| ExLen (e : gexpr)
| ExIndex (s i : gexpr)
| ExCall (f : gname) (args : list gexpr)               (* a function of the same file *)
| ExPkgCall (pkg f : gname) (args : list gexpr)        (* pkg.F(args) *)
| ExMethod (recv : gexpr) (m : gname) (args : list gexpr)   (* recv.M(args) *)
| ExDeref (e : gexpr)                                   (* *e *)
| ExAddr (e : gexpr)                                    (* &x *)
| ExLit (ty : gname) (fs : list (gname * gexpr)).   (* T{F: e, …} *)

Inductive glval := LvVar (x : gname) | LvIndex (x : gname) (i : gexpr) | LvField (x : gname) (f : gname).   (* x | x[i] | x.f *)

Inductive gstmt :=
| StVar (x : gname) (t : gotype)                          (* var x T *)
| StDefine (x : gname) (e : gexpr)                      (* x := e *)
| StAssign (l : glval) (e : gexpr)                        (* l = e *)
| StOpAssign (op : binop) (l : glval) (e : gexpr)         (* l op= e *)
| StInc (l : glval) | StDec (l : glval)                    (* l++  l-- *)
| StIf (c : gexpr) (a b : list gstmt)                     (* if c {a} else {b}; `else if` is b = [StIf …]; no else: b = [] *)
| StFor (init : list gstmt) (c : option gexpr) (post : list gstmt) (body : list gstmt)   (* init/post: zero or one statement *)
| StSwitch (tag : gexpr) (cases : list (list gexpr * list gstmt)) (dflt : option (list gstmt))
| StBreak | StContinue
| StReturn (es : list gexpr)
| StPanic (e : gexpr)
| StExpr (e : gexpr).                                    (* a call as a statement *)

Record fundecl := { fn_name : gname; fn_params : list (gname * gotype); fn_results : list (gname * gotype); fn_body : list gstmt }.
(* a file: package-level `const x = e` / `var x = e` and its functions *)
Record program := { pg_globals : list (gname * gexpr); pg_funs : list fundecl }.

(* ---- values -------------------------------------------------------------------------------------------------------- *)
Inductive gvalue :=
| GvConst (z : Z)
| GvInt (t : ity) (z : Z)
| GvBool (b : bool)
| GvNil
| GvBytes (l : list byte)
| GvRec (fs : list (gname * gvalue))
| GvPtr (p : option (list (gname * gvalue)))
| GvErr (e : option gname)
| GvTime (ns : Z)
| GvOpaque (tag : gname).

Definition goenv := list (gname * gvalue).

Fixpoint go_get (x : gname) (en : goenv) : option gvalue :=
  match en with
  | [] => None
  | (y, v) :: t => if str_eq x y then Some v else go_get x t
  end.
Fixpoint go_set (x : gname) (v : gvalue) (en : goenv) : option goenv :=
  match en with
  | [] => None
  | (y, w) :: t =>
    if str_eq x y then Some ((y, v) :: t)
    else match go_set x v t with Some t' => Some ((y, w) :: t') | None => None end
  end.
(* leaving a block: the variables declared inside it disappear *)
Definition go_restore (outer inner : goenv) : goenv := skipn (List.length inner - List.length outer) inner.

(* result of a function call *)
Inductive gres :=
| GOk (rets : list gvalue) (params : list gvalue)     (* returned values; final values of the parameters, in declaration order *)
| GPanic | GFuel | GStuck.

Inductive gores (A : Type) := ErOk (a : A) | ErPanic | ErFuel | ErStuck.
Arguments ErOk {A} a.
Arguments ErPanic {A}.
Arguments ErFuel {A}.
Arguments ErStuck {A}.
Definition go_bind {A B} (r : gores A) (f : A -> gores B) : gores B :=
  match r with ErOk a => f a | ErPanic => ErPanic | ErFuel => ErFuel | ErStuck => ErStuck end.

(* result of a statement *)
Inductive stres :=
| SrNext (en : goenv) | SrBreak (en : goenv) | SrCont (en : goenv)
| SrRet (vs : list gvalue) (en : goenv)
| SrPanic | SrFuel | SrStuck.
Definition go_lift {A} (r : gores A) (k : A -> stres) : stres :=
  match r with ErOk a => k a | ErPanic => SrPanic | ErFuel => SrFuel | ErStuck => SrStuck end.

(* ---- arithmetic ---------------------------------------------------------------------------------------------------- *)
Definition ity_code (t : ity) : nat :=
  match t with
  | TInt => 0 | TInt8 => 1 | TInt16 => 2 | TInt32 => 3 | TInt64 => 4
  | TUint => 5 | TUint8 => 6 | TUint16 => 7 | TUint32 => 8 | TUint64 => 9
  end%nat.
Definition ity_eqb (a b : ity) : bool := Nat.eqb (ity_code a) (ity_code b).

(* an untyped constant used at type t: it must be representable *)
Definition const_to (t : ity) (z : Z) : gores gvalue := if ity_in t z then ErOk (GvInt t z) else ErStuck.

Definition shl_z (bits x c : Z) : Z := if bits <=? c then 0 else Z.shiftl x c.
Definition shr_z (bits x c : Z) : Z := if bits <=? c then (if x <? 0 then -1 else 0) else Z.shiftr x c.

Definition is_cmp (op : binop) : bool :=
  match op with BEq | BNe | BLt | BLe | BGt | BGe => true | _ => false end.
Definition go_cmp (op : binop) (a b : Z) : bool :=
  match op with
  | BEq => a =? b | BNe => negb (a =? b) | BLt => a <? b | BLe => a <=? b | BGt => b <? a | BGe => b <=? a
  | _ => false
  end.

(* a op b, both operands of integer type t (not a shift, not a comparison) *)
Definition int_arith (op : binop) (t : ity) (a b : Z) : gores gvalue :=
  match op with
  | BAdd => ErOk (GvInt t (ity_norm t (a + b)))
  | BSub => ErOk (GvInt t (ity_norm t (a - b)))
  | BMul => ErOk (GvInt t (ity_norm t (a * b)))
  | BDiv => if b =? 0 then ErPanic else ErOk (GvInt t (ity_norm t (Z.quot a b)))     (* truncated towards zero; MinInt / -1 wraps *)
  | BRem => if b =? 0 then ErPanic else ErOk (GvInt t (ity_norm t (Z.rem a b)))
  | BAnd => ErOk (GvInt t (Z.land a b))
  | BOr => ErOk (GvInt t (Z.lor a b))
  | BXor => ErOk (GvInt t (Z.lxor a b))
  | BAndNot => ErOk (GvInt t (Z.ldiff a b))
  | _ => ErStuck
  end.
(* constant arithmetic is exact *)
Definition const_arith (op : binop) (a b : Z) : gores gvalue :=
  match op with
  | BAdd => ErOk (GvConst (a + b))
  | BSub => ErOk (GvConst (a - b))
  | BMul => ErOk (GvConst (a * b))
  | BDiv => if b =? 0 then ErStuck else ErOk (GvConst (Z.quot a b))
  | BRem => if b =? 0 then ErStuck else ErOk (GvConst (Z.rem a b))
  | BAnd => ErOk (GvConst (Z.land a b))
  | BOr => ErOk (GvConst (Z.lor a b))
  | BXor => ErOk (GvConst (Z.lxor a b))
  | BAndNot => ErOk (GvConst (Z.ldiff a b))
  | _ => ErStuck
  end.

Definition shift_op (op : binop) (a b : gvalue) : gores gvalue :=
  let sh := fun (t : ity) (x c : Z) =>
    match op with
    | BShl => ErOk (GvInt t (ity_norm t (shl_z (ity_bits t) x c)))
    | _ => ErOk (GvInt t (shr_z (ity_bits t) x c))
    end in
  match a, b with
  | GvInt t x, GvInt tc c => if c <? 0 then ErPanic else sh t x c               (* a signed negative count panics *)
  | GvInt t x, GvConst c => if c <? 0 then ErStuck else sh t x c
  | GvConst x, GvConst c =>
    if (c <? 0) || (512 <? c) then ErStuck
    else ErOk (GvConst (match op with BShl => Z.shiftl x c | _ => Z.shiftr x c end))
  | _, _ => ErStuck                                                            (* constant << variable: typed from context, not modelled *)
  end.

Definition is_nil_like (v : gvalue) : option bool :=      (* a value comparable with nil: is it nil? *)
  match v with
  | GvPtr None | GvErr None => Some true
  | GvPtr (Some _) | GvErr (Some _) => Some false
  | _ => None
  end.

Definition bin_op (op : binop) (a b : gvalue) : gores gvalue :=
  match op with
  | BShl | BShr => shift_op op a b
  | BLAnd | BLOr => ErStuck                                                    (* short-circuit: handled by eval *)
  | _ =>
    match a, b with
    | GvInt t x, GvInt t' y =>
      if ity_eqb t t' then (if is_cmp op then ErOk (GvBool (go_cmp op x y)) else int_arith op t x y) else ErStuck
    | GvInt t x, GvConst y =>
      go_bind (const_to t y) (fun _ => if is_cmp op then ErOk (GvBool (go_cmp op x y)) else int_arith op t x y)
    | GvConst x, GvInt t y =>
      go_bind (const_to t x) (fun _ => if is_cmp op then ErOk (GvBool (go_cmp op x y)) else int_arith op t x y)
    | GvConst x, GvConst y => if is_cmp op then ErOk (GvBool (go_cmp op x y)) else const_arith op x y
    | GvBool x, GvBool y =>
      match op with BEq => ErOk (GvBool (Bool.eqb x y)) | BNe => ErOk (GvBool (negb (Bool.eqb x y))) | _ => ErStuck end
    | GvNil, _ =>
      match op, is_nil_like b with
      | BEq, Some n => ErOk (GvBool n) | BNe, Some n => ErOk (GvBool (negb n)) | _, _ => ErStuck
      end
    | _, GvNil =>
      match op, is_nil_like a with
      | BEq, Some n => ErOk (GvBool n) | BNe, Some n => ErOk (GvBool (negb n)) | _, _ => ErStuck
      end
    | _, _ => ErStuck
    end
  end.

Definition un_op (op : unop) (v : gvalue) : gores gvalue :=
  match op, v with
  | UNeg, GvConst z => ErOk (GvConst (- z))
  | UNeg, GvInt t z => ErOk (GvInt t (ity_norm t (- z)))
  | UCompl, GvConst z => ErOk (GvConst (Z.lnot z))
  | UCompl, GvInt t z => ErOk (GvInt t (ity_norm t (Z.lnot z)))
  | UNot, GvBool b => ErOk (GvBool (negb b))
  | _, _ => ErStuck
  end.

(* T(e) *)
Definition conv (t : ity) (v : gvalue) : gores gvalue :=
  match v with
  | GvConst z => const_to t z
  | GvInt _ z => ErOk (GvInt t (ity_norm t z))
  | _ => ErStuck
  end.

(* ---- typing of stores: what a variable / parameter / result of a given shape accepts ---------------------------------- *)
Definition named_underlying (q : gname) : option ity :=
  if str_eq q "time.Duration" then Some TInt64
  else if str_eq q "protoiface.MarshalInputFlags" then Some TUint8
  else if str_eq q "protoiface.UnmarshalInputFlags" then Some TUint8
  else None.

Definition coerce (g : gotype) (v : gvalue) : option gvalue :=
  match g, v with
  | GoInt t, GvConst z => if ity_in t z then Some (GvInt t z) else None
  | GoInt t, GvInt t' z => if ity_eqb t t' then Some v else None
  | GoBool, GvBool _ => Some v
  | GoBytes, GvBytes _ => Some v
  | GoBytes, GvNil => Some (GvBytes [])
  | GoError, GvErr _ => Some v
  | GoError, GvNil => Some (GvErr None)
  | GoPtr _, GvPtr _ => Some v
  | GoPtr _, GvNil => Some (GvPtr None)
  | GoNamed q, _ =>
    match named_underlying q, v with
    | Some t, GvConst z => if ity_in t z then Some (GvInt t z) else None
    | Some t, GvInt t' z => if ity_eqb t t' then Some v else None
    | Some _, _ => None
    | None, GvRec _ | None, GvOpaque _ | None, GvTime _ => Some v
    | None, _ => None
    end
  | _, _ => None
  end.

(* storing [new] where [old] is: same shape required; a slice cannot be copied (aliasing is not modelled) *)
Definition assignable (old new : gvalue) : option gvalue :=
  match old, new with
  | GvInt t _, GvConst z => if ity_in t z then Some (GvInt t z) else None
  | GvInt t _, GvInt t' _ => if ity_eqb t t' then Some new else None
  | GvBool _, GvBool _ => Some new
  | GvRec _, GvRec _ => Some new
  | GvPtr _, GvPtr _ => Some new
  | GvPtr _, GvNil => Some (GvPtr None)
  | GvErr _, GvErr _ => Some new
  | GvErr _, GvNil => Some (GvErr None)
  | GvTime _, GvTime _ => Some new
  | GvOpaque _, GvOpaque _ => Some new
  | _, _ => None
  end.

(* x := e *)
Definition definable (v : gvalue) : option gvalue :=
  match v with
  | GvConst z => if ity_in TInt z then Some (GvInt TInt z) else None
  | GvNil | GvBytes _ => None
  | _ => Some v
  end.

Definition go_zero (g : gotype) : option gvalue :=
  match g with
  | GoInt t => Some (GvInt t 0)
  | GoBool => Some (GvBool false)
  | GoBytes => Some (GvBytes [])
  | GoError => Some (GvErr None)
  | GoPtr _ => Some (GvPtr None)
  | GoNamed q => match named_underlying q with Some t => Some (GvInt t 0) | None => None end
  end.

(* ---- records, slices ----------------------------------------------------------------------------------------------- *)
Definition go_field (v : gvalue) (f : gname) : gores gvalue :=
  match v with
  | GvRec fs | GvPtr (Some fs) => match go_get f fs with Some w => ErOk w | None => ErStuck end
  | GvPtr None => ErPanic                                                       (* nil pointer dereference *)
  | _ => ErStuck
  end.

Definition index_z (v : gvalue) : gores Z :=
  match v with GvInt _ z | GvConst z => ErOk z | _ => ErStuck end.

Definition bytes_get (l : list byte) (i : Z) : gores gvalue :=
  if (0 <=? i) && (i <? Z.of_nat (List.length l))
  then ErOk (GvInt TUint8 (Z.of_N (b2n (nth (Z.to_nat i) l x00))))
  else ErPanic.                                                                 (* index out of range *)
Definition bytes_set (l : list byte) (i : Z) (b : Z) : gores (list byte) :=
  if (0 <=? i) && (i <? Z.of_nat (List.length l))
  then ErOk (upd l (Z.to_nat i) (n2b (Z.to_N b)))
  else ErPanic.

Definition has_bytes (vs : list gvalue) : bool :=
  existsb (fun v => match v with GvBytes _ => true | _ => false end) vs.
Definition has_const (fs : list (gname * gvalue)) : bool :=
  existsb (fun kv => match snd kv with GvConst _ | GvNil | GvBytes _ => true | _ => false end) fs.

(* ---- library ------------------------------------------------------------------------------------------------------- *)
Definition lib_const (p n : gname) : option gvalue :=
  if str_eq p "time" && str_eq n "Second" then Some (GvInt TInt64 1000000000)
  else if str_eq p "io" && str_eq n "ErrUnexpectedEOF" then Some (GvErr (Some "unexpected EOF"%gname))
  else if str_eq p "protoiface" && str_eq n "MarshalDeterministic" then Some (GvInt TUint8 1)
  else if str_eq p "protoiface" && str_eq n "MarshalUseCachedSize" then Some (GvInt TUint8 2)
  else if str_eq p "protoiface" && str_eq n "UnmarshalDiscardUnknown" then Some (GvInt TUint8 1)
  else None.

(* decimal digits of a natural number, most significant first; fuel = number of bits + 1 *)
Fixpoint dec_digits (fuel : nat) (z : Z) (acc : list byte) : list byte :=
  match fuel with
  | O => acc
  | S f =>
    let d := n2b (Z.to_N (48 + z mod 10)) in
    if z <? 10 then d :: acc else dec_digits f (z / 10) (d :: acc)
  end.
Definition dec_string (z : Z) : list byte :=
  let a := if z <? 0 then - z else z in
  let ds := dec_digits (S (Z.to_nat (Z.log2 a))) a [] in
  if z <? 0 then x2d :: ds else ds.

(* fmt.Errorf's message: %d with integer arguments only; every argument must be used *)
Fixpoint fmt_bytes (f : list byte) (args : list gvalue) : option (list byte) :=
  match f with
  | [] => match args with [] => Some [] | _ => None end
  | c :: rest =>
    if Byte.eqb c x25 then                                                     (* '%' *)
      match rest with
      | d :: rest' =>
        if Byte.eqb d x64 then                                                   (* 'd' *)
          match args with
          | GvInt _ z :: args' =>
            match fmt_bytes rest' args' with Some s => Some (dec_string z ++ s) | None => None end
          | _ => None
          end
        else None
      | [] => None
      end
    else match fmt_bytes rest args with Some s => Some (c :: s) | None => None end
  end.
Definition fmt_args (f : gname) (args : list gvalue) : option gname :=
  match fmt_bytes (gname_bytes f) args with Some l => Some (GName l) | None => None end.

Definition ts_fields (s n : Z) : list (gname * gvalue) :=
  [("Seconds"%gname, GvInt TInt64 s); ("Nanos"%gname, GvInt TInt32 n)].
Definition ts_of_fields (fs : list (gname * gvalue)) : option ts :=
  match go_get "Seconds" fs, go_get "Nanos" fs with
  | Some (GvInt TInt64 s), Some (GvInt TInt32 n) => Some {| secs := s; nanos := n |}
  | _, _ => None
  end.

Definition lib_call (p f : gname) (args : list gvalue) : gores gvalue :=
  if str_eq p "bits" && str_eq f "Len64" then
    match args with
    | [GvInt TUint64 x] => ErOk (GvInt TInt (Z.of_N (len64 (Z.to_N x))))
    | _ => ErStuck
    end
  else if str_eq p "tspb" && str_eq f "New" then                                (* timestamppb.New(time.Time) *)
    match args with
    | [GvTime i] =>
      let s := i / second in
      if ity_in TInt64 s then ErOk (GvPtr (Some (ts_fields s (i mod second)))) else ErStuck
    | _ => ErStuck
    end
  else ErStuck.

Definition lib_method (recv : gvalue) (m : gname) (args : list gvalue) : gores gvalue :=
  if str_eq m "AsTime" then                                                     (* method AsTime of a pointer to timestamppb.Timestamp *)
    match recv, args with
    | GvPtr None, [] => ErOk (GvTime 0)
    | GvPtr (Some fs), [] => match ts_of_fields fs with Some t => ErOk (GvTime (inst t)) | None => ErStuck end
    | _, _ => ErStuck
    end
  else if str_eq m "Add" then                                                   (* time.Time.Add(time.Duration) *)
    match recv, args with
    | GvTime i, [GvInt TInt64 d] => ErOk (GvTime (i + d))
    | _, _ => ErStuck
    end
  else ErStuck.

(* ---- the interpreter ----------------------------------------------------------------------------------------------- *)
Section Interp.
  Variable genv : goenv.                                         (* the file's package-level constants and variables, evaluated *)
  Variable call : gname -> list gvalue -> gres.                (* functions of the same file, one level of call depth less *)
  Variable lfuel : nat.                                        (* iterations allowed to each for statement *)

  Fixpoint go_eval (en : goenv) (e : gexpr) {struct e} : gores gvalue :=
    let go_evals := fix go_evals (es : list gexpr) {struct es} : gores (list gvalue) :=
        match es with
        | [] => ErOk []
        | e' :: t => go_bind (go_eval en e') (fun v => go_bind (go_evals t) (fun vs => ErOk (v :: vs)))
        end in
    match e with
    | ExConst z => ErOk (GvConst z)
    | ExStr _ => ErStuck
    | ExTrue => ErOk (GvBool true)
    | ExFalse => ErOk (GvBool false)
    | ExNil => ErOk GvNil
    | ExVar x =>
      match go_get x en with
      | Some v => ErOk v
      | None => match go_get x genv with Some v => ErOk v | None => ErStuck end
      end
    | ExQual p n => match lib_const p n with Some v => ErOk v | None => ErStuck end
    | ExSel e' f => go_bind (go_eval en e') (fun v => go_field v f)
    | ExUn op e' => go_bind (go_eval en e') (un_op op)
    | ExBin BLAnd a b =>
      go_bind (go_eval en a) (fun va =>
        match va with
        | GvBool false => ErOk (GvBool false)
        | GvBool true => go_bind (go_eval en b) (fun vb => match vb with GvBool _ => ErOk vb | _ => ErStuck end)
        | _ => ErStuck
        end)
    | ExBin BLOr a b =>
      go_bind (go_eval en a) (fun va =>
        match va with
        | GvBool true => ErOk (GvBool true)
        | GvBool false => go_bind (go_eval en b) (fun vb => match vb with GvBool _ => ErOk vb | _ => ErStuck end)
        | _ => ErStuck
        end)
    | ExBin op a b => go_bind (go_eval en a) (fun va => go_bind (go_eval en b) (fun vb => bin_op op va vb))
    | ExConv t e' => go_bind (go_eval en e') (conv t)
    | ExLen e' => go_bind (go_eval en e') (fun v => match v with GvBytes l => ErOk (GvInt TInt (Z.of_nat (List.length l))) | _ => ErStuck end)
    | ExIndex s i =>
      go_bind (go_eval en s) (fun vs => go_bind (go_eval en i) (fun vi =>
        match vs with GvBytes l => go_bind (index_z vi) (bytes_get l) | _ => ErStuck end))
    | ExCall f args =>
      go_bind (go_evals args) (fun vs =>
        if has_bytes vs then ErStuck
        else match call f vs with
             | GOk [v] _ => ErOk v
             | GOk _ _ => ErStuck
             | GPanic => ErPanic | GFuel => ErFuel | GStuck => ErStuck
             end)
    | ExPkgCall p f args =>
      if str_eq p "fmt" && str_eq f "Errorf" then
        match args with
        | ExStr s :: rest =>
          go_bind (go_evals rest) (fun vs => match fmt_args s vs with Some m => ErOk (GvErr (Some m)) | None => ErStuck end)
        | _ => ErStuck
        end
      else go_bind (go_evals args) (lib_call p f)
    | ExMethod r m args => go_bind (go_eval en r) (fun vr => go_bind (go_evals args) (lib_method vr m))
    | ExDeref e' =>
      go_bind (go_eval en e') (fun v => match v with GvPtr (Some fs) => ErOk (GvRec fs) | GvPtr None => ErPanic | _ => ErStuck end)
    | ExAddr e' =>
      match e' with
      | ExVar _ => go_bind (go_eval en e') (fun v => match v with GvRec fs => ErOk (GvPtr (Some fs)) | _ => ErStuck end)
      | _ => ErStuck
      end
    | ExLit _ fs =>
      go_bind ((fix fields (l : list (gname * gexpr)) {struct l} : gores (list (gname * gvalue)) :=
                match l with
                | [] => ErOk []
                | (k, e') :: t => go_bind (go_eval en e') (fun v => go_bind (fields t) (fun vs => ErOk ((k, v) :: vs)))
                end) fs)
            (fun l => if has_const l then ErStuck else ErOk (GvRec l))
    end.

  Fixpoint go_evals (en : goenv) (es : list gexpr) {struct es} : gores (list gvalue) :=
    match es with
    | [] => ErOk []
    | e :: t => go_bind (go_eval en e) (fun v => go_bind (go_evals en t) (fun vs => ErOk (v :: vs)))
    end.

  (* current value of an lvalue *)
  Definition lval_read (en : goenv) (l : glval) : gores gvalue :=
    match l with
    | LvVar x => match go_get x en with Some v => ErOk v | None => ErStuck end
    | LvIndex x i => go_eval en (ExIndex (ExVar x) i)
    | LvField x f =>
      match go_get x en with
      | Some (GvRec fs) => match go_get f fs with Some w => ErOk w | None => ErStuck end
      | _ => ErStuck                                                          (* writes through pointers are not modelled *)
      end
    end.

  (* l = v: the index of x[i] is evaluated by the caller, before the right-hand side, as Go does *)
  Definition lval_write (en : goenv) (l : glval) (idx : option Z) (v : gvalue) : stres :=
    match l with
    | LvVar x =>
      match go_get x en with
      | Some old =>
        match assignable old v with
        | Some v' => match go_set x v' en with Some en' => SrNext en' | None => SrStuck end
        | None => SrStuck
        end
      | None => SrStuck
      end
    | LvIndex x _ =>
      match go_get x en, idx, coerce (GoInt TUint8) v with
      | Some (GvBytes bs), Some i, Some (GvInt _ b) =>
        go_lift (bytes_set bs i b) (fun bs' => match go_set x (GvBytes bs') en with Some en' => SrNext en' | None => SrStuck end)
      | _, _, _ => SrStuck
      end
    | LvField x f =>
      match go_get x en with
      | Some (GvRec fs) =>
        match go_get f fs with
        | Some old =>
          match assignable old v with
          | Some v' =>
            match go_set f v' fs with
            | Some fs' => match go_set x (GvRec fs') en with Some en' => SrNext en' | None => SrStuck end
            | None => SrStuck
            end
          | None => SrStuck
          end
        | None => SrStuck
        end
      | _ => SrStuck
      end
    end.

  Definition lval_index (en : goenv) (l : glval) : gores (option Z) :=
    match l with
    | LvIndex _ i => go_bind (go_eval en i) (fun vi => go_bind (index_z vi) (fun z => ErOk (Some z)))
    | _ => ErOk None
    end.

  (* l = l op e *)
  Definition op_assign (en : goenv) (op : binop) (l : glval) (rhs : gores gvalue) : stres :=
    go_lift (lval_index en l) (fun idx =>
      go_lift (lval_read en l) (fun cur =>
        go_lift rhs (fun v =>
          go_lift (bin_op op cur v) (fun r => lval_write en l idx r)))).

  Definition go_leave (outer : goenv) (r : stres) : stres :=
    match r with
    | SrNext en' => SrNext (go_restore outer en')
    | SrBreak en' => SrBreak (go_restore outer en')
    | SrCont en' => SrCont (go_restore outer en')
    | _ => r
    end.

  Definition go_exec_atom (s : gstmt) (en : goenv) : stres :=
    match s with
    | StVar x t => match go_zero t with Some v => SrNext ((x, v) :: en) | None => SrStuck end
    | StDefine x e =>
      go_lift (go_eval en e) (fun v => match definable v with Some v' => SrNext ((x, v') :: en) | None => SrStuck end)
    | StAssign l e =>
      go_lift (lval_index en l) (fun idx => go_lift (go_eval en e) (fun v => lval_write en l idx v))
    | StOpAssign op l e => op_assign en op l (go_eval en e)
    | StInc l => op_assign en BAdd l (ErOk (GvConst 1))
    | StDec l => op_assign en BSub l (ErOk (GvConst 1))
    | StBreak => SrBreak en
    | StContinue => SrCont en
    | StReturn es => go_lift (go_evals en es) (fun vs => SrRet vs en)
    | StPanic _ => SrPanic
    | StExpr e =>
      match e with
      | ExCall f args =>
        go_lift (go_evals en args) (fun vs =>
          if has_bytes vs then SrStuck
          else match call f vs with
               | GOk _ _ => SrNext en
               | GPanic => SrPanic | GFuel => SrFuel | GStuck => SrStuck
               end)
      | _ => go_lift (go_eval en e) (fun _ => SrNext en)
      end
    | _ => SrStuck
    end.

  Fixpoint go_exec (s : gstmt) (en : goenv) {struct s} : stres :=
    let blk := fix blk (b : list gstmt) (en : goenv) {struct b} : stres :=
        match b with
        | [] => SrNext en
        | s' :: b' => match go_exec s' en with SrNext en' => blk b' en' | r => r end
        end in
    let block := fun (b : list gstmt) (en : goenv) => go_leave en (blk b en) in
    match s with
    | StIf c a b =>
      go_lift (go_eval en c) (fun v =>
        match v with GvBool true => block a en | GvBool false => block b en | _ => SrStuck end)
    | StFor init c post body =>
      go_leave en
        (match blk init en with
         | SrNext en1 =>
           (fix loop (fuel : nat) (en : goenv) {struct fuel} : stres :=
              match fuel with
              | O => SrFuel
              | S f =>
                go_lift (match c with Some ce => go_eval en ce | None => ErOk (GvBool true) end) (fun v =>
                  match v with
                  | GvBool false => SrNext en
                  | GvBool true =>
                    match block body en with
                    | SrNext en' | SrCont en' =>
                      match blk post en' with SrNext en'' => loop f en'' | SrBreak _ | SrCont _ => SrStuck | r => r end
                    | SrBreak en' => SrNext en'
                    | r => r
                    end
                  | _ => SrStuck
                  end)
              end) lfuel en1
         | SrBreak _ | SrCont _ => SrStuck
         | r => r
         end)
    | StSwitch tag cases dflt =>
      go_lift (go_eval en tag) (fun vt =>
        let finish := fun (r : stres) => match r with SrBreak en' => SrNext en' | _ => r end in
        (fix find (cs : list (list gexpr * list gstmt)) {struct cs} : stres :=
           match cs with
           | [] => match dflt with Some d => finish (block d en) | None => SrNext en end
           | (ks, body) :: cs' =>
             match (fix anyeq (ks : list gexpr) {struct ks} : gores bool :=
                      match ks with
                      | [] => ErOk false
                      | k :: ks' =>
                        go_bind (go_eval en k) (fun vk =>
                          go_bind (bin_op BEq vt vk) (fun r =>
                            match r with GvBool true => ErOk true | GvBool false => anyeq ks' | _ => ErStuck end))
                      end) ks with
             | ErOk true => finish (block body en)
             | ErOk false => find cs'
             | ErPanic => SrPanic | ErFuel => SrFuel | ErStuck => SrStuck
             end
           end) cases)
    | _ => go_exec_atom s en
    end.

  Fixpoint go_block (b : list gstmt) (en : goenv) {struct b} : stres :=
    match b with
    | [] => SrNext en
    | s :: b' => match go_exec s en with SrNext en' => go_block b' en' | r => r end
    end.
End Interp.

Fixpoint find_fun (fs : list fundecl) (f : gname) : option fundecl :=
  match fs with
  | [] => None
  | d :: t => if str_eq (fn_name d) f then Some d else find_fun t f
  end.

(* the environment of a body is  <locals, innermost first> ++ <named results> ++ <parameters in declaration order>, so the
   parameters are always its last entries *)
Fixpoint bind_params (ps : list (gname * gotype)) (args : list gvalue) : option goenv :=
  match ps, args with
  | [], [] => Some []
  | (x, g) :: ps', v :: args' =>
    match coerce g v, bind_params ps' args' with
    | Some v', Some en => Some ((x, v') :: en)
    | _, _ => None
    end
  | _, _ => None
  end.
Fixpoint bind_results (rs : list (gname * gotype)) : option goenv :=
  match rs with
  | [] => Some []
  | (x, g) :: rs' =>
    if str_eq x "" then bind_results rs'                       (* an unnamed result is not a variable *)
    else match go_zero g, bind_results rs' with
         | Some v, Some en => Some ((x, v) :: en)
         | _, _ => None
         end
  end.
Fixpoint coerce_results (rs : list (gname * gotype)) (vs : list gvalue) : option (list gvalue) :=
  match rs, vs with
  | [], [] => Some []
  | (_, g) :: rs', v :: vs' =>
    match coerce g v, coerce_results rs' vs' with
    | Some v', Some l => Some (v' :: l)
    | _, _ => None
    end
  | _, _ => None
  end.
Definition final_params (n : nat) (en : goenv) : list gvalue := map snd (skipn (List.length en - n) en).
Fixpoint named_results (rs : list (gname * gotype)) (en : goenv) : option (list gvalue) :=
  match rs with
  | [] => Some []
  | (x, _) :: rs' =>
    match go_get x en, named_results rs' en with
    | Some v, Some l => Some (v :: l)
    | _, _ => None
    end
  end.

Fixpoint go_run (p : program) (genv : goenv) (lfuel : nat) (depth : nat) (f : gname) (args : list gvalue) {struct depth} : gres :=
  match depth with
  | O => GFuel
  | S d =>
    match find_fun (pg_funs p) f with
    | None => GStuck
    | Some fd =>
      match bind_params (fn_params fd) args, bind_results (fn_results fd) with
      | Some pen, Some ren =>
        let np := List.length (fn_params fd) in
        match go_block genv (go_run p genv lfuel d) lfuel (fn_body fd) (ren ++ pen) with
        | SrRet vs en' =>
          let vs' := match vs with
                     | [] => named_results (fn_results fd) en'               (* bare return: the named results *)
                     | _ => Some vs
                     end in
          match vs' with
          | Some l => match coerce_results (fn_results fd) l with Some rets => GOk rets (final_params np en') | None => GStuck end
          | None => GStuck
          end
        | SrNext en' => match fn_results fd with [] => GOk [] (final_params np en') | _ => GStuck end   (* missing return *)
        | SrBreak _ | SrCont _ => GStuck
        | SrPanic => GPanic
        | SrFuel => GFuel
        | SrStuck => GStuck
        end
      | _, _ => GStuck
      end
    end
  end.

(* package-level constants and variables: each initialiser evaluated on its own (no reference to another one, no call) *)
Definition genv_of (p : program) : goenv :=
  flat_map (fun xe => match go_eval [] (fun _ _ => GStuck) [] (snd xe) with ErOk v => [(fst xe, v)] | _ => [] end) (pg_globals p).

Definition run_fun (p : program) (lfuel depth : nat) (f : gname) (args : list gvalue) : gres :=
  go_run p (genv_of p) lfuel depth f args.

(* ---- decidable equality of programs and values --------------------------------------------------------------------- *)
Definition gotype_eqb (a b : gotype) : bool :=
  match a, b with
  | GoInt x, GoInt y => ity_eqb x y
  | GoBool, GoBool | GoBytes, GoBytes | GoError, GoError => true
  | GoNamed x, GoNamed y | GoPtr x, GoPtr y => str_eq x y
  | _, _ => false
  end.
Definition unop_eqb (a b : unop) : bool :=
  match a, b with UNeg, UNeg | UNot, UNot | UCompl, UCompl => true | _, _ => false end.
Definition binop_code (o : binop) : nat :=
  match o with
  | BAdd => 0 | BSub => 1 | BMul => 2 | BDiv => 3 | BRem => 4 | BShl => 5 | BShr => 6 | BAnd => 7 | BOr => 8 | BXor => 9
  | BAndNot => 10 | BEq => 11 | BNe => 12 | BLt => 13 | BLe => 14 | BGt => 15 | BGe => 16 | BLAnd => 17 | BLOr => 18
  end%nat.
Definition binop_eqb (a b : binop) : bool := Nat.eqb (binop_code a) (binop_code b).

Fixpoint gexpr_eqb (a b : gexpr) {struct a} : bool :=
  let leq := fix leq (l l' : list gexpr) {struct l} : bool :=
      match l, l' with
      | [], [] => true
      | x :: t, y :: t' => gexpr_eqb x y && leq t t'
      | _, _ => false
      end in
  match a, b with
  | ExConst x, ExConst y => x =? y
  | ExStr x, ExStr y => str_eq x y
  | ExTrue, ExTrue | ExFalse, ExFalse | ExNil, ExNil => true
  | ExVar x, ExVar y => str_eq x y
  | ExQual p n, ExQual p' n' => str_eq p p' && str_eq n n'
  | ExSel e f, ExSel e' f' => gexpr_eqb e e' && str_eq f f'
  | ExUn o e, ExUn o' e' => unop_eqb o o' && gexpr_eqb e e'
  | ExBin o x y, ExBin o' x' y' => binop_eqb o o' && gexpr_eqb x x' && gexpr_eqb y y'
  | ExConv t e, ExConv t' e' => ity_eqb t t' && gexpr_eqb e e'
  | ExLen e, ExLen e' => gexpr_eqb e e'
  | ExIndex s i, ExIndex s' i' => gexpr_eqb s s' && gexpr_eqb i i'
  | ExCall f l, ExCall f' l' => str_eq f f' && leq l l'
  | ExPkgCall p f l, ExPkgCall p' f' l' => str_eq p p' && str_eq f f' && leq l l'
  | ExMethod r m l, ExMethod r' m' l' => gexpr_eqb r r' && str_eq m m' && leq l l'
  | ExDeref e, ExDeref e' => gexpr_eqb e e'
  | ExAddr e, ExAddr e' => gexpr_eqb e e'
  | ExLit t fs, ExLit t' fs' =>
    str_eq t t' &&
    (fix feq (l l' : list (gname * gexpr)) {struct l} : bool :=
       match l, l' with
       | [], [] => true
       | (k, x) :: r, (k', y) :: r' => str_eq k k' && gexpr_eqb x y && feq r r'
       | _, _ => false
       end) fs fs'
  | _, _ => false
  end.
Fixpoint gexprs_eqb (l l' : list gexpr) {struct l} : bool :=
  match l, l' with
  | [], [] => true
  | x :: t, y :: t' => gexpr_eqb x y && gexprs_eqb t t'
  | _, _ => false
  end.
Definition lval_eqb (a b : glval) : bool :=
  match a, b with
  | LvVar x, LvVar y => str_eq x y
  | LvIndex x i, LvIndex y j => str_eq x y && gexpr_eqb i j
  | LvField x f, LvField y g => str_eq x y && str_eq f g
  | _, _ => false
  end.
Definition ogexpr_eqb (a b : option gexpr) : bool :=
  match a, b with Some x, Some y => gexpr_eqb x y | None, None => true | _, _ => false end.

Fixpoint gstmt_eqb (s t : gstmt) {struct s} : bool :=
  let peq := fix peq (a b : list gstmt) {struct a} : bool :=
      match a, b with
      | [], [] => true
      | x :: a', y :: b' => gstmt_eqb x y && peq a' b'
      | _, _ => false
      end in
  match s, t with
  | StVar x g, StVar x' g' => str_eq x x' && gotype_eqb g g'
  | StDefine x e, StDefine x' e' => str_eq x x' && gexpr_eqb e e'
  | StAssign l e, StAssign l' e' => lval_eqb l l' && gexpr_eqb e e'
  | StOpAssign o l e, StOpAssign o' l' e' => binop_eqb o o' && lval_eqb l l' && gexpr_eqb e e'
  | StInc l, StInc l' | StDec l, StDec l' => lval_eqb l l'
  | StIf c a b, StIf c' a' b' => gexpr_eqb c c' && peq a a' && peq b b'
  | StFor i c p b, StFor i' c' p' b' => peq i i' && ogexpr_eqb c c' && peq p p' && peq b b'
  | StSwitch e cs d, StSwitch e' cs' d' =>
    gexpr_eqb e e' &&
    (fix ceq (l l' : list (list gexpr * list gstmt)) {struct l} : bool :=
       match l, l' with
       | [], [] => true
       | (ks, b) :: r, (ks', b') :: r' => gexprs_eqb ks ks' && peq b b' && ceq r r'
       | _, _ => false
       end) cs cs' &&
    match d, d' with Some x, Some y => peq x y | None, None => true | _, _ => false end
  | StBreak, StBreak | StContinue, StContinue => true
  | StReturn l, StReturn l' => gexprs_eqb l l'
  | StPanic e, StPanic e' => gexpr_eqb e e'
  | StExpr e, StExpr e' => gexpr_eqb e e'
  | _, _ => false
  end.
Fixpoint gstmts_eqb (a b : list gstmt) {struct a} : bool :=
  match a, b with
  | [], [] => true
  | x :: a', y :: b' => gstmt_eqb x y && gstmts_eqb a' b'
  | _, _ => false
  end.
Fixpoint sig_eqb (a b : list (gname * gotype)) : bool :=
  match a, b with
  | [], [] => true
  | (x, g) :: a', (y, h) :: b' => str_eq x y && gotype_eqb g h && sig_eqb a' b'
  | _, _ => false
  end.
Definition fundecl_eqb (a b : fundecl) : bool :=
  str_eq (fn_name a) (fn_name b) && sig_eqb (fn_params a) (fn_params b) && sig_eqb (fn_results a) (fn_results b)
  && gstmts_eqb (fn_body a) (fn_body b).

Definition ostr_eqb (a b : option gname) : bool :=
  match a, b with Some x, Some y => str_eq x y | None, None => true | _, _ => false end.
Fixpoint value_eqb (a b : gvalue) {struct a} : bool :=
  let feq := fix feq (l l' : list (gname * gvalue)) {struct l} : bool :=
      match l, l' with
      | [], [] => true
      | (k, x) :: t, (k', y) :: t' => str_eq k k' && value_eqb x y && feq t t'
      | _, _ => false
      end in
  match a, b with
  | GvConst x, GvConst y => x =? y
  | GvInt t x, GvInt t' y => ity_eqb t t' && (x =? y)
  | GvBool x, GvBool y => Bool.eqb x y
  | GvNil, GvNil => true
  | GvBytes x, GvBytes y => gf_bytes_eqb x y
  | GvRec x, GvRec y => feq x y
  | GvPtr (Some x), GvPtr (Some y) => feq x y
  | GvPtr None, GvPtr None => true
  | GvErr x, GvErr y => ostr_eqb x y
  | GvTime x, GvTime y => x =? y
  | GvOpaque x, GvOpaque y => str_eq x y
  | _, _ => false
  end.
Fixpoint values_eqb (a b : list gvalue) : bool :=
  match a, b with
  | [], [] => true
  | x :: a', y :: b' => value_eqb x y && values_eqb a' b'
  | _, _ => false
  end.
Definition gres_eqb (a b : gres) : bool :=
  match a, b with
  | GOk r p, GOk r' p' => values_eqb r r' && values_eqb p p'
  | GPanic, GPanic | GFuel, GFuel | GStuck, GStuck => true
  | _, _ => false
  end.

(* ======================================================================================================================
   The canonical programs: /repo/runtime/runtime.go and /repo/support/timepb/cmp.go transcribed once (the terms below are
   what the translator harness/cmd/runner/gofun.go prints for the current source, laid out by hand, the repeated pieces of
   Skip and of the two marshal option builders named; the driver checks on every run that the freshly translated
   declarations are equal to these constants).
   ====================================================================================================================== *)
Local Open Scope gname_scope.

(* ---- runtime/runtime.go ---------------------------------------------------------------------------------------------- *)

(* func Sov(x uint64) (n int) { return (bits.Len64(x|1) + 6) / 7 } *)
Definition canon_Sov : fundecl :=
  {| fn_name := "Sov"; fn_params := [("x", GoInt TUint64)]; fn_results := [("n", GoInt TInt)];
     fn_body := [StReturn [ExBin BDiv (ExBin BAdd (ExPkgCall "bits" "Len64" [ExBin BOr (ExVar "x") (ExConst 1)]) (ExConst 6)) (ExConst 7)]] |}.

(* func Soz(x uint64) (n int) { return Sov((x << 1) ^ uint64(int64(x)>>63)) } *)
Definition canon_Soz : fundecl :=
  {| fn_name := "Soz"; fn_params := [("x", GoInt TUint64)]; fn_results := [("n", GoInt TInt)];
     fn_body := [StReturn [ExCall "Sov" [ExBin BXor (ExBin BShl (ExVar "x") (ExConst 1))
                                                 (ExConv TUint64 (ExBin BShr (ExConv TInt64 (ExVar "x")) (ExConst 63)))]]] |}.

(* func EncodeVarint(dAtA []byte, offset int, v uint64) int {
     offset -= Sov(v)
     base := offset
     for v >= 1<<7 { dAtA[offset] = uint8(v&0x7f | 0x80); v >>= 7; offset++ }
     dAtA[offset] = uint8(v)
     return base } *)
Definition canon_EncodeVarint : fundecl :=
  {| fn_name := "EncodeVarint"; fn_params := [("dAtA", GoBytes); ("offset", GoInt TInt); ("v", GoInt TUint64)];
     fn_results := [("", GoInt TInt)];
     fn_body :=
       [StOpAssign BSub (LvVar "offset") (ExCall "Sov" [ExVar "v"]);
        StDefine "base" (ExVar "offset");
        StFor [] (Some (ExBin BGe (ExVar "v") (ExBin BShl (ExConst 1) (ExConst 7)))) []
          [StAssign (LvIndex "dAtA" (ExVar "offset")) (ExConv TUint8 (ExBin BOr (ExBin BAnd (ExVar "v") (ExConst 127)) (ExConst 128)));
           StOpAssign BShr (LvVar "v") (ExConst 7);
           StInc (LvVar "offset")];
        StAssign (LvIndex "dAtA" (ExVar "offset")) (ExConv TUint8 (ExVar "v"));
        StReturn [ExVar "base"]] |}.

(* the two guards that open every varint loop of Skip:
     if shift >= 64 { return 0, ErrIntOverflow }
     if iNdEx >= l { return 0, io.ErrUnexpectedEOF } *)
Definition skip_guards : list gstmt :=
  [StIf (ExBin BGe (ExVar "shift") (ExConst 64)) [StReturn [ExConst 0; ExVar "ErrIntOverflow"]] [];
   StIf (ExBin BGe (ExVar "iNdEx") (ExVar "l")) [StReturn [ExConst 0; ExQual "io" "ErrUnexpectedEOF"]] []].
(* for shift := uint(0); ; shift += 7 { <guards> <rest> } *)
Definition skip_varint_for (rest : list gstmt) : gstmt :=
  StFor [StDefine "shift" (ExConv TUint (ExConst 0))] None [StOpAssign BAdd (LvVar "shift") (ExConst 7)] (skip_guards ++ rest).
(* b := dAtA[iNdEx]; iNdEx++; <target> |= (<T>(b) & 0x7F) << shift; if b < 0x80 { break } *)
Definition skip_accumulate (target : gname) (t : ity) : list gstmt :=
  [StDefine "b" (ExIndex (ExVar "dAtA") (ExVar "iNdEx"));
   StInc (LvVar "iNdEx");
   StOpAssign BOr (LvVar target) (ExBin BShl (ExBin BAnd (ExConv t (ExVar "b")) (ExConst 127)) (ExVar "shift"));
   StIf (ExBin BLt (ExVar "b") (ExConst 128)) [StBreak] []].

(* func Skip(dAtA []byte) (n int, err error) {
     l := len(dAtA); iNdEx := 0; depth := 0
     for iNdEx < l {
       var wire uint64
       for shift := uint(0); ; shift += 7 { <guards>; b := dAtA[iNdEx]; iNdEx++; wire |= (uint64(b) & 0x7F) << shift; if b < 0x80 { break } }
       wireType := int(wire & 0x7)
       switch wireType {
       case 0: for shift := uint(0); ; shift += 7 { <guards>; iNdEx++; if dAtA[iNdEx-1] < 0x80 { break } }
       case 1: iNdEx += 8
       case 2: var length int
               for shift := uint(0); ; shift += 7 { <guards>; b := dAtA[iNdEx]; iNdEx++; length |= (int(b) & 0x7F) << shift; if b < 0x80 { break } }
               if length < 0 { return 0, ErrInvalidLength }
               iNdEx += length
       case 3: depth++
       case 4: if depth == 0 { return 0, ErrUnexpectedEndOfGroup }
               depth--
       case 5: iNdEx += 4
       default: return 0, fmt.Errorf("proto: illegal wireType %d", wireType)
       }
       if iNdEx < 0 { return 0, ErrInvalidLength }
       if depth == 0 { return iNdEx, nil }
     }
     return 0, io.ErrUnexpectedEOF } *)
Definition canon_Skip : fundecl :=
  {| fn_name := "Skip"; fn_params := [("dAtA", GoBytes)]; fn_results := [("n", GoInt TInt); ("err", GoError)];
     fn_body :=
       [StDefine "l" (ExLen (ExVar "dAtA"));
        StDefine "iNdEx" (ExConst 0);
        StDefine "depth" (ExConst 0);
        StFor [] (Some (ExBin BLt (ExVar "iNdEx") (ExVar "l"))) []
          [StVar "wire" (GoInt TUint64);
           skip_varint_for (skip_accumulate "wire" TUint64);
           StDefine "wireType" (ExConv TInt (ExBin BAnd (ExVar "wire") (ExConst 7)));
           StSwitch (ExVar "wireType")
             [([ExConst 0],
               [skip_varint_for
                  [StInc (LvVar "iNdEx");
                   StIf (ExBin BLt (ExIndex (ExVar "dAtA") (ExBin BSub (ExVar "iNdEx") (ExConst 1))) (ExConst 128)) [StBreak] []]]);
              ([ExConst 1], [StOpAssign BAdd (LvVar "iNdEx") (ExConst 8)]);
              ([ExConst 2],
               [StVar "length" (GoInt TInt);
                skip_varint_for (skip_accumulate "length" TInt);
                StIf (ExBin BLt (ExVar "length") (ExConst 0)) [StReturn [ExConst 0; ExVar "ErrInvalidLength"]] [];
                StOpAssign BAdd (LvVar "iNdEx") (ExVar "length")]);
              ([ExConst 3], [StInc (LvVar "depth")]);
              ([ExConst 4],
               [StIf (ExBin BEq (ExVar "depth") (ExConst 0)) [StReturn [ExConst 0; ExVar "ErrUnexpectedEndOfGroup"]] [];
                StDec (LvVar "depth")]);
              ([ExConst 5], [StOpAssign BAdd (LvVar "iNdEx") (ExConst 4)])]
             (Some [StReturn [ExConst 0; ExPkgCall "fmt" "Errorf" [ExStr "proto: illegal wireType %d"; ExVar "wireType"]]]);
           StIf (ExBin BLt (ExVar "iNdEx") (ExConst 0)) [StReturn [ExConst 0; ExVar "ErrInvalidLength"]] [];
           StIf (ExBin BEq (ExVar "depth") (ExConst 0)) [StReturn [ExVar "iNdEx"; ExNil]] []];
        StReturn [ExConst 0; ExQual "io" "ErrUnexpectedEOF"]] |}.

(* proto.MarshalOptions{NoUnkeyedLiterals: input.NoUnkeyedLiterals, AllowPartial: true,
     Deterministic: input.Flags&protoiface.MarshalDeterministic != 0, UseCachedSize: input.Flags&protoiface.MarshalUseCachedSize != 0} *)
Definition marshal_options_lit : gexpr :=
  ExLit "proto.MarshalOptions"
    [("NoUnkeyedLiterals", ExSel (ExVar "input") "NoUnkeyedLiterals");
     ("AllowPartial", ExTrue);
     ("Deterministic", ExBin BNe (ExBin BAnd (ExSel (ExVar "input") "Flags") (ExQual "protoiface" "MarshalDeterministic")) (ExConst 0));
     ("UseCachedSize", ExBin BNe (ExBin BAnd (ExSel (ExVar "input") "Flags") (ExQual "protoiface" "MarshalUseCachedSize")) (ExConst 0))].
(* func SizeInputToOptions(input protoiface.SizeInput) proto.MarshalOptions { return <the literal> } *)
Definition canon_SizeInputToOptions : fundecl :=
  {| fn_name := "SizeInputToOptions"; fn_params := [("input", GoNamed "protoiface.SizeInput")];
     fn_results := [("", GoNamed "proto.MarshalOptions")]; fn_body := [StReturn [marshal_options_lit]] |}.
(* func MarshalInputToOptions(input protoiface.MarshalInput) proto.MarshalOptions { return <the same literal> } *)
Definition canon_MarshalInputToOptions : fundecl :=
  {| fn_name := "MarshalInputToOptions"; fn_params := [("input", GoNamed "protoiface.MarshalInput")];
     fn_results := [("", GoNamed "proto.MarshalOptions")]; fn_body := [StReturn [marshal_options_lit]] |}.

(* func UnmarshalInputToOptions(input protoiface.UnmarshalInput) proto.UnmarshalOptions {
     limit := input.Depth - 1
     if limit <= 0 { limit = -1 }
     return proto.UnmarshalOptions{RecursionLimit: limit, NoUnkeyedLiterals: input.NoUnkeyedLiterals, Merge: true, AllowPartial: true,
       DiscardUnknown: input.Flags&protoiface.UnmarshalDiscardUnknown != 0, Resolver: input.Resolver} } *)
Definition canon_UnmarshalInputToOptions : fundecl :=
  {| fn_name := "UnmarshalInputToOptions"; fn_params := [("input", GoNamed "protoiface.UnmarshalInput")];
     fn_results := [("", GoNamed "proto.UnmarshalOptions")];
     fn_body :=
       [StDefine "limit" (ExBin BSub (ExSel (ExVar "input") "Depth") (ExConst 1));
        StIf (ExBin BLe (ExVar "limit") (ExConst 0)) [StAssign (LvVar "limit") (ExUn UNeg (ExConst 1))] [];
        StReturn [ExLit "proto.UnmarshalOptions"
                   [("RecursionLimit", ExVar "limit");
                    ("NoUnkeyedLiterals", ExSel (ExVar "input") "NoUnkeyedLiterals");
                    ("Merge", ExTrue);
                    ("AllowPartial", ExTrue);
                    ("DiscardUnknown", ExBin BNe (ExBin BAnd (ExSel (ExVar "input") "Flags") (ExQual "protoiface" "UnmarshalDiscardUnknown")) (ExConst 0));
                    ("Resolver", ExSel (ExVar "input") "Resolver")]]] |}.

(* var ( ErrInvalidLength = fmt.Errorf("…"); ErrIntOverflow = …; ErrUnexpectedEndOfGroup = …; ErrRecursionDepth = … ) *)
Definition canon_var_ErrInvalidLength : gname * gexpr :=
  ("ErrInvalidLength", ExPkgCall "fmt" "Errorf" [ExStr "proto: negative length found during unmarshaling"]).
Definition canon_var_ErrIntOverflow : gname * gexpr :=
  ("ErrIntOverflow", ExPkgCall "fmt" "Errorf" [ExStr "proto: integer overflow"]).
Definition canon_var_ErrUnexpectedEndOfGroup : gname * gexpr :=
  ("ErrUnexpectedEndOfGroup", ExPkgCall "fmt" "Errorf" [ExStr "proto: unexpected end of group"]).
Definition canon_var_ErrRecursionDepth : gname * gexpr :=
  ("ErrRecursionDepth", ExPkgCall "fmt" "Errorf" [ExStr "proto: exceeded max recursion depth"]).

Definition canon_runtime : program :=
  {| pg_globals := [canon_var_ErrInvalidLength; canon_var_ErrIntOverflow; canon_var_ErrUnexpectedEndOfGroup; canon_var_ErrRecursionDepth];
     pg_funs := [canon_Sov; canon_Soz; canon_EncodeVarint; canon_Skip;
                 canon_SizeInputToOptions; canon_MarshalInputToOptions; canon_UnmarshalInputToOptions] |}.
(* the names of the declarations in source order, as the translator lists them *)
Definition canon_runtime_decls : list gname :=
  ["Sov"; "Soz"; "EncodeVarint"; "Skip"; "SizeInputToOptions"; "MarshalInputToOptions"; "UnmarshalInputToOptions";
   "var:ErrInvalidLength"; "var:ErrIntOverflow"; "var:ErrUnexpectedEndOfGroup"; "var:ErrRecursionDepth"].

(* ---- support/timepb/cmp.go ------------------------------------------------------------------------------------------- *)

(* func IsZero(t *tspb.Timestamp) bool { return t == nil } *)
Definition canon_IsZero : fundecl :=
  {| fn_name := "IsZero"; fn_params := [("t", GoPtr "tspb.Timestamp")]; fn_results := [("", GoBool)];
     fn_body := [StReturn [ExBin BEq (ExVar "t") ExNil]] |}.

(* func Compare(t1, t2 *tspb.Timestamp) int {
     if t1 == nil || t2 == nil { panic(fmt.Sprint("Can't compare nil time, t1=", t1, "t2=", t2)) }
     if t1.Seconds == t2.Seconds && t1.Nanos == t2.Nanos { return 0 }
     if t1.Seconds < t2.Seconds || t1.Seconds == t2.Seconds && t1.Nanos < t2.Nanos { return -1 }
     return 1 } *)
Definition canon_Compare : fundecl :=
  {| fn_name := "Compare"; fn_params := [("t1", GoPtr "tspb.Timestamp"); ("t2", GoPtr "tspb.Timestamp")]; fn_results := [("", GoInt TInt)];
     fn_body :=
       [StIf (ExBin BLOr (ExBin BEq (ExVar "t1") ExNil) (ExBin BEq (ExVar "t2") ExNil))
          [StPanic (ExPkgCall "fmt" "Sprint" [ExStr "Can't compare nil time, t1="; ExVar "t1"; ExStr "t2="; ExVar "t2"])] [];
        StIf (ExBin BLAnd (ExBin BEq (ExSel (ExVar "t1") "Seconds") (ExSel (ExVar "t2") "Seconds"))
                        (ExBin BEq (ExSel (ExVar "t1") "Nanos") (ExSel (ExVar "t2") "Nanos")))
          [StReturn [ExConst 0]] [];
        StIf (ExBin BLOr (ExBin BLt (ExSel (ExVar "t1") "Seconds") (ExSel (ExVar "t2") "Seconds"))
                       (ExBin BLAnd (ExBin BEq (ExSel (ExVar "t1") "Seconds") (ExSel (ExVar "t2") "Seconds"))
                                   (ExBin BLt (ExSel (ExVar "t1") "Nanos") (ExSel (ExVar "t2") "Nanos"))))
          [StReturn [ExUn UNeg (ExConst 1)]] [];
        StReturn [ExConst 1]] |}.

(* func DurationIsNegative(d *durpb.Duration) bool { return d.Seconds < 0 || d.Seconds == 0 && d.Nanos < 0 } *)
Definition canon_DurationIsNegative : fundecl :=
  {| fn_name := "DurationIsNegative"; fn_params := [("d", GoPtr "durpb.Duration")]; fn_results := [("", GoBool)];
     fn_body := [StReturn [ExBin BLOr (ExBin BLt (ExSel (ExVar "d") "Seconds") (ExConst 0))
                                    (ExBin BLAnd (ExBin BEq (ExSel (ExVar "d") "Seconds") (ExConst 0))
                                                (ExBin BLt (ExSel (ExVar "d") "Nanos") (ExConst 0)))]] |}.

(* func AddStd(t *tspb.Timestamp, d time.Duration) *tspb.Timestamp {
     if t == nil { return nil }
     if d == 0 { t2 := *t; return &t2 }
     t2 := tspb.New(t.AsTime().Add(d))
     overflowPanic(t, t2, d < 0)
     return t2 } *)
Definition canon_AddStd : fundecl :=
  {| fn_name := "AddStd"; fn_params := [("t", GoPtr "tspb.Timestamp"); ("d", GoNamed "time.Duration")];
     fn_results := [("", GoPtr "tspb.Timestamp")];
     fn_body :=
       [StIf (ExBin BEq (ExVar "t") ExNil) [StReturn [ExNil]] [];
        StIf (ExBin BEq (ExVar "d") (ExConst 0)) [StDefine "t2" (ExDeref (ExVar "t")); StReturn [ExAddr (ExVar "t2")]] [];
        StDefine "t2" (ExPkgCall "tspb" "New" [ExMethod (ExMethod (ExVar "t") "AsTime" []) "Add" [ExVar "d"]]);
        StExpr (ExCall "overflowPanic" [ExVar "t"; ExVar "t2"; ExBin BLt (ExVar "d") (ExConst 0)]);
        StReturn [ExVar "t2"]] |}.

(* func overflowPanic(t1, t2 *tspb.Timestamp, negative bool) {
     cmp := Compare(t1, t2)
     if negative { if cmp < 0 { panic("time overflow") } } else { if cmp > 0 { panic("time overflow") } } } *)
Definition canon_overflowPanic : fundecl :=
  {| fn_name := "overflowPanic";
     fn_params := [("t1", GoPtr "tspb.Timestamp"); ("t2", GoPtr "tspb.Timestamp"); ("negative", GoBool)]; fn_results := [];
     fn_body :=
       [StDefine "cmp" (ExCall "Compare" [ExVar "t1"; ExVar "t2"]);
        StIf (ExVar "negative")
          [StIf (ExBin BLt (ExVar "cmp") (ExConst 0)) [StPanic (ExStr "time overflow")] []]
          [StIf (ExBin BGt (ExVar "cmp") (ExConst 0)) [StPanic (ExStr "time overflow")] []]] |}.

(* const second = int32(time.Second) *)
Definition canon_const_second : gname * gexpr := ("second", ExConv TInt32 (ExQual "time" "Second")).

(* func Add(t *tspb.Timestamp, d *durpb.Duration) *tspb.Timestamp {
     if t == nil { return nil }
     if d.Seconds == 0 && d.Nanos == 0 { t2 := *t; return &t2 }
     t2 := tspb.Timestamp{Seconds: t.Seconds + d.Seconds, Nanos: t.Nanos + d.Nanos}
     if t2.Nanos >= second { t2.Nanos -= second; t2.Seconds++ } else if t2.Nanos < 0 { t2.Nanos += second; t2.Seconds-- }
     overflowPanic(t, &t2, DurationIsNegative(d))
     return &t2 } *)
Definition canon_Add : fundecl :=
  {| fn_name := "Add"; fn_params := [("t", GoPtr "tspb.Timestamp"); ("d", GoPtr "durpb.Duration")];
     fn_results := [("", GoPtr "tspb.Timestamp")];
     fn_body :=
       [StIf (ExBin BEq (ExVar "t") ExNil) [StReturn [ExNil]] [];
        StIf (ExBin BLAnd (ExBin BEq (ExSel (ExVar "d") "Seconds") (ExConst 0)) (ExBin BEq (ExSel (ExVar "d") "Nanos") (ExConst 0)))
          [StDefine "t2" (ExDeref (ExVar "t")); StReturn [ExAddr (ExVar "t2")]] [];
        StDefine "t2" (ExLit "tspb.Timestamp"
                        [("Seconds", ExBin BAdd (ExSel (ExVar "t") "Seconds") (ExSel (ExVar "d") "Seconds"));
                         ("Nanos", ExBin BAdd (ExSel (ExVar "t") "Nanos") (ExSel (ExVar "d") "Nanos"))]);
        StIf (ExBin BGe (ExSel (ExVar "t2") "Nanos") (ExVar "second"))
          [StOpAssign BSub (LvField "t2" "Nanos") (ExVar "second"); StInc (LvField "t2" "Seconds")]
          [StIf (ExBin BLt (ExSel (ExVar "t2") "Nanos") (ExConst 0))
             [StOpAssign BAdd (LvField "t2" "Nanos") (ExVar "second"); StDec (LvField "t2" "Seconds")] []];
        StExpr (ExCall "overflowPanic" [ExVar "t"; ExAddr (ExVar "t2"); ExCall "DurationIsNegative" [ExVar "d"]]);
        StReturn [ExAddr (ExVar "t2")]] |}.

Definition canon_timepb : program :=
  {| pg_globals := [canon_const_second];
     pg_funs := [canon_IsZero; canon_Compare; canon_DurationIsNegative; canon_AddStd; canon_overflowPanic; canon_Add] |}.
Definition canon_timepb_decls : list gname :=
  ["IsZero"; "Compare"; "DurationIsNegative"; "AddStd"; "overflowPanic"; "const:second"; "Add"].

(* lookup for the driver: the canonical declaration the translator's <file> <decl> is compared with *)
Definition canon_program (file : gname) : option program :=
  if str_eq file "runtime/runtime.go" then Some canon_runtime
  else if str_eq file "support/timepb/cmp.go" then Some canon_timepb
  else None.
Definition canon_decls (file : gname) : list gname :=
  if str_eq file "runtime/runtime.go" then canon_runtime_decls
  else if str_eq file "support/timepb/cmp.go" then canon_timepb_decls
  else [].
Fixpoint find_global (gs : list (gname * gexpr)) (x : gname) : option (gname * gexpr) :=
  match gs with
  | [] => None
  | g :: t => if str_eq (fst g) x then Some g else find_global t x
  end.
Definition global_eqb (a b : gname * gexpr) : bool := str_eq (fst a) (fst b) && gexpr_eqb (snd a) (snd b).

(* ======================================================================================================================
   Target statements (for the proof task): for every input, interpreting the canonical program with enough fuel gives
   exactly the hand-written model's answer. Fuel enters exists-free: [lf] iterations per loop and [dp] levels of calls are
   ADDED to the stated minimum, so each statement holds for every amount of fuel from the minimum up.
   ====================================================================================================================== *)
Local Close Scope gname_scope.

Definition in_ity (t : ity) (z : Z) : Prop := ity_in t z = true.
Definition u64v (x : N) : gvalue := GvInt TUint64 (Z.of_N x).
Definition intv (z : Z) : gvalue := GvInt TInt z.
(* a Timestamp / Duration behind a non-nil pointer *)
Definition ts_ptr (t : ts) : gvalue := GvPtr (Some (ts_fields (secs t) (nanos t))).
Definition ts_typed (t : ts) : Prop := in_ity TInt64 (secs t) /\ in_ity TInt32 (nanos t).

(* what a Go caller can observe of a run: the returned values and the final contents of the []byte parameters *)
Definition is_bytes (v : gvalue) : bool := match v with GvBytes _ => true | _ => false end.
Definition observable (r : gres) : gres :=
  match r with GOk rets ps => GOk rets (filter is_bytes ps) | _ => r end.

(* --- runtime.go --- *)
Definition sov_prog_stmt : Prop :=
  forall (x : N) (lf dp : nat), (x < two64)%N ->
    run_fun canon_runtime lf (1 + dp) "Sov" [u64v x] = GOk [intv (Z.of_N (Sov x))] [u64v x].

Definition soz_prog_stmt : Prop :=
  forall (x : N) (lf dp : nat), (x < two64)%N ->
    run_fun canon_runtime lf (2 + dp) "Soz" [u64v x] = GOk [intv (Z.of_N (Soz x))] [u64v x].

(* EncodeVarint: same outcome (Panic included), same returned offset, same buffer. The loop body runs at most 9 times, the
   tenth unit of loop fuel is the last evaluation of `v >= 1<<7`. Hypothesis on the length: `offset -= Sov(v)` wraps for
   offset < MinInt64 + 10, to an index >= 2^63 - 10, which must still be out of range (Runtime.EncodeVarint does not wrap). *)
Definition encv_image (o : outcome (list byte * Z)) : gres :=
  match o with
  | Ok (b, base) => GOk [intv base] [GvBytes b]
  | Panic => GPanic
  | OutOfFuel => GFuel
  | Err => GStuck
  end.
Definition encodevarint_prog_stmt : Prop :=
  forall (buf : list byte) (off : Z) (v : N) (lf dp : nat),
    (v < two64)%N -> in_ity TInt off -> Z.of_nat (List.length buf) + 10 <= Z.of_N two63 ->
    observable (run_fun canon_runtime (10 + lf) (2 + dp) "EncodeVarint" [GvBytes buf; intv off; u64v v])
    = encv_image (EncodeVarint buf off v).

(* Skip: Ok n / Err / Panic as Runtime.Skip, whichever error value the Go code returns; the input is not written.
   Loop fuel: the outer loop consumes at least one byte per iteration (+1 for the last test of `iNdEx < l`), a varint loop
   returns ErrIntOverflow in its 11th iteration at the latest. Hypothesis on the length: `iNdEx += 8` must not wrap
   (Runtime.Skip's index is unbounded there): as in unmarshal_prog_correct_stmt. *)
Definition skip_view (r : gres) : option (outcome Z) :=
  match r with
  | GOk [GvInt TInt n; GvErr None] _ => Some (Ok n)
  | GOk [GvInt TInt 0; GvErr (Some _)] _ => Some Err
  | GOk _ _ => None
  | GPanic => Some Panic
  | GFuel => Some OutOfFuel
  | GStuck => None
  end.
Definition params_of (r : gres) : option (list gvalue) := match r with GOk _ ps => Some ps | _ => None end.
Definition skip_prog_stmt : Prop :=
  forall (bs : list byte) (lf dp : nat),
    Z.of_nat (List.length bs) + 8 < Z.of_N two63 ->
    let r := run_fun canon_runtime (11 + List.length bs + lf) (1 + dp) "Skip" [GvBytes bs] in
    skip_view r = Some (Skip bs) /\ (is_ok (Skip bs) = true \/ Skip bs = Err -> params_of r = Some [GvBytes bs]).

(* the option builders: what the generated closures read from the result *)
Local Open Scope gname_scope.
Definition marshal_input (nul : gvalue) (flags : Z) : gvalue :=
  GvRec [("NoUnkeyedLiterals", nul); ("Flags", GvInt TUint8 flags)].
Definition marshal_options_spec (nul : gvalue) (flags : Z) : gvalue :=
  GvRec [("NoUnkeyedLiterals", nul); ("AllowPartial", GvBool true);
        ("Deterministic", GvBool (negb (Z.land flags 1 =? 0)%Z));
        ("UseCachedSize", GvBool (negb (Z.land flags 2 =? 0)%Z))].
Definition unmarshal_input (nul res : gvalue) (flags depth : Z) : gvalue :=
  GvRec [("NoUnkeyedLiterals", nul); ("Flags", GvInt TUint8 flags); ("Resolver", res); ("Depth", GvInt TInt depth)].
(* the recursion budget handed to the children: input.Depth - 1, an exhausted budget as -1 (proto.UnmarshalOptions reads 0 as
   "default"); Decode.unmarshal_at's child runs at depth - 1 and fails iff that is <= 0: the same thing for depth > 0 *)
Definition child_limit (depth : Z) : Z := let l := wrap64 (depth - 1) in if (l <=? 0)%Z then -1 else l.
Definition unmarshal_options_spec (nul res : gvalue) (flags depth : Z) : gvalue :=
  GvRec [("RecursionLimit", GvInt TInt (child_limit depth)); ("NoUnkeyedLiterals", nul); ("Merge", GvBool true);
        ("AllowPartial", GvBool true); ("DiscardUnknown", GvBool (negb (Z.land flags 1 =? 0)%Z)); ("Resolver", res)].
Local Close Scope gname_scope.

Definition options_prog_stmt : Prop :=
  forall (a b : gname) (flags depth : Z) (lf dp : nat),
    in_ity TUint8 flags -> in_ity TInt depth ->
    let nul := GvOpaque a in
    let res := GvOpaque b in
    run_fun canon_runtime lf (1 + dp) "SizeInputToOptions" [marshal_input nul flags]
      = GOk [marshal_options_spec nul flags] [marshal_input nul flags] /\
    run_fun canon_runtime lf (1 + dp) "MarshalInputToOptions" [marshal_input nul flags]
      = GOk [marshal_options_spec nul flags] [marshal_input nul flags] /\
    run_fun canon_runtime lf (1 + dp) "UnmarshalInputToOptions" [unmarshal_input nul res flags depth]
      = GOk [unmarshal_options_spec nul res flags depth] [unmarshal_input nul res flags depth].
Definition child_limit_stmt : Prop :=
  forall depth, in_ity TInt depth -> 0 < depth ->
    (depth - 1 <= 0 -> child_limit depth = -1) /\ (0 < depth - 1 -> child_limit depth = depth - 1).

(* --- timepb/cmp.go --- *)
Definition ts_image (o : outcome ts) (ps : list gvalue) : gres :=
  match o with
  | Ok r => GOk [ts_ptr r] ps
  | Panic => GPanic
  | OutOfFuel => GFuel
  | Err => GStuck
  end.

Definition iszero_prog_stmt : Prop :=
  forall (p : option (list (gname * gvalue))) (lf dp : nat),
    run_fun canon_timepb lf (1 + dp) "IsZero" [GvPtr p]
    = GOk [GvBool (match p with None => true | Some _ => false end)] [GvPtr p].

Definition compare_prog_stmt : Prop :=
  forall (t1 t2 : ts) (lf dp : nat), ts_typed t1 -> ts_typed t2 ->
    run_fun canon_timepb lf (1 + dp) "Compare" [ts_ptr t1; ts_ptr t2] = GOk [intv (TsCompare t1 t2)] [ts_ptr t1; ts_ptr t2].
Definition compare_nil_prog_stmt : Prop :=
  forall (t : ts) (lf dp : nat),
    run_fun canon_timepb lf (1 + dp) "Compare" [GvPtr None; ts_ptr t] = GPanic /\
    run_fun canon_timepb lf (1 + dp) "Compare" [ts_ptr t; GvPtr None] = GPanic /\
    run_fun canon_timepb lf (1 + dp) "Compare" [GvPtr None; GvPtr None] = GPanic.

Definition durationisnegative_prog_stmt : Prop :=
  forall (d : ts) (lf dp : nat), ts_typed d ->
    run_fun canon_timepb lf (1 + dp) "DurationIsNegative" [ts_ptr d] = GOk [GvBool (DurationIsNegative d)] [ts_ptr d].

Definition overflowpanic_prog_stmt : Prop :=
  forall (t1 t2 : ts) (neg : bool) (lf dp : nat), ts_typed t1 -> ts_typed t2 ->
    run_fun canon_timepb lf (2 + dp) "overflowPanic" [ts_ptr t1; ts_ptr t2; GvBool neg]
    = if overflowPanic t1 t2 neg then GPanic else GOk [] [ts_ptr t1; ts_ptr t2; GvBool neg].

(* Add: all timestamps and durations in int64 x int32 (valid or not): the same result or Panic as TimePb.TsAdd; the operands are
   not written and the result is a new value (a pointer is a snapshot here: freshness itself is checked on the implementation) *)
Definition add_prog_stmt : Prop :=
  forall (t d : ts) (lf dp : nat), ts_typed t -> ts_typed d ->
    run_fun canon_timepb lf (3 + dp) "Add" [ts_ptr t; ts_ptr d] = ts_image (TsAdd t d) [ts_ptr t; ts_ptr d].
(* a nil timestamp gives nil whatever the duration; a nil duration panics *)
Definition add_nil_prog_stmt : Prop :=
  forall (t : ts) (p : option (list (gname * gvalue))) (lf dp : nat),
    run_fun canon_timepb lf (3 + dp) "Add" [GvPtr None; GvPtr p] = GOk [GvPtr None] [GvPtr None; GvPtr p] /\
    run_fun canon_timepb lf (3 + dp) "Add" [ts_ptr t; GvPtr None] = GPanic.

(* AddStd: where the library model is defined (|seconds| <= 2^62 keeps every intermediate far from the int64 bounds at which
   time.Time saturates): the same result or Panic as TimePb.TsAddStd *)
Definition addstd_prog_stmt : Prop :=
  forall (t : ts) (d : Z) (lf dp : nat), ts_typed t -> in_ity TInt64 d ->
    - 4611686018427387904 <= secs t <= 4611686018427387904 ->
    run_fun canon_timepb lf (3 + dp) "AddStd" [ts_ptr t; GvInt TInt64 d] = ts_image (TsAddStd t d) [ts_ptr t; GvInt TInt64 d].

(* ---- the statements on one case each, for the driver (laws evaluated on the cases of a run) --------------------------- *)
Definition sov_prog_law (x : N) : bool :=
  negb (x <? two64)%N || gres_eqb (run_fun canon_runtime 0 1 "Sov" [u64v x]) (GOk [intv (Z.of_N (Sov x))] [u64v x]).
Definition soz_prog_law (x : N) : bool :=
  negb (x <? two64)%N || gres_eqb (run_fun canon_runtime 0 2 "Soz" [u64v x]) (GOk [intv (Z.of_N (Soz x))] [u64v x]).
Definition encodevarint_prog_law (buf : list byte) (off : Z) (v : N) : bool :=
  negb ((v <? two64)%N && ity_in TInt off) ||
  gres_eqb (observable (run_fun canon_runtime 10 2 "EncodeVarint" [GvBytes buf; intv off; u64v v])) (encv_image (EncodeVarint buf off v)).
Definition outcome_z_eqb (a b : outcome Z) : bool :=
  match a, b with
  | Ok x, Ok y => x =? y
  | Err, Err | Panic, Panic | OutOfFuel, OutOfFuel => true
  | _, _ => false
  end.
Definition skip_prog_law (bs : list byte) : bool :=
  let r := run_fun canon_runtime (11 + List.length bs) 1 "Skip" [GvBytes bs] in
  match skip_view r with
  | Some o => outcome_z_eqb o (Skip bs)
  | None => false
  end &&
  match Skip bs, params_of r with
  | Ok _, Some ps | Err, Some ps => values_eqb ps [GvBytes bs]
  | Ok _, None | Err, None => false
  | _, _ => true
  end.
Definition options_prog_law (flags depth : Z) : bool :=
  negb (ity_in TUint8 flags && ity_in TInt depth) ||
  let nul := GvOpaque "nul" in
  let res := GvOpaque "res" in
  gres_eqb (run_fun canon_runtime 0 1 "SizeInputToOptions" [marshal_input nul flags])
           (GOk [marshal_options_spec nul flags] [marshal_input nul flags]) &&
  gres_eqb (run_fun canon_runtime 0 1 "MarshalInputToOptions" [marshal_input nul flags])
           (GOk [marshal_options_spec nul flags] [marshal_input nul flags]) &&
  gres_eqb (run_fun canon_runtime 0 1 "UnmarshalInputToOptions" [unmarshal_input nul res flags depth])
           (GOk [unmarshal_options_spec nul res flags depth] [unmarshal_input nul res flags depth]).
Definition ts_typedb (t : ts) : bool := ity_in TInt64 (secs t) && ity_in TInt32 (nanos t).
Definition compare_prog_law (t1 t2 : ts) : bool :=
  negb (ts_typedb t1 && ts_typedb t2) ||
  gres_eqb (run_fun canon_timepb 0 1 "Compare" [ts_ptr t1; ts_ptr t2]) (GOk [intv (TsCompare t1 t2)] [ts_ptr t1; ts_ptr t2]).
Definition durationisnegative_prog_law (d : ts) : bool :=
  negb (ts_typedb d) ||
  gres_eqb (run_fun canon_timepb 0 1 "DurationIsNegative" [ts_ptr d]) (GOk [GvBool (DurationIsNegative d)] [ts_ptr d]).
Definition overflowpanic_prog_law (t1 t2 : ts) (neg : bool) : bool :=
  negb (ts_typedb t1 && ts_typedb t2) ||
  gres_eqb (run_fun canon_timepb 0 2 "overflowPanic" [ts_ptr t1; ts_ptr t2; GvBool neg])
           (if overflowPanic t1 t2 neg then GPanic else GOk [] [ts_ptr t1; ts_ptr t2; GvBool neg]).
Definition add_prog_law (t d : ts) : bool :=
  negb (ts_typedb t && ts_typedb d) ||
  gres_eqb (run_fun canon_timepb 0 3 "Add" [ts_ptr t; ts_ptr d]) (ts_image (TsAdd t d) [ts_ptr t; ts_ptr d]).
Definition addstd_prog_law (t : ts) (d : Z) : bool :=
  negb (ts_typedb t && ity_in TInt64 d && (- 4611686018427387904 <=? secs t) && (secs t <=? 4611686018427387904)) ||
  gres_eqb (run_fun canon_timepb 0 3 "AddStd" [ts_ptr t; GvInt TInt64 d]) (ts_image (TsAddStd t d) [ts_ptr t; GvInt TInt64 d]).
