(* Model/Readers.v — definitions used by the statements of C10 (clients of the reflection API) and
   C11 (interleavings of read-only operations). Definitions only.

   client      an ADAPTIVE program over an API with operations A and outputs O: either a final answer
               or a call whose continuation receives the output (a well-founded interaction tree).
               proto.Equal, Clone, Merge, Reset, CheckInitialized, protojson and prototext are such
               programs over protoreflect.Message (DESIGN §6 C10).
   fclient     the same as a function from the list of outputs seen so far to the next operation or
               the final answer, run with fuel.
   is_read     the operations of Reflect.op that are reads.
   interleaving, run_sched, outputs_of    threads = lists of operations with closed operands; a
               schedule is a list of (thread id, operation) events whose projection on every thread
               id is that thread's list. *)
From CP Require Export Reflect.
Local Open Scope N_scope.

(* ---- clients ------------------------------------------------------------------------------ *)
Inductive client (A B R : Type) : Type :=
| Ret (r : R)
| Call (a : A) (k : B -> client A B R).
Arguments Ret {A B R} r.
Arguments Call {A B R} a k.

Section Run.
  Context {St A B : Type}.
  Variable stp : St -> A -> St * B.

  Fixpoint run_client {R} (c : client A B R) (s : St) {struct c} : St * R :=
    match c with
    | Ret r => (s, r)
    | Call a k => let (s', out) := stp s a in run_client (k out) s'
    end.

  (* outputs of a closed operation sequence *)
  Fixpoint outs (s : St) (ops : list A) {struct ops} : list B :=
    match ops with
    | [] => []
    | a :: ops' => let (s', out) := stp s a in out :: outs s' ops'
    end.

  (* function form: next operation (inl) or final answer (inr) from the outputs seen so far *)
  Fixpoint run_fclient {R} (fuel : nat) (f : list B -> A + R) (seen : list B) (s : St) {struct fuel}
    : St * option R :=
    match fuel with
    | O => (s, None)
    | S fu =>
      match f seen with
      | inr r => (s, Some r)
      | inl a => let (s', out) := stp s a in run_fclient fu f (seen ++ [out]) s'
      end
    end.

  (* n steps of a client: the residual tree *)
  Fixpoint advance {R} (n : nat) (c : client A B R) (s : St) {struct n} : St * client A B R :=
    match n with
    | O => (s, c)
    | S m =>
      match c with
      | Ret r => (s, c)
      | Call a k => let (s', out) := stp s a in advance m (k out) s'
      end
    end.
End Run.

Fixpoint tree_of {A B R} (fuel : nat) (f : list B -> A + R) (seen : list B) : client A B (option R) :=
  match fuel with
  | O => Ret None
  | S fu =>
    match f seen with
    | inr r => Ret (Some r)
    | inl a => Call a (fun out => tree_of fu f (seen ++ [out]))
    end
  end.

(* ---- read operations ------------------------------------------------------------------------ *)
Definition is_read (o : op) : bool :=
  match o with
  | OHas _ _ | OGet _ _ | OWhichOneof _ _ | ORange _ | OGetUnknown _ | OIsValid _
  | OLLen _ | OLGet _ _ | OMLen _ | OMHas _ _ | OMGet _ _ | OMRange _ => true
  | _ => false
  end.

(* a client all of whose calls are reads, whatever outputs it is given *)
Inductive reads_only {R} : client op pval R -> Prop :=
| ro_ret : forall r, reads_only (Ret r)
| ro_call : forall o k, is_read o = true -> (forall out, reads_only (k out)) -> reads_only (Call o k).

(* ---- threads with closed operands and their interleavings ------------------------------------- *)
Definition thread := list op.

Inductive interleaving : list thread -> list (nat * op) -> Prop :=
| il_done : forall ts, Forall (fun t => t = []) ts -> interleaving ts []
| il_step : forall ts i o rest sched,
    nth_error ts i = Some (o :: rest) ->
    interleaving (set_nth ts i rest) sched ->
    interleaving ts ((i, o) :: sched).

Section Sched.
  Variable sch : schema.

  Fixpoint run_thread (h : heap) (t : thread) {struct t} : heap * list pval :=
    match t with
    | [] => (h, [])
    | o :: t' => let (h', r) := step sch h o in let (h'', rs) := run_thread h' t' in (h'', r :: rs)
    end.

  Fixpoint run_sched (h : heap) (sched : list (nat * op)) {struct sched} : heap * list (nat * pval) :=
    match sched with
    | [] => (h, [])
    | (i, o) :: s' => let (h', r) := step sch h o in let (h'', evs) := run_sched h' s' in (h'', (i, r) :: evs)
    end.

  (* adaptive threads: one scheduling decision = the id of the thread that makes its next call *)
  Fixpoint run_sched_clients {R} (h : heap) (cs : list (client op pval R)) (sched : list nat) {struct sched}
    : heap * list (client op pval R) :=
    match sched with
    | [] => (h, cs)
    | i :: s' =>
      match nth_error cs i with
      | Some (Call o k) => let (h', r) := step sch h o in run_sched_clients h' (set_nth cs i (k r)) s'
      | _ => run_sched_clients h cs s'                      (* finished or absent thread: nothing happens *)
      end
    end.
End Sched.

Definition outputs_of (i : nat) (evs : list (nat * pval)) : list pval :=
  map snd (filter (fun e => Nat.eqb (fst e) i) evs).
Definition count_id (i : nat) (sched : list nat) : nat := length (filter (Nat.eqb i) sched).
