(* Model/LibSpec.v — what proto.Equal (protobuf-go v1.34.0, reflect/protoreflect/value_equal.go)
   decides, written on message VALUES (the Go struct states of Model/Schema.v), schema-directed.
   Definitions only.

   [canon (norm v1) = canon (norm v2)] (RefSpec) is NOT exactly this equivalence; it is strictly
   finer:
     - floats: Equal compares float VALUES, so +0 = -0 in list elements, map values and oneof
       payloads (a singular proto3 field holding -0 is populated, one holding +0 is not, so
       there they differ), and every NaN equals every NaN; canon compares bit patterns;
     - unknown fields: Equal compares them per field number (records of different numbers may
       be permuted), canon compares the raw bytes.
   Everything else coincides: nil and empty containers / bytes are identified, a nil list
   element, nil map value or oneof wrapper holding nil reads as the empty message, an unset
   singular message differs from a set empty one, maps are compared as sets of entries. *)
From CP Require Export Schema Codec Decode Wire WF RefSpec Runtime.
Local Open Scope N_scope.

Definition bytes_eqb (a b : list byte) : bool :=
  if list_eq_dec Byte.byte_eq_dec a b then true else false.

(* ---- floats as bit patterns ------------------------------------------------------------- *)
Definition f_is_nan (k : kind) (n : N) : bool :=
  match k with
  | KFloat => (N.land n 2139095040 =? 2139095040) && negb (N.land n 8388607 =? 0)
  | _ => (N.land n 9218868437227405312 =? 9218868437227405312) && negb (N.land n 4503599627370495 =? 0)
  end.
Definition f_is_zero (k : kind) (n : N) : bool :=
  match k with
  | KFloat => (n =? 0) || (n =? 2147483648)
  | _ => (n =? 0) || (n =? 9223372036854775808)
  end.
(* equalFloat: NaN = NaN; otherwise Go's ==, which on non-NaN patterns is bit equality up to the
   sign of zero *)
Definition eq_float (k : kind) (x y : N) : bool :=
  if f_is_nan k x || f_is_nan k y then f_is_nan k x && f_is_nan k y
  else (x =? y) || (f_is_zero k x && f_is_zero k y).

Definition eq_scalar (k : kind) (a b : val) : bool :=
  match k with
  | KFloat | KDouble => eq_float k (as_bits a) (as_bits b)
  | KString | KBytes => bytes_eqb (as_bytes a) (as_bytes b)          (* nil = empty *)
  | KBool => Bool.eqb (as_bool a) (as_bool b)
  | _ => (as_z a =? as_z b)%Z
  end.

(* ---- unknown fields: equalUnknown -------------------------------------------------------- *)
(* the records of a raw unknown-field string, as (field number, raw record); None if malformed
   (protowire.ConsumeField would report an error; the decoder never stores such bytes) *)
Fixpoint split_unknown (fuel : nat) (bs : list byte) : option (list (N * list byte)) :=
  match fuel with
  | O => None
  | S fu =>
    match bs with
    | [] => Some []
    | _ =>
      match dec_varint bs, Skip bs with
      | Some (tg, _, _), Ok n =>
        if (0 <? n)%Z then
          match split_unknown fu (skipn (Z.to_nat n) bs) with
          | Some rs => Some ((N.shiftr tg 3, firstn (Z.to_nat n) bs) :: rs)
          | None => None
          end
        else None
      | _, _ => None
      end
    end
  end.
Definition of_num (num : N) (rs : list (N * list byte)) : list byte :=
  flat_map (fun r => if fst r =? num then snd r else []) rs.
Definition equal_unknown (x y : list byte) : bool :=
  Nat.eqb (length x) (length y) &&
  (bytes_eqb x y ||
   match split_unknown (S (length x)) x, split_unknown (S (length y)) y with
   | Some rx, Some ry =>
     forallb (fun num => bytes_eqb (of_num num rx) (of_num num ry)) (map fst rx ++ map fst ry)
   | _, _ => false
   end).

(* ---- populated (Has) on a slot ------------------------------------------------------------ *)
Definition slot_has (f : field) (s : val) : bool :=
  match f_shape f with
  | Singular => match f_ty f with
                | TScalar k => present k s
                | TMsg _ => match s with VNil => false | _ => true end
                end
  | Rep _ => match s with VList (_ :: _) => true | _ => false end
  | MapOf _ => match s with VMap (_ :: _) => true | _ => false end
  | Member _ => match s with VSome _ => true | _ => false end
  end.

(* a message value that reads as the empty message: no populated field, no unknown bytes *)
Definition reads_empty (sch : schema) (mid : nat) (v : val) : bool :=
  match v with
  | VNil => true
  | VMsg slots unk =>
    match get_msg sch mid with
    | Some md =>
      (fix go (fs : list field) (ss : list val) {struct ss} : bool :=
         match ss, fs with
         | s :: ss', f :: fs' => negb (slot_has f s) && go fs' ss'
         | _, _ => true
         end) (m_fields md) slots && match unk with [] => true | _ => false end
    | None => false
    end
  | _ => false
  end.

Section Forall2b.
  Context {A B : Type}.
  Variable p : A -> B -> bool.
  Fixpoint forall2b (l1 : list A) (l2 : list B) {struct l1} : bool :=
    match l1 with
    | [] => match l2 with [] => true | _ => false end
    | a :: l1' => match l2 with [] => false | b :: l2' => p a b && forall2b l1' l2' end
    end.
End Forall2b.
Fixpoint kv_find (kvs : list (val * val)) (k : val) : option val :=
  match kvs with
  | [] => None
  | (k', v) :: t => if val_key_eqb k' k then Some v else kv_find t k
  end.

Section Equal.
  Variable sch : schema.

  (* list element / map value / oneof payload: a nil message reads as the empty message *)
  Definition eq_elem (rec : nat -> val -> val -> bool) (t : ftype) (a b : val) : bool :=
    match t with
    | TScalar k => eq_scalar k a b
    | TMsg m =>
      match a with
      | VNil => reads_empty sch m b
      | _ => match b with VNil => reads_empty sch m a | _ => rec m a b end
      end
    end.

  (* both slots populated *)
  Definition eq_slot (rec : nat -> val -> val -> bool) (f : field) (a b : val) : bool :=
    match f_shape f with
    | Singular => match f_ty f with
                  | TScalar k => eq_scalar k a b
                  | TMsg m => rec m a b
                  end
    | Rep _ => match a, b with
               | VList la, VList lb => forall2b (eq_elem rec (f_ty f)) la lb
               | _, _ => false
               end
    | Member _ => match a, b with
                  | VSome p, VSome q => eq_elem rec (f_ty f) p q
                  | _, _ => false
                  end
    | MapOf _ => match a, b with
                 | VMap ka, VMap kb =>
                   Nat.eqb (length ka) (length kb) &&
                   forallb (fun kv => match kv_find kb (fst kv) with
                                      | Some y => eq_elem rec (f_ty f) (snd kv) y
                                      | None => false
                                      end) ka
                 | _, _ => false
                 end
    end.

  Fixpoint equal_msg (mid : nat) (v1 v2 : val) {struct v1} : bool :=
    match v1, v2 with
    | VMsg s1 u1, VMsg s2 u2 =>
      match get_msg sch mid with
      | None => false
      | Some md =>
        (fix go (fs : list field) (ss1 ss2 : list val) {struct ss1} : bool :=
           match ss1, ss2, fs with
           | a :: ss1', b :: ss2', f :: fs' =>
             Bool.eqb (slot_has f a) (slot_has f b) &&
             (if slot_has f a then eq_slot equal_msg f a b else true) && go fs' ss1' ss2'
           | [], [], _ => true
           | _, _, _ => false
           end) (m_fields md) s1 s2 && equal_unknown u1 u2
      end
    | _, _ => false
    end.
End Equal.

(* Has of every declared field of a message value, in declaration order (what the "conc" engine
   observes from every concurrent reader; C11) *)
Definition has_vector (sch : schema) (mid : nat) (v : val) : list bool :=
  match v, get_msg sch mid with
  | VMsg slots _, Some md =>
    (fix go (fs : list field) (ss : list val) {struct ss} : list bool :=
       match ss, fs with
       | s :: ss', f :: fs' => slot_has f s :: go fs' ss'
       | _, _ => []
       end) (m_fields md) slots
  | _, _ => []
  end.
