(* Model/UnkOk.v — executable check that the unknown-field bytes carried by a message value, at
   every depth, are what a decoder stores there: a sequence of records that the reference parser
   (RefDecode.pw_tag / pw_skip_value) delimits, with legal numbers not declared by the message type.
   (This is what SetUnknown's contract requires and what decoding produces.) Definitions only. *)
From CP Require Export Schema Codec Decode WF RefDecode.
Local Open Scope N_scope.

Fixpoint unk_okb_aux (fuel : nat) (md : msgdesc) (bs : list byte) : bool :=
  match fuel with
  | O => false
  | S f =>
    match bs with
    | [] => true
    | _ =>
      match pw_tag bs with
      | None => false
      | Some (num, wt, r) =>
        match find_field (m_fields md) 0 (Z.of_N num) with
        | Some _ => false
        | None =>
          match pw_skip_value (S (length r)) num wt r with
          | Some r' => unk_okb_aux f md r'
          | None => false
          end
        end
      end
    end
  end.
Definition unk_okb (md : msgdesc) (bs : list byte) : bool := unk_okb_aux (S (length bs)) md bs.

Section U.
  Variable sch : schema.
  Definition uok_elem (rec : nat -> val -> bool) (t : ftype) (v : val) : bool :=
    match t with TScalar _ => true | TMsg m => match v with VNil => true | _ => rec m v end end.
  Definition uok_slot (rec : nat -> val -> bool) (f : field) (s : val) : bool :=
    match s with
    | VSome p => uok_elem rec (f_ty f) p
    | VList l => forallb (uok_elem rec (f_ty f)) l
    | VMap kvs => forallb (fun kv => uok_elem rec (f_ty f) (snd kv)) kvs
    | VMsg _ _ => uok_elem rec (f_ty f) s
    | _ => true
    end.
  Fixpoint unknowns_okb (mid : nat) (v : val) {struct v} : bool :=
    match v with
    | VMsg slots unk =>
      match get_msg sch mid with
      | None => false
      | Some md =>
        unk_okb md unk &&
        (fix go (fs : list field) (ss : list val) {struct ss} : bool :=
           match ss, fs with
           | s :: ss', f :: fs' => uok_slot unknowns_okb f s && go fs' ss'
           | _, _ => true
           end) (m_fields md) slots
      end
    | _ => true
    end.
End U.
