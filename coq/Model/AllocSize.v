(* Model/AllocSize.v — the logical size of a message value: one unit per node (scalar, wrapper, list, map entry, message
   slot table entry) plus one per byte held (strings, bytes, unknown fields). What the decoder allocates for its result is
   proportional to this. Definitions only. *)
From CP Require Export Schema Codec Decode WF.

Definition nsumn (l : list nat) : nat := fold_right Nat.add 0%nat l.

Fixpoint vsize (v : val) : nat :=
  match v with
  | VBytes l => S (length l)
  | VSome p => S (vsize p)
  | VMsg slots unk => S (length unk + nsumn (map vsize slots))
  | VList l => S (nsumn (map vsize l))
  | VMap kvs => S (nsumn (map (fun kv => S (vsize (fst kv) + vsize (snd kv))) kvs))
  | _ => 1%nat
  end.

Definition max_fields (sch : schema) : nat := fold_right (fun md acc => Nat.max (length (m_fields md)) acc) 0%nat sch.

(* the message decoding starts from: the caller's message under Merge, a fresh empty one otherwise *)
Definition start_msg (sch : schema) (mid : nat) (init : val) : val :=
  match init with
  | VMsg _ _ => init
  | _ => match get_msg sch mid with Some md => empty_msg md | None => VNil end
  end.
