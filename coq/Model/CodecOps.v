(* Model/CodecOps.v — the codec calls (Size, Marshal, Unmarshal) as operations on the heap of Go objects of
   Model/Reflect.v, for the frame / freshness theorems of C07.

   A message the caller holds is an object graph in a [heap] (generated structs with their cells, oneof
   interface slots and unknownFields; nil pointers, nil slices and nil maps are kept distinct from empty
   ones). [render] reads an object graph as the codec's value type [val]; [load] allocates the object graph
   of a value. The codec itself is the value-level model (Model/Codec.v, Model/Decode.v), which is what the
   runner compares with the generated Go code on every case.

     size_op / marshal_op    read the receiver (render) and run msg_size / pulsar_marshal on the value; they
                             return the heap they were given.
     unmarshal_op            proto.Unmarshal into a fresh message: pulsar_unmarshal (target VNil) on the bytes,
                             the result allocated by [load] at the end of the heap; on Err / Panic / OutOfFuel
                             the heap is returned as it was. The input byte string is an argument, it is not
                             stored in any heap entry.

   NOT modelled here: Unmarshal with Merge into an existing object. The generated code updates the target
   and every message reachable from it IN PLACE (nested singular / oneof messages are merged into, not
   replaced); a faithful heap-level merge needs an in-place traversal that is not a two-line composition of
   render / pulsar_unmarshal / load (loading the merged value afresh and overwriting the root would claim
   that the children of the target are untouched, which is false of the Go code). Merge is covered at value
   level by the [init] argument of pulsar_unmarshal (C03, C06 theorems). Definitions only. *)
From CP Require Export Reflect Extra.
Local Open Scope N_scope.

Definition size_op (sch : schema) (fuel : nat) (h : heap) (mid : nat) (p : option nat) : heap * N :=
  (h, msg_size sch mid (render sch fuel h p)).

Definition marshal_op (sch : schema) (det : bool) (fuel : nat) (h : heap) (mid : nat) (p : option nat)
  : heap * outcome (list byte) :=
  (h, pulsar_marshal sch det mid (render sch fuel h p)).

Definition unmarshal_op (sch : schema) (discard : bool) (fuel : nat) (h : heap) (mid : nat) (bs : list byte)
  : heap * outcome (option nat) :=
  match pulsar_unmarshal sch discard mid VNil bs with
  | Ok v => let (h', r) := load sch fuel h mid v in (h', Ok r)
  | Err => (h, Err)
  | Panic => (h, Panic)
  | OutOfFuel => (h, OutOfFuel)
  end.

(* ---- the object ids stored in a heap entry ------------------------------------------------------ *)
Definition ptrs_of_elem (e : elem) : list nat :=
  match e with EPtr (Some q) => [q] | _ => [] end.

Definition ptrs_of_cell (c : cell) : list nat :=
  match c with
  | CMsg (Some q) => [q]
  | CList (Some l) => flat_map ptrs_of_elem l
  | CMap (Some m) => flat_map (fun kv => ptrs_of_elem (snd kv)) m
  | _ => []
  end.

Definition ptrs_of_oneof (x : option (nat * elem)) : list nat :=
  match x with Some (_, e) => ptrs_of_elem e | None => [] end.

Definition ptrs_of_obj (o : obj) : list nat :=
  flat_map ptrs_of_cell (o_cells o) ++ flat_map ptrs_of_oneof (o_oneofs o).

Definition ptrs_of_entry (e : hent) : list nat :=
  match e with
  | HObj o => ptrs_of_obj o
  | HListVar (Some l) => flat_map ptrs_of_elem l
  | HMapVar (Some m) => flat_map (fun kv => ptrs_of_elem (snd kv)) m
  | _ => []
  end.

(* every object id stored in entry [i] of [h], for lo <= i < length h, lies in [lo, hi) *)
Definition region_closed (lo hi : nat) (h : heap) : Prop :=
  forall i e, (lo <= i)%nat -> nth_error h i = Some e -> Forall (fun q => (lo <= q < hi)%nat) (ptrs_of_entry e).

(* a heap without dangling or forward references: what every heap built by Reflect.step / load is *)
Definition heap_closed (h : heap) : Prop := region_closed 0 (length h) h.
