(* Model/TimePb.v — model of /repo/support/timepb/cmp.go (TsCompare, DurationIsNegative, TsAdd, TsAddStd).
   Seconds are int64, nanos int32: Z with the wrap written where Go arithmetic can wrap. *)
From CP Require Export Bytes.
Local Open Scope Z_scope.

Record ts := { secs : Z; nanos : Z }.            (* both Timestamp and Duration *)

Definition second : Z := 1000000000.
Definition inst (t : ts) : Z := secs t * second + nanos t.    (* the denoted instant / span, in ns *)

(* func TsCompare(t1, t2) int *)
Definition TsCompare (t1 t2 : ts) : Z :=
  if ((secs t1 =? secs t2) && (nanos t1 =? nanos t2))%bool then 0
  else if ((secs t1 <? secs t2) || ((secs t1 =? secs t2) && (nanos t1 <? nanos t2)))%bool then -1
  else 1.

Definition DurationIsNegative (d : ts) : bool :=
  ((secs d <? 0) || ((secs d =? 0) && (nanos d <? 0)))%bool.

(* overflowPanic: true = panics *)
Definition overflowPanic (t1 t2 : ts) (negative : bool) : bool :=
  let c := TsCompare t1 t2 in if negative then c <? 0 else 0 <? c.

(* func TsAdd(t *Timestamp, d *Duration) *Timestamp   (t non-nil) *)
Definition TsAdd (t d : ts) : outcome ts :=
  if ((secs d =? 0) && (nanos d =? 0))%bool then Ok t
  else
    let s := wrap64 (secs t + secs d) in
    let n := wrap32 (nanos t + nanos d) in
    let t2 :=
      if second <=? n then {| secs := wrap64 (s + 1); nanos := wrap32 (n - second) |}
      else if n <? 0 then {| secs := wrap64 (s - 1); nanos := wrap32 (n + second) |}
      else {| secs := s; nanos := n |} in
    if overflowPanic t t2 (DurationIsNegative d) then Panic else Ok t2.

(* durationpb.New(d time.Duration): truncated division *)
Definition dur_of_ns (d : Z) : ts := {| secs := Z.quot d second; nanos := Z.rem d second |}.

(* func TsAddStd(t, d time.Duration): tspb.New(t.AsTime().TsAdd(d)), modelled as exact arithmetic
   (time.Time represents every instant reachable from a valid Timestamp by an int64 ns offset) *)
Definition TsAddStd (t : ts) (d : Z) : outcome ts :=
  if d =? 0 then Ok t
  else
    let i := inst t + d in
    let t2 := {| secs := i / second; nanos := i mod second |} in
    if overflowPanic t t2 (d <? 0) then Panic else Ok t2.

(* validity as timestamppb / durationpb CheckValid define it *)
Definition valid_ts (t : ts) : Prop :=
  -62135596800 <= secs t <= 253402300799 /\ 0 <= nanos t < second.
Definition valid_dur (d : ts) : Prop :=
  -315576000000 <= secs d <= 315576000000 /\ - second < nanos d < second /\
  (0 < secs d -> 0 <= nanos d) /\ (secs d < 0 -> nanos d <= 0).
Definition normalised (t : ts) : Prop := 0 <= nanos t < second.
Definition int64 (z : Z) : Prop := - Z.of_N two63 <= z < Z.of_N two63.
