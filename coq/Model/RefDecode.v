(* Model/RefDecode.v — the reference decoder: what google.golang.org/protobuf v1.34 does for a
   message without fast-path methods (proto/decode.go unmarshalMessageSlow, unmarshalSingular,
   unmarshalList, unmarshalMap over the protowire.Consume functions), written in the tidy style of that code:
   every record is first delimited by the protowire parser (10-byte varints must not overflow,
   field numbers in 1..2^29-1, lengths within the buffer, group ends must match), packed runs and
   map entries are decoded inside their own payload, proto3 strings must be valid UTF-8.
   [strict = false] is protobuf-go itself (a known number with an unexpected wire type is kept as
   an unknown field); [strict = true] rejects such a record: a stream accepted in strict mode is a
   WELL-TYPED stream in the sense of property C03.
   Values use the same representation as Decode.v so that results can be compared by equality.
   Definitions only. *)
From CP Require Export Schema Codec Decode WF.
Local Open Scope N_scope.

(* ---- protowire ---------------------------------------------------------------------------- *)
(* ConsumeVarint: at most 10 bytes, the 10th may only contribute bit 63 *)
Fixpoint pw_varint_aux (fuel : nat) (shift acc : N) (bs : list byte) : option (N * list byte) :=
  match fuel with
  | O => None
  | S f =>
    match bs with
    | [] => None
    | b :: rest =>
      let v := b2n b in
      if v <? 128 then
        (if (Nat.eqb f 0 && (1 <? v))%bool then None else Some (acc + v * 2 ^ shift, rest))
      else pw_varint_aux f (shift + 7) (acc + (v - 128) * 2 ^ shift) rest
    end
  end.
Definition pw_varint (bs : list byte) : option (N * list byte) := pw_varint_aux 10 0 0 bs.

(* ConsumeTag + the MaxValidNumber check of the decoder *)
Definition pw_tag (bs : list byte) : option (N * N * list byte) :=
  match pw_varint bs with
  | None => None
  | Some (x, rest) =>
    let num := x / 8 in
    if (1 <=? num) && (num <? 536870912) then Some (num, x mod 8, rest) else None
  end.

Definition pw_take (n : nat) (bs : list byte) : option (list byte * list byte) :=
  if (length bs <? n)%nat then None else Some (firstn n bs, skipn n bs).

(* ConsumeBytes *)
Definition pw_bytes (bs : list byte) : option (list byte * list byte) :=
  match pw_varint bs with
  | None => None
  | Some (len, rest) =>
    if N.of_nat (length rest) <? len then None else pw_take (N.to_nat len) rest
  end.

(* ConsumeFieldValue: the rest after the value of a field with number [num] and wire type [wt];
   groups are delimited recursively and must be closed by an end tag with the same number *)
Fixpoint pw_skip_value (fuel : nat) (num wt : N) (bs : list byte) : option (list byte) :=
  match fuel with
  | O => None
  | S f =>
    if wt =? 0 then match pw_varint bs with Some (_, r) => Some r | None => None end
    else if wt =? 1 then match pw_take 8 bs with Some (_, r) => Some r | None => None end
    else if wt =? 5 then match pw_take 4 bs with Some (_, r) => Some r | None => None end
    else if wt =? 2 then match pw_bytes bs with Some (_, r) => Some r | None => None end
    else if wt =? 3 then
      (fix group (g : nat) (bs : list byte) : option (list byte) :=
         match g with
         | O => None
         | S g' =>
           match pw_varint bs with
           | None => None
           | Some (x, r) =>
             let num2 := x / 8 in
             let wt2 := x mod 8 in
             if (1 <=? num2) && (num2 <? 2147483648) then
               if wt2 =? 4 then (if num2 =? num then Some r else None)
               else match pw_skip_value f num2 wt2 r with
                    | Some r' => group g' r'
                    | None => None
                    end
             else None
           end
         end) (S (length bs)) bs
    else None                                                   (* end group as a value, reserved types *)
  end.

(* ---- UTF-8 (unicode/utf8.Valid) ------------------------------------------------------------ *)
Fixpoint utf8_valid_aux (fuel : nat) (bs : list byte) : bool :=
  match fuel with
  | O => true
  | S f =>
    match bs with
    | [] => true
    | b0 :: r0 =>
      let x := b2n b0 in
      let cont (lo hi : N) (l : list byte) : option (list byte) :=
        match l with c :: t => if (lo <=? b2n c) && (b2n c <=? hi) then Some t else None | [] => None end in
      if x <? 128 then utf8_valid_aux f r0
      else if (194 <=? x) && (x <=? 223) then
        match cont 128 191 r0 with Some r1 => utf8_valid_aux f r1 | None => false end
      else if (224 <=? x) && (x <=? 239) then
        let lo := if x =? 224 then 160 else 128 in
        let hi := if x =? 237 then 159 else 191 in
        match cont lo hi r0 with
        | Some r1 => match cont 128 191 r1 with Some r2 => utf8_valid_aux f r2 | None => false end
        | None => false
        end
      else if (240 <=? x) && (x <=? 244) then
        let lo := if x =? 240 then 144 else 128 in
        let hi := if x =? 244 then 143 else 191 in
        match cont lo hi r0 with
        | Some r1 => match cont 128 191 r1 with
                     | Some r2 => match cont 128 191 r2 with Some r3 => utf8_valid_aux f r3 | None => false end
                     | None => false
                     end
        | None => false
        end
      else false
    end
  end.
Definition utf8_valid (bs : list byte) : bool := utf8_valid_aux (S (length bs)) bs.

(* ---- unmarshalScalar: value of one scalar of kind k from the bytes after the tag ----------- *)
Inductive sres := SOk (v : val) (rest : list byte) | SErr | SUnknown.   (* errUnknown: wrong wire type *)

Definition ref_scalar (k : kind) (wt : N) (bs : list byte) : sres :=
  if negb (wt =? kind_wt k) then SUnknown
  else
    match k with
    | KDouble | KFixed64 | KSfixed64 =>
      match pw_take 8 bs with Some (p, r) => SOk (fixed_val k (dec_le p)) r | None => SErr end
    | KFloat | KFixed32 | KSfixed32 =>
      match pw_take 4 bs with Some (p, r) => SOk (fixed_val k (dec_le p)) r | None => SErr end
    | KString =>
      match pw_bytes bs with
      | Some (p, r) => if utf8_valid p then SOk (VBytes p) r else SErr
      | None => SErr
      end
    | KBytes => match pw_bytes bs with Some (p, r) => SOk (VBytes p) r | None => SErr end
    | _ => match pw_varint bs with Some (x, r) => SOk (varint_val k x) r | None => SErr end
    end.

Section Ref.
  Variable sch : schema.
  Variable discard : bool.
  Variable strict : bool.

  Definition rchild_t := nat -> val -> list byte -> outcome val.

  (* a packed run: elements decoded inside the run's own payload *)
  Fixpoint ref_packed (fuel : nat) (k : kind) (acc : val) (run : list byte) : outcome val :=
    match fuel with
    | O => OutOfFuel
    | S f =>
      match run with
      | [] => Ok acc
      | _ => match ref_scalar k (kind_wt k) run with
             | SOk v r => ref_packed f k (list_append acc v) r
             | _ => Err
             end
      end
    end.

  (* one value of type t: scalars by kind, messages through the child decoder on their payload *)
  Inductive ires := IOk (v : val) (rest : list byte) | IErr | IUnknown | IPanic | IFuel.
  Definition ref_item (child : rchild_t) (t : ftype) (wt : N) (target : val) (bs : list byte) : ires :=
    match t with
    | TScalar k => match ref_scalar k wt bs with SOk v r => IOk v r | SErr => IErr | SUnknown => IUnknown end
    | TMsg m =>
      if negb (wt =? WT_BYTES) then IUnknown
      else match pw_bytes bs with
           | None => IErr
           | Some (payload, r) =>
             match child m target payload with
             | Ok v => IOk v r
             | Err => IErr | Panic => IPanic | OutOfFuel => IFuel
             end
           end
    end.

  (* a map entry, decoded inside its own payload; unexpected wire types and other numbers are skipped *)
  Fixpoint ref_entry (child : rchild_t) (fuel : nat) (kk : kind) (t : ftype) (key value : val) (bs : list byte)
    : outcome (val * val) :=
    match fuel with
    | O => OutOfFuel
    | S f =>
      match bs with
      | [] => Ok (key, value)
      | _ =>
        match pw_tag bs with
        | None => Err
        | Some (num, wt, r) =>
          let skip (_ : unit) := match pw_skip_value (S (length r)) num wt r with
                      | Some r' => if strict && ((num =? 1) || (num =? 2)) then Err else ref_entry child f kk t key value r'
                      | None => Err
                      end in
          if num =? 1 then
            match ref_scalar kk wt r with
            | SOk v r' => ref_entry child f kk t v value r'
            | SErr => Err
            | SUnknown => skip tt
            end
          else if num =? 2 then
            match ref_item child t wt value r with
            | IOk v r' => ref_entry child f kk t key v r'
            | IErr => Err | IPanic => Panic | IFuel => OutOfFuel
            | IUnknown => skip tt
            end
          else skip tt
        end
      end
    end.

  Definition ref_field (child : rchild_t) (md : msgdesc) (idx : nat) (f : field) (wt : N)
             (msg : val) (bs : list byte) : ires :=
    let slots := slots_of msg in
    let unk := unk_of msg in
    let s := nth idx slots VNil in
    let t := f_ty f in
    let put v := VMsg (set_nth slots idx v) unk in
    match f_shape f with
    | Singular =>
      match ref_item child t wt s bs with
      | IOk v r => IOk (put v) r
      | other => other
      end
    | Member oi =>
      let target := match s with VSome p => p | _ => VNil end in
      match ref_item child t wt target bs with
      | IOk v r => IOk (VMsg (set_nth (clear_oneof (m_fields md) slots oi) idx (VSome v)) unk) r
      | other => other
      end
    | Rep _ =>
      match t with
      | TScalar k =>
        if packable k && (wt =? WT_BYTES) then
          match pw_bytes bs with
          | None => IErr
          | Some (run, r) =>
            match ref_packed (S (length run)) k s run with
            | Ok s' => IOk (put s') r
            | Err => IErr | Panic => IPanic | OutOfFuel => IFuel
            end
          end
        else match ref_scalar k wt bs with
             | SOk v r => IOk (put (list_append s v)) r
             | SErr => IErr
             | SUnknown => IUnknown
             end
      | TMsg _ =>
        match ref_item child t wt VNil bs with
        | IOk v r => IOk (put (list_append s v)) r
        | other => other
        end
      end
    | MapOf kk =>
      if negb (wt =? WT_BYTES) then IUnknown
      else match pw_bytes bs with
           | None => IErr
           | Some (entry, r) =>
             let kvs := match s with VMap kvs => kvs | _ => [] end in
             match ref_entry child (S (length entry)) kk t (zero_scalar kk) (map_value_init (get_msg sch) t) entry with
             | Ok (k, v) => IOk (put (VMap (map_set kvs k v))) r
             | Err => IErr | Panic => IPanic | OutOfFuel => IFuel
             end
           end
    end.

  Fixpoint ref_loop (child : rchild_t) (md : msgdesc) (fuel : nat) (msg : val) (bs : list byte) : outcome val :=
    match fuel with
    | O => OutOfFuel
    | S fu =>
      match bs with
      | [] => Ok msg
      | _ =>
        match pw_tag bs with
        | None => Err
        | Some (num, wt, r) =>
          let as_unknown (_ : unit) :=
            match pw_skip_value (S (length r)) num wt r with
            | None => Err
            | Some r' =>
              let raw := firstn (length bs - length r') bs in
              let msg' := if discard then msg else VMsg (slots_of msg) (unk_of msg ++ raw) in
              ref_loop child md fu msg' r'
            end in
          match find_field (m_fields md) 0 (Z.of_N num) with
          | None => as_unknown tt
          | Some (idx, f) =>
            match ref_field child md idx f wt msg r with
            | IOk msg' r' => ref_loop child md fu msg' r'
            | IErr => Err | IPanic => Panic | IFuel => OutOfFuel
            | IUnknown => if strict then Err else as_unknown tt
            end
          end
        end
      end
    end.

  Fixpoint ref_unmarshal_at (fuel : nat) (depth : Z) (mid : nat) (target : val) (bs : list byte) : outcome val :=
    match fuel with
    | O => OutOfFuel
    | S f =>
      if (depth <=? 0)%Z then Err
      else match get_msg sch mid with
           | None => Panic
           | Some md =>
             let init := match target with VMsg _ _ => target | _ => empty_msg md end in
             ref_loop (ref_unmarshal_at f (depth - 1)%Z) md (S (length bs)) init bs
           end
    end.

  Definition ref_unmarshal (mid : nat) (init : val) (bs : list byte) : outcome val :=
    ref_unmarshal_at (S (length bs)) recursion_limit mid init bs.
End Ref.
