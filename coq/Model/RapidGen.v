(* Model/RapidGen.v — model of /repo/rapidproto/rapidproto.go (MessageGenerator, setFields,
   setFieldValue, genScalarFieldValue, genTimestamp, genDuration, genAny, genFieldMask).

   Two artefacts:
   * [rapid_in_range vr o sch ann mid m : bool] (DESIGN §6 calls it in_range; Runtime.v owns that name) — "m can be produced by MessageGenerator for message type
     mid under options o": the generator with every random draw existentially quantified (ranges as
     in the code). It is an instance of the generic traversal [deep] (one walk over a message value
     along the schema, descending into Any payloads through the decoder model), so that every
     validity theorem is "rapid_in_range m -> deep Q m" for a property-specific family of local
     predicates Q.
   * [gen vr o sch ann mid tape] — the generator itself as a function of a tape of draws, written
     against the reflection operations the Go code performs (Mutable/Set/Clear/AppendMutable/
     Truncate, Map.Mutable/Clear on message VALUES, so that revisiting a map key merges into the
     existing value as the Go code does), recursion on fuel.

   Nesting: a message at generator depth d (root 0) is handled with fuel r = 12 - d.
   setFields succeeds iff d <= depthLimit = 10 iff r >= 2; r = 1 is reached only by a singular Any
   field of a depth-10 message (setFieldValue calls genAny directly, without the depth test).

   [variant] lists the places where the code, as first read, missed the property (DESIGN §10 D12 and
   the C18 findings), one flag per `fix:` commit of /repo; [current] is the code before them,
   [repaired] after them; [code_variant] is the one the correspondence check runs.
   Definitions only. *)
From CP Require Export Schema Codec Decode WF.
Local Open Scope N_scope.

(* ---- schema annotations the codec model does not need (RSCHEMA directive of the runner) ---- *)
Inductive wkt := WNone | WTimestamp | WDuration | WAny | WFieldMask.
Record fannot := { a_enum : list Z;            (* declared numbers, declaration order ([] unless enum) *)
                   a_iface : option nat }.     (* (cosmos_proto.accepts_interface): index of the interface *)
Record mannot := { a_name : list byte;         (* full name *)
                   a_wkt : wkt;
                   a_fields : list fannot }.   (* aligned with m_fields *)
Definition annots := list mannot.

(* ---- options ---------------------------------------------------------------------------- *)
(* a FieldMapper, as far as the generated value is concerned: for fields of kind k (enum numbers
   decl) it declines, always answers (values satisfying p; g = the value for a draw), or answers
   depending on a draw *)
Inductive fm_spec := FmNone | FmAlways (p : val -> bool) (g : N -> val) | FmMaybe (p : val -> bool) (g : N -> val).
Record gopts := { o_no_empty : bool;               (* NoEmptyLists *)
                  o_disallow_nil : bool;           (* DisallowNilMessages *)
                  o_any : list nat;                (* AnyTypeURLs, as message indexes ("/" ++ full name) *)
                  o_hints : list (option nat);     (* InterfaceHints: interface index -> message index *)
                  o_fmap : kind -> list Z -> fm_spec }.

Record variant := { v_fieldmask_stored : bool;     (* genFieldMask stores the list it built          (fcde2e4) *)
                    v_enum_by_number : bool;       (* enum value = number of the drawn index          (1730a5e) *)
                    v_any_container : bool;        (* setFields returns genAny's result               (a592b3e) *)
                    v_any_nil_field : bool;        (* genAny tolerates field == nil                   (3227b11) *)
                    v_list_truncate : bool;        (* a failed list element is removed: Truncate(Len()-1),
                                                      not Truncate(i) with the loop index             (0c6fe98) *)
                    v_root_draw : bool;            (* MessageGenerator draws a bool before setFields  (402bd9f) *)
                    v_list_clear : bool }.         (* a repeated field none of whose requested elements
                                                      survived is cleared, not left empty             (9f5602c) *)
(* the code before the `fix:` commits named above (kept: the refutations are regression witnesses) *)
Definition current : variant :=
  {| v_fieldmask_stored := false; v_enum_by_number := false; v_any_container := false; v_any_nil_field := false;
     v_list_truncate := false; v_root_draw := false; v_list_clear := false |}.
Definition repaired : variant :=
  {| v_fieldmask_stored := true; v_enum_by_number := true; v_any_container := true; v_any_nil_field := true;
     v_list_truncate := true; v_root_draw := true; v_list_clear := true |}.

(* which field descriptor genAny was handed: none (MessageGenerator, Any payload) or a field with
   or without accepts_interface *)
Inductive ictx := INoField | IField (ai : option nat).

Definition depth_limit : nat := 10.
Definition top_fuel : nat := 12.                   (* depthLimit + 2 *)

(* ---- UTF-8 validity (Go utf8.Valid: Unicode Table 3-7) --------------------------------- *)
Definition cont (b : byte) : bool := (128 <=? b2n b) && (b2n b <=? 191).
Definition in_rng (lo hi : N) (b : byte) : bool := (lo <=? b2n b) && (b2n b <=? hi).
Fixpoint utf8_valid (bs : list byte) : bool :=
  match bs with
  | [] => true
  | b0 :: t0 =>
    let n0 := b2n b0 in
    if n0 <? 128 then utf8_valid t0
    else if (194 <=? n0) && (n0 <=? 223) then
      match t0 with b1 :: t1 => cont b1 && utf8_valid t1 | _ => false end
    else if (224 <=? n0) && (n0 <=? 239) then
      match t0 with
      | b1 :: b2 :: t2 =>
        (if n0 =? 224 then in_rng 160 191 b1 else if n0 =? 237 then in_rng 128 159 b1 else cont b1)
        && cont b2 && utf8_valid t2
      | _ => false
      end
    else if (240 <=? n0) && (n0 <=? 244) then
      match t0 with
      | b1 :: b2 :: b3 :: t3 =>
        (if n0 =? 240 then in_rng 144 191 b1 else if n0 =? 244 then in_rng 128 143 b1 else cont b1)
        && cont b2 && cont b3 && utf8_valid t3
      | _ => false
      end
    else false
  end.

(* Unicode scalar values and their encoding (what rapid.String() is made of) *)
Definition scalar_value (c : N) : bool := (c <? 55296) || ((57344 <=? c) && (c <? 1114112)).
Definition utf8_encode (c : N) : list byte :=
  if c <? 128 then [n2b c]
  else if c <? 2048 then [n2b (192 + c / 64); n2b (128 + c mod 64)]
  else if c <? 65536 then [n2b (224 + c / 4096); n2b (128 + (c / 64) mod 64); n2b (128 + c mod 64)]
  else [n2b (240 + c / 262144); n2b (128 + (c / 4096) mod 64); n2b (128 + (c / 64) mod 64); n2b (128 + c mod 64)].

(* FieldMask paths: the regular expression [a-z]+([.][a-z]+){0,2} *)
Definition lower (b : byte) : bool := in_rng 97 122 b.
Fixpoint fm_path_aux (bs : list byte) (dots : nat) (seg_nonempty : bool) : bool :=
  match bs with
  | [] => seg_nonempty
  | b :: t =>
    if lower b then fm_path_aux t dots true
    else if b2n b =? 46 then
      match dots with O => false | S d => seg_nonempty && fm_path_aux t d false end
    else false
  end.
Definition fm_path_ok (bs : list byte) : bool := fm_path_aux bs 2 false.

(* ---- scalars ------------------------------------------------------------------------------ *)
(* rapid.Float32()/Float64() are Float*Range(-Max, Max): finite *)
Definition finite32 (n : N) : bool := (n <? two32) && negb ((n / 8388608) mod 256 =? 255).
Definition finite64 (n : N) : bool := (n <? two64) && negb ((n / 4503599627370496) mod 2048 =? 2047).

Definition declared (decl : list Z) (z : Z) : bool := existsb (Z.eqb z) decl.

Definition rg_scalar_default (vr : variant) (k : kind) (decl : list Z) (v : val) : bool :=
  match k, v with
  | KString, VBytes l => utf8_valid l
  | KString, _ => false
  | KFloat, VBits n => finite32 n
  | KDouble, VBits n => finite64 n
  | KEnum, VInt z =>
    in_range_z (-2147483648) 2147483648 z &&                      (* Int32Range / EnumNumber: an int32 *)
    if v_enum_by_number vr then declared decl z
    else ((0 <=? z) && (z <? Z.of_nat (length decl)))%Z          (* the drawn INDEX is used as number *)
  | _, _ => wt_scalar k v
  end.

Definition rg_scalar (vr : variant) (o : gopts) (k : kind) (decl : list Z) (v : val) : bool :=
  match o_fmap o k decl with
  | FmNone => rg_scalar_default vr k decl v
  | FmAlways p _ => p v
  | FmMaybe p _ => p v || rg_scalar_default vr k decl v
  end.

(* ---- small helpers ---------------------------------------------------------------------- *)
Fixpoint beqb (a b : list byte) : bool :=
  match a, b with
  | [], [] => true
  | x :: a', y :: b' => Byte.eqb x y && beqb a' b'
  | _, _ => false
  end.
Definition slash : byte := x2f.
Definition url_of (ma : mannot) : list byte := slash :: a_name ma.
Fixpoint find_idx {A} (p : A -> bool) (l : list A) (i : nat) : option nat :=
  match l with [] => None | x :: t => if p x then Some i else find_idx p t (S i) end.
Definition is_nilb {A} (l : list A) : bool := match l with [] => true | _ => false end.
Definition is_msgv (v : val) : bool := match v with VMsg _ _ => true | _ => false end.
Definition bytes_empty (v : val) : bool := match v with VBytes [] | VNil => true | _ => false end.
(* length of a repeated / map slot; None = not a container *)
Definition rep_len (s : val) : option (list val) := match s with VNil => Some [] | VList l => Some l | _ => None end.
Definition map_kvs (s : val) : option (list (val * val)) := match s with VNil => Some [] | VMap kvs => Some kvs | _ => None end.
Definition len_le {A} (l : list A) (bound : N) : bool := N.of_nat (length l) <=? bound.

(* equality of values without nested structure (all a default slot can hold) *)
Definition flat_eqb (a b : val) : bool :=
  match a, b with
  | VInt x, VInt y => (x =? y)%Z
  | VBool x, VBool y => Bool.eqb x y
  | VBits x, VBits y => x =? y
  | VBytes x, VBytes y => beqb x y
  | VNil, VNil => true
  | _, _ => false
  end.
Fixpoint flats_eqb (a b : list val) : bool :=
  match a, b with
  | [], [] => true
  | x :: a', y :: b' => flat_eqb x y && flats_eqb a' b'
  | _, _ => false
  end.
(* msgType.New() / AppendMutable(): every slot at its default *)
Definition fresh (sch : schema) (tm : nat) : val :=
  match get_msg sch tm with Some md => empty_msg md | None => VMsg [] [] end.
(* ... as it reads back: an unpopulated message, nil and empty containers / byte strings identified *)
Definition default_like (f : field) (s : val) : bool :=
  match f_shape f, f_ty f with
  | Singular, TScalar k => flat_eqb s (zero_scalar k) || (match k, s with KBytes, VBytes [] => true | _, _ => false end)
  | Singular, TMsg _ => match s with VNil => true | _ => false end
  | Rep _, _ => match s with VNil | VList [] => true | _ => false end
  | MapOf _, _ => match s with VNil | VMap [] => true | _ => false end
  | Member _, _ => match s with VNil => true | _ => false end
  end.
Fixpoint defaults_like (fs : list field) (ss : list val) : bool :=
  match fs, ss with
  | [], [] => true
  | f :: fs', s :: ss' => default_like f s && defaults_like fs' ss'
  | _, _ => false
  end.
Definition is_fresh (sch : schema) (tm : nat) (v : val) : bool :=
  match v, get_msg sch tm with
  | VMsg s u, Some md => is_nilb u && defaults_like (m_fields md) s
  | _, _ => false
  end.

(* f.Kind() == protoreflect.MessageKind: message-typed fields AND every map field *)
Definition msg_kind (f : field) : bool :=
  match f_shape f with MapOf _ => true | _ => match f_ty f with TMsg _ => true | _ => false end end.

(* ---- the generic traversal -------------------------------------------------------------- *)
(* local predicates: on every scalar item (singular, list element, map key/value, oneof payload),
   on every slot (shape level: r = fuel of the children, p = how often the message may have been
   revisited), on every message (fuel of its children, context, descriptor, slots, unknown bytes) *)
Record preds := { p_scalar : kind -> list Z -> val -> bool;
                  p_slot : nat -> N -> field -> fannot -> val -> bool;
                  p_msg : nat -> ictx -> mannot -> msgdesc -> list val -> list byte -> bool }.

Section Deep.
  Variable sch : schema.
  Variable ann : annots.
  Variable P : preds.

  Definition wkt_of (tm : nat) : wkt := match nth_error ann tm with Some ma => a_wkt ma | None => WNone end.
  Definition resolve (u : list byte) : option nat := find_idx (fun ma => beqb u (url_of ma)) ann 0%nat.

  Definition rec_t := N -> ictx -> nat -> val -> bool.

  Definition elem_deep (rec : rec_t) (pp : N) (f : field) (fa : fannot) (e : val) : bool :=
    match f_ty f with
    | TScalar k => p_scalar P k (a_enum fa) e
    | TMsg tm => match e with VNil => true | _ => rec pp (IField (a_iface fa)) tm e end
    end.

  Definition slot_deep (rec : rec_t) (r : nat) (p : N) (f : field) (fa : fannot) (s : val) : bool :=
    p_slot P r p f fa s &&
    match f_shape f with
    | Singular => elem_deep rec p f fa s
    | Rep _ =>
      (* message elements left behind at the depth limit (r < 2) were never populated: not walked,
         the range predicate says they are default messages *)
      match s, f_ty f with
      | VList l, TScalar _ => forallb (elem_deep rec 1 f fa) l
      | VList l, TMsg _ => if (2 <=? r)%nat then forallb (elem_deep rec 1 f fa) l else true
      | _, _ => true
      end
    | Member _ => match s with VSome e => elem_deep rec p f fa e | _ => true end
    | MapOf kk =>
      match s with
      | VMap kvs => forallb (fun kv => p_scalar P kk [] (fst kv) && elem_deep rec (10 * p) f fa (snd kv)) kvs
      | _ => true
      end
    end.

  Fixpoint slots_deep (rec : rec_t) (r : nat) (p : N) (fs : list field) (fas : list fannot) (ss : list val) : bool :=
    match fs, fas, ss with
    | f :: fs', fa :: fas', s :: ss' => slot_deep rec r p f fa s && slots_deep rec r p fs' fas' ss'
    | [], [], [] => true
    | _, _, _ => false
    end.

  (* the payload of an Any: the message the type URL names, decoded by the codec model *)
  Definition any_deep (rec : rec_t) (r : nat) (slots : list val) : bool :=
    match slots with
    | [VBytes u; vb] =>
      match resolve u with
      | Some tm =>
        if (2 <=? r)%nat then
          match pulsar_unmarshal sch false tm VNil (as_bytes vb) with
          | Ok v' => rec 1 INoField tm v'
          | _ => false
          end
        else true
      | None => true
      end
    | _ => true
    end.

  Fixpoint deep (r : nat) (p : N) (ic : ictx) (mid : nat) (v : val) {struct r} : bool :=
    match r with
    | O => false
    | S r' =>
      match get_msg sch mid, nth_error ann mid, v with
      | Some md, Some ma, VMsg slots unk =>
        p_msg P r' ic ma md slots unk &&
        match a_wkt ma with
        | WNone => slots_deep (deep r') r' p (m_fields md) (a_fields ma) slots
        | WAny => any_deep (deep r') r' slots
        | _ => true
        end
      | _, _, _ => false
      end
    end.
End Deep.

Definition is_any (ann : annots) (tm : nat) : bool := match wkt_of ann tm with WAny => true | _ => false end.

(* ---- the range of the generator ----------------------------------------------------------- *)
Section Range.
  Variable vr : variant.
  Variable o : gopts.
  Variable sch : schema.
  Variable ann : annots.

  Definition min_len : N := if o_no_empty o then 1 else 0.
  Definition has_urls : bool := negb (is_nilb (o_any o)).
  (* the bool draw can leave the field alone only for message-kind fields without DisallowNilMessages *)
  Definition forced (f : field) : bool := negb (msg_kind f && negb (o_disallow_nil o)).
  (* does generating a child message of type tm succeed; r = fuel of the child *)
  Definition child_ok_singular (r : nat) (tm : nat) : bool :=       (* setFieldValue: genAny directly *)
    if is_any ann tm then has_urls else (2 <=? r)%nat.
  Definition child_ok_container (r : nat) (tm : nat) : bool :=      (* through setFields *)
    (2 <=? r)%nat && (if is_any ann tm then has_urls || negb (v_any_container vr) else true).

  (* an EMPTY NON-NIL list (what a Go struct distinguishes from nil; renderings that cannot tell say
     nil): Mutable allocated it and nothing was appended: a drawn length of 0, or - before 9f5602c -
     requested elements that all failed *)
  Definition rep_exact_ok (all_fail : bool) (s : val) : bool :=
    match s with
    | VList [] => (min_len =? 0) || (negb (v_list_clear vr) && all_fail)
    | _ => true
    end.

  Definition rg_slot (r : nat) (p : N) (f : field) (fa : fannot) (s : val) : bool :=
    match f_shape f, f_ty f with
    | Singular, TScalar _ => true
    | Singular, TMsg tm =>
      match s with
      | VNil => negb (forced f) || negb (child_ok_singular r tm)
      | VMsg _ _ => child_ok_singular r tm
      | _ => false
      end
    | Rep _, TScalar _ =>
      rep_exact_ok false s &&
      match rep_len s with Some l => (min_len <=? N.of_nat (length l)) && len_le l (10 * p) | None => false end
    | Rep _, TMsg tm =>
      rep_exact_ok (negb (child_ok_container r tm)) s &&
      match rep_len s with
      | Some l =>
        if child_ok_container r tm then
          match l with
          | [] => negb (forced f) || (min_len =? 0)
          | _ => len_le l (10 * p) && forallb is_msgv l
          end
        else
          (* every element fails: Truncate(i) with the loop index i keeps the element just appended
             whenever i >= 1, so n draws leave n-1 unpopulated messages *)
          if v_list_truncate vr then is_nilb l else len_le l 9 && forallb (is_fresh sch tm) l
      | None => false
      end
    | Member _, TScalar _ => match s with VNil | VSome _ => true | _ => false end
    | Member _, TMsg tm =>
      match s with VNil => true | VSome (VMsg _ _) => child_ok_singular r tm | _ => false end
    | MapOf _, ty =>
      match map_kvs s with
      | Some kvs =>
        len_le kvs (10 * p) && nodup_keys (map fst kvs) &&
        match ty with
        | TScalar _ => true
        | TMsg tm => (is_nilb kvs || child_ok_container r tm) && forallb (fun kv => is_msgv (snd kv)) kvs
        end
      | None => false
      end
    end.

  (* which member of oneof oi can be the one that is set after a pass over the fields:
     None = no member. Members are visited in declaration order. *)
  Fixpoint oneof_reach (r : nat) (fs : list field) (i : nat) (oi : nat) (acc : list (option nat)) : list (option nat) :=
    match fs with
    | [] => acc
    | f :: fs' =>
      match f_shape f with
      | Member j =>
        if Nat.eqb j oi then
          let succ := match f_ty f with TScalar _ => true | TMsg tm => child_ok_singular r tm end in
          let out := if succ then Some i else None in
          oneof_reach r fs' (S i) oi (if forced f then [out] else out :: acc)
        else oneof_reach r fs' (S i) oi acc
      | _ => oneof_reach r fs' (S i) oi acc
      end
    end.
  Fixpoint oneof_state (fs : list field) (ss : list val) (i : nat) (oi : nat) : option nat :=
    match fs, ss with
    | f :: fs', s :: ss' =>
      match f_shape f, s with
      | Member j, VSome _ => if Nat.eqb j oi then Some i else oneof_state fs' ss' (S i) oi
      | _, _ => oneof_state fs' ss' (S i) oi
      end
    | _, _ => None
    end.
  Definition opt_nat_eqb (a b : option nat) : bool :=
    match a, b with Some x, Some y => Nat.eqb x y | None, None => true | _, _ => false end.
  Definition oneofs_ok (r : nat) (md : msgdesc) (slots : list val) : bool :=
    forallb (fun oi => (oneof_count (m_fields md) slots oi <=? 1)%nat &&
                       existsb (opt_nat_eqb (oneof_state (m_fields md) slots 0%nat oi))
                               (oneof_reach r (m_fields md) 0%nat oi [None]))
            (seq 0 (m_oneofs md)).

  (* which message types genAny may name *)
  Definition any_allowed (ic : ictx) (tm : nat) : bool :=
    match ic with
    | INoField => v_any_nil_field vr && existsb (Nat.eqb tm) (o_any o)   (* field.Options() on nil: panic *)
    | IField (Some ai) => match nth_error (o_hints o) ai with Some (Some t) => Nat.eqb t tm | _ => false end
    | IField None => existsb (Nat.eqb tm) (o_any o)
    end.

  Definition rg_msg (r : nat) (ic : ictx) (ma : mannot) (md : msgdesc) (slots : list val) (unk : list byte) : bool :=
    is_nilb unk &&
    match a_wkt ma with
    | WTimestamp =>
      match slots with
      | [VInt s; VInt n] => ((-9999999999 <=? s) && (s <=? 9999999999) && (0 <=? n) && (n <=? 999999999))%Z
      | _ => false
      end
    | WDuration =>
      match slots with
      | [VInt s; VInt n] => ((0 <=? s) && (s <=? 9223372035) && (0 <=? n) && (n <=? 999999999))%Z
      | _ => false
      end
    | WFieldMask =>
      match slots with
      | [s] =>
        match rep_len s with
        | Some l =>
          if v_fieldmask_stored vr
          then (1 <=? N.of_nat (length l)) && (N.of_nat (length l) <=? 5) &&
               forallb (fun e => match e with VBytes b => fm_path_ok b | _ => false end) l
          else is_nilb l                                  (* the list built is never stored *)
        | None => false
        end
      | _ => false
      end
    | WAny =>
      match slots with
      | [VBytes u; vb] =>
        match vb with VBytes _ | VNil => true | _ => false end &&
        if has_urls then
          match resolve ann u with
          | Some tm =>
            any_allowed ic tm &&
            (if (2 <=? r)%nat then is_ok (pulsar_unmarshal sch false tm VNil (as_bytes vb)) else bytes_empty vb)
          | None => false
          end
        else is_nilb u && bytes_empty vb                  (* genAny returned false: untouched *)
      | _ => false
      end
    | WNone => oneofs_ok r md slots
    end.

  Definition range_preds : preds :=
    {| p_scalar := rg_scalar vr o; p_slot := rg_slot; p_msg := rg_msg |}.

  Definition rapid_in_range_at (r : nat) (p : N) (ic : ictx) (mid : nat) (v : val) : bool :=
    deep sch ann range_preds r p ic mid v.
  Definition rapid_in_range (mid : nat) (v : val) : bool := rapid_in_range_at top_fuel 1 INoField mid v.
End Range.

(* annotations fit the schema: aligned, and the well-known types have the layout the special
   generators rely on (fields.ByName("seconds") ...) *)
Definition fld (n : N) (t : ftype) (s : shape) : field := {| f_num := n; f_ty := t; f_shape := s |}.
Definition field_eqb (a b : field) : bool :=
  (f_num a =? f_num b) &&
  match f_ty a, f_ty b with TScalar x, TScalar y => kind_eqb x y | TMsg x, TMsg y => Nat.eqb x y | _, _ => false end &&
  match f_shape a, f_shape b with
  | Singular, Singular => true
  | Rep x, Rep y => Bool.eqb x y
  | Member x, Member y => Nat.eqb x y
  | MapOf x, MapOf y => kind_eqb x y
  | _, _ => false
  end.
Fixpoint fields_eqb (a b : list field) : bool :=
  match a, b with
  | [], [] => true
  | x :: a', y :: b' => field_eqb x y && fields_eqb a' b'
  | _, _ => false
  end.
Definition wkt_layout (w : wkt) (fs : list field) : bool :=
  match w with
  | WNone => true
  | WTimestamp | WDuration => fields_eqb fs [fld 1 (TScalar KInt64) Singular; fld 2 (TScalar KInt32) Singular]
  | WAny => fields_eqb fs [fld 1 (TScalar KString) Singular; fld 2 (TScalar KBytes) Singular]
  | WFieldMask => fields_eqb fs [fld 1 (TScalar KString) (Rep false)]
  end.
Fixpoint ann_ok_aux (sch : schema) (ann : annots) : bool :=
  match sch, ann with
  | [], [] => true
  | md :: sch', ma :: ann' =>
    Nat.eqb (length (m_fields md)) (length (a_fields ma)) && wkt_layout (a_wkt ma) (m_fields md) && ann_ok_aux sch' ann'
  | _, _ => false
  end.
Definition ann_ok (sch : schema) (ann : annots) : bool := ann_ok_aux sch ann.

(* ---- the model of the code as it stands in /repo (all seven `fix:` commits are in) -------------- *)
Definition code_variant : variant := repaired.

(* ---- the validity properties, as families of local predicates for [deep] -------------------- *)
Definition true_scalar : kind -> list Z -> val -> bool := fun _ _ _ => true.
Definition true_slot : nat -> N -> field -> fannot -> val -> bool := fun _ _ _ _ _ => true.
Definition true_msg : nat -> ictx -> mannot -> msgdesc -> list val -> list byte -> bool := fun _ _ _ _ _ _ => true.

(* every string is valid UTF-8 *)
Definition utf8_preds : preds :=
  {| p_scalar := fun k _ v => match k with KString => match v with VBytes l => utf8_valid l | _ => false end | _ => true end;
     p_slot := true_slot; p_msg := true_msg |}.
(* timestamppb / durationpb CheckValid *)
Definition ts_valid (s n : Z) : bool :=
  ((-62135596800 <=? s) && (s <=? 253402300799) && (0 <=? n) && (n <? 1000000000))%Z.
Definition dur_valid (s n : Z) : bool :=
  ((-315576000000 <=? s) && (s <=? 315576000000) && (-1000000000 <? n) && (n <? 1000000000) &&
   (implb (0 <? s) (0 <=? n)) && (implb (s <? 0) (n <=? 0)))%Z.
Definition timestamp_preds : preds :=
  {| p_scalar := true_scalar; p_slot := true_slot;
     p_msg := fun _ _ ma _ slots _ =>
       match a_wkt ma with
       | WTimestamp => match slots with [VInt s; VInt n] => ts_valid s n | _ => false end
       | _ => true
       end |}.
Definition duration_preds : preds :=
  {| p_scalar := true_scalar; p_slot := true_slot;
     p_msg := fun _ _ ma _ slots _ =>
       match a_wkt ma with
       | WDuration => match slots with [VInt s; VInt n] => dur_valid s n | _ => false end
       | _ => true
       end |}.
(* every Any names a message type of the schema that the options offer, and its value decodes as it *)
Definition any_preds (o : gopts) (sch : schema) (ann : annots) : preds :=
  {| p_scalar := true_scalar; p_slot := true_slot;
     p_msg := fun r ic ma _ slots _ =>
       match a_wkt ma with
       | WAny =>
         match slots with
         | [VBytes u; vb] =>
           match resolve ann u with
           | Some tm =>
             (existsb (Nat.eqb tm) (o_any o) || existsb (fun h => match h with Some t => Nat.eqb t tm | None => false end) (o_hints o))
             && (* the payload of an Any at the nesting limit is beyond it: nothing is generated, the value is empty *)
                (if (2 <=? r)%nat then is_ok (pulsar_unmarshal sch false tm VNil (as_bytes vb)) else bytes_empty vb)
           | None => false
           end
         | _ => false
         end
       | _ => true
       end |}.
(* every FieldMask carries 1..5 paths of the drawn shape *)
Definition fieldmask_preds : preds :=
  {| p_scalar := true_scalar; p_slot := true_slot;
     p_msg := fun _ _ ma _ slots _ =>
       match a_wkt ma with
       | WFieldMask =>
         match slots with
         | [VList l] => (1 <=? N.of_nat (length l)) && (N.of_nat (length l) <=? 5) &&
                        forallb (fun e => match e with VBytes b => fm_path_ok b | _ => false end) l
         | _ => false
         end
       | _ => true
       end |}.
(* every enum field holds a number its enum declares *)
Definition enum_preds : preds :=
  {| p_scalar := fun k decl v => match k with KEnum => match v with VInt z => declared decl z | _ => false end | _ => true end;
     p_slot := true_slot; p_msg := true_msg |}.
(* NoEmptyLists: a list that is generated (always for scalar lists; for message lists when the field is
   not left alone and its elements are within the nesting limit) is not empty *)
Definition nonempty_slot (s : val) : bool := match s with VList (_ :: _) => true | _ => false end.
Definition no_empty_preds (vr : variant) (o : gopts) (ann : annots) : preds :=
  {| p_scalar := true_scalar;
     p_slot := fun r _ f _ s =>
       if o_no_empty o then
         match f_shape f, f_ty f with
         | Rep _, TScalar _ => nonempty_slot s
         | Rep _, TMsg tm => if forced o f && child_ok_container vr o ann r tm then nonempty_slot s else true
         | _, _ => true
         end
       else true;
     p_msg := true_msg |}.
(* ... and no repeated field holds an empty non-nil list, at any depth (what the option is for) *)
Definition no_empty_nonnil_preds (o : gopts) : preds :=
  {| p_scalar := true_scalar;
     p_slot := fun _ _ f _ s =>
       if o_no_empty o then match f_shape f, s with Rep _, VList [] => false | _, _ => true end else true;
     p_msg := true_msg |}.
(* DisallowNilMessages: a singular message field whose message can be generated is set *)
Definition disallow_nil_preds (o : gopts) (ann : annots) : preds :=
  {| p_scalar := true_scalar;
     p_slot := fun r _ f _ s =>
       if o_disallow_nil o then
         match f_shape f, f_ty f with
         | Singular, TMsg tm => if child_ok_singular o ann r tm then is_msgv s else true
         | _, _ => true
         end
       else true;
     p_msg := true_msg |}.
(* no nil message inside a list, a map or a oneof wrapper, whatever the options *)
Definition no_nil_elem_preds : preds :=
  {| p_scalar := true_scalar;
     p_slot := fun _ _ f _ s =>
       match f_ty f with
       | TScalar _ => true
       | TMsg _ =>
         match f_shape f, s with
         | Rep _, VList l => forallb is_msgv l
         | MapOf _, VMap kvs => forallb (fun kv => is_msgv (snd kv)) kvs
         | Member _, VSome p => is_msgv p
         | _, _ => true
         end
       end;
     p_msg := true_msg |}.
(* no Any below the root (what empty AnyTypeURLs gives) *)
Definition no_any_field_preds (ann : annots) : preds :=
  {| p_scalar := true_scalar;
     p_slot := fun _ _ f _ s =>
       match f_ty f with
       | TMsg tm => if is_any ann tm then match s with VNil | VList [] | VMap [] => true | _ => false end else true
       | TScalar _ => true
       end;
     p_msg := true_msg |}.
(* a FieldMapper that always answers is always obeyed *)
Definition mapper_preds (o : gopts) : preds :=
  {| p_scalar := fun k decl v => match o_fmap o k decl with FmAlways p _ => p v | _ => true end;
     p_slot := true_slot; p_msg := true_msg |}.

(* what the FieldMappers of the options answer satisfies R (a hypothesis of the theorems whose
   property a mapper could break: a mapper may return any protoreflect.Value) *)
Definition fmap_sound (o : gopts) (R : kind -> list Z -> val -> bool) : Prop :=
  forall k decl p g v, (o_fmap o k decl = FmAlways p g \/ o_fmap o k decl = FmMaybe p g) -> p v = true -> R k decl v = true.

(* the field mappers the runner uses (harness/cmd/runner/rapideng.go fieldMapper) *)
Definition mapped_strings : list (list byte) :=
  [ [x6d; x61; x70; x70; x65; x64; x2d; x61]; [x6d; x61; x70; x70; x65; x64; x2d; x62];
    [x6d; x61; x70; x70; x65; x64; x2d; xc3; xa9] ].
Definition fmap_of_id (id : nat) (k : kind) (decl : list Z) : fm_spec :=
  match id with
  | 1%nat =>
    match k with
    | KString => FmAlways (fun v => match v with VBytes b => existsb (beqb b) mapped_strings | _ => false end)
                          (fun x => VBytes (nth (N.to_nat (x mod 3)) mapped_strings []))
    | _ => FmNone
    end
  | 2%nat =>
    match k with
    | KInt32 | KSint32 | KSfixed32 =>
      FmAlways (fun v => match v with VInt z => ((1 <=? z) && (z <=? 5))%Z | _ => false end)
               (fun x => VInt (1 + Z.of_N (x mod 5)))
    | KEnum =>
      match decl with
      | [] => FmNone
      | _ => FmAlways (fun v => match v with VInt z => declared decl z | _ => false end)
                      (fun x => VInt (nth (N.to_nat (x mod N.of_nat (length decl))) decl 0%Z))
      end
    | KUint64 => FmMaybe (fun v => match v with VInt 42 => true | _ => false end) (fun _ => VInt 42)
    | _ => FmNone
    end
  | _ => FmNone
  end.

(* ================================================================================================
   The generator as a function of a tape of draws
   ================================================================================================ *)
Definition tape := list N.
Definition draw (tp : tape) : N * tape := match tp with [] => (0, []) | x :: t => (x, t) end.
(* rapid.IntRange(lo, hi) etc.: lo + x mod (hi - lo + 1) *)
Definition draw_z (lo hi : Z) (tp : tape) : Z * tape :=
  let (x, t) := draw tp in ((lo + Z.of_N x mod (hi - lo + 1))%Z, t).
Definition draw_n (lo hi : N) (tp : tape) : N * tape :=
  let (x, t) := draw tp in (lo + x mod (hi - lo + 1), t).
Definition draw_bool (tp : tape) : bool * tape := let (x, t) := draw tp in (N.odd x, t).

Definition rune_of (x : N) : N := let y := x mod 1112064 in if y <? 55296 then y else y + 2048.
(* n items, each produced from the tape *)
Fixpoint draw_many {A} (f : tape -> A * tape) (n : nat) (tp : tape) : list A * tape :=
  match n with
  | O => ([], tp)
  | S k => let (a, t1) := f tp in let (l, t2) := draw_many f k t1 in (a :: l, t2)
  end.
Definition draw_string (tp : tape) : list byte * tape :=
  let (n, t1) := draw_n 0 12 tp in
  let (rs, t2) := draw_many (fun t => let (x, t') := draw t in (utf8_encode (rune_of x), t')) (N.to_nat n) t1 in
  (concat rs, t2).
Definition draw_bytes (tp : tape) : list byte * tape :=
  let (n, t1) := draw_n 0 12 tp in
  draw_many (fun t => let (x, t') := draw t in (n2b x, t')) (N.to_nat n) t1.
Definition letter (x : N) : byte := n2b (97 + x mod 26).
Definition draw_segment (tp : tape) : list byte * tape :=
  let (n, t1) := draw_n 1 6 tp in
  draw_many (fun t => let (x, t') := draw t in (letter x, t')) (N.to_nat n) t1.
Definition dot : byte := x2e.
Definition draw_path (tp : tape) : list byte * tape :=
  let (s0, t1) := draw_segment tp in
  let (k, t2) := draw_n 0 2 t1 in
  let (more, t3) := draw_many draw_segment (N.to_nat k) t2 in
  (s0 ++ concat (map (fun s => dot :: s) more), t3).

(* a finite float from a draw: clear the top exponent bit pattern if it is all ones *)
Definition mk_finite32 (x : N) : N := let n := x mod two32 in if finite32 n then n else n - 8388608.
Definition mk_finite64 (x : N) : N := let n := x mod two64 in if finite64 n then n else n - 4503599627370496.

Definition gen_scalar_default (vr : variant) (k : kind) (decl : list Z) (tp : tape) : val * tape :=
  match k with
  | KInt32 | KSint32 | KSfixed32 => let (z, t) := draw_z (-2147483648) 2147483647 tp in (VInt z, t)
  | KUint32 | KFixed32 => let (z, t) := draw_z 0 4294967295 tp in (VInt z, t)
  | KInt64 | KSint64 | KSfixed64 => let (z, t) := draw_z (-9223372036854775808) 9223372036854775807 tp in (VInt z, t)
  | KUint64 | KFixed64 => let (z, t) := draw_z 0 18446744073709551615 tp in (VInt z, t)
  | KBool => let (b, t) := draw_bool tp in (VBool b, t)
  | KBytes => let (b, t) := draw_bytes tp in (VBytes b, t)
  | KFloat => let (x, t) := draw tp in (VBits (mk_finite32 x), t)
  | KDouble => let (x, t) := draw tp in (VBits (mk_finite64 x), t)
  | KEnum =>
    let (i, t) := draw_z 0 (Z.of_nat (length decl) - 1) tp in
    (VInt (if v_enum_by_number vr then nth (Z.to_nat i) decl 0%Z else i), t)
  | KString => let (s, t) := draw_string tp in (VBytes s, t)
  end.

Definition gen_scalar (vr : variant) (o : gopts) (k : kind) (decl : list Z) (tp : tape) : val * tape :=
  match o_fmap o k decl with
  | FmNone => gen_scalar_default vr k decl tp
  | FmAlways _ g => let (x, t) := draw tp in (g x, t)
  | FmMaybe _ g =>
    let (b, t) := draw_bool tp in
    if b then let (x, t') := draw t in (g x, t') else gen_scalar_default vr k decl t
  end.

Fixpoint map_remove (kvs : list (val * val)) (k : val) : list (val * val) :=
  match kvs with
  | [] => []
  | (k', v') :: t => if val_key_eqb k' k then t else (k', v') :: map_remove t k
  end.
Fixpoint map_get (kvs : list (val * val)) (k : val) : option val :=
  match kvs with
  | [] => None
  | (k', v') :: t => if val_key_eqb k' k then Some v' else map_get t k
  end.

Section Gen.
  Variable vr : variant.
  Variable o : gopts.
  Variable sch : schema.
  Variable ann : annots.

  Definition or_fresh (tm : nat) (v : val) : val := match v with VMsg _ _ => v | _ => fresh sch tm end.

  (* setFields on a message value: None = "returned false" *)
  Definition child_t := nat -> ictx -> nat -> val -> tape -> outcome (option val * tape).

  (* genAny(t, field, msg, depth): None = returned false (msg untouched) *)
  Definition gen_any (child : child_t) (depth : nat) (ic : ictx) (tp : tape) : outcome (option val * tape) :=
    if is_nilb (o_any o) then Ok (None, tp)
    else
      let pick (tp : tape) : outcome (nat * tape) :=
          let (i, t) := draw_n 0 (N.of_nat (length (o_any o)) - 1) tp in Ok (nth (N.to_nat i) (o_any o) 0%nat, t) in
      let chosen :=
          match ic with
          | INoField => if v_any_nil_field vr then pick tp else Panic      (* field.Options() on a nil interface *)
          | IField (Some ai) =>
            match nth_error (o_hints o) ai with Some (Some tm) => Ok (tm, tp) | _ => Panic end
          | IField None => pick tp
          end in
      match chosen with
      | Ok (tm, t1) =>
        match nth_error ann tm with
        | None => Err                                                      (* FindMessageByURL fails: t.Fatalf *)
        | Some ma =>
          match child (S depth) INoField tm (fresh sch tm) t1 with
          | Ok (r, t2) =>
            let payload := match r with Some v => v | None => fresh sch tm end in   (* result ignored *)
            match pulsar_marshal sch false tm payload with
            | Ok bs => Ok (Some (VMsg [VBytes (url_of ma); VBytes bs] []), t2)
            | Err => Err | Panic => Panic | OutOfFuel => OutOfFuel
            end
          | Err => Err | Panic => Panic | OutOfFuel => OutOfFuel
          end
        end
      | Err => Err | Panic => Panic | OutOfFuel => OutOfFuel
      end.

  (* the loop `for i := 0; i < n; i++` of a repeated message field: i counts up, k = n - i *)
  Fixpoint list_loop (child : child_t) (depth : nat) (fa : fannot) (tm : nat) (k i : nat) (l : list val) (tp : tape)
    : outcome (list val * tape) :=
    match k with
    | O => Ok (l, tp)
    | S k' =>
      match child (S depth) (IField (a_iface fa)) tm (fresh sch tm) tp with    (* list.AppendMutable() *)
      | Ok (Some e, t1) => list_loop child depth fa tm k' (S i) (l ++ [e]) t1
      | Ok (None, t1) =>                                                     (* list.Truncate(i) *)
        list_loop child depth fa tm k' (S i) (if v_list_truncate vr then l else firstn i (l ++ [fresh sch tm])) t1
      | Err => Err | Panic => Panic | OutOfFuel => OutOfFuel
      end
    end.
  Fixpoint scalar_loop (k : kind) (decl : list Z) (n : nat) (l : list val) (tp : tape) : list val * tape :=
    match n with
    | O => (l, tp)
    | S n' => let (v, t1) := gen_scalar vr o k decl tp in scalar_loop k decl n' (l ++ [v]) t1
    end.
  Fixpoint map_loop (child : child_t) (depth : nat) (kk : kind) (ty : ftype) (fa : fannot) (n : nat)
           (kvs : list (val * val)) (tp : tape) : outcome (list (val * val) * tape) :=
    match n with
    | O => Ok (kvs, tp)
    | S n' =>
      let (key, t1) := gen_scalar vr o kk [] tp in
      match ty with
      | TMsg tm =>
        let target := match map_get kvs key with Some v => or_fresh tm v | None => fresh sch tm end in   (* m.Mutable(key) *)
        match child (S depth) (IField (a_iface fa)) tm target t1 with
        | Ok (Some v, t2) => map_loop child depth kk ty fa n' (map_set kvs key v) t2
        | Ok (None, t2) => map_loop child depth kk ty fa n' (map_remove kvs key) t2               (* m.Clear(key) *)
        | Err => Err | Panic => Panic | OutOfFuel => OutOfFuel
        end
      | TScalar k =>
        let (v, t2) := gen_scalar vr o k (a_enum fa) t1 in
        map_loop child depth kk ty fa n' (map_set kvs key v) t2
      end
    end.

  Definition min_n : N := if o_no_empty o then 1 else 0.

  (* setFieldValue(t, msg, field, depth) on the slots of msg *)
  Definition set_field_value (child : child_t) (depth : nat) (md : msgdesc) (idx : nat) (f : field) (fa : fannot)
             (slots : list val) (tp : tape) : outcome (list val * tape) :=
    let s := nth idx slots VNil in
    let put v := set_nth slots idx v in
    let ic := IField (a_iface fa) in
    match f_shape f with
    | Rep _ =>
      let l := match s with VList l => l | _ => [] end in                    (* msg.Mutable(field).List() *)
      let (n, t1) := draw_n min_n 10 tp in
      match f_ty f with
      | TMsg tm =>
        match list_loop child depth fa tm (N.to_nat n) 0%nat l t1 with
        | Ok (l', t2) =>
          (* if n > 0 && list.Len() == 0 { msg.Clear(field) } *)
          Ok (put (if v_list_clear vr && (0 <? n) && is_nilb l' then VNil else VList l'), t2)
        | Err => Err | Panic => Panic | OutOfFuel => OutOfFuel
        end
      | TScalar k =>
        let (l', t2) := scalar_loop k (a_enum fa) (N.to_nat n) l t1 in Ok (put (VList l'), t2)
      end
    | MapOf kk =>
      let kvs := match s with VMap kvs => kvs | _ => [] end in               (* msg.Mutable(field).Map() *)
      let (n, t1) := draw_n 0 10 tp in
      match map_loop child depth kk (f_ty f) fa (N.to_nat n) kvs t1 with
      | Ok (kvs', t2) => Ok (put (VMap kvs'), t2)
      | Err => Err | Panic => Panic | OutOfFuel => OutOfFuel
      end
    | Singular =>
      match f_ty f with
      | TScalar k => let (v, t1) := gen_scalar vr o k (a_enum fa) tp in Ok (put v, t1)
      | TMsg tm =>
        let r := if is_any ann tm then gen_any child (S depth) ic tp           (* no depth test on this path *)
                 else child (S depth) ic tm (or_fresh tm s) tp in
        match r with
        | Ok (Some v, t1) => Ok (put v, t1)
        | Ok (None, t1) => Ok (put VNil, t1)                                  (* msg.Clear(field) *)
        | Err => Err | Panic => Panic | OutOfFuel => OutOfFuel
        end
      end
    | Member oi =>
      let cleared := clear_oneof (m_fields md) slots oi in
      match f_ty f with
      | TScalar k => let (v, t1) := gen_scalar vr o k (a_enum fa) tp in Ok (set_nth cleared idx (VSome v), t1)
      | TMsg tm =>
        let target := match s with VSome p => or_fresh tm p | _ => fresh sch tm end in   (* Mutable of the member *)
        let r := if is_any ann tm then gen_any child (S depth) ic tp
                 else child (S depth) ic tm target tp in
        match r with
        | Ok (Some v, t1) => Ok (set_nth cleared idx (VSome v), t1)
        | Ok (None, t1) => Ok (cleared, t1)
        | Err => Err | Panic => Panic | OutOfFuel => OutOfFuel
        end
      end
    end.

  Fixpoint fields_loop (child : child_t) (depth : nat) (md : msgdesc) (fs : list field) (fas : list fannot) (idx : nat)
           (slots : list val) (tp : tape) : outcome (list val * tape) :=
    match fs, fas with
    | f :: fs', fa :: fas' =>
      let (b, t1) := draw_bool tp in
      if negb b && msg_kind f && negb (o_disallow_nil o) then fields_loop child depth md fs' fas' (S idx) slots t1
      else
        match set_field_value child depth md idx f fa slots t1 with
        | Ok (slots', t2) => fields_loop child depth md fs' fas' (S idx) slots' t2
        | Err => Err | Panic => Panic | OutOfFuel => OutOfFuel
        end
    | _, _ => Ok (slots, tp)
    end.

  Fixpoint set_fields (fuel : nat) (depth : nat) (ic : ictx) (mid : nat) (cur : val) (tp : tape) {struct fuel}
    : outcome (option val * tape) :=
    match fuel with
    | O => OutOfFuel
    | S fu =>
      if (depth_limit <? depth)%nat then Ok (None, tp)
      else
        match get_msg sch mid, nth_error ann mid with
        | Some md, Some ma =>
          match a_wkt ma with
          | WTimestamp =>
            let (s, t1) := draw_z (-9999999999) 9999999999 tp in
            let (n, t2) := draw_z 0 999999999 t1 in
            Ok (Some (VMsg [VInt s; VInt n] (unk_of cur)), t2)
          | WDuration =>
            let (s, t1) := draw_z 0 9223372035 tp in
            let (n, t2) := draw_z 0 999999999 t1 in
            Ok (Some (VMsg [VInt s; VInt n] (unk_of cur)), t2)
          | WAny =>
            match gen_any (set_fields fu) depth ic tp with
            | Ok (Some v, t1) => Ok (Some v, t1)
            | Ok (None, t1) => if v_any_container vr then Ok (None, t1) else Ok (Some cur, t1)   (* result dropped *)
            | Err => Err | Panic => Panic | OutOfFuel => OutOfFuel
            end
          | WFieldMask =>
            let (n, t1) := draw_n 1 5 tp in
            let (paths, t2) := draw_many draw_path (N.to_nat n) t1 in
            Ok (Some (if v_fieldmask_stored vr then VMsg [VList (map VBytes paths)] (unk_of cur) else cur), t2)
          | WNone =>
            match fields_loop (set_fields fu) depth md (m_fields md) (a_fields ma) 0%nat (slots_of cur) tp with
            | Ok (slots', t1) => Ok (Some (VMsg slots' (unk_of cur)), t1)
            | Err => Err | Panic => Panic | OutOfFuel => OutOfFuel
            end
          end
        | _, _ => Panic
        end
    end.

  (* MessageGenerator: msgType.New(); [a bool draw]; options.setFields(t, nil, msg, 0); result ignored *)
  Definition gen (mid : nat) (tp : tape) : outcome val :=
    let tp := if v_root_draw vr then snd (draw_bool tp) else tp in     (* rapid.Bool().Draw(t, "message") *)
    match set_fields top_fuel 0%nat INoField mid (fresh sch mid) tp with
    | Ok (Some v, _) => Ok v
    | Ok (None, _) => Ok (fresh sch mid)
    | Err => Err | Panic => Panic | OutOfFuel => OutOfFuel
    end.
End Gen.
