(* Model/Extra.v — small definitions used by the theorem statements: the MarshalAppend wrapper,
   nesting depth of a value, the "unknown bytes are a sequence of skippable unknown records"
   predicate, and a self-recursive schema with its n-fold nested encoding. Definitions only. *)
From CP Require Export Schema Codec Decode Wire WF RefSpec.
Local Open Scope N_scope.

Definition out_map {A B} (f : A -> B) (o : outcome A) : outcome B :=
  match o with Ok a => Ok (f a) | Err => Err | Panic => Panic | OutOfFuel => OutOfFuel end.

(* the Marshal method: `input.Buf = append(input.Buf, dAtA...)` after filling dAtA *)
Definition pulsar_marshal_append (sch : schema) (det : bool) (mid : nat) (pre : list byte) (v : val)
  : outcome (list byte) :=
  out_map (fun bs => pre ++ bs) (pulsar_marshal sch det mid v).

(* message nesting depth of a value (number of VMsg constructors on the deepest path) *)
Fixpoint val_depth (v : val) : nat :=
  match v with
  | VMsg slots _ => S (fold_right (fun s acc => Nat.max (val_depth s) acc) 0%nat slots)
  | VSome p => val_depth p
  | VList l => fold_right (fun s acc => Nat.max (val_depth s) acc) 0%nat l
  | VMap kvs => fold_right (fun kv acc => Nat.max (val_depth (snd kv)) acc) 0%nat kvs
  | _ => 0%nat
  end.

(* number and wire type of a record *)
Definition rec_num (r : wrec) : N :=
  match r with WVarint n _ | WFixed64 n _ | WBytes n _ | WGroup n _ _ | WFixed32 n _ => n end.

(* [unk] is what the decoder itself stores as unknown fields of a message of type [md]: a
   sequence of well-formed records (nested groups allowed) whose numbers are legal and not
   declared in [md] *)
Definition unknown_records_ok (md : msgdesc) (rs : list wrec) : Prop :=
  Forall (fun r => wf_wrec r /\ 1 <= rec_num r /\ rec_num r < 536870912 /\
                   ~ In (rec_num r) (map f_num (m_fields md))) rs.
Definition unk_ok (md : msgdesc) (unk : list byte) : Prop :=
  exists rs, unknown_records_ok md rs /\ unk = flat_map enc_wrec rs.

(* a self-recursive message type  message R { R r = 1; }  and the encoding nested n levels deep *)
Definition rec_schema : schema :=
  [ {| m_fields := [ {| f_num := 1; f_ty := TMsg 0; f_shape := Singular |} ]; m_oneofs := 0; m_impl := Pulsar |} ].
Fixpoint nest (n : nat) : list byte :=
  match n with
  | O => []
  | S k => let inner := nest k in x0a :: enc_varint (N.of_nat (length inner)) ++ inner
  end.
