(* Model/GenNames.v — the generator's own naming decisions (features/fastreflection/{descriptors,type,list,map,
   proto_message}.go, cmd/protoc-gen-go-pulsar/main.go:rewriteMessageField). protogen's GoIdent.GoName / Field.GoName
   are inputs (taken as given). Executable definitions only; lemmas in Proofs/GenNamesProofs.v.
   Identifiers are byte strings (ASCII). *)
From CP Require Import Bytes.
Local Open Scope N_scope.

Definition name := list byte.

Fixpoint name_eqb (a b : name) : bool :=
  match a, b with
  | [], [] => true
  | x :: a', y :: b' => Byte.eqb x y && name_eqb a' b'
  | _, _ => false
  end.

Local Open Scope byte_scope.
Definition us : byte := "_".
Definition s_md : name := ["m"; "d"; "_"].
Definition s_fd : name := ["f"; "d"; "_"].
Definition s_fast : name := ["f"; "a"; "s"; "t"; "R"; "e"; "f"; "l"; "e"; "c"; "t"; "i"; "o"; "n"; "_"].
Definition s_msgtype : name := ["_"; "m"; "e"; "s"; "s"; "a"; "g"; "e"; "T"; "y"; "p"; "e"].
Definition s_list : name := ["_"; "l"; "i"; "s"; "t"].
Definition s_map : name := ["_"; "m"; "a"; "p"].
Definition s_get : name := ["G"; "e"; "t"].
(* the 16 methods of protoreflect.Message = keys of reservedFieldNames *)
Definition reserved : list name :=
  [ ["D"; "e"; "s"; "c"; "r"; "i"; "p"; "t"; "o"; "r"];
    ["T"; "y"; "p"; "e"];
    ["N"; "e"; "w"];
    ["I"; "n"; "t"; "e"; "r"; "f"; "a"; "c"; "e"];
    ["R"; "a"; "n"; "g"; "e"];
    ["H"; "a"; "s"];
    ["C"; "l"; "e"; "a"; "r"];
    ["G"; "e"; "t"];
    ["S"; "e"; "t"];
    ["M"; "u"; "t"; "a"; "b"; "l"; "e"];
    ["N"; "e"; "w"; "F"; "i"; "e"; "l"; "d"];
    ["W"; "h"; "i"; "c"; "h"; "O"; "n"; "e"; "o"; "f"];
    ["G"; "e"; "t"; "U"; "n"; "k"; "n"; "o"; "w"; "n"];
    ["S"; "e"; "t"; "U"; "n"; "k"; "n"; "o"; "w"; "n"];
    ["I"; "s"; "V"; "a"; "l"; "i"; "d"];
    ["P"; "r"; "o"; "t"; "o"; "M"; "e"; "t"; "h"; "o"; "d"; "s"] ].
Local Close Scope byte_scope.

Definition is_lower (b : byte) : bool := (97 <=? b2n b) && (b2n b <=? 122).
Definition is_upper (b : byte) : bool := (65 <=? b2n b) && (b2n b <=? 90).
Definition is_digit (b : byte) : bool := (48 <=? b2n b) && (b2n b <=? 57).
Definition is_us (b : byte) : bool := Byte.eqb b us.

(* ---- fmt.Sprintf("%d", n) for n >= 0 ---------------------------------------------------------- *)
Definition digit (d : N) : byte := n2b (48 + d).
Fixpoint dec_aux (fuel : nat) (n : N) (acc : name) : name :=
  match fuel with
  | O => acc
  | S f => let acc' := digit (n mod 10) :: acc in
           if n / 10 =? 0 then acc' else dec_aux f (n / 10) acc'
  end.
Definition dec_fuel : nat := 20.
Definition dec (n : N) : name := dec_aux dec_fuel n [].
Definition dec_bound : N := 100000000000000000000. (* 10^20; field numbers are < 2^29 *)
(* the inverse used in the proofs (and by the driver as a self-check) *)
Definition undec (l : name) : N := fold_left (fun a c => a * 10 + (b2n c - 48)) l 0.

(* ---- derived identifiers ------------------------------------------------------------------------ *)
(* messageDescriptorName: fmt.Sprintf("md_%s", message.GoIdent.GoName) *)
Definition md_ident (g : name) : name := s_md ++ g.
(* fieldDescriptorName: fmt.Sprintf("fd_%s_%s", field.Parent.GoIdent.GoName, field.Desc.Name()) *)
Definition fd_ident (g f : name) : name := s_fd ++ g ++ us :: f.
(* fastReflectionTypeName: "fastReflection_%s" *)
Definition fast_ident (g : name) : name := s_fast ++ g.
(* messageTypeName: "%s_messageType" of the former; messageTypeNameVar: "_%s" of that *)
Definition msgtype_ident (g : name) : name := (s_fast ++ g) ++ s_msgtype.
Definition msgtype_var (g : name) : name := us :: msgtype_ident g.
(* listTypeName / mapTypeName: "_%s_%d_list" / "_%s_%d_map" of (Parent.GoIdent.GoName, Desc.Number()) *)
Definition list_ident (g : name) (n : N) : name := (us :: g ++ us :: dec n) ++ s_list.
Definition map_ident (g : name) (n : N) : name := (us :: g ++ us :: dec n) ++ s_map.

(* ---- rewriteMessageField: a field whose GoName is a protoreflect.Message method gets a trailing '_' -------- *)
Definition is_reserved (g : name) : bool := existsb (name_eqb g) reserved.
Definition rewrite_field (g : name) : name := if is_reserved g then g ++ [us] else g.
(* the struct members of the generated message type: fields and (real) oneofs, both rewritten (oneofs since the D8 fix) *)
Definition struct_members (field_gonames oneof_gonames : list name) : list name :=
  map rewrite_field field_gonames ++ map rewrite_field oneof_gonames.
(* protoc-gen-go emits Get<GoName> for every field *)
Definition getter (g : name) : name := s_get ++ g.
Fixpoint nodupb (l : list name) : bool :=
  match l with [] => true | x :: t => negb (existsb (name_eqb x) t) && nodupb t end.
(* what protogen guarantees BEFORE the rewrite: members and getters pairwise distinct *)
Definition getter_unique (gonames : list name) : bool := nodupb (gonames ++ map getter gonames).

(* ---- what the generator sees of a file ---------------------------------------------------------- *)
Inductive shape := Plain | IsList | IsMap.
Record gfield := { f_name : name; f_num : N; f_shape : shape }.
Record gmsg := { m_go : name; m_fields : list gfield }.

Inductive key :=
| KMd (g : name) | KFast (g : name) | KMsgType (g : name) | KMsgTypeVar (g : name)
| KList (g : name) (n : N) | KMap (g : name) (n : N) | KFd (g f : name).

Definition ident_of (k : key) : name :=
  match k with
  | KMd g => md_ident g | KFast g => fast_ident g | KMsgType g => msgtype_ident g | KMsgTypeVar g => msgtype_var g
  | KList g n => list_ident g n | KMap g n => map_ident g n | KFd g f => fd_ident g f
  end.

Definition container_keys (g : name) (f : gfield) : list key :=
  match f_shape f with IsList => [KList g (f_num f)] | IsMap => [KMap g (f_num f)] | Plain => [] end.
Definition msg_keys_nofd (m : gmsg) : list key :=
  [KMd (m_go m); KFast (m_go m); KMsgType (m_go m); KMsgTypeVar (m_go m)] ++ flat_map (container_keys (m_go m)) (m_fields m).
Definition msg_keys_fd (m : gmsg) : list key := map (fun f => KFd (m_go m) (f_name f)) (m_fields m).
Definition msg_keys (m : gmsg) : list key := msg_keys_nofd m ++ msg_keys_fd m.

(* every package-level identifier the fast-reflection feature derives for the messages of a Go package *)
Definition derived_idents (ms : list gmsg) : list name := map ident_of (flat_map msg_keys ms).
Definition derived_idents_nofd (ms : list gmsg) : list name := map ident_of (flat_map msg_keys_nofd ms).

(* ---- well-formedness of the input (guaranteed by protoc + protogen) ----------------------------- *)
(* a GoName made by protogen's GoCamelCase: starts with an upper-case letter, and no '_' is followed by a lower-case
   letter (such an underscore is dropped and the letter capitalised) *)
Fixpoint camel_ok (g : name) : bool :=
  match g with
  | a :: ((b :: _) as t) => negb (is_us a && is_lower b) && camel_ok t
  | _ => true
  end.
Definition go_ok (g : name) : bool :=
  match g with c :: _ => is_upper c && camel_ok g | [] => false end.
Fixpoint nodupN (l : list N) : bool :=
  match l with [] => true | x :: t => negb (existsb (N.eqb x) t) && nodupN t end.
Definition msg_wf (m : gmsg) : bool :=
  go_ok (m_go m) && nodupb (map f_name (m_fields m)) && nodupN (map f_num (m_fields m))
  && forallb (fun f => f_num f <? dec_bound) (m_fields m).
Definition names_wf (ms : list gmsg) : bool := forallb msg_wf ms && nodupb (map m_go ms).
(* sufficient for fd_ identifiers to be unambiguous: no proto field name contains '_' *)
Definition fd_safe (ms : list gmsg) : bool :=
  forallb (fun m => forallb (fun f => negb (existsb is_us (f_name f))) (m_fields m)) ms.

(* the D9 witness: message A { string B_c = 1; B b = 2; message B { int32 c = 1; } } *)
Local Open Scope byte_scope.
Definition d9_schema : list gmsg :=
  [ {| m_go := ["A"]; m_fields := [ {| f_name := ["B"; "_"; "c"]; f_num := 1; f_shape := Plain |};
                                     {| f_name := ["b"]; f_num := 2; f_shape := Plain |} ] |};
    {| m_go := ["A"; "_"; "B"]; m_fields := [ {| f_name := ["c"]; f_num := 1; f_shape := Plain |} ] |} ].
Local Close Scope byte_scope.
