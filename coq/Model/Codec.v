(* Model/Codec.v — faithful, schema-parametric model of the code printed by
   features/fastreflection/proto_size.go and proto_marshal.go (+ generator/helpers.go KeySize and
   the generation-time encodeKey). Structural recursion on the value. Definitions only. *)
From CP Require Export Schema Runtime.
Local Open Scope N_scope.

(* ---- generation-time key helpers (generator/helpers.go KeySize, proto_marshal.go encodeKey):
        x := uint32(fieldNumber)<<3 | uint32(wireType); loops over x ------------------------- *)
Definition gen_key_word (num wt : N) : N := N.lor (u32 (N.shiftl num 3)) wt.

Fixpoint gen_key_bytes_aux (fuel : nat) (x : N) : list byte :=
  match fuel with
  | O => []
  | S f => if 127 <? x then n2b (N.lor 128 (N.land x 127)) :: gen_key_bytes_aux f (N.shiftr x 7)
           else [n2b x]
  end.
Definition key_bytes (num wt : N) : list byte := gen_key_bytes_aux 5 (gen_key_word num wt).

Fixpoint gen_key_size_aux (fuel : nat) (x : N) : N :=
  match fuel with
  | O => 0
  | S f => if 127 <? x then 1 + gen_key_size_aux f (N.shiftr x 7) else 1
  end.
Definition key_size (num wt : N) : N := gen_key_size_aux 5 (gen_key_word num wt).

(* ---- scalar views of a value (what the Go expression reads) --------------------------- *)
Definition as_z (v : val) : Z := match v with VInt z => z | VBool true => 1%Z | _ => 0%Z end.
Definition as_u64 (v : val) : N := z2u64 (as_z v).        (* uint64(x): sign extension *)
Definition as_u32 (v : val) : N := z2u32 (as_z v).        (* uint32(x) *)
Definition as_i32_u64 (v : val) : N := z2u64 (wrap32 (as_z v)).   (* uint64(x) for an int32 variable x *)
Definition as_bool (v : val) : bool := match v with VBool b => b | VInt z => negb (z =? 0)%Z | _ => false end.
Definition as_bits (v : val) : N := match v with VBits n => n | _ => 0 end.
Definition as_bytes (v : val) : list byte := match v with VBytes l => l | _ => [] end.
Definition blen (v : val) : N := N.of_nat (length (as_bytes v)).

(* proto3 presence test of a singular non-oneof scalar *)
Definition present (k : kind) (v : val) : bool :=
  match k with
  | KBool => as_bool v
  | KString | KBytes => negb (blen v =? 0)
  | KFloat | KDouble => negb (as_bits v =? 0)                (* x != 0 || Signbit(x) *)
  | _ => negb (as_z v =? 0)%Z
  end.

(* payload bytes of one scalar (no key) *)
Definition scalar_payload (k : kind) (v : val) : list byte :=
  match k with
  | KInt32 | KInt64 | KEnum | KUint32 | KUint64 => enc_varint (as_u64 v)
  | KSint32 => enc_varint (zigzag32 (as_u32 v))
  | KSint64 => enc_varint (zigzag64 (as_u64 v))
  | KBool => [if as_bool v then x01 else x00]
  | KFixed32 | KSfixed32 => enc_fixed32 (as_u32 v)
  | KFloat => enc_fixed32 (as_bits v)
  | KFixed64 | KSfixed64 => enc_fixed64 (as_u64 v)
  | KDouble => enc_fixed64 (as_bits v)
  | KString | KBytes => enc_varint (blen v) ++ as_bytes v
  end.

(* msg_size of that payload as the msg_size template computes it *)
Definition scalar_size (k : kind) (v : val) : N :=
  match k with
  | KInt32 | KInt64 | KEnum | KUint32 | KUint64 => Sov (as_u64 v)
  | KSint32 => Soz (as_i32_u64 v)                              (* Soz(uint64(e)), e int32 *)
  | KSint64 => Soz (as_u64 v)                                  (* Soz(uint64(e)) *)
  | KBool => 1
  | KFixed32 | KSfixed32 | KFloat => 4
  | KFixed64 | KSfixed64 | KDouble => 8
  | KString | KBytes => blen v + Sov (blen v)
  end.

Definition lenpfx (bs : list byte) : list byte := enc_varint (N.of_nat (length bs)) ++ bs.

(* ---- map-key order used by the templates under Deterministic --------------------------- *)
Fixpoint bytes_ltb (a b : list byte) : bool :=       (* Go string < : bytewise lexicographic *)
  match a, b with
  | _, [] => false
  | [], _ :: _ => true
  | x :: a', y :: b' => if b2n x <? b2n y then true else if b2n y <? b2n x then false else bytes_ltb a' b'
  end.
Definition key_ltb (kk : kind) (a b : val) : bool :=
  match kk with
  | KBool => (negb (as_bool a) && as_bool b)%bool           (* !keys[i] && keys[j] *)
  | KString => bytes_ltb (as_bytes a) (as_bytes b)
  | _ => (as_z a <? as_z b)%Z                               (* keys[i] < keys[j] on the Go integer type *)
  end.

Section Sort.
  Context {A : Type} (ltb : A -> A -> bool).
  Fixpoint insert_sorted (x : A) (l : list A) : list A :=
    match l with
    | [] => [x]
    | y :: t => if ltb y x then y :: insert_sorted x t else x :: l   (* stable: after equal elements *)
    end.
  Definition isort (l : list A) : list A := fold_right insert_sorted [] l.
End Sort.

Section Codec.
  Variable sch : schema.
  Variable det : bool.

  (* ---------------- emit ---------------- *)
  Definition emit_elem (rec : nat -> val -> list byte) (t : ftype) (v : val) : list byte :=
    match t with TScalar k => scalar_payload k v | TMsg m => lenpfx (rec m v) end.

  Definition emit_entry (rec : nat -> val -> list byte) (num : N) (kk : kind) (t : ftype) (kv : val * val) : list byte :=
    key_bytes num WT_BYTES ++
    lenpfx (key_bytes 1 (kind_wt kk) ++ scalar_payload kk (fst kv) ++ key_bytes 2 (ftype_wt t) ++ emit_elem rec t (snd kv)).

  Definition emit_field (rec : nat -> val -> list byte) (f : field) (s : val) : list byte :=
    let num := f_num f in
    let t := f_ty f in
    match f_shape f with
    | Singular =>
      match t with
      | TScalar k => if present k s then key_bytes num (kind_wt k) ++ scalar_payload k s else []
      | TMsg m => match s with VNil => [] | _ => key_bytes num WT_BYTES ++ lenpfx (rec m s) end
      end
    | Rep packed =>
      match s with
      | VList (e :: l) =>
        if packed then key_bytes num WT_BYTES ++ lenpfx (concat (map (emit_elem rec t) (e :: l)))
        else concat (map (fun x => key_bytes num (ftype_wt t) ++ emit_elem rec t x) (e :: l))
      | _ => []
      end
    | Member _ =>
      match s with
      | VSome p => key_bytes num (ftype_wt t) ++ emit_elem rec t p
      | _ => []
      end
    | MapOf kk =>
      match s with
      | VMap kvs =>
        let entries := map (fun kv => (fst kv, emit_entry rec num kk t kv)) kvs in
        let ordered := if det then isort (fun a b => key_ltb kk (fst a) (fst b)) entries else entries in
        concat (map snd ordered)
      | _ => []
      end
    end.

  Definition is_member (f : field) : bool := match f_shape f with Member _ => true | _ => false end.
  Definition member_of (i : nat) (f : field) : bool :=
    match f_shape f with Member j => Nat.eqb i j | _ => false end.

  (* final byte order: plain fields by ascending number, then oneofs in declaration order *)
  Definition assemble (md : msgdesc) (per : list (field * list byte)) : list byte :=
    let plain := filter (fun p => negb (is_member (fst p))) per in
    let sorted := isort (fun a b => f_num (fst a) <? f_num (fst b)) plain in
    concat (map snd sorted) ++
    concat (map (fun i => concat (map snd (filter (fun p => member_of i (fst p)) per))) (seq 0 (m_oneofs md))).

  Fixpoint emit (mid : nat) (v : val) {struct v} : list byte :=
    match v with
    | VMsg slots unk =>
      match get_msg sch mid with
      | None => []
      | Some md =>
        let per := (fix go (fs : list field) (ss : list val) {struct ss} : list (field * list byte) :=
                      match ss, fs with
                      | s :: ss', f :: fs' => (f, emit_field emit f s) :: go fs' ss'
                      | _, _ => []
                      end) (m_fields md) slots in
        assemble md per ++ unk
      end
    | _ => []                                                 (* nil message: no bytes *)
    end.

  (* ---------------- msg_size ---------------- *)
  Definition size_elem (rec : nat -> val -> N) (t : ftype) (v : val) : N :=
    match t with TScalar k => scalar_size k v | TMsg m => let l := rec m v in l + Sov l end.

  Definition nsum (l : list N) : N := fold_right N.add 0 l.

  Definition size_field (rec : nat -> val -> N) (f : field) (s : val) : N :=
    let num := f_num f in
    let t := f_ty f in
    match f_shape f with
    | Singular =>
      match t with
      | TScalar k => if present k s then key_size num (kind_wt k) + scalar_size k s else 0
      | TMsg m => match s with VNil => 0 | _ => key_size num WT_BYTES + size_elem rec t s end
      end
    | Rep packed =>
      match s with
      | VList (e :: l) =>
        if packed then let body := nsum (map (size_elem rec t) (e :: l)) in key_size num WT_BYTES + Sov body + body
        else nsum (map (fun x => key_size num (ftype_wt t) + size_elem rec t x) (e :: l))
      | _ => 0
      end
    | Member _ =>
      match s with
      | VSome p => key_size num (ftype_wt t) + size_elem rec t p
      | _ => 0
      end
    | MapOf kk =>
      match s with
      | VMap kvs =>
        nsum (map (fun kv =>
                     let entry := key_size 1 (kind_wt kk) + scalar_size kk (fst kv) + (key_size 2 (ftype_wt t) + size_elem rec t (snd kv)) in
                     entry + key_size num WT_BYTES + Sov entry) kvs)
      | _ => 0
      end
    end.

  Fixpoint msg_size (mid : nat) (v : val) {struct v} : N :=
    match v with
    | VMsg slots unk =>
      match get_msg sch mid with
      | None => 0
      | Some md =>
        (fix go (fs : list field) (ss : list val) {struct ss} : N :=
           match ss, fs with
           | s :: ss', f :: fs' => size_field msg_size f s + go fs' ss'
           | _, _ => 0
           end) (m_fields md) slots + N.of_nat (length unk)
      end
    | _ => 0
    end.

  (* the emit closure: dAtA := make([]byte, msg_size); fill from the back; a too-small buffer is an
     index-out-of-range panic, a too-large one leaves leading zero bytes *)
  Definition pulsar_marshal (mid : nat) (v : val) : outcome (list byte) :=
    let n := msg_size mid v in
    let bs := emit mid v in
    let l := N.of_nat (length bs) in
    if l =? n then Ok bs
    else if n <? l then Panic
    else Ok (repeat x00 (N.to_nat (n - l)) ++ bs).
End Codec.
