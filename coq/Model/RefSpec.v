(* Model/RefSpec.v — the *tidy* side: what the protobuf wire format / protobuf-go prescribe,
   written independently of the templates. Definitions only.

   ref_marshal   the reference deterministic encoder, as a list of wire records in
                 LegacyFieldOrder (order.LegacyFieldOrder: plain fields by number, then oneof
                 members by oneof declaration index), map entries sorted by key, proto3 defaults
                 omitted, unknown bytes last
   canon         the value a message *denotes* (what proto.Equal compares): maps as sets of
                 entries, nil and empty containers identified
   strip_unknown the message with every unknown-field set emptied, at every depth
   norm          what a decoder can give back for a value: nil containers for empty ones, empty
                 messages for nil list elements / map values / oneof payloads, non-nil empty bytes *)
From CP Require Export Schema Codec Decode Wire WF.
Local Open Scope N_scope.

(* ---- generic key order on map keys (kind-independent: the constructor decides) ---------- *)
Definition gen_key_ltb (a b : val) : bool :=
  match a, b with
  | VBool x, VBool y => (negb x && y)%bool
  | VBytes x, VBytes y => bytes_ltb x y
  | VInt x, VInt y => (x <? y)%Z
  | _, _ => false
  end.

(* ---- canon ------------------------------------------------------------------------------ *)
Fixpoint canon (v : val) : val :=
  match v with
  | VSome p => VSome (canon p)
  | VMsg slots unk => VMsg (map canon slots) unk
  | VList [] => VNil
  | VList l => VList (map canon l)
  | VMap [] => VNil
  | VMap kvs => VMap (isort (fun a b => gen_key_ltb (fst a) (fst b)) (map (fun kv => (fst kv, canon (snd kv))) kvs))
  | _ => v
  end.

(* ---- strip_unknown ---------------------------------------------------------------------- *)
Fixpoint strip_unknown (v : val) : val :=
  match v with
  | VSome p => VSome (strip_unknown p)
  | VMsg slots _ => VMsg (map strip_unknown slots) []
  | VList l => VList (map strip_unknown l)
  | VMap kvs => VMap (map (fun kv => (fst kv, strip_unknown (snd kv))) kvs)
  | _ => v
  end.

(* ---- reference encoder -------------------------------------------------------------------- *)
Section Ref.
  Variable sch : schema.

  (* one scalar as a wire record under field number [num] *)
  Definition ref_scalar_rec (num : N) (k : kind) (v : val) : wrec :=
    match k with
    | KInt32 | KInt64 | KEnum | KUint32 | KUint64 => WVarint num (as_u64 v)      (* sign-extended to 64 bits *)
    | KSint32 => WVarint num (zigzag32 (as_u32 v))
    | KSint64 => WVarint num (zigzag64 (as_u64 v))
    | KBool => WVarint num (if as_bool v then 1 else 0)
    | KFixed32 | KSfixed32 => WFixed32 num (enc_fixed32 (as_u32 v))
    | KFloat => WFixed32 num (enc_fixed32 (as_bits v))
    | KFixed64 | KSfixed64 => WFixed64 num (enc_fixed64 (as_u64 v))
    | KDouble => WFixed64 num (enc_fixed64 (as_bits v))
    | KString | KBytes => WBytes num (as_bytes v)
    end.

  (* payload of a record, without its tag (for packed runs) *)
  Definition rec_payload (r : wrec) : list byte :=
    match r with
    | WVarint _ v => enc_varint v
    | WFixed64 _ p | WFixed32 _ p => p
    | WBytes _ p => enc_varint (N.of_nat (length p)) ++ p
    | WGroup _ _ _ => []
    end.

  Definition ref_elem_rec (rec : nat -> val -> list byte) (num : N) (t : ftype) (v : val) : wrec :=
    match t with
    | TScalar k => ref_scalar_rec num k v
    | TMsg m => WBytes num (rec m v)
    end.

  Definition ref_field_recs (rec : nat -> val -> list byte) (f : field) (s : val) : list wrec :=
    let num := f_num f in
    let t := f_ty f in
    match f_shape f with
    | Singular =>
      match t with
      | TScalar k => if present k s then [ref_scalar_rec num k s] else []
      | TMsg m => match s with VNil => [] | _ => [WBytes num (rec m s)] end
      end
    | Rep packed =>
      match s with
      | VList (e :: l) =>
        if packed then [WBytes num (concat (map (fun x => rec_payload (ref_elem_rec rec num t x)) (e :: l)))]
        else map (ref_elem_rec rec num t) (e :: l)
      | _ => []
      end
    | Member _ => match s with VSome p => [ref_elem_rec rec num t p] | _ => [] end
    | MapOf kk =>
      match s with
      | VMap kvs =>
        map snd (isort (fun a b => gen_key_ltb (fst a) (fst b))
                       (map (fun kv => (fst kv, WBytes num (enc_wrec (ref_scalar_rec 1 kk (fst kv)) ++
                                                            enc_wrec (ref_elem_rec rec 2 t (snd kv))))) kvs))
      | _ => []
      end
    end.

  (* LegacyFieldOrder as one composite key: (0, number) for plain fields, (1, oneof index) for members *)
  Definition legacy_key (f : field) : N * N :=
    match f_shape f with Member j => (1, N.of_nat j) | _ => (0, f_num f) end.
  Definition legacy_ltb (a b : field) : bool :=
    let (a1, a2) := legacy_key a in let (b1, b2) := legacy_key b in
    (a1 <? b1) || ((a1 =? b1) && (a2 <? b2)).

  Fixpoint ref_marshal (mid : nat) (v : val) {struct v} : list byte :=
    match v with
    | VMsg slots unk =>
      match get_msg sch mid with
      | None => []
      | Some md =>
        let per := (fix go (fs : list field) (ss : list val) {struct ss} : list (field * list wrec) :=
                      match ss, fs with
                      | s :: ss', f :: fs' => (f, ref_field_recs ref_marshal f s) :: go fs' ss'
                      | _, _ => []
                      end) (m_fields md) slots in
        flat_map (fun p => flat_map enc_wrec (snd p)) (isort (fun a b => legacy_ltb (fst a) (fst b)) per) ++ unk
      end
    | _ => []
    end.

  (* ---- norm: the value a decoder returns for the encoding of [v] (maps keep [v]'s order) ---- *)
  Definition norm_scalar (k : kind) (v : val) : val :=
    match k, v with
    | KBytes, VNil => VBytes []
    | _, _ => v
    end.
  Definition norm_elem (rec : nat -> val -> val) (t : ftype) (v : val) : val :=
    match t with
    | TScalar k => norm_scalar k v
    | TMsg m => match v with
                | VNil => match get_msg sch m with Some md => empty_msg md | None => VNil end
                | _ => rec m v
                end
    end.
  Definition norm_slot (rec : nat -> val -> val) (f : field) (s : val) : val :=
    match f_shape f with
    | Singular =>
      match f_ty f with
      | TScalar KBytes => if present KBytes s then s else VNil
      | TScalar _ => s
      | TMsg m => match s with VNil => VNil | _ => rec m s end
      end
    | Rep _ => match s with VList (e :: l) => VList (map (norm_elem rec (f_ty f)) (e :: l)) | _ => VNil end
    | Member _ => match s with VSome p => VSome (norm_elem rec (f_ty f) p) | _ => VNil end
    | MapOf _ => match s with
                 | VMap (e :: l) => VMap (map (fun kv => (fst kv, norm_elem rec (f_ty f) (snd kv))) (e :: l))
                 | _ => VNil
                 end
    end.
  Fixpoint norm (mid : nat) (v : val) {struct v} : val :=
    match v with
    | VMsg slots unk =>
      match get_msg sch mid with
      | None => v
      | Some md =>
        VMsg ((fix go (fs : list field) (ss : list val) {struct ss} : list val :=
                 match ss, fs with
                 | s :: ss', f :: fs' => norm_slot norm f s :: go fs' ss'
                 | _, _ => []
                 end) (m_fields md) slots) unk
      end
    | _ => v
    end.
End Ref.
