(* Model/WF.v — well-formed schemas (what protodesc.NewFiles / protoc guarantee for proto3 files,
   as far as the codec depends on it) and well-typed values (what the Go struct of a generated
   message can hold). Boolean, executable; the decoder's results satisfy [wt_msg] (theorem), the
   Go runner's printed schemas are checked against [wf] by the driver. Definitions only. *)
From CP Require Export Schema Codec Decode.
Local Open Scope N_scope.

Definition num_ok29 (n : N) : bool := (1 <=? n) && (n <? 536870912).        (* 1 .. 2^29-1 *)
Definition legal_key (k : kind) : bool :=
  match k with KDouble | KFloat | KBytes | KEnum => false | _ => true end.

Definition field_wf (nmsgs noneofs : nat) (f : field) : bool :=
  num_ok29 (f_num f) &&
  (match f_ty f with TMsg m => (m <? nmsgs)%nat | TScalar _ => true end) &&
  (match f_shape f with
   | Singular => true
   | Rep p => match f_ty f with TScalar k => implb p (packable k) | TMsg _ => negb p end
   | Member j => (j <? noneofs)%nat
   | MapOf kk => legal_key kk
   end).

Fixpoint nodupb (l : list N) : bool :=
  match l with [] => true | x :: t => negb (existsb (N.eqb x) t) && nodupb t end.

Definition msg_wf (nmsgs : nat) (md : msgdesc) : bool :=
  forallb (field_wf nmsgs (m_oneofs md)) (m_fields md) && nodupb (map f_num (m_fields md)).

Definition wf (sch : schema) : bool := forallb (msg_wf (length sch)) sch.

(* ---- typing of values ------------------------------------------------------------------ *)
Definition in_range_z (lo hi z : Z) : bool := ((lo <=? z) && (z <? hi))%Z.
Definition wt_scalar (k : kind) (v : val) : bool :=
  match k, v with
  | KBool, VBool _ => true
  | KFloat, VBits n => n <? two32
  | KDouble, VBits n => n <? two64
  | KString, VBytes _ => true
  | KBytes, VBytes _ => true
  | KBytes, VNil => true                                     (* nil []byte *)
  | (KInt32 | KSint32 | KSfixed32 | KEnum), VInt z => in_range_z (-2147483648) 2147483648 z
  | (KInt64 | KSint64 | KSfixed64), VInt z => in_range_z (-9223372036854775808) 9223372036854775808 z
  | (KUint32 | KFixed32), VInt z => in_range_z 0 4294967296 z
  | (KUint64 | KFixed64), VInt z => in_range_z 0 18446744073709551616 z
  | _, _ => false
  end.

Fixpoint nodup_keys (l : list val) : bool :=
  match l with [] => true | x :: t => negb (existsb (val_key_eqb x) t) && nodup_keys t end.

Section WT.
  Variable sch : schema.

  Definition wt_elem (rec : nat -> val -> bool) (t : ftype) (v : val) : bool :=
    match t with
    | TScalar k => wt_scalar k v
    | TMsg m => match v with VNil => true | _ => rec m v end      (* nil pointers are values *)
    end.

  Definition wt_slot (rec : nat -> val -> bool) (f : field) (s : val) : bool :=
    match f_shape f with
    | Singular => wt_elem rec (f_ty f) s
    | Rep _ => match s with
               | VNil => true
               | VList l => forallb (wt_elem rec (f_ty f)) l
               | _ => false
               end
    | Member _ => match s with
                  | VNil => true
                  | VSome p => wt_elem rec (f_ty f) p
                  | _ => false
                  end
    | MapOf kk => match s with
                  | VNil => true
                  | VMap kvs => forallb (fun kv => wt_scalar kk (fst kv) && wt_elem rec (f_ty f) (snd kv)) kvs
                                && nodup_keys (map fst kvs)
                  | _ => false
                  end
    end.

  (* at most one member of each oneof is set (the Go interface field holds one wrapper) *)
  Fixpoint oneof_count (fs : list field) (ss : list val) (oi : nat) : nat :=
    match fs, ss with
    | f :: fs', s :: ss' =>
      ((match f_shape f, s with Member j, VSome _ => if Nat.eqb j oi then 1 else 0 | _, _ => 0 end)
       + oneof_count fs' ss' oi)%nat
    | _, _ => 0%nat
    end.

  Fixpoint wt_msg (mid : nat) (v : val) {struct v} : bool :=
    match v with
    | VMsg slots unk =>
      match get_msg sch mid with
      | None => false
      | Some md =>
        (fix go (fs : list field) (ss : list val) {struct ss} : bool :=
           match ss, fs with
           | s :: ss', f :: fs' => wt_slot wt_msg f s && go fs' ss'
           | [], [] => true
           | _, _ => false
           end) (m_fields md) slots
        && forallb (fun oi => (oneof_count (m_fields md) slots oi <=? 1)%nat) (seq 0 (m_oneofs md))
      end
    | _ => false
    end.
End WT.
