(* Model/Schema.v — descriptors and message values (DESIGN A.1). Definitions only. *)
From CP Require Export Bytes.
Local Open Scope N_scope.

Inductive kind :=
| KDouble | KFloat | KInt32 | KInt64 | KUint32 | KUint64 | KSint32 | KSint64
| KFixed32 | KFixed64 | KSfixed32 | KSfixed64 | KBool | KString | KBytes | KEnum.

Inductive ftype := TScalar (k : kind) | TMsg (m : nat).          (* index into the schema *)
Inductive shape := Singular | Rep (packed : bool) | Member (oneof : nat) | MapOf (key : kind).
Record field := { f_num : N; f_ty : ftype; f_shape : shape }.     (* f_ty of a map = value type *)
Inductive impl := Pulsar | ProtobufGo.                             (* who encodes/decodes this type *)
Record msgdesc := { m_fields : list field; m_oneofs : nat; m_impl : impl }.
Definition schema := list msgdesc.

Definition kind_eqb (a b : kind) : bool :=
  match a, b with
  | KDouble, KDouble | KFloat, KFloat | KInt32, KInt32 | KInt64, KInt64 | KUint32, KUint32
  | KUint64, KUint64 | KSint32, KSint32 | KSint64, KSint64 | KFixed32, KFixed32 | KFixed64, KFixed64
  | KSfixed32, KSfixed32 | KSfixed64, KSfixed64 | KBool, KBool | KString, KString | KBytes, KBytes
  | KEnum, KEnum => true
  | _, _ => false
  end.

(* wire types *)
Definition WT_VARINT : N := 0.
Definition WT_FIXED64 : N := 1.
Definition WT_BYTES : N := 2.
Definition WT_FIXED32 : N := 5.

Definition kind_wt (k : kind) : N :=
  match k with
  | KInt32 | KInt64 | KUint32 | KUint64 | KSint32 | KSint64 | KBool | KEnum => WT_VARINT
  | KDouble | KFixed64 | KSfixed64 => WT_FIXED64
  | KFloat | KFixed32 | KSfixed32 => WT_FIXED32
  | KString | KBytes => WT_BYTES
  end.
Definition ftype_wt (t : ftype) : N := match t with TScalar k => kind_wt k | TMsg _ => WT_BYTES end.
Definition packable (k : kind) : bool := match k with KString | KBytes => false | _ => true end.

(* ---- values ---------------------------------------------------------------------------
   One nested inductive; a message is a list of slots aligned with the descriptor's declared
   field list, plus raw unknown bytes. Slot conventions (Go struct state):
     singular scalar   VInt / VBool / VBits / VBytes  (VNil = nil []byte)
     singular message  VNil | VMsg
     repeated          VNil (nil slice) | VList
     map               VNil (nil map)   | VMap, keys without duplicates, order = iteration order
     oneof member      VNil (not the member set) | VSome payload (payload VNil = wrapper holding nil) *)
Inductive val :=
| VInt (z : Z)
| VBool (b : bool)
| VBits (n : N)
| VBytes (l : list byte)
| VNil
| VSome (v : val)
| VMsg (slots : list val) (unk : list byte)
| VList (l : list val)
| VMap (kvs : list (val * val)).

Definition get_msg (sch : schema) (mid : nat) : option msgdesc := nth_error sch mid.
