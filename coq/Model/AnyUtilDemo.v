(* Model/AnyUtilDemo.v — one concrete instance of the parameters of Model/AnyUtil.v, used by the
   non-vacuity examples of Properties/C16.v: the codec is the faithful pulsar codec model
   (Model/Codec.v, Model/Decode.v) on a two-message schema; the registries declare a message, an enum,
   a service and a field.  Definitions only. *)
From CP Require Import Schema Codec Decode.
From CP Require Export AnyUtil.
Local Open Scope N_scope.

Definition demo_sch : schema :=
  [ {| m_fields := [ {| f_num := 1; f_ty := TScalar KInt32; f_shape := Singular |};
                     {| f_num := 2; f_ty := TScalar KString; f_shape := Singular |} ];
       m_oneofs := 0; m_impl := Pulsar |};
    {| m_fields := [ {| f_num := 7; f_ty := TMsg 0; f_shape := Singular |} ];
       m_oneofs := 0; m_impl := Pulsar |} ].

Definition demo_msg : Type := (nat * val)%type.           (* message index in demo_sch, value *)
Definition demo_name (d : nat) : str :=                   (* "p.A", "p.B" *)
  match d with O => [x70; x2e; x41] | _ => [x70; x2e; x42] end.
Definition demo_marshal (det : bool) (m : demo_msg) : outcome (list byte) :=
  pulsar_marshal demo_sch det (fst m) (snd m).
Definition demo_unmarshal (dyn : bool) (d : nat) (b : list byte) : outcome demo_msg :=
  match pulsar_unmarshal demo_sch false d VNil b with
  | Ok v => Ok (d, v) | Err => Err | Panic => Panic | OutOfFuel => OutOfFuel
  end.

(* global type registry: the two messages and the enum p.E; global file registry: those, the
   service p.S and the field p.A.x *)
Definition demo_types : registry nat :=
  [ ([x70; x2e; x41], EMessage 0%nat); ([x70; x2e; x42], EMessage 1%nat); ([x70; x2e; x45], EEnum) ].
Definition demo_files : registry nat :=
  demo_types ++ [ ([x70; x2e; x53], EService); ([x70; x2e; x41; x2e; x78], EOther) ].

Definition demo_pack := pack demo_msg nat bool demo_name fst demo_marshal.
Definition demo_unpack := unpack demo_msg nat demo_name demo_unmarshal demo_types demo_files.
Definition demo_unpack_before_fix := unpack_gen demo_msg nat demo_name demo_unmarshal false demo_types demo_files.
Definition demo_value : demo_msg := (1%nat, VMsg [VMsg [VInt 5; VBytes [x61]] []] []).
