(* Model/AnyUtil.v — model of /repo/anyutil/any.go (New, MarshalFrom, Unpack) together with the
   pieces of protobuf-go it calls: protoregistry.Types.FindMessageByURL, the descriptor look-up of
   protoregistry.Files.FindDescriptorByName seen as a finite map, anypb.Any.UnmarshalTo/MessageIs.

   The codec and the registries are PARAMETERS (Section variables): a message is an abstract value
   with a descriptor, `marshal`/`unmarshal` are arbitrary functions with outcomes; registries are
   association lists from full names to what the name declares.  Strings are Go strings = byte lists.
   Executable definitions only; lemmas live in Proofs/AnyUtilProofs.v. *)
From CP Require Export Bytes.

Definition str := list byte.
Definition slash : byte := x2f.                      (* '/' *)
Definition is_slash (b : byte) : bool := Byte.eqb b slash.

Fixpoint str_eqb (a b : str) : bool :=
  match a, b with
  | [], [] => true
  | x :: a', y :: b' => Byte.eqb x y && str_eqb a' b'
  | _, _ => false
  end.

(* FindMessageByURL:  if i := strings.LastIndexByte(url, '/'); i >= 0 { message = message[i+1:] } *)
Fixpoint after_last_slash (u : str) : str :=
  match u with
  | [] => []
  | c :: r => if existsb is_slash r then after_last_slash r
              else if is_slash c then r else u
  end.

(* strings.TrimPrefix(url, "/") : removes ONE leading slash, nothing else *)
Definition trim_prefix_slash (u : str) : str :=
  match u with
  | c :: r => if is_slash c then r else u
  | [] => []
  end.

Fixpoint strip_prefix (p u : str) : option str :=
  match p, u with
  | [], _ => Some u
  | c :: p', d :: u' => if Byte.eqb c d then strip_prefix p' u' else None
  | _ :: _, [] => None
  end.

(* anypb.Any.MessageIs:  strings.HasSuffix(url, name) && (len(url) == len(name) || url[len(url)-len(name)-1] == '/') *)
Definition message_is (u name : str) : bool :=
  match strip_prefix (rev name) (rev u) with
  | Some [] => true
  | Some (c :: _) => is_slash c
  | None => false
  end.

(* a full name as descriptors carry it: no '/' (identifiers and dots only) *)
Definition valid_name (n : str) : Prop := existsb is_slash n = false.

Record any := { type_url : str; value : list byte }.

Section AnyUtil.
  Variable msg : Type.        (* message values (generated struct or dynamicpb, as the codec decides) *)
  Variable desc : Type.       (* message descriptors / message types *)
  Variable opts : Type.       (* proto.MarshalOptions *)
  Variable dname : desc -> str.                               (* Descriptor().FullName() *)
  Variable descr_of : msg -> desc.                            (* m.ProtoReflect().Descriptor() *)
  Variable marshal : opts -> msg -> outcome (list byte).      (* opts.Marshal(m) *)
  (* proto.Unmarshal(b, typ.New().Interface()): the flag says which implementation `typ` is:
     false = the type held by the type registry, true = dynamicpb.NewMessageType(descriptor) *)
  Variable unmarshal : bool -> desc -> list byte -> outcome msg.
  Variable default_opts : opts.                               (* proto.MarshalOptions{} *)

  (* what a full name declares *)
  Inductive entry :=
  | EMessage (d : desc)
  | EEnum
  | EService
  | EOther.      (* field, oneof, enum value, method, extension *)

  Definition registry := list (str * entry).                  (* Absent = no pair with that name *)

  Fixpoint lookup (r : registry) (n : str) : option entry :=
    match r with
    | [] => None
    | (k, e) :: r' => if str_eqb k n then Some e else lookup r' n
    end.

  Definition full_name (m : msg) : str := dname (descr_of m).

  (* ---- func MarshalFrom(dst * anypb.Any, src proto.Message, opts proto.MarshalOptions) error
     dst = None is a nil pointer, src = None a nil interface.  Result: the error/panic outcome
     and the destination after the call. *)
  Definition marshal_from (dst : option any) (src : option msg) (o : opts) : outcome unit * option any :=
    match src with
    | None => (Err, dst)                                        (* "invalid nil source message" *)
    | Some m =>
      match marshal o m with
      | Ok b =>
        match dst with
        | None => (Panic, None)                                 (* dst.TypeUrl = ... on a nil pointer *)
        | Some _ => (Ok tt, Some {| type_url := slash :: full_name m; value := b |})
        end
      | Err => (Err, dst)
      | Panic => (Panic, dst)
      | OutOfFuel => (OutOfFuel, dst)
      end
    end.

  (* ---- func New(src proto.Message) ( * anypb.Any, error) *)
  Definition empty_any : any := {| type_url := []; value := [] |}.
  Definition new_any (src : option msg) : outcome any :=
    match marshal_from (Some empty_any) src default_opts with
    | (Ok _, Some a) => Ok a
    | (Ok _, None) => Panic
    | (Err, _) => Err
    | (Panic, _) => Panic
    | (OutOfFuel, _) => OutOfFuel
    end.

  (* pack with explicit options into a fresh Any *)
  Definition pack (o : opts) (m : msg) : outcome any :=
    match marshal_from (Some empty_any) (Some m) o with
    | (Ok _, Some a) => Ok a
    | (Ok _, None) => Panic
    | (Err, _) => Err
    | (Panic, _) => Panic
    | (OutOfFuel, _) => OutOfFuel
    end.

  (* a nil resolver argument (None) stands for the global registry *)
  Definition resolve (r : option registry) (g : registry) : registry :=
    match r with None => g | Some r => r end.

  (* the returned message without the note of which implementation it has *)
  Definition out_msg (o : outcome (bool * msg)) : outcome msg :=
    match o with Ok (_, m) => Ok m | Err => Err | Panic => Panic | OutOfFuel => OutOfFuel end.

  (* ---- protoregistry.Types.FindMessageByURL *)
  Inductive find_res := Found (d : desc) | NotFound | WrongType.
  Definition find_message_by_url (tr : registry) (u : str) : find_res :=
    match lookup tr (after_last_slash u) with
    | Some (EMessage d) => Found d
    | Some _ => WrongType                                       (* "found wrong type: got enum, want message" *)
    | None => NotFound
    end.

  (* ---- any.UnmarshalTo(typ.New().Interface()) *)
  Definition unmarshal_to (a : any) (dyn : bool) (d : desc) : outcome (bool * msg) :=
    if message_is (type_url a) (dname d)
    then match unmarshal dyn d (value a) with
         | Ok m => Ok (dyn, m)
         | Err => Err | Panic => Panic | OutOfFuel => OutOfFuel
         end
    else Err.                                                   (* "mismatched message type" *)

  (* ---- func Unpack(any * anypb.Any, fileResolver protodesc.Resolver, typeResolver protoregistry.MessageTypeResolver)
     gt, gf: protoregistry.GlobalTypes / GlobalFiles; fr, tr = None: nil resolver (defaults to the global one).
     The result carries which implementation the message has (false: registry type, true: dynamicpb).
     `checked` = true is the code since /repo commit d0c621d (nil guard, checked type assertion);
     `checked` = false is the code before it, kept only to state what that commit repaired. *)
  Definition unpack_gen (checked : bool) (gt gf : registry) (a : option any) (fr tr : option registry)
    : outcome (bool * msg) :=
    match a with
    | None => if checked then Err                               (* "cannot unpack a nil Any" *)
              else Panic                                        (* any.TypeUrl on a nil pointer *)
    | Some a =>
      let tr := resolve tr gt in
      match find_message_by_url tr (type_url a) with
      | Found d => unmarshal_to a false d
      | WrongType => Err
      | NotFound =>
        let fr := resolve fr gf in
        match lookup fr (trim_prefix_slash (type_url a)) with
        | None => Err                                           (* "protoFiles does not have descriptor" *)
        | Some (EMessage d) => unmarshal_to a true d
        | Some _ => if checked then Err                         (* "does not name a message type" *)
                    else Panic                                  (* msgDesc.(protoreflect.MessageDescriptor) unchecked *)
        end
      end
    end.

  Definition unpack := unpack_gen true.
End AnyUtil.

Arguments EMessage {desc} d.
Arguments EEnum {desc}.
Arguments EService {desc}.
Arguments EOther {desc}.
Arguments Found {desc} d.
Arguments NotFound {desc}.
Arguments WrongType {desc}.
