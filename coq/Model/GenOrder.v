(* Model/GenOrder.v — order-related decisions of the generator:
   generator/features.go:findFeatures (names -> Go map -> sorted by name), generator/generator.go:GenerateFile
   (a file is emitted iff some feature reports "generated"), features/fastreflection/proto_message.go:
   generateReflectionType (message index found by scanning a pointer-keyed map), features/fastreflection/copied/
   file_info.go:NewFileInfo (protoc-gen-go's flattened message order), descriptors.go (md_ lookup chain).
   Executable definitions only; lemmas in Proofs/GenOrderProofs.v. *)
From CP Require Import Bytes GenNames.
Local Open Scope N_scope.

(* ---- feature names ------------------------------------------------------------------------------ *)
Local Open Scope byte_scope.
Definition s_all : name := ["a"; "l"; "l"].
Definition s_fastf : name := ["f"; "a"; "s"; "t"].
Definition s_protoc : name := ["p"; "r"; "o"; "t"; "o"; "c"].
Definition plus : byte := "+".
Local Close Scope byte_scope.

(* Go's string order: lexicographic on bytes *)
Fixpoint name_leb (a b : name) : bool :=
  match a, b with
  | [], _ => true
  | _ :: _, [] => false
  | x :: a', y :: b' => if b2n x <? b2n y then true else if b2n y <? b2n x then false else name_leb a' b'
  end.

Fixpoint insert (x : name) (l : list name) : list name :=
  match l with
  | [] => [x]
  | y :: t => if name_leb x y then x :: l else y :: insert x t
  end.
(* sort.Slice by name of a list without duplicate names (keys of a Go map) *)
Definition sort (l : list name) : list name := fold_right insert [] l.

(* RegisterFeature: name -> (does that feature's GenerateFile report that it generated something?)
   fastReflectionFeature.GenerateFile returns true; protocGenGoFeature.GenerateFile returns pg.once = false *)
Definition registry : list (name * bool) := [(s_fastf, true); (s_protoc, false)].
Definition lookup (n : name) : option bool :=
  match find (fun p => name_eqb (fst p) n) registry with Some p => Some (snd p) | None => None end.

(* required[name] = feat : a Go map used as a set; the list holds the keys in SOME order *)
Definition add_name (n : name) (l : list name) : list name := if existsb (name_eqb n) l then l else n :: l.
Fixpoint required (names acc : list name) : option (list name) :=
  match names with
  | [] => Some acc
  | n :: rest =>
    if name_eqb n s_all then Some (map fst registry)      (* required = defaultFeatures; break *)
    else match lookup n with
         | None => None                                   (* unknown feature: %q *)
         | Some _ => required rest (add_name n acc)
         end
  end.
Definition find_features (names : list name) : option (list name) :=
  match required names [] with Some r => Some (sort r) | None => None end.

(* strings.Split(s, "+") *)
Fixpoint split_plus_aux (s cur : name) : list name :=
  match s with
  | [] => [rev cur]
  | c :: t => if Byte.eqb c plus then rev cur :: split_plus_aux t [] else split_plus_aux t (c :: cur)
  end.
Definition split_plus (s : name) : list name := split_plus_aux s [].

(* GenerateFile: run the features in order; generated = OR of their reports; not generated => gf.Skip() *)
Definition generated (fs : list name) : bool :=
  existsb (fun n => match lookup n with Some g => g | None => false end) fs.
Inductive gen_result := UnknownFeature | Skipped | Generated (order : list name).
Definition gen_outcome (features : name) : gen_result :=
  match find_features (split_plus features) with
  | None => UnknownFeature
  | Some fs => if generated fs then Generated fs else Skipped
  end.

(* ---- message declarations of a file ------------------------------------------------------------- *)
Inductive mtree := MT : name -> list mtree -> mtree.
Definition mt_name (m : mtree) : name := match m with MT n _ => n end.
Definition mt_children (m : mtree) : list mtree := match m with MT _ c => c end.
Definition path := list name.

(* filetype.TypeBuilder's documented "flattened ordering":
     VisitFileDecls:    for m in fd.Messages: yield m;  for m in fd.Messages: yield from VisitMessageDecls(m)
     VisitMessageDecls: for m in md.Messages: yield m;  for m in md.Messages: yield from VisitMessageDecls(m) *)
Fixpoint visit (p : path) (m : mtree) : list path :=
  match m with
  | MT n ch => let q := p ++ [n] in map (fun c => q ++ [mt_name c]) ch ++ flat_map (visit q) ch
  end.
Definition flatten_spec (tops : list mtree) : list path :=
  map (fun m => [mt_name m]) tops ++ flat_map (visit []) tops.

(* NewFileInfo as written: initMessageInfos(f.Messages); walkMessages(f.Messages, func(m){initMessageInfos(m.Messages)})
   with  walkMessages(ms, f) = for m in ms { f(m); walkMessages(m.Messages, f) }   — an accumulator *)
Fixpoint walk (p : path) (m : mtree) (acc : list path) : list path :=
  match m with
  | MT n ch => let q := p ++ [n] in
               fold_left (fun a c => walk q c a) ch (acc ++ map (fun c => q ++ [mt_name c]) ch)
  end.
Definition flatten_gen (tops : list mtree) : list path :=
  fold_left (fun a m => walk [] m a) tops (map (fun m => [mt_name m]) tops).

Fixpoint path_eqb (a b : path) : bool :=
  match a, b with
  | [], [] => true
  | x :: a', y :: b' => name_eqb x y && path_eqb a' b'
  | _, _ => false
  end.

(* AllMessagesByPtr: (message info, index) pairs in a Go map, iterated in SOME order *)
Fixpoint indexed_from (i : N) (l : list path) : list (path * N) :=
  match l with [] => [] | p :: t => (p, i) :: indexed_from (i + 1) t end.
Definition indexed (l : list path) : list (path * N) := indexed_from 0 l.
(* for mInfo, index := range map { if mInfo...FullName() == target { id = index; found = true } }; !found => panic *)
Definition scan (l : list (path * N)) (target : path) : option N :=
  fold_left (fun acc e => if path_eqb (fst e) target then Some (snd e) else acc) l None.
Definition msg_index (tops : list mtree) (target : path) : option N := scan (indexed (flatten_gen tops)) target.

(* position of the first occurrence: what "the i-th entry of the type table" means *)
Fixpoint index_from (i : N) (l : list path) (t : path) : option N :=
  match l with [] => None | p :: r => if path_eqb p t then Some i else index_from (i + 1) r t end.
Definition index_of (l : list path) (t : path) : option N := index_from 0 l t.

Fixpoint nodup_paths (l : list path) : bool :=
  match l with [] => true | x :: t => negb (existsb (path_eqb x) t) && nodup_paths t end.

(* descGen.generate: md_X = File.Messages().ByName(n1).Messages().ByName(n2)...  over findParents(message) *)
Definition by_name (ms : list mtree) (n : name) : option mtree := find (fun m => name_eqb (mt_name m) n) ms.
Fixpoint lookup_path (ms : list mtree) (p : path) : option mtree :=
  match p with
  | [] => None
  | [n] => by_name ms n
  | n :: rest => match by_name ms n with Some m => lookup_path (mt_children m) rest | None => None end
  end.
