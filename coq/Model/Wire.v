(* Model/Wire.v — the protobuf wire format as syntax: well-formed records (including nested
   groups) and their encoding. Used as the specification side of Skip (C15) and of the
   unknown-field theorems (C14). *)
From CP Require Export Bytes.
Local Open Scope N_scope.

Inductive wrec :=
| WVarint (num v : N)
| WFixed64 (num : N) (p : list byte)
| WBytes (num : N) (p : list byte)
| WGroup (num : N) (body : list wrec) (endnum : N)
| WFixed32 (num : N) (p : list byte).

Definition tag (num wt : N) : list byte := enc_varint (num * 8 + wt).

Fixpoint enc_wrec (r : wrec) : list byte :=
  match r with
  | WVarint num v => tag num 0 ++ enc_varint v
  | WFixed64 num p => tag num 1 ++ p
  | WBytes num p => tag num 2 ++ enc_varint (N.of_nat (length p)) ++ p
  | WGroup num body e => tag num 3 ++ flat_map enc_wrec body ++ tag e 4
  | WFixed32 num p => tag num 5 ++ p
  end.

(* number of outer-loop iterations Skip spends on a record *)
Fixpoint ntok (r : wrec) : nat :=
  match r with
  | WGroup _ body _ => S (S (fold_right (fun x acc => (ntok x + acc)%nat) 0%nat body))
  | _ => 1%nat
  end.

Definition num_ok (num : N) : Prop := num < 2305843009213693952.   (* 2^61: tag fits in 64 bits *)

Fixpoint wf_wrec (r : wrec) : Prop :=
  match r with
  | WVarint num v => num_ok num /\ v < two64
  | WFixed64 num p => num_ok num /\ length p = 8%nat
  | WBytes num p => num_ok num
  | WGroup num body e => num_ok num /\ num_ok e /\ fold_right (fun x acc => wf_wrec x /\ acc) True body
  | WFixed32 num p => num_ok num /\ length p = 4%nat
  end.
