(* Properties/C14.v — unknown fields are kept exactly, or dropped everywhere when asked.
   Statements only; proofs in Proofs/Unknown.v. Skip's exactness on well-formed records of all five
   wire types and nested groups is Properties/C15.v skip_wellformed, used here. *)
From CP Require Import Extra Unknown.
Local Open Scope N_scope.

(* a well-formed record with a legal number that the message does not declare, at the head of ANY
   stream, is appended byte for byte to the unknown set (or dropped under DiscardUnknown) and the
   loop continues with the rest: known and unknown records may interleave in any order *)
Theorem unknown_record_step : forall sch discard child md fuel msg r rest,
  wf_wrec r -> 1 <= rec_num r -> rec_num r < 536870912 -> ~ In (rec_num r) (map f_num (m_fields md)) ->
  (Z.of_nat (length (enc_wrec r ++ rest)) < Z.of_N two63)%Z ->
  msg_loop sch discard child md (S fuel) msg (enc_wrec r ++ rest) =
  msg_loop sch discard child md fuel (if discard then msg else VMsg (slots_of msg) (unk_of msg ++ enc_wrec r)) rest.
Proof. exact Unknown.unknown_step. Qed.

(* a whole sequence of unknown records is kept exactly, in arrival order, after what was there *)
Theorem unknown_records_kept : forall sch child md slots unk rs,
  unknown_records_ok md rs -> (Z.of_nat (length (flat_map enc_wrec rs)) < Z.of_N two63)%Z ->
  msg_loop sch false child md (S (length (flat_map enc_wrec rs))) (VMsg slots unk) (flat_map enc_wrec rs) =
  Ok (VMsg slots (unk ++ flat_map enc_wrec rs)).
Proof. exact Unknown.unknown_records_kept. Qed.

Theorem unknown_records_discarded : forall sch child md msg rs,
  unknown_records_ok md rs -> (Z.of_nat (length (flat_map enc_wrec rs)) < Z.of_N two63)%Z ->
  msg_loop sch true child md (S (length (flat_map enc_wrec rs))) msg (flat_map enc_wrec rs) = Ok msg.
Proof. exact Unknown.unknown_records_discarded. Qed.

(* decoding a known field never touches the unknown set, whatever the bytes *)
Theorem known_fields_keep_unknown : forall sch child md idx f wt msg rest msg' r,
  field_item sch child md idx f wt msg rest = Ok (msg', r) -> unk_of msg' = unk_of msg.
Proof. exact Unknown.field_item_keeps_unknown. Qed.

(* re-encoding emits the unknown bytes unchanged, after all known fields *)
Theorem reencode_unknown_last : forall sch det mid slots unk, (mid < length sch)%nat ->
  emit sch det mid (VMsg slots unk) = emit sch det mid (VMsg slots []) ++ unk.
Proof. exact Unknown.emit_unknown_last. Qed.

(* DiscardUnknown, for ALL byte strings: the result is exactly the normal result with the unknown
   set emptied at every depth (nested messages, list elements, map values, oneof members), nothing
   else changes, and acceptance/rejection is the same *)
Theorem discard_is_strip : forall sch mid bs,
  pulsar_unmarshal sch true mid VNil bs = out_map strip_unknown (pulsar_unmarshal sch false mid VNil bs).
Proof. exact Unknown.discard_strip. Qed.

(* non-vacuity: a nested group with differing inner number, a 10-byte varint and a bytes record *)
Definition ex_md : msgdesc := {| m_fields := [ {| f_num := 1; f_ty := TScalar KInt32; f_shape := Singular |} ]; m_oneofs := 0; m_impl := Pulsar |}.
Definition ex_rs : list wrec :=
  [ WGroup 1000 [WVarint 7 18446744073709551615; WGroup 1001 [WBytes 2 [x61]] 1001] 1000; WFixed32 15 [x01; x02; x03; x04] ].
Example unknown_example :
  unknown_records_ok ex_md ex_rs /\
  pulsar_unmarshal [ex_md] false 0 VNil (x08 :: x05 :: flat_map enc_wrec ex_rs) = Ok (VMsg [VInt 5] (flat_map enc_wrec ex_rs)) /\
  pulsar_unmarshal [ex_md] true 0 VNil (x08 :: x05 :: flat_map enc_wrec ex_rs) = Ok (VMsg [VInt 5] []).
Proof.
  split; [|split; vm_compute; reflexivity].
  unfold unknown_records_ok, ex_rs. repeat constructor; cbn; unfold num_ok, two64; try reflexivity; try (intros [H|[]]; discriminate); try (intro H; discriminate H).
Qed.
