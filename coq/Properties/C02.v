(* Properties/C02.v — deterministic encoding is byte-identical to the reference encoder.
   Statements only; proofs in Proofs/KeyBytes.v, Proofs/CodecRef.v and Proofs/MarshalProgProofs.v.
   Codec.emit _ true is the faithful model of the marshal template under Deterministic;
   RefSpec.ref_marshal is written independently: a list of wire records (Wire.wrec) in
   order.LegacyFieldOrder, each with the tag varint of (number, wire type), map entries sorted by
   key with key and value always present, packed runs, proto3 defaults omitted, unknown last.
   The runner checks generated code = dynamicpb deterministic bytes on every case, and the driver
   checks emit = ref_marshal on every well-typed case, so ref_marshal is tied to protobuf-go. *)
From CP Require Import Extra KeyBytes CodecRef MarshalProg.
From CP Require MarshalProgProofs.
Local Open Scope N_scope.

(* the key bytes the generator prints at GENERATION time (encodeKey: uint32(num)<<3|wt, 7 bits at a
   time) are the protobuf tag varint, for every legal field number: all 1..5-byte tags at once *)
Theorem key_bytes_are_tag : forall num wt, 1 <= num -> num < 536870912 -> wt < 8 ->
  key_bytes num wt = tag num wt.
Proof. exact KeyBytes.key_bytes_tag. Qed.

(* ... and helpers.KeySize is the varint size of that tag *)
Theorem key_size_is_sov : forall num wt, 1 <= num -> num < 536870912 -> wt < 8 ->
  key_size num wt = Sov (num * 8 + wt).
Proof. exact KeyBytes.key_size_sov. Qed.

(* the deterministic encoding of every well-typed message of every well-formed schema IS the
   reference encoding: same records, same order, same varints, same map order, at every depth *)
Theorem det_eq_ref : forall sch, wf sch = true -> forall v mid, wt_msg sch mid v = true ->
  emit sch true mid v = ref_marshal sch mid v.
Proof. exact CodecRef.det_eq_ref. Qed.

Example key_example : key_bytes 536870911 2 = tag 536870911 2 /\ length (key_bytes 536870911 2) = 5%nat /\
                      key_bytes 16 0 = [x80; x01] /\ key_size 2047 5 = 2.
Proof. vm_compute. repeat split; reflexivity. Qed.

(* Translator tie (Model/MarshalProg.v): the program the marshal template emits for a message type, [canon_marshal]
   (the Go runner translates the body of every generated marshal closure into this syntax and the driver compares it
   with canon_marshal syntactically), run by the MarshalProg interpreter (buffer filled from the back, every
   reservation filled exactly) on any well-typed value of any well-formed schema, in either mode, writes exactly
   Codec.emit. So the model emit is the meaning of the generated statements themselves. *)
Theorem marshal_prog_correct : MarshalProg.marshal_prog_correct_stmt.
Proof. exact MarshalProgProofs.marshal_prog_correct. Qed.

(* non-vacuity: a map of two entries with message values (one nil) whose list order is not the key order, a oneof
   holding a wrapper with a nil message (its int32 member not set), a packed varint list (with a negative int32), a
   packed fixed32 list, unpacked strings (one empty), a sint32, a double, unknown bytes; both modes (the two
   encodings differ in the order of the map entries) *)
Definition mp_schema : schema :=
  [ {| m_fields := [ {| f_num := 1; f_ty := TScalar KSint32; f_shape := Singular |};
                     {| f_num := 2048; f_ty := TMsg 1; f_shape := MapOf KString |};
                     {| f_num := 3; f_ty := TScalar KInt32; f_shape := Rep true |};
                     {| f_num := 4; f_ty := TScalar KFixed32; f_shape := Rep true |};
                     {| f_num := 5; f_ty := TScalar KString; f_shape := Rep false |};
                     {| f_num := 6; f_ty := TScalar KInt32; f_shape := Member 0 |};
                     {| f_num := 536870911; f_ty := TMsg 1; f_shape := Member 0 |};
                     {| f_num := 8; f_ty := TScalar KDouble; f_shape := Singular |} ];
       m_oneofs := 1; m_impl := Pulsar |};
    {| m_fields := [ {| f_num := 1; f_ty := TScalar KString; f_shape := Singular |} ]; m_oneofs := 0; m_impl := Pulsar |} ].
Definition mp_value : val :=
  VMsg [ VInt (-3); VMap [ (VBytes [x6b], VNil); (VBytes [x61], VMsg [VBytes [x68; x69]] [x08; x01]) ];
         VList [VInt 1; VInt (-1); VInt 300]; VList [VInt 7; VInt 4294967295];
         VList [VBytes [x61; x62]; VBytes []]; VNil; VSome VNil; VBits 4611686018427387904 ] [xf8; x01; x07].
Example marshal_prog_example :
  wf mp_schema = true /\ wt_msg mp_schema 0 mp_value = true /\
  run_marshal mp_schema true 0 (canon_marshal mp_schema 0) mp_value = Some (emit mp_schema true 0 mp_value) /\
  run_marshal mp_schema false 0 (canon_marshal mp_schema 0) mp_value = Some (emit mp_schema false 0 mp_value) /\
  length (emit mp_schema true 0 mp_value) = 75%nat /\ length (emit mp_schema false 0 mp_value) = 75%nat /\
  mp_bytes_eqb (emit mp_schema true 0 mp_value) (emit mp_schema false 0 mp_value) = false.
Proof. vm_compute. repeat split; reflexivity. Qed.
