(* Properties/C02.v — deterministic encoding is byte-identical to the reference encoder.
   Statements only; proofs in Proofs/KeyBytes.v, Proofs/CodecRef.v and Proofs/MarshalProgProofs.v.
   Codec.emit _ true is the faithful model of the marshal template under Deterministic;
   RefSpec.ref_marshal is written independently: a list of wire records (Wire.wrec) in
   order.LegacyFieldOrder, each with the tag varint of (number, wire type), map entries sorted by
   key with key and value always present, packed runs, proto3 defaults omitted, unknown last.
   The runner checks generated code = dynamicpb deterministic bytes on every case, and the driver
   checks emit = ref_marshal on every well-typed case, so ref_marshal is tied to protobuf-go. *)
From CP Require Import Extra KeyBytes CodecRef MarshalProg.
From CP Require MarshalProgProofs.
Local Open Scope N_scope.

(* the key bytes the generator prints at GENERATION time (encodeKey: uint32(num)<<3|wt, 7 bits at a
   time) are the protobuf tag varint, for every legal field number: all 1..5-byte tags at once *)
Theorem key_bytes_are_tag : forall num wt, 1 <= num -> num < 536870912 -> wt < 8 ->
  key_bytes num wt = tag num wt.
Proof. exact KeyBytes.key_bytes_tag. Qed.

(* ... and helpers.KeySize is the varint size of that tag *)
Theorem key_size_is_sov : forall num wt, 1 <= num -> num < 536870912 -> wt < 8 ->
  key_size num wt = Sov (num * 8 + wt).
Proof. exact KeyBytes.key_size_sov. Qed.

(* the deterministic encoding of every well-typed message of every well-formed schema IS the
   reference encoding: same records, same order, same varints, same map order, at every depth *)
Theorem det_eq_ref : forall sch, wf sch = true -> forall v mid, wt_msg sch mid v = true ->
  emit sch true mid v = ref_marshal sch mid v.
Proof. exact CodecRef.det_eq_ref. Qed.

Example key_example : key_bytes 536870911 2 = tag 536870911 2 /\ length (key_bytes 536870911 2) = 5%nat /\
                      key_bytes 16 0 = [x80; x01] /\ key_size 2047 5 = 2.
Proof. vm_compute. repeat split; reflexivity. Qed.

(* Translator tie (Model/MarshalProg.v): the program the marshal template emits for a message type, [canon_marshal]
   (the Go runner translates the body of every generated marshal closure into this syntax and the driver compares it
   with canon_marshal syntactically), run by the MarshalProg interpreter (buffer filled from the back, every
   reservation filled exactly) on any well-typed value of any well-formed schema, in either mode, writes exactly
   Codec.emit. So the model emit is the meaning of the generated statements themselves. *)
Theorem marshal_prog_correct : MarshalProg.marshal_prog_correct_stmt.
Proof. exact MarshalProgProofs.marshal_prog_correct. Qed.

(* non-vacuity: a map of two entries with message values (one nil) whose list order is not the key order, a oneof
   holding a wrapper with a nil message (its int32 member not set), a packed varint list (with a negative int32), a
   packed fixed32 list, unpacked strings (one empty), a sint32, a double, unknown bytes; both modes (the two
   encodings differ in the order of the map entries) *)
Definition mp_schema : schema :=
  [ {| m_fields := [ {| f_num := 1; f_ty := TScalar KSint32; f_shape := Singular |};
                     {| f_num := 2048; f_ty := TMsg 1; f_shape := MapOf KString |};
                     {| f_num := 3; f_ty := TScalar KInt32; f_shape := Rep true |};
                     {| f_num := 4; f_ty := TScalar KFixed32; f_shape := Rep true |};
                     {| f_num := 5; f_ty := TScalar KString; f_shape := Rep false |};
                     {| f_num := 6; f_ty := TScalar KInt32; f_shape := Member 0 |};
                     {| f_num := 536870911; f_ty := TMsg 1; f_shape := Member 0 |};
                     {| f_num := 8; f_ty := TScalar KDouble; f_shape := Singular |} ];
       m_oneofs := 1; m_impl := Pulsar |};
    {| m_fields := [ {| f_num := 1; f_ty := TScalar KString; f_shape := Singular |} ]; m_oneofs := 0; m_impl := Pulsar |} ].
Definition mp_value : val :=
  VMsg [ VInt (-3); VMap [ (VBytes [x6b], VNil); (VBytes [x61], VMsg [VBytes [x68; x69]] [x08; x01]) ];
         VList [VInt 1; VInt (-1); VInt 300]; VList [VInt 7; VInt 4294967295];
         VList [VBytes [x61; x62]; VBytes []]; VNil; VSome VNil; VBits 4611686018427387904 ] [xf8; x01; x07].
Example marshal_prog_example :
  wf mp_schema = true /\ wt_msg mp_schema 0 mp_value = true /\
  run_marshal mp_schema true 0 (canon_marshal mp_schema 0) mp_value = Some (emit mp_schema true 0 mp_value) /\
  run_marshal mp_schema false 0 (canon_marshal mp_schema 0) mp_value = Some (emit mp_schema false 0 mp_value) /\
  length (emit mp_schema true 0 mp_value) = 75%nat /\ length (emit mp_schema false 0 mp_value) = 75%nat /\
  mp_bytes_eqb (emit mp_schema true 0 mp_value) (emit mp_schema false 0 mp_value) = false.
Proof. vm_compute. repeat split; reflexivity. Qed.

(* Translator tie for the generator's arithmetic helpers (task T15; Model/GoFunGen.v, Proofs/GoFunGenProofs.v): /repo/generator/
   helpers.go is re-translated on every run (engine gofun, part "generator") into the language of Model/GoFun.v plus one
   declaration form (a package-level constant map from named constants to named constants), each declaration compared with
   its canonical Coq constant. The canonical KeySize, interpreted with Go's machine arithmetic (GoFun.run_fun after the named
   types of the signature are replaced by their underlying integer types, 5 units of loop fuel or more), IS Codec.key_size —
   the function every canon_* program of the other translator ties uses for the printed tag sizes — for every non-negative
   int32 field number and every non-negative int8 wire type ... *)
From CP Require GoFunGen GoFunGenProofs.
Theorem keysize_prog_correct : GoFunGen.keysize_prog_stmt.
Proof. exact GoFunGenProofs.keysize_prog_correct. Qed.

(* ... hence, on the legal tags, the varint size of the tag (with key_size_is_sov) *)
Theorem keysize_prog_is_sov : forall (n wt : N) (lf dp : nat), 1 <= n -> n < 536870912 -> wt < 8 ->
  GoFunGen.gen_run GoFunGen.canon_generator (5 + lf) (1 + dp) (GoFun.GName [x4b; x65; x79; x53; x69; x7a; x65])   (* "KeySize" *)
    [GoFunGen.fnumv n; GoFunGen.wtypev wt]
  = GoFun.GOk [GoFun.intv (Z.of_N (Sov (n * 8 + wt)))] [GoFunGen.fnumv n; GoFunGen.wtypev wt].
Proof. exact GoFunGenProofs.keysize_prog_sov. Qed.

(* the canonical ProtoWireType (`return wireTypes[k]` on the canonical table), interpreted, is Schema.kind_wt on the sixteen
   kinds of Schema.v, ftype_wt on a message (BytesType), 3 (StartGroupType) on a group; the constants' numbers come from
   GoFunGen.gen_const_table, which the engine checks against the real protoreflect / protowire constants on every run *)
Theorem protowiretype_prog_correct : GoFunGen.protowiretype_prog_stmt.
Proof. exact GoFunGenProofs.protowiretype_prog_correct. Qed.

(* ... and Go's zero value (VarintType), without a panic, on every other int8 *)
Theorem protowiretype_absent_prog_correct : GoFunGen.protowiretype_absent_prog_stmt.
Proof. exact GoFunGenProofs.protowiretype_absent_prog_correct. Qed.

(* non-vacuity: the tag 128 at every shift (field 16 / 2048 / 262144 / 33554432 with wire type 0: the boundary `x > 127` decides),
   the largest legal tag, too little loop fuel, a fixed32 kind, message, group and an absent kind *)
Example gofungen_example :
  let run := GoFunGen.gen_run GoFunGen.canon_generator in
  let ks := GoFun.GName [x4b; x65; x79; x53; x69; x7a; x65] in
  let pw := GoFun.GName [x50; x72; x6f; x74; x6f; x57; x69; x72; x65; x54; x79; x70; x65] in
  run 5%nat 1%nat ks [GoFunGen.fnumv 16; GoFunGen.wtypev 0] = GoFun.GOk [GoFun.intv 2] [GoFunGen.fnumv 16; GoFunGen.wtypev 0] /\
   run 5%nat 1%nat ks [GoFunGen.fnumv 15; GoFunGen.wtypev 7] = GoFun.GOk [GoFun.intv 1] [GoFunGen.fnumv 15; GoFunGen.wtypev 7] /\
   run 5%nat 1%nat ks [GoFunGen.fnumv 33554432; GoFunGen.wtypev 0] = GoFun.GOk [GoFun.intv 5] [GoFunGen.fnumv 33554432; GoFunGen.wtypev 0] /\
   run 5%nat 1%nat ks [GoFunGen.fnumv 536870911; GoFunGen.wtypev 5] = GoFun.GOk [GoFun.intv 5] [GoFunGen.fnumv 536870911; GoFunGen.wtypev 5] /\
   run 4%nat 1%nat ks [GoFunGen.fnumv 536870911; GoFunGen.wtypev 5] = GoFun.GFuel /\
   run 0%nat 1%nat pw [GoFunGen.kindv 7] = GoFun.GOk [GoFunGen.wtypev 5] [GoFunGen.kindv 7] /\
   run 0%nat 1%nat pw [GoFunGen.kindv 11] = GoFun.GOk [GoFunGen.wtypev 2] [GoFunGen.kindv 11] /\
   run 0%nat 1%nat pw [GoFunGen.kindv 10] = GoFun.GOk [GoFunGen.wtypev 3] [GoFunGen.kindv 10] /\
   run 0%nat 1%nat pw [GoFunGen.kindv 19] = GoFun.GOk [GoFunGen.wtypev 0] [GoFunGen.kindv 19] /\
   GoFunGen.kind_number KFixed32 = 7%Z.
Proof. vm_compute. repeat split; reflexivity. Qed.
