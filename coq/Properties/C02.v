(* Properties/C02.v — deterministic encoding is byte-identical to the reference encoder.
   Statements only; proofs in Proofs/KeyBytes.v and Proofs/CodecRef.v.
   Codec.emit _ true is the faithful model of the marshal template under Deterministic;
   RefSpec.ref_marshal is written independently: a list of wire records (Wire.wrec) in
   order.LegacyFieldOrder, each with the tag varint of (number, wire type), map entries sorted by
   key with key and value always present, packed runs, proto3 defaults omitted, unknown last.
   The runner checks generated code = dynamicpb deterministic bytes on every case, and the driver
   checks emit = ref_marshal on every well-typed case, so ref_marshal is tied to protobuf-go. *)
From CP Require Import Extra KeyBytes CodecRef.
Local Open Scope N_scope.

(* the key bytes the generator prints at GENERATION time (encodeKey: uint32(num)<<3|wt, 7 bits at a
   time) are the protobuf tag varint, for every legal field number: all 1..5-byte tags at once *)
Theorem key_bytes_are_tag : forall num wt, 1 <= num -> num < 536870912 -> wt < 8 ->
  key_bytes num wt = tag num wt.
Proof. exact KeyBytes.key_bytes_tag. Qed.

(* ... and helpers.KeySize is the varint size of that tag *)
Theorem key_size_is_sov : forall num wt, 1 <= num -> num < 536870912 -> wt < 8 ->
  key_size num wt = Sov (num * 8 + wt).
Proof. exact KeyBytes.key_size_sov. Qed.

(* the deterministic encoding of every well-typed message of every well-formed schema IS the
   reference encoding: same records, same order, same varints, same map order, at every depth *)
Theorem det_eq_ref : forall sch, wf sch = true -> forall v mid, wt_msg sch mid v = true ->
  emit sch true mid v = ref_marshal sch mid v.
Proof. exact CodecRef.det_eq_ref. Qed.

Example key_example : key_bytes 536870911 2 = tag 536870911 2 /\ length (key_bytes 536870911 2) = 5%nat /\
                      key_bytes 16 0 = [x80; x01] /\ key_size 2047 5 = 2.
Proof. vm_compute. repeat split; reflexivity. Qed.
