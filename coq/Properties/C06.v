(* Properties/C06.v — Unmarshal is total: arbitrary bytes never crash, hang or exhaust the stack.
   Statements only; proofs in Proofs/DecodeTotal.v. All statements are about Decode.pulsar_unmarshal,
   the faithful model of the decode loop (quirks included), for EVERY byte string.
   What a Gallina function cannot exhibit (real stack depth, real allocation) is observed by the
   runner (child-process deep inputs, MemStats); see DESIGN.md §6 C06: the level is partial there. *)
From CP Require Import Extra AllocSize DecodeTotal AllocLinear.
Local Open Scope N_scope.

(* no input makes the decoder panic (index out of range, nil dereference) *)
Theorem decode_never_panics : forall sch discard, wf sch = true -> forall mid init bs, (mid < length sch)%nat ->
  pulsar_unmarshal sch discard mid init bs <> Panic.
Proof. exact DecodeTotal.unmarshal_no_panic. Qed.

(* termination: the fuel S (length bs) always suffices, because every loop iteration consumes at
   least one byte and every nested call gets a strictly shorter payload (Go slices < 2^63 bytes) *)
Theorem decode_terminates : forall sch discard mid init bs, (Z.of_nat (length bs) < Z.of_N two63)%Z ->
  pulsar_unmarshal sch discard mid init bs <> OutOfFuel.
Proof. exact DecodeTotal.unmarshal_fuel_enough. Qed.

(* the recursion budget is carried and enforced at every level *)
Theorem depth_budget_enforced : forall sch discard fuel depth mid t bs, (depth <= 0)%Z ->
  unmarshal_at sch discard (S fuel) depth mid t bs = Err.
Proof. exact DecodeTotal.depth_exhausted. Qed.

(* on a self-recursive message: nesting of 10000 levels or more is rejected with an error (never a
   stack overflow: the model's recursion depth is bounded by the budget), less is accepted — the
   same limit as protobuf-go (checked by the runner at 9999/10000/10001/20000) *)
Theorem deep_nesting_rejected : forall n, 10000 <= N.of_nat n -> N.of_nat n < 1152921504606846976 ->
  pulsar_unmarshal rec_schema false 0 VNil (nest n) = Err.
Proof. exact DecodeTotal.deep_nesting_rejected. Qed.
Theorem shallow_nesting_accepted : forall n, N.of_nat n < 10000 ->
  is_ok (pulsar_unmarshal rec_schema false 0 VNil (nest n)) = true.
Proof. exact DecodeTotal.shallow_nesting_accepted. Qed.

(* whatever is accepted is a well-typed message (slots aligned with the descriptor, every scalar in
   the range of its Go type, no duplicate map keys, at most one member per oneof): the value every
   later operation (Size, Marshal, Equal, Range) is defined on; with C04 marshal_never_panics *)
Theorem accepted_is_well_typed : forall sch discard, wf sch = true -> forall mid init bs m, (mid < length sch)%nat ->
  (init = VNil \/ wt_msg sch mid init = true) ->
  pulsar_unmarshal sch discard mid init bs = Ok m -> wt_msg sch mid m = true.
Proof. exact DecodeTotal.accepted_wt. Qed.

(* allocation is linear in the input: the logical size (AllocSize.vsize: one unit per node, one per byte held) of whatever
   the decoder builds exceeds what it started from by at most (max field count + 1) units per input byte, for ALL byte
   strings, schemas and targets. This statement was FALSE of the code as found: a map-entry key or value could claim the
   bytes that follow its entry, which the enclosing loop then decoded again — quadratic memory with string keys,
   exponential with message M { map<int32,M> m = 1; } (120 bytes -> 1,048,576 messages). The attempt to prove it exposed
   the defect; /repo 8507b6c bounds entry subfields by the entry, Decode.v follows the fixed code, and the old witnesses are
   now rejected (AllocLinear.overrun_quadratic_rejected, overrun_exponential_rejected). Capacity pre-allocation of packed
   runs and transient allocation on rejected inputs are not modelled (the runner measures them). *)
Theorem alloc_linear : forall sch discard mid init bs r, wf sch = true ->
  pulsar_unmarshal sch discard mid init bs = Ok r ->
  (vsize r <= vsize (start_msg sch mid init) + (max_fields sch + 1) * length bs)%nat.
Proof. exact AllocLinear.alloc_linear. Qed.

Theorem alloc_linear_fresh : forall sch discard mid bs r, wf sch = true -> (mid < length sch)%nat ->
  pulsar_unmarshal sch discard mid VNil bs = Ok r ->
  (vsize r <= (max_fields sch + 2) + (max_fields sch + 1) * length bs)%nat.
Proof. exact AllocLinear.alloc_linear_fresh. Qed.

(* the constant is optimal: with one unit less per byte the bound fails *)
Theorem alloc_bound_is_tight : exists sch bs r, wf sch = true /\ pulsar_unmarshal sch false 0 VNil bs = Ok r /\
  (vsize (start_msg sch 0 VNil) + (max_fields sch + 0) * length bs < vsize r)%nat.
Proof. exact AllocLinear.alloc_linear_K0_false. Qed.

Example total_example :
  pulsar_unmarshal rec_schema false 0 VNil [x0a; xff; xff; xff; xff; xff; xff; xff; xff; xff; x01] = Err /\
  pulsar_unmarshal rec_schema false 0 VNil [x0a; x02; x0a; x00; x7a; xf5; xff; xff; xff; xff; xff; xff; xff; xff; x01] = Err /\
  is_ok (pulsar_unmarshal rec_schema false 0 VNil (nest 50)) = true.
Proof. vm_compute. repeat split; reflexivity. Qed.
