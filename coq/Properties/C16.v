(* Properties/C16.v — anyutil packs and unpacks every message faithfully and never panics.
   Every statement holds for EVERY codec (message type, descriptor type, options, marshal, unmarshal
   are universally quantified) and every pair of registries (finite maps from full names to what
   they declare); the codec's own laws enter as explicit premises: `round trip` is the statement
   of C01, `never panics` the statement of C06 (and protobuf-go's decoder for dynamicpb).
   The second half (theorems named pulsar_...) closes the loop: the same model instantiated with the faithful pulsar codec
   model on schemas and values (Proofs/AnyUtilPulsar.v), the codec premises discharged by the proved
   theorems of C01, C03, C04 and C06, so that nothing about the codec is assumed any more. *)
From CP Require Import Bytes Schema AnyUtil AnyUtilProofs AnyUtilDemo.
From CP Require Import Extra UnkOk RefDecode AnyUtilPulsar.

(* the type URL is exactly "/" ++ full name: no host in front *)
Theorem pack_url : forall (msg desc opts : Type) (dname : desc -> str) (descr_of : msg -> desc)
    (marshal : opts -> msg -> outcome (list byte)) (o : opts) (m : msg) (a : any),
  pack msg desc opts dname descr_of marshal o m = Ok a ->
  type_url a = slash :: full_name msg desc dname descr_of m.
Proof. exact Pack_url. Qed.

(* the value is the encoding of m under the given options *)
Theorem pack_value : forall (msg desc opts : Type) (dname : desc -> str) (descr_of : msg -> desc)
    (marshal : opts -> msg -> outcome (list byte)) (o : opts) (m : msg) (a : any),
  pack msg desc opts dname descr_of marshal o m = Ok a -> marshal o m = Ok (value a).
Proof. exact Pack_value. Qed.

(* packing succeeds exactly when the encoder does, and nothing else goes into the Any; MarshalFrom
   into an existing Any overwrites both fields (nothing of the old content shows through); New is
   pack with the default options and refuses a nil source *)
Theorem pack_spec : forall (msg desc opts : Type) (dname : desc -> str) (descr_of : msg -> desc)
    (marshal : opts -> msg -> outcome (list byte)) (o : opts) (m : msg) (a : any),
  pack msg desc opts dname descr_of marshal o m = Ok a <->
  exists b, marshal o m = Ok b /\ a = {| type_url := slash :: full_name msg desc dname descr_of m; value := b |}.
Proof. exact Pack_spec. Qed.

Theorem marshal_from_is_pack : forall (msg desc opts : Type) (dname : desc -> str) (descr_of : msg -> desc)
    (marshal : opts -> msg -> outcome (list byte)) (a0 : any) (o : opts) (m : msg),
  marshal_from msg desc opts dname descr_of marshal (Some a0) (Some m) o =
  match pack msg desc opts dname descr_of marshal o m with
  | Ok a => (Ok tt, Some a) | Err => (Err, Some a0) | Panic => (Panic, Some a0) | OutOfFuel => (OutOfFuel, Some a0)
  end.
Proof. exact Marshal_from_pack. Qed.

Theorem new_is_pack : forall (msg desc opts : Type) (dname : desc -> str) (descr_of : msg -> desc)
    (marshal : opts -> msg -> outcome (list byte)) (default_opts : opts),
  new_any msg desc opts dname descr_of marshal default_opts None = Err /\
  forall m, new_any msg desc opts dname descr_of marshal default_opts (Some m) =
            pack msg desc opts dname descr_of marshal default_opts m.
Proof. exact New_spec. Qed.

(* a pack that does not succeed (nil source, encoder error, encoder panic) leaves the destination as it was *)
Theorem pack_fail_untouched : forall (msg desc opts : Type) (dname : desc -> str) (descr_of : msg -> desc)
    (marshal : opts -> msg -> outcome (list byte)) (dst : option any) (src : option msg) (o : opts),
  fst (marshal_from msg desc opts dname descr_of marshal dst src o) <> Ok tt ->
  snd (marshal_from msg desc opts dname descr_of marshal dst src o) = dst.
Proof. exact Pack_fail_untouched. Qed.

(* unpacking what was packed, through the type registry: the registry's own type, equal to m *)
Theorem unpack_pack_types : forall (msg desc opts : Type) (dname : desc -> str) (descr_of : msg -> desc)
    (marshal : opts -> msg -> outcome (list byte)) (unmarshal : bool -> desc -> list byte -> outcome msg)
    (eqv : msg -> msg -> Prop),
  (forall (dyn : bool) (o : opts) (m : msg) (b : list byte), marshal o m = Ok b ->
     exists m', unmarshal dyn (descr_of m) b = Ok m' /\ eqv m' m) ->
  forall (gt gf : registry desc) (fr tr : option (registry desc)) (o : opts) (m : msg) (a : any),
  valid_name (full_name msg desc dname descr_of m) ->
  pack msg desc opts dname descr_of marshal o m = Ok a ->
  lookup desc (resolve desc tr gt) (full_name msg desc dname descr_of m) = Some (EMessage (descr_of m)) ->
  exists m', unpack msg desc dname unmarshal gt gf (Some a) fr tr = Ok (false, m') /\ eqv m' m.
Proof. exact Unpack_pack_types. Qed.

(* ... and through the file registry with a dynamic message when the type registry lacks the type *)
Theorem unpack_pack_files : forall (msg desc opts : Type) (dname : desc -> str) (descr_of : msg -> desc)
    (marshal : opts -> msg -> outcome (list byte)) (unmarshal : bool -> desc -> list byte -> outcome msg)
    (eqv : msg -> msg -> Prop),
  (forall (dyn : bool) (o : opts) (m : msg) (b : list byte), marshal o m = Ok b ->
     exists m', unmarshal dyn (descr_of m) b = Ok m' /\ eqv m' m) ->
  forall (gt gf : registry desc) (fr tr : option (registry desc)) (o : opts) (m : msg) (a : any),
  valid_name (full_name msg desc dname descr_of m) ->
  pack msg desc opts dname descr_of marshal o m = Ok a ->
  lookup desc (resolve desc tr gt) (full_name msg desc dname descr_of m) = None ->
  lookup desc (resolve desc fr gf) (full_name msg desc dname descr_of m) = Some (EMessage (descr_of m)) ->
  exists m', unpack msg desc dname unmarshal gt gf (Some a) fr tr = Ok (true, m') /\ eqv m' m.
Proof. exact Unpack_pack_files. Qed.

(* the two routes agree on what was packed ... *)
Theorem paths_agree : forall (msg desc opts : Type) (dname : desc -> str) (descr_of : msg -> desc)
    (marshal : opts -> msg -> outcome (list byte)) (unmarshal : bool -> desc -> list byte -> outcome msg)
    (eqv : msg -> msg -> Prop),
  (forall (dyn : bool) (o : opts) (m : msg) (b : list byte), marshal o m = Ok b ->
     exists m', unmarshal dyn (descr_of m) b = Ok m' /\ eqv m' m) ->
  forall (gt gf : registry desc) (fr tr tr' : option (registry desc)) (o : opts) (m : msg) (a : any),
  valid_name (full_name msg desc dname descr_of m) ->
  pack msg desc opts dname descr_of marshal o m = Ok a ->
  lookup desc (resolve desc tr gt) (full_name msg desc dname descr_of m) = Some (EMessage (descr_of m)) ->
  lookup desc (resolve desc tr' gt) (full_name msg desc dname descr_of m) = None ->
  lookup desc (resolve desc fr gf) (full_name msg desc dname descr_of m) = Some (EMessage (descr_of m)) ->
  exists m1 m2, unpack msg desc dname unmarshal gt gf (Some a) fr tr = Ok (false, m1) /\
                unpack msg desc dname unmarshal gt gf (Some a) fr tr' = Ok (true, m2) /\ eqv m1 m /\ eqv m2 m.
Proof. exact Paths_agree. Qed.

(* ... and on every value whatsoever (corrupt ones included) under the URLs "name" and "/name",
   provided the two decoders for that descriptor agree (statement of C03 for the codec) *)
Theorem paths_agree_any : forall (msg desc : Type) (dname : desc -> str)
    (unmarshal : bool -> desc -> list byte -> outcome msg)
    (gt gf : registry desc) (fr tr tr' : option (registry desc)) (n : str) (d : desc) (v : list byte) (u : str),
  (forall b, unmarshal true d b = unmarshal false d b) ->
  valid_name n -> u = n \/ u = slash :: n ->
  lookup desc (resolve desc tr gt) n = Some (EMessage d) ->
  lookup desc (resolve desc tr' gt) n = None ->
  lookup desc (resolve desc fr gf) n = Some (EMessage d) ->
  let a := {| type_url := u; value := v |} in
  out_msg msg (unpack msg desc dname unmarshal gt gf (Some a) fr tr) =
  out_msg msg (unpack msg desc dname unmarshal gt gf (Some a) fr tr').
Proof. exact Paths_agree_any. Qed.

(* Unpack never panics: for every Any (nil included), every type URL, every value, every resolver
   configuration (nil = global, or any registry), given decoders that do not panic *)
Theorem unpack_total : forall (msg desc : Type) (dname : desc -> str)
    (unmarshal : bool -> desc -> list byte -> outcome msg),
  (forall (dyn : bool) (d : desc) (b : list byte), unmarshal dyn d b <> Panic) ->
  forall (gt gf : registry desc) (a : option any) (fr tr : option (registry desc)),
  unpack msg desc dname unmarshal gt gf a fr tr <> Panic.
Proof. exact Unpack_total. Qed.

(* what is not a message is an error: nil Any; URL naming nothing; URL naming an enum/extension in
   the type registry; URL naming an enum, service, field, ... in the file registry; corrupt value *)
Theorem unpack_errors : forall (msg desc : Type) (dname : desc -> str)
    (unmarshal : bool -> desc -> list byte -> outcome msg)
    (gt gf : registry desc) (fr tr : option (registry desc)),
  unpack msg desc dname unmarshal gt gf None fr tr = Err /\
  (forall a, lookup desc (resolve desc tr gt) (after_last_slash (type_url a)) = None ->
             lookup desc (resolve desc fr gf) (trim_prefix_slash (type_url a)) = None ->
             unpack msg desc dname unmarshal gt gf (Some a) fr tr = Err) /\
  (forall a e, lookup desc (resolve desc tr gt) (after_last_slash (type_url a)) = Some e ->
             (forall d, e <> EMessage d) -> unpack msg desc dname unmarshal gt gf (Some a) fr tr = Err) /\
  (forall a e, lookup desc (resolve desc tr gt) (after_last_slash (type_url a)) = None ->
             lookup desc (resolve desc fr gf) (trim_prefix_slash (type_url a)) = Some e ->
             (forall d, e <> EMessage d) -> unpack msg desc dname unmarshal gt gf (Some a) fr tr = Err) /\
  (forall a dyn d, unmarshal dyn d (value a) = Err -> unmarshal_to msg desc dname unmarshal a dyn d = Err).
Proof. exact Unpack_errors. Qed.

(* what /repo commit d0c621d repaired: before it, Unpack panicked on exactly the nil Any and the
   URLs that the type registry does not know and the file registry resolves to a non-message *)
Theorem before_fix_panics : forall (msg desc : Type) (dname : desc -> str)
    (unmarshal : bool -> desc -> list byte -> outcome msg),
  (forall (dyn : bool) (d : desc) (b : list byte), unmarshal dyn d b <> Panic) ->
  forall (gt gf : registry desc) (a : option any) (fr tr : option (registry desc)),
  unpack_gen msg desc dname unmarshal false gt gf a fr tr = Panic <->
  a = None \/
  exists a', a = Some a' /\ lookup desc (resolve desc tr gt) (after_last_slash (type_url a')) = None /\
             exists e, lookup desc (resolve desc fr gf) (trim_prefix_slash (type_url a')) = Some e /\ forall d, e <> EMessage d.
Proof. exact Before_fix_panics. Qed.

(* non-vacuity, on the faithful pulsar codec model over a two-message schema (Model/AnyUtilDemo.v):
   a nested value is packed under "/p.B" and comes back through both routes *)
Example demo_round_trip :
  let a := {| type_url := [x2f; x70; x2e; x42]; value := [x3a; x05; x08; x05; x12; x01; x61] |} in
  demo_pack true demo_value = Ok a /\
  demo_unpack (Some a) None None = Ok (false, demo_value) /\
  demo_unpack (Some a) None (Some []) = Ok (true, demo_value) /\
  demo_unpack (Some a) (Some []) (Some []) = Err.
Proof. vm_compute. repeat split. Qed.
(* the witnesses of the repaired defect: service and field names with the DEFAULT resolvers, the enum
   name with an empty type registry, the nil Any; a host-prefixed URL resolves through the type
   registry only *)
Example demo_non_messages :
  let any_of u := Some {| type_url := u; value := [] |} in
  demo_unpack (any_of [x2f; x70; x2e; x53]) None None = Err /\
  demo_unpack_before_fix (any_of [x2f; x70; x2e; x53]) None None = Panic /\
  demo_unpack (any_of [x2f; x70; x2e; x41; x2e; x78]) None None = Err /\
  demo_unpack_before_fix (any_of [x2f; x70; x2e; x41; x2e; x78]) None None = Panic /\
  demo_unpack (any_of [x2f; x70; x2e; x45]) None None = Err /\
  demo_unpack_before_fix (any_of [x2f; x70; x2e; x45]) None None = Err /\
  demo_unpack (any_of [x2f; x70; x2e; x45]) None (Some []) = Err /\
  demo_unpack_before_fix (any_of [x2f; x70; x2e; x45]) None (Some []) = Panic /\
  demo_unpack None None None = Err /\ demo_unpack_before_fix None None None = Panic /\
  demo_unpack (any_of [x68; x2f; x70; x2e; x41]) None None = Ok (false, (0%nat, VMsg [VInt 0; VBytes []] [])) /\
  demo_unpack (any_of [x68; x2f; x70; x2e; x41]) None (Some []) = Err.
Proof. vm_compute. repeat split. Qed.

(* ================= end to end on the pulsar codec model (Proofs/AnyUtilPulsar.v) =================
   A message is (index mid in the schema, value v); its descriptor is mid, its full name [names mid];
   options are the Deterministic flag.  p_pack / p_marshal_from / p_unpack are pack / marshal_from / unpack of
   Model/AnyUtil.v with marshal := Codec.pulsar_marshal and, for the registry's generated type,
   unmarshal := Decode.pulsar_unmarshal (fresh target, DiscardUnknown off); the decoder behind a dynamicpb message
   (files route) is the last parameter: dyn_pulsar sch = the pulsar loop, dyn_ref sch = RefDecode.ref_unmarshal
   (the reference decoder of C03, protobuf-go's generic path).
   Bounds needed, all inherited from the codec theorems and stated in each theorem:
     wf sch                                           (C01, C04, C06: the schema is well-formed)
     length (emit sch det mid v) < 2^64                (C04: the encoding fits in memory) for packing,
                                 < 2^63                (C01: Go slice lengths are signed) for the round trip
     wt_msg sch mid v, unknowns_okb sch mid v          (C01: the value is well-typed, its unknown bytes parse)
     val_depth v < 9999                                (C01: below the decoder's recursion limit of 10000)
     valid_name (names mid)                            (no '/' in a full name)
     registries name message types of the schema      (C06: the decoder is total on indexes < length sch)
     length (value a) < 2^63                           (C06: termination of the model's fuel) *)

(* packing succeeds on EVERY value, well-typed or not, and yields exactly "/" ++ name and the encoding *)
Theorem pulsar_pack : forall (sch : schema) (names : nat -> str), wf sch = true ->
  forall (det : bool) (mid : nat) (v : val),
  (N.of_nat (length (emit sch det mid v)) < two64)%N ->
  p_pack sch names det (mid, v) = Ok {| type_url := slash :: names mid; value := emit sch det mid v |}.
Proof. exact P_pack. Qed.

(* hence MarshalFrom into an existing Any never fails on a generated message: only a nil source does *)
Theorem pulsar_marshal_from_succeeds : forall (sch : schema) (names : nat -> str), wf sch = true ->
  forall (a0 : any) (det : bool) (mid : nat) (v : val),
  (N.of_nat (length (emit sch det mid v)) < two64)%N ->
  p_marshal_from sch names (Some a0) (Some (mid, v)) det =
  (Ok tt, Some {| type_url := slash :: names mid; value := emit sch det mid v |}).
Proof. exact P_marshal_from_ok. Qed.

(* unpack (pack v) through the type registry = the generated type holding norm v (non-deterministic marshal),
   or a value equal to norm v up to map order (deterministic marshal); whatever decoder dynamicpb has *)
Theorem pulsar_unpack_pack_types : forall (sch : schema) (names : nat -> str), wf sch = true ->
  forall (dynu : nat -> list byte -> outcome val) (gt gf : registry nat) (fr tr : option (registry nat))
         (det : bool) (mid : nat) (v : val) (a : any),
  wt_msg sch mid v = true -> unknowns_okb sch mid v = true ->
  (N.of_nat (val_depth v) < 9999)%N -> (N.of_nat (length (emit sch det mid v)) < two63)%N ->
  valid_name (names mid) ->
  p_pack sch names det (mid, v) = Ok a ->
  lookup nat (resolve nat tr gt) (names mid) = Some (EMessage mid) ->
  exists r, p_unpack sch names dynu gt gf (Some a) fr tr = Ok (false, (mid, r)) /\
            (if det then canon r = canon (norm sch mid v) else r = norm sch mid v).
Proof. exact Pulsar_unpack_pack_types. Qed.

(* ... through the file registry when the type registry lacks the type, the dynamic message decoded by the pulsar loop *)
Theorem pulsar_unpack_pack_files : forall (sch : schema) (names : nat -> str), wf sch = true ->
  forall (gt gf : registry nat) (fr tr : option (registry nat)) (det : bool) (mid : nat) (v : val) (a : any),
  wt_msg sch mid v = true -> unknowns_okb sch mid v = true ->
  (N.of_nat (val_depth v) < 9999)%N -> (N.of_nat (length (emit sch det mid v)) < two63)%N ->
  valid_name (names mid) ->
  p_pack sch names det (mid, v) = Ok a ->
  lookup nat (resolve nat tr gt) (names mid) = None ->
  lookup nat (resolve nat fr gf) (names mid) = Some (EMessage mid) ->
  exists r, p_unpack sch names (dyn_pulsar sch) gt gf (Some a) fr tr = Ok (true, (mid, r)) /\
            (if det then canon r = canon (norm sch mid v) else r = norm sch mid v).
Proof. exact Pulsar_unpack_pack_files. Qed.

(* ... and decoded by the REFERENCE decoder: whenever it accepts the packed bytes as a well-typed stream
   (strict mode), the dynamic message holds that same value (C03 decode_eq_ref + C01) *)
Theorem pulsar_unpack_pack_files_ref : forall (sch : schema) (names : nat -> str), wf sch = true ->
  forall (gt gf : registry nat) (fr tr : option (registry nat)) (det : bool) (mid : nat) (v : val) (a : any) (r0 : val),
  wt_msg sch mid v = true -> unknowns_okb sch mid v = true ->
  (N.of_nat (val_depth v) < 9999)%N -> (N.of_nat (length (emit sch det mid v)) < two63)%N ->
  valid_name (names mid) ->
  p_pack sch names det (mid, v) = Ok a ->
  lookup nat (resolve nat tr gt) (names mid) = None ->
  lookup nat (resolve nat fr gf) (names mid) = Some (EMessage mid) ->
  ref_unmarshal sch false true mid VNil (emit sch det mid v) = Ok r0 ->
  p_unpack sch names (dyn_ref sch) gt gf (Some a) fr tr = Ok (true, (mid, r0)) /\
  (if det then canon r0 = canon (norm sch mid v) else r0 = norm sch mid v).
Proof. exact Pulsar_unpack_pack_files_ref. Qed.

(* the two routes return the SAME value on what was packed *)
Theorem pulsar_paths_agree : forall (sch : schema) (names : nat -> str), wf sch = true ->
  forall (gt gf : registry nat) (fr tr tr' : option (registry nat)) (det : bool) (mid : nat) (v : val) (a : any),
  wt_msg sch mid v = true -> unknowns_okb sch mid v = true ->
  (N.of_nat (val_depth v) < 9999)%N -> (N.of_nat (length (emit sch det mid v)) < two63)%N ->
  valid_name (names mid) ->
  p_pack sch names det (mid, v) = Ok a ->
  lookup nat (resolve nat tr gt) (names mid) = Some (EMessage mid) ->
  lookup nat (resolve nat tr' gt) (names mid) = None ->
  lookup nat (resolve nat fr gf) (names mid) = Some (EMessage mid) ->
  exists r, p_unpack sch names (dyn_pulsar sch) gt gf (Some a) fr tr = Ok (false, (mid, r)) /\
            p_unpack sch names (dyn_pulsar sch) gt gf (Some a) fr tr' = Ok (true, (mid, r)) /\
            (if det then canon r = canon (norm sch mid v) else r = norm sch mid v).
Proof. exact Pulsar_paths_agree. Qed.

(* ... and on ANY value bytes (packed by anyone) that are a well-typed stream for the named message: the generated
   type decoded by the pulsar loop and the dynamic message decoded by the reference decoder hold the same value (C03) *)
Theorem pulsar_paths_agree_any : forall (sch : schema) (names : nat -> str), wf sch = true ->
  forall (gt gf : registry nat) (fr tr tr' : option (registry nat)) (mid : nat) (u : str) (b : list byte) (r : val),
  valid_name (names mid) -> u = names mid \/ u = slash :: names mid ->
  (Z.of_nat (length b) < Z.of_N two63)%Z ->
  ref_unmarshal sch false true mid VNil b = Ok r ->
  lookup nat (resolve nat tr gt) (names mid) = Some (EMessage mid) ->
  lookup nat (resolve nat tr' gt) (names mid) = None ->
  lookup nat (resolve nat fr gf) (names mid) = Some (EMessage mid) ->
  p_unpack sch names (dyn_ref sch) gt gf (Some {| type_url := u; value := b |}) fr tr = Ok (false, (mid, r)) /\
  p_unpack sch names (dyn_ref sch) gt gf (Some {| type_url := u; value := b |}) fr tr' = Ok (true, (mid, r)).
Proof. exact P_paths_agree_any. Qed.

(* Unpack never panics: every Any (nil included), every URL, every value bytes, every resolver configuration whose
   registries name message types of the schema; the dynamic decoder is any function that does not panic on those *)
Theorem pulsar_unpack_total : forall (sch : schema) (names : nat -> str), wf sch = true ->
  forall (dynu : nat -> list byte -> outcome val) (gt gf : registry nat) (a : option any) (fr tr : option (registry nat)),
  (forall n d, lookup nat (resolve nat tr gt) n = Some (EMessage d) -> (d < length sch)%nat) ->
  (forall n d, lookup nat (resolve nat fr gf) n = Some (EMessage d) -> (d < length sch)%nat) ->
  (forall d b, (d < length sch)%nat -> dynu d b <> Panic) ->
  p_unpack sch names dynu gt gf a fr tr <> Panic.
Proof. exact P_unpack_total. Qed.

(* closed form (pulsar loop on both routes), with termination: a message or an error, nothing else *)
Theorem pulsar_unpack_returns : forall (sch : schema) (names : nat -> str), wf sch = true ->
  forall (gt gf : registry nat) (a : option any) (fr tr : option (registry nat)),
  (forall n d, lookup nat (resolve nat tr gt) n = Some (EMessage d) -> (d < length sch)%nat) ->
  (forall n d, lookup nat (resolve nat fr gf) n = Some (EMessage d) -> (d < length sch)%nat) ->
  (forall a', a = Some a' -> (Z.of_nat (length (value a')) < Z.of_N two63)%Z) ->
  (exists im, p_unpack sch names (dyn_pulsar sch) gt gf a fr tr = Ok im) \/
  p_unpack sch names (dyn_pulsar sch) gt gf a fr tr = Err.
Proof. exact P_unpack_returns. Qed.

(* non-vacuity of the end-to-end statements: the premises hold of the demo schema and value, and the instance computes *)
Example pulsar_instance_example :
  let a := {| type_url := [x2f; x70; x2e; x42]; value := [x3a; x05; x08; x05; x12; x01; x61] |} in
  wf demo_sch = true /\ wt_msg demo_sch 1 (snd demo_value) = true /\ unknowns_okb demo_sch 1 (snd demo_value) = true /\
  (N.of_nat (val_depth (snd demo_value)) < 9999)%N /\ (N.of_nat (length (emit demo_sch true 1 (snd demo_value))) < two63)%N /\
  p_pack demo_sch demo_name true demo_value = Ok a /\
  p_unpack demo_sch demo_name (dyn_ref demo_sch) demo_types demo_files (Some a) None None = Ok (false, (1%nat, norm demo_sch 1 (snd demo_value))) /\
  p_unpack demo_sch demo_name (dyn_ref demo_sch) demo_types demo_files (Some a) None (Some []) = Ok (true, (1%nat, norm demo_sch 1 (snd demo_value))) /\
  p_unpack demo_sch demo_name (dyn_pulsar demo_sch) demo_types demo_files (Some {| type_url := [x2f; x70; x2e; x42]; value := [xff] |}) None None = Err.
Proof. vm_compute. repeat split. Qed.

(* ---- Translator tie (Model/AnyProg.v, task T13) ------------------------------------------------------------------------
   /repo/anyutil/any.go is re-translated on every run of this check (engine "anyprog": go/parser, purely syntactic) into the
   statement language of Model/AnyProg.v and compared with the canonical programs [canon_New], [canon_MarshalFrom],
   [canon_Unpack] (the current source transcribed once). The theorems below say that the canonical programs ARE the
   hand-written model the theorems above are about: for every codec (marshal / unmarshal are parameters), every pair of
   global registries, every destination Any / source / options / Any / resolver setting (nil included) and every call-depth
   budget that lets New reach MarshalFrom, interpreting the canonical program gives AnyUtil.v's function — the same
   outcome (Ok / Err / Panic / OutOfFuel), the same returned value, the same Any after the call; the interpreter is never stuck. *)
From CP Require Import GoFun AnyProg AnyProgProofs.

Theorem marshal_from_prog_correct : AnyProg.marshal_from_prog_stmt.
Proof. exact AnyProgProofs.marshal_from_prog_correct. Qed.

Theorem new_prog_correct : AnyProg.new_prog_stmt.
Proof. exact AnyProgProofs.new_prog_correct. Qed.

(* outcome, returned message with the implementation it has, and the argument Any afterwards (never modified) *)
Theorem unpack_prog_correct : AnyProg.unpack_prog_stmt.
Proof. exact AnyProgProofs.unpack_prog_correct. Qed.

(* Unpack as written before /repo commit d0c621d is what [unpack_gen false] (theorem before_fix_panics) models *)
Theorem unpack_before_fix_prog_correct : AnyProg.unpack_before_fix_prog_stmt.
Proof. exact AnyProgProofs.unpack_before_fix_prog_correct. Qed.

(* a run of the translated MarshalFrom that does not return nil leaves the destination Any as it was *)
Theorem marshal_from_prog_fail_untouched : forall (msg desc opts : Type) (dname : desc -> str) (descr_of : msg -> desc)
    (marshal : opts -> msg -> outcome (list byte)) (unmarshal : bool -> desc -> list byte -> outcome msg) (default_opts : opts)
    (gt gf : registry desc) (d : nat) (dst : option any) (src : option msg) (o : opts) (r : outcome unit) (dst' : option any),
  ap_marshal_from msg desc opts dname descr_of marshal unmarshal default_opts gt gf canon_anyprog (S d) dst src o = Some (r, dst') ->
  r <> Ok tt -> dst' = dst.
Proof. exact AnyProgProofs.marshal_from_prog_fail_untouched. Qed.

(* the comparison the driver makes between the translated and the canonical function is sound: accepted = identical *)
Theorem apfun_eqb_sound : AnyProg.apfun_eqb_sound_stmt.
Proof. exact AnyProgProofs.apfun_eqb_sound. Qed.

(* non-vacuity: the canonical programs run on the demo codec — New packs, Unpack returns the registry's type, the dynamic type
   with an empty type registry, an error when no registry knows the name, an error for a service name (the D10 repair) and for
   the nil Any; MarshalFrom into a nil destination panics after a successful marshal and refuses a nil source *)
Example anyprog_example :
  let a := {| type_url := [x2f; x70; x2e; x42]; value := [x3a; x05; x08; x05; x12; x01; x61] |} in
  let run_new := ap_new demo_msg nat bool demo_name fst demo_marshal demo_unmarshal true demo_types demo_files canon_anyprog 2 in
  let run_unpack := ap_unpack demo_msg nat bool demo_name fst demo_marshal demo_unmarshal true demo_types demo_files canon_anyprog 1 in
  let run_from := ap_marshal_from demo_msg nat bool demo_name fst demo_marshal demo_unmarshal true demo_types demo_files canon_anyprog 1 in
  run_new (Some demo_value) = Some (Ok a) /\
  run_new None = Some Err /\
  run_unpack (Some a) None None = Some (Ok (false, demo_value)) /\
  run_unpack (Some a) None (Some []) = Some (Ok (true, demo_value)) /\
  run_unpack (Some a) (Some []) (Some []) = Some Err /\
  run_unpack (Some {| type_url := [x2f; x70; x2e; x53]; value := [] |}) None None = Some Err /\
  run_unpack None None None = Some Err /\
  run_from None (Some demo_value) true = Some (Panic, None) /\
  run_from (Some a) None true = Some (Err, Some a) /\
  apfun_eqb canon_Unpack canon_Unpack = true /\ apfun_eqb canon_Unpack canon_MarshalFrom = false.
Proof. vm_compute. repeat split. Qed.
